#!/bin/bash
# Run the repository's pinned suite (guard off: there are no hooks) one pytest process per tests/ directory, N at a time.
# usage: tools/run_suite.sh [N]   -> prints one summary line per directory and a total; exit 1 if any directory fails
N=${1:-4}
cd /repo
out=$(mktemp -d /tmp/tqv_suite_XXXX)
ls -d toqito/*/tests | xargs -P "$N" -I{} sh -c '/venv/bin/python -m pytest -q -p no:cacheprovider --timeout=900 {} > '"$out"'/$(echo {} | tr / _).log 2>&1; echo "{}: $(tail -1 '"$out"'/$(echo {} | tr / _).log)"'
echo "---"; grep -h -E "passed|failed|error" "$out"/*.log | grep -E "^[0-9=]" | awk '{for(i=1;i<=NF;i++){if($(i+1)~/passed/)p+=$i; if($(i+1)~/failed/)f+=$i; if($(i+1)~/error/)e+=$i}} END{print "TOTAL passed="p" failed="f+0" errors="e+0}'
rm -rf "$out"
