#!/venv/bin/python
"""Confirm and file an independently written seeded change (see the brief: /verif/seeded/<id>/).

  tools/seeded.py add C01 /tmp/seedwork_C01/bug1 [--name C01-s1]   confirm + copy into seeded/<name>/ + run the check
  tools/seeded.py run [name ...] [--tier quick]                     re-run the registered checks against stored changes

Confirmation (all on scratch copies outside /repo and /verif, removed afterwards):
  1. patch applies to the current /repo tree;  2. demo.py exits 0 on the unmodified tree and non-zero with the patch;
  3. the repository's tests of every touched package pass with the patch;  4. the property's quick check is run against
  the patched copy and the outcome (DETECTED by which sub-checks / MISSED) is recorded in meta.json.
"""
import argparse, json, os, shutil, subprocess, sys, tempfile, time
from pathlib import Path

ROOT = Path(__file__).resolve().parent.parent
REPO = "/repo"
PY = "/venv/bin/python"


def scratch(patch=None):
    d = Path(tempfile.mkdtemp(prefix="tqv_seed_", dir=os.environ.get("TQV_SCRATCH", "/tmp")))
    subprocess.run(["rsync", "-a", "--exclude", "__pycache__", f"{REPO}/toqito", str(d) + "/"], check=True)
    if patch:
        r = subprocess.run(["patch", "-p1", "-s", "-d", str(d), "-i", str(Path(patch).resolve())], capture_output=True, text=True)
        if r.returncode:
            shutil.rmtree(d, ignore_errors=True)
            raise SystemExit(f"patch does not apply to the current tree: {r.stdout}{r.stderr}")
    return d


def run_demo(demo, tree):
    env = dict(os.environ, PYTHONPATH=str(tree), OMP_NUM_THREADS="1")
    r = subprocess.run([PY, str(demo)], cwd="/tmp", env=env, capture_output=True, text=True, timeout=1800)
    return r.returncode, (r.stdout + r.stderr)[-1500:]


def touched(patch):
    return [l[6:].strip() for l in open(patch) if l.startswith("+++ b/")]


def run_suite(tree, files):
    out = {}
    for pk in sorted({str(Path(f).parent) for f in files}):
        tdir = Path(tree) / pk / "tests"
        if not tdir.is_dir():
            out[pk] = "no tests dir"
            continue
        r = subprocess.run([PY, "-m", "pytest", "-q", "-x", "-p", "no:cacheprovider", str(tdir)], cwd=tree, env=dict(os.environ, PYTHONPATH=str(tree)), capture_output=True, text=True)
        tail = r.stdout.strip().splitlines()[-1] if r.stdout.strip() else ""
        out[pk] = ("pass: " if r.returncode == 0 else "FAIL: ") + tail
    return out


def run_check(pid, tree, tier, seed="1"):
    env = dict(os.environ, TQV_REPO=str(tree), TQV_OUT=str(Path(tree) / "_out"), VERIF_SEED=seed)
    t = time.time()
    r = subprocess.run([PY, "-m", "tqv.run", pid, "--tier", tier], cwd=ROOT, env=env, capture_output=True, text=True)
    viol = [l for l in r.stdout.splitlines() if l.startswith("VIOLATION")]
    subs = sorted({l.split("replay=")[1].split("/")[-1].rsplit("-", 1)[0] for l in viol})
    sigs = sorted({l.strip()[10:] for l in r.stdout.splitlines() if l.strip().startswith("signature=")})[:6]
    status = "DETECTED" if r.returncode == 1 and viol else ("HARNESS-ERROR" if r.returncode == 2 else "MISSED")
    return {"status": status, "subchecks": subs, "signatures": sigs, "wall_s": round(time.time() - t, 1), "tier": tier, "seed": int(seed), "tail": "" if status == "DETECTED" else r.stdout[-1500:] + r.stderr[-1500:]}


def cmd_add(a):
    src = Path(a.dir)
    patch, demo = src / "patch.diff", src / "demo.py"
    name = a.name or f"{a.property}-{src.name}"
    clean = scratch()
    try:
        rc0, out0 = run_demo(demo, clean)
    finally:
        shutil.rmtree(clean, ignore_errors=True)
    bad = scratch(patch)
    try:
        rc1, out1 = run_demo(demo, bad)
        suite = run_suite(bad, touched(patch))
        chk = run_check(a.property, bad, a.tier)
    finally:
        shutil.rmtree(bad, ignore_errors=True)
    ok = rc0 == 0 and rc1 != 0 and all(v.startswith("pass") or v == "no tests dir" for v in suite.values())
    print(f"{name}: demo clean rc={rc0} patched rc={rc1}; suite={suite}; check={chk['status']} by {chk['subchecks']}")
    if not ok:
        print("NOT CONFIRMED (demo must pass clean and fail patched; touched packages' tests must pass) -> not stored")
        print(out0[-400:], out1[-400:])
        return 1
    dst = ROOT / "seeded" / name
    dst.mkdir(parents=True, exist_ok=True)
    shutil.copy(patch, dst / "patch.diff")
    shutil.copy(demo, dst / "demo.py")
    notes = (src / "notes.txt").read_text() if (src / "notes.txt").exists() else ""
    head = subprocess.run(["git", "-C", REPO, "rev-parse", "--short", "HEAD"], capture_output=True, text=True).stdout.strip()
    meta = {
        "id": name,
        "property": a.property,
        "author": "independent sub-agent given only the property text and a scratch worktree",
        "needs_to_manifest": notes.strip()[:1500],
        "confirmed": {"repo_head": head, "demo_clean_rc": rc0, "demo_patched_rc": rc1, "demo_patched_output": out1[-600:], "suite_with_patch": suite},
        "what_was_run": [f"demo.py on clean and patched scratch copies (PYTHONPATH)", "pytest of each touched package on the patched copy", f"python -m tqv.run {a.property} --tier {a.tier} with TQV_REPO=<patched copy>"],
        "check_result": chk,
        "first_result": chk["status"],
    }
    (dst / "meta.json").write_text(json.dumps(meta, indent=1))
    return 0


def cmd_run(a):
    names = a.names or sorted(p.name for p in (ROOT / "seeded").iterdir() if (p / "meta.json").exists())
    bad = 0
    for n in names:
        d = ROOT / "seeded" / n
        meta = json.loads((d / "meta.json").read_text())
        try:
            tree = scratch(d / "patch.diff")
        except SystemExit as e:
            print(f"{n}: {e}")
            bad += 1
            continue
        try:
            chk = run_check(meta["property"], tree, a.tier, a.seed)
        finally:
            shutil.rmtree(tree, ignore_errors=True)
        meta["check_result"] = chk
        (d / "meta.json").write_text(json.dumps(meta, indent=1))
        print(f"{n}: {chk['status']} ({chk['wall_s']}s) by {chk['subchecks']}")
        bad += chk["status"] != "DETECTED"
    return 1 if bad else 0


def main():
    ap = argparse.ArgumentParser()
    sub = ap.add_subparsers(dest="cmd", required=True)
    p = sub.add_parser("add")
    p.add_argument("property")
    p.add_argument("dir")
    p.add_argument("--name")
    p.add_argument("--tier", default="quick")
    p = sub.add_parser("run")
    p.add_argument("names", nargs="*")
    p.add_argument("--tier", default="quick")
    p.add_argument("--seed", default="1")
    a = ap.parse_args()
    return cmd_add(a) if a.cmd == "add" else cmd_run(a)


if __name__ == "__main__":
    sys.exit(main())
