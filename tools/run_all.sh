#!/bin/bash
# tools/run_all.sh <tier> <seed> [props...]  : run registered checks sequentially; print one summary line each
tier=${1:-quick}; seed=${2:-1}; shift 2
props=${@:-$(python3 -c "import json;print(' '.join(c['property_id'] for c in json.load(open('MANIFEST.json'))['checks']))")}
for p in $props; do
  out=$(VERIF_SEED=$seed /venv/bin/python -m tqv.run $p --tier $tier 2>&1); rc=$?
  echo "$p seed=$seed rc=$rc $(echo "$out" | grep -E '^property=' | sed 's/property=[A-Z0-9]* //')"
  echo "$out" | grep -E "VIOLATION|HARNESS|signature=" | head -6
done
