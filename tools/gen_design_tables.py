#!/venv/bin/python
"""Rewrite the generated regions of DESIGN.md (between <!-- BEGIN:x --> and <!-- END:x -->) from the committed data:
known_findings.json (findings), seeded/*/meta.json (seeded), notes/mutant_results.json (mutants)."""
import json, re
from pathlib import Path

ROOT = Path(__file__).resolve().parent.parent


def findings():
    kf = json.loads((ROOT / "known_findings.json").read_text())["findings"]
    rows = ["| property | id | status | sub-check | witness | what fails |", "|---|---|---|---|---|---|"]
    for e in sorted(kf, key=lambda x: (x["property"], x["status"] != "open", x["id"])):
        st = "**open**" if e["status"] == "open" else f"fixed `{e.get('commit', '')}`"
        text = re.sub(r"^fixed: property=\S+ \S+ ", "", e["text"]).replace("|", "\\|")
        rows.append(f"| {e['property']} | {e['id']} | {st} | {e['subcheck']} | `{e['witness'].split('/')[-1]}` | {text} |")
    n_open = sum(e["status"] == "open" for e in kf)
    rows.append("")
    rows.append(f"{len(kf)} findings: {len(kf) - n_open} repaired by `fix:` commits in /repo, {n_open} open (announced as `KNOWN-FINDING`, filtered by signature).")
    return "\n".join(rows)


def seeded():
    rows = ["| id | property | needs in order to manifest (author's words, abridged) | quick check | caught by |", "|---|---|---|---|---|"]
    tot = det = 0
    for d in sorted((ROOT / "seeded").glob("*/meta.json")):
        m = json.loads(d.read_text())
        c = m["check_result"]
        tot += 1
        det += c["status"] == "DETECTED"
        need = " ".join(m["needs_to_manifest"].split())[:230].replace("|", "\\|")
        first = m.get("first_result")
        status = c["status"] + (f" (first run: {first})" if first and first != c["status"] else "")
        rows.append(f"| {m['id']} | {m['property']} | {need} | {status} | {', '.join(c['subchecks'])} |")
    rows.append("")
    rows.append(f"{tot} independently written changes confirmed (demo fails with the patch, passes without; touched packages' own tests pass with it); {det} detected by the registered quick checks as they stand now.")
    return "\n".join(rows)


def mutants():
    p = ROOT / "notes" / "mutant_results.json"
    data = json.loads(p.read_text()) if p.exists() else {}
    by = {}
    for e in data.values():
        by.setdefault(e["property"], []).append(e)
    rows = ["| property | mutants | detected | missed by the repository's own tests (where measured) | not detected |", "|---|---|---|---|---|"]
    for pid in sorted(by):
        es = by[pid]
        det = [e for e in es if e["status"] == "DETECTED"]
        nd = [e["id"] + (" (equivalent: cannot change the value)" if e["status"] == "EQUIVALENT" else " (outside the property: input validation only)" if e["status"] == "OUTSIDE-PROPERTY" else "") for e in es if e["status"] != "DETECTED"]
        surv = [e["id"] for e in es if "repo_suite" in e and "FAIL" not in e["repo_suite"]]
        meas = sum("repo_suite" in e for e in es)
        rows.append(f"| {pid} | {len(es)} | {len(det)} | {len(surv)} of {meas} measured: {', '.join(surv) if surv else '-'} | {', '.join(nd) if nd else '-'} |")
    return "\n".join(rows)


def asbuilt():
    import importlib, sys

    sys.path.insert(0, str(ROOT))
    sys.path.insert(0, "/repo")
    rows = ["| property | sub-checks (quick cases; E = enumerated, M = state machine, F = + coverage-guided campaign in the thorough tier) | quick total | thorough total |", "|---|---|---|---|"]
    for i in range(1, 21):
        pid = f"C{i:02d}"
        try:
            mod = importlib.import_module(f"tqv.props.{pid.lower()}")
        except Exception as e:  # noqa: BLE001
            rows.append(f"| {pid} | (module failed to import: {e}) | | |")
            continue
        parts, q, t = [], 0, 0
        for sc in mod.SUBCHECKS:
            if sc.cases is not None:
                nq, nt = len(sc.cases("quick")), len(sc.cases("thorough"))
                tag = "E"
            else:
                nq, nt = sc.quick, sc.thorough
                tag = "M" if sc.machine is not None else ""
            if sc.fuzz:
                tag += "F"
            q += nq
            t += nt
            parts.append(f"{sc.name} ({nq}{tag})")
        rows.append(f"| {pid} | {', '.join(parts)} | {q} | {t} |")
    return "\n".join(rows)


def main():
    p = ROOT / "DESIGN.md"
    s = p.read_text()
    for name, fn in (("findings", findings), ("seeded", seeded), ("mutants", mutants), ("asbuilt", asbuilt)):
        pat = re.compile(rf"(<!-- BEGIN:{name} -->\n).*?(<!-- END:{name} -->)", re.S)
        if not pat.search(s):
            print("marker missing:", name)
            continue
        s = pat.sub(lambda m: m.group(1) + fn() + "\n" + m.group(2), s)
    p.write_text(s)
    print("DESIGN.md tables regenerated")


if __name__ == "__main__":
    main()
