#!/venv/bin/python
"""Sensitivity validation (not part of quick/thorough): apply one realistic edit of toqito to a scratch copy
(outside /repo and /verif), run a property's check against it and report whether it is detected.

  tools/mutants.py C01                 run every mutant listed in mutants/C01.json
  tools/mutants.py C01 --id m3         one mutant
  tools/mutants.py C01 --patch p.diff  a unified diff (git format, relative to the repository root)
  options: --tier quick|thorough  --only sub1,sub2  --suite (also run the touched package's pytest tests)

A mutant spec is {"id", "file", "old", "new", "note"[, "expect": "sub-check name"]}: a literal replacement in one file.
Exit 0 when every mutant was detected (exit 1 of the check with a VIOLATION line), 1 otherwise.
"""
import argparse, json, os, shutil, subprocess, sys, tempfile, time
from pathlib import Path

ROOT = Path(__file__).resolve().parent.parent
REPO = "/repo"


def scratch_copy():
    d = Path(tempfile.mkdtemp(prefix="tqv_mut_", dir=os.environ.get("TQV_SCRATCH", "/tmp")))
    subprocess.run(["rsync", "-a", "--exclude", "__pycache__", f"{REPO}/toqito", str(d) + "/"], check=True)
    return d


def run_check(pid, scratch, tier, only, seed):
    env = dict(os.environ, TQV_REPO=str(scratch), TQV_OUT=str(scratch / "_out"), VERIF_SEED=str(seed))
    cmd = ["/venv/bin/python", "-m", "tqv.run", pid, "--tier", tier]
    if only:
        cmd += ["--only", only]
    t = time.time()
    r = subprocess.run(cmd, cwd=ROOT, env=env, capture_output=True, text=True)
    return r.returncode, r.stdout + r.stderr, time.time() - t


def run_suite(scratch, files):
    pk = sorted({str(Path(f).parent) for f in files})
    out = []
    for p in pk:
        r = subprocess.run(["/venv/bin/python", "-m", "pytest", "-q", "-x", "-p", "no:cacheprovider", f"{p}/tests"], cwd=scratch,
                           env=dict(os.environ, PYTHONPATH=str(scratch)), capture_output=True, text=True)
        out.append((p, r.returncode, r.stdout.strip().splitlines()[-1] if r.stdout.strip() else ""))
    return out


def record(pid, spec, status, subs, suite, tier):
    """keep the latest outcome per mutant in notes/mutant_results.json (feeds the DESIGN.md table)"""
    import fcntl

    path = ROOT / "notes" / "mutant_results.json"
    path.parent.mkdir(exist_ok=True)
    with open(path, "a+") as fh:
        fcntl.flock(fh, fcntl.LOCK_EX)
        fh.seek(0)
        txt = fh.read()
        data = json.loads(txt) if txt.strip() else {}
        ent = data.setdefault(f"{pid}:{spec['id']}", {})
        ent.update({"property": pid, "id": spec["id"], "note": spec.get("note", ""), "file": spec.get("file", ""), "status": status, "by": subs, "tier": tier})
        if suite:
            ent["repo_suite"] = suite
        fh.seek(0)
        fh.truncate()
        fh.write(json.dumps(data, indent=1, sort_keys=True))


def main():
    ap = argparse.ArgumentParser()
    ap.add_argument("property")
    ap.add_argument("--id")
    ap.add_argument("--patch")
    ap.add_argument("--tier", default="quick")
    ap.add_argument("--only")
    ap.add_argument("--suite", action="store_true")
    ap.add_argument("--seed", default="1")
    ap.add_argument("-v", action="store_true")
    ap.add_argument("--expect-pass", action="store_true", help="the patch is a candidate repair: the check must exit 0")
    a = ap.parse_args()
    pid = a.property.upper()
    if a.patch:
        specs = [{"id": Path(a.patch).stem, "patch": a.patch}]
    else:
        specs = json.loads((ROOT / "mutants" / f"{pid}.json").read_text())
        if a.id:
            specs = [s for s in specs if s["id"] in a.id.split(",")]
    bad = 0
    for s in specs:
        d = scratch_copy()
        try:
            files = []
            if "patch" in s:
                r = subprocess.run(["patch", "-p1", "-s", "-d", str(d), "-i", str(Path(s["patch"]).resolve())], capture_output=True, text=True)
                if r.returncode:
                    print(f"{pid} {s['id']}: PATCH DOES NOT APPLY {r.stdout} {r.stderr}")
                    bad += 1
                    continue
                files = [l[6:].strip() for l in open(s["patch"]) if l.startswith("+++ b/")]
            else:
                f = d / s["file"]
                src = f.read_text()
                if src.count(s["old"]) != 1:
                    print(f"{pid} {s['id']}: 'old' text occurs {src.count(s['old'])} times in {s['file']} (need exactly 1)")
                    bad += 1
                    continue
                f.write_text(src.replace(s["old"], s["new"]))
                files = [s["file"]]
            only = a.only or s.get("only")
            rc, out, wall = run_check(pid, d, a.tier, only, a.seed)
            viol = [l for l in out.splitlines() if l.startswith("VIOLATION")]
            status = "DETECTED" if rc == 1 and viol else ("HARNESS-ERROR" if rc == 2 else "MISSED")
            if a.expect_pass:
                status = "QUIET" if rc == 0 else status
                bad += status != "QUIET"
            elif status == "MISSED" and s.get("outside_property"):
                status = "OUTSIDE-PROPERTY"  # the edit only changes behaviour the property does not talk about (see the spec)
            elif status == "MISSED" and s.get("equivalent"):
                status = "EQUIVALENT"  # argued in the spec: the edit cannot change any value the property talks about
            elif status != "DETECTED":
                bad += 1
            suite = ""
            if a.suite:
                suite = " suite:" + ",".join(f"{p}={'pass' if c == 0 else 'FAIL'}" for p, c, _ in run_suite(d, files))
            subs = sorted({l.split("replay=")[1].split("/")[-1].rsplit("-", 1)[0] for l in viol})
            print(f"{pid} {s['id']}: {status} ({wall:.0f}s) by {subs}{suite}  -- {s.get('note', '')}")
            if not a.patch and not a.expect_pass:
                record(pid, s, status, subs, suite.strip(), a.tier)
            if a.v or status == "HARNESS-ERROR":
                print(out[-3000:])
        finally:
            shutil.rmtree(d, ignore_errors=True)
    return 1 if bad else 0


if __name__ == "__main__":
    sys.exit(main())
