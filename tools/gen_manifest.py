#!/venv/bin/python
"""Regenerate MANIFEST.json from tools/manifest_src.json (keeps the file valid against the schema)."""
import json, sys
from pathlib import Path

ROOT = Path(__file__).resolve().parent.parent
src = json.loads((ROOT / "tools" / "manifest_src.json").read_text())
checks = []
for pid, c in sorted(src["checks"].items()):
    checks.append({
        "property_id": pid,
        "quick_cmd": f"/venv/bin/python -m tqv.run {pid} --tier quick",
        "thorough_cmd": f"/venv/bin/python -m tqv.run {pid} --tier thorough",
        "evidence_file": f"evidence/{pid}.json",
        "replay_cmd_template": f"/venv/bin/python -m tqv.run {pid} --replay {{path}}",
        "engine": "tqv",
        "level_claimed": {"category": "exploration", "text": c["text"], "design_ref": f"DESIGN.md section 4, {pid}"},
        "level_note": c["note"],
        "technique": c["technique"],
    })
claimed = set(src["checks"])
props = [json.loads(l)["id"] for l in (ROOT / "properties.jsonl").read_text().splitlines() if l.strip()]
na = [{"property_id": p, "reason": src["not_applicable"].get(p, "check not built yet in this round (planned in DESIGN.md section 4); not claimed until its quick check is quiet on the unchanged tree")} for p in props if p not in claimed]
man = {
    "version": 1,
    "setup_cmd": src["setup_cmd"],
    "hooks": src["hooks"],
    "engines": [{"name": "tqv", "path": "tqv/", "serves_properties": sorted(claimed), "kind_free_text": "Hypothesis 6.168 property-based testing (generated cases, stateful machines for histories, exhaustive enumeration of small finite domains) with independent numpy/brute-force/certificate oracles; sharded over 16 processes"}],
    "checks": checks,
    "notes": src["notes"],
    "not_applicable": na,
}
import jsonschema
jsonschema.validate(man, json.loads(Path("/root/.vp/MANIFEST.schema.json").read_text()))
(ROOT / "MANIFEST.json").write_text(json.dumps(man, indent=1) + "\n")
print("MANIFEST.json written:", len(checks), "checks,", len(na), "not claimed")
