#!/venv/bin/python
"""tools/kf.py <property> <id> <status> <subcheck> <witness> <commit-or-signature> <text...>   (maintenance helper, not used at run time)"""
import json, sys
from pathlib import Path
ROOT = Path(__file__).resolve().parent.parent
p = ROOT / "known_findings.json"
d = json.loads(p.read_text())
prop, fid, status, sub, wit, cs = sys.argv[1:7]
text = " ".join(sys.argv[7:])
assert (ROOT / wit).exists(), wit
e = {"property": prop, "id": fid, "status": status, "subcheck": sub, "witness": wit}
if status == "fixed":
    e["commit"] = cs
    e["text"] = f"fixed: property={prop} {cs} {text}"
else:
    e["signature"] = cs
    e["text"] = text
d["findings"] = [x for x in d["findings"] if x["id"] != fid] + [e]
p.write_text(json.dumps(d, indent=1) + "\n")
print("ok", fid)
