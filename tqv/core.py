"""Core types shared by every property module: SubCheck, Violation, Inconclusive, exception
classification, per-call time limits, canonical case hashing.

A *case* is a JSON-serialisable dict produced by a Hypothesis strategy (or by an enumerator).
``SubCheck.check(case)`` runs toqito on the case and compares with an independent oracle; it returns
``None`` when the property held, raises :class:`Violation` when it did not, and raises
:class:`Inconclusive` when nothing can be said (solver failure, time limit).  Any other exception is
classified by :func:`classify_exception`.
"""

from __future__ import annotations

import contextlib
import hashlib
import json
import linecache
import os
import signal
import traceback
from dataclasses import dataclass, field
from pathlib import Path
from typing import Any, Callable

ROOT = Path(__file__).resolve().parent.parent
REPO = os.environ.get("TQV_REPO", "/repo")


class Violation(Exception):
    """The observation contradicts the property on an in-domain input."""

    def __init__(self, message: str, signature: str | None = None):
        super().__init__(message)
        self.message = message
        self.signature = signature or "generic"


class Inconclusive(Exception):
    """Nothing can be concluded from this case (solver failure, time limit, ...)."""

    def __init__(self, reason: str):
        super().__init__(reason)
        self.reason = reason


class HarnessError(Exception):
    """The check itself is broken (not toqito)."""


class _Timeout(BaseException):
    pass


def _jsonable(o):
    import numpy as np

    if isinstance(o, (np.integer,)):
        return int(o)
    if isinstance(o, (np.floating,)):
        return float(o)
    if isinstance(o, (np.bool_,)):
        return bool(o)
    if isinstance(o, complex):
        return [o.real, o.imag]
    if isinstance(o, np.ndarray):
        return o.tolist()
    if isinstance(o, tuple):
        return list(o)
    raise TypeError(f"not JSON serialisable: {type(o)}")


def canon(case: Any) -> str:
    return json.dumps(case, sort_keys=True, separators=(",", ":"), default=_jsonable)


def case_hash(case: Any) -> str:
    return hashlib.sha1(canon(case).encode()).hexdigest()


def normalise(case: Any) -> Any:
    """Round-trip through JSON so that the stored case and the executed case are the same object kind."""
    return json.loads(canon(case))


@contextlib.contextmanager
def time_limit(seconds: float):
    """Raise Inconclusive('timeout') if the body runs longer than ``seconds`` (0 disables)."""
    if not seconds or seconds <= 0:
        yield
        return

    def handler(signum, frame):
        raise _Timeout()

    old = signal.signal(signal.SIGALRM, handler)
    # repeating: if the first alarm is swallowed (e.g. it fires inside a gc callback) the next one still ends the call
    signal.setitimer(signal.ITIMER_REAL, seconds, 2.0)
    timed_out = False
    try:
        try:
            yield
        except _Timeout:
            timed_out = True
    finally:
        # disarm; on a heavily loaded machine a repeat alarm can fire while we are in here
        while True:
            try:
                signal.setitimer(signal.ITIMER_REAL, 0)
                signal.signal(signal.SIGALRM, old)
                break
            except _Timeout:
                timed_out = True
    if timed_out:
        raise Inconclusive("timeout")


_SOLVER_DIRS = ("/cvxopt/", "/picos/", "/scs/", "/clarabel/", "/cvxpy/", "/ecos/", "/osqp/")


def _is_toqito_frame(fn: str) -> bool:
    fn = fn.replace("\\", "/")
    return "/toqito/" in fn and "/tests/" not in fn and "/tqv/" not in fn


def classify_exception(exc: BaseException):
    """Return ('inconclusive', reason) | ('violation', signature, text) | ('harness', text)."""
    tb = traceback.extract_tb(exc.__traceback__)
    tname = type(exc).__name__
    mod = type(exc).__module__ or ""
    frames = [(f.filename.replace("\\", "/"), f.name, f.lineno) for f in tb]
    toq = [f for f in frames if _is_toqito_frame(f[0])]
    innermost = frames[-1] if frames else ("?", "?", 0)
    text = f"{tname}: {exc}"
    if not toq:
        return ("harness", text + "\n" + "".join(traceback.format_tb(exc.__traceback__)[-6:]))
    in_solver = any(d in innermost[0] for d in _SOLVER_DIRS)
    # failures *inside* an external solver are not toqito's property to keep
    if tname == "SolverError" and mod.startswith("cvxpy"):
        return ("inconclusive", "cvxpy.SolverError")
    if tname == "SolutionFailure":
        return ("inconclusive", "picos.SolutionFailure")
    if isinstance(exc, (ArithmeticError, ZeroDivisionError)) and in_solver:
        return ("inconclusive", f"solver.{tname}")
    if isinstance(exc, ValueError) and "/cvxopt/" in innermost[0]:
        return ("inconclusive", "cvxopt.ValueError")
    fn, func, lineno = toq[-1]
    src = (linecache.getline(fn, lineno) or "").strip()
    sig = f"exc:{tname}:{os.path.basename(fn)}:{func}:{src[:80]}"
    return ("violation", sig, text[:400])


@dataclass
class SubCheck:
    name: str
    check: Callable[[dict], None]
    strategy: Any = None  # a Hypothesis strategy or a zero-argument callable returning one
    nontrivial: Callable[[dict], str | None] = lambda case: None
    quick: int = 200  # total generated cases, quick tier (split over shards)
    thorough: int = 2000
    cases: Callable[[str], list] | None = None  # tier -> full list of enumerated cases (no Hypothesis)
    shards: int = 16
    case_timeout: float = 0.0  # seconds per case; 0 = no limit
    wall_limit: float = 0.0  # hard wall limit per shard process; 0 = tier default
    machine: Any = None  # optional: factory for a Hypothesis RuleBasedStateMachine (see tqv.machine)
    doc: str = ""
    exhaustive: bool = False
    fuzz: int = 0  # thorough tier only: additionally run a coverage-guided (atheris/libFuzzer) campaign of this many runs

    def get_strategy(self):
        s = self.strategy
        if callable(s) and not hasattr(s, "example"):
            s = s()
        return s


def req(cond: bool, message: str, signature: str | None = None):
    """Assert-like helper for oracles."""
    if not cond:
        raise Violation(message, signature)


STRICT_REJECTIONS = os.environ.get("TQV_STRICT_REJECTIONS") == "1"


def unlisted_rejection(message: str, signature: str):
    """An input outside a function's documented domain was accepted instead of being rejected, in a place where the
    *listed* property says nothing about rejection (it quantifies over admissible inputs only).  The library's docs
    promise the ValueError, so this is worth counting, but it is not a violation of the listed property: the case is
    recorded as inconclusive("accepted-invalid-input:...") unless TQV_STRICT_REJECTIONS=1 asks for the documented contract.
    """
    if STRICT_REJECTIONS:
        raise Violation(message, signature)
    raise Inconclusive("accepted-invalid-input:" + signature)
