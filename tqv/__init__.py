"""tqv — property-based verification machinery for vprusso/toqito (see /verif/DESIGN.md)."""
