"""C16 — matrix and state-set predicates and linear-algebra helpers match their definitions.

Every predicate gets a sub-check of its own: a *positive* builder (exact by construction), a *negative* builder (the
positive matrix pushed along a definition-breaking direction until the defining residual is >= 1e-3*scale), non-square
inputs where the predicate documents False, and property-preserving transformations applied before the verdict is
asked.  The oracle is the definition itself evaluated with plain numpy and three-valued margins (True when the residual
is <= 1e-12*scale, False when >= 1e-3*scale, nothing asserted in between).  Helper operations are checked against
their identities (vec/unvec, Kronecker, Gram round trip, commutant, majorisation, spark, norms).
"""

from __future__ import annotations

import contextlib
import io
import itertools

import numpy as np
from hypothesis import strategies as st

from tqv import gen
from tqv.core import HarnessError, Inconclusive, SubCheck, Violation, req
from tqv.props import _c16_helpers as H
from tqv.props._c16_helpers import FALSE_MARGIN, MARGINS, S, and3, dag, ent, mx, tri

# caller-owned arrays handed to the library must come back unchanged (see tqv/purity.py)
from tqv.purity import install as _install_purity  # noqa: E402

_install_purity('toqito.matrix_props', 'toqito.matrix_ops', 'toqito.state_props', twice=True, skip_twice=('sk_operator_norm', 'is_block_positive', 'positive_semidefinite_rank'))

PROPERTY = "C16"
RULE = (
    "Cases are drawn by Hypothesis: predicate-specific structure (size n in 1..6, real/complex, integer or Gaussian "
    "entries, polarity positive / negative / non-square / tie, kind of definition-breaking direction, margin in "
    "{1e-3, 1e-2, 0.1, 1}, property-preserving transformation, extra parameters such as (p,q), mat_type, is_strict, "
    "sub_sizes) plus a 63-bit seed expanded with PCG64 for the numeric content.  A predicate case is non-trivial when "
    "it is complex with n>=3, or a negative built at margin 1e-3 (n>=2), or a transformed instance with n>=3; helper "
    "cases are non-trivial when rectangular / complex with size >=3, rank-deficient or degenerate (Gram, commutant), "
    "or have planted dependencies (spark).  distinct = distinct SHA-1 of the canonical case JSON among non-trivial cases."
)
ASSUMPTIONS = [
    "a verdict is asserted only when the defining residual is <= 1e-12*scale (True) or >= 1e-3*scale (False); scale = max(1, largest entry of the compared quantities)",
    "is_positive_definite, is_diagonal, is_permutation, is_nonnegative, is_positive have no tolerance: inputs are exactly Hermitian / exactly zero / exactly 0-1 where the definition needs it",
    "is_projection: only Hermitian idempotents (True) and non-idempotents (False) are asserted (docstring demands PSD, its example accepts a non-Hermitian idempotent)",
    "is_stochastic / is_nonnegative / is_positive / is_totally_positive are exercised on real matrices (total positivity on small integer matrices with exact rational minors; complex only with an imaginary part >= 1e-3 on one entry)",
    "is_orthonormal takes a 2-D array whose rows are the vectors (>= 2 rows); is_mutually_orthogonal needs >= 2 vectors",
    "is_pure / is_mixed are asked about density matrices only (largest eigenvalue 1 or <= 1 - 1e-3)",
    "is_mutually_unbiased_basis: negatives break the overlap condition |<u,v>|^2 = 1/d by >= 1e-3 (orthonormality inside a basis is not examined by the function and not asserted)",
    "is_unextendible_product_basis: inputs are orthogonal product bases spanning a proper subspace; a ValueError 'not a product state' from is_product's own tolerance is counted inconclusive",
    "majorizes: vectors of different length are compared only when non-negative (zero padding of a sorted vector)",
    "kp_norm is the p-norm of the k largest singular values for 2-D input (an (n,1) column is a matrix with one singular value)",
    "vectors_from_gram_matrix is asked about positive semidefinite (Gram) matrices only; spectra have eigenvalues that are equal by construction or differ by >= 0.5",
    "commutant dimension is asserted for generators with planted block structure and eigenvalue gaps >= 0.5; multiples of the identity are passed exactly (not as identity + rounding noise), and the bicommutant is asked only when the commutant has dimension >= 2",
    "positive_semidefinite_rank is only smoke-checked (identity, normalised v v^T): its value depends on the scale of the input",
]


def _quiet(f, *a, **k):
    with contextlib.redirect_stdout(io.StringIO()):
        return f(*a, **k)


def _sq(m):
    return m.ndim == 2 and m.shape[0] == m.shape[1]


def _sizes(lo=1, hi=6):
    """sizes lo..hi; Hypothesis favours the first element of sampled_from, so the generic size 3 comes first and 1 last."""
    return st.sampled_from([k for k in (3, 2, 4, 5, 6, 1) if lo <= k <= hi])


# ==============================================================================================
# generic machinery for matrix predicates
# ==============================================================================================
class Pred:
    """One predicate: call (toqito), define (numpy, three-valued), pos builder, transformations, breaking directions."""

    def __init__(self, name, call, define, pos, tfs=("none",), kinds=1, direction=None, project=None, extra=None,
                 cplx=True, nmin=1, nmax=6, pols=("pos", "neg", "nonsq"), special=None, nonsq=None):
        self.name, self.call, self.define, self.pos = name, call, define, pos
        self.tfs, self.kinds, self.direction, self.project = tfs, kinds, direction, project
        self.extra, self.cplx, self.nmin, self.nmax, self.pols = extra, cplx, nmin, nmax, pols
        self.special, self.nonsq = special, nonsq

    def strategy(self):
        @st.composite
        def s(draw):
            case = {
                "n": draw(_sizes(self.nmin, self.nmax)),
                "cplx": draw(st.booleans()) if self.cplx else False,
                "src": draw(st.sampled_from(["int", "gauss"])),
                "pol": draw(st.sampled_from(self.pols)),
                "kind": draw(st.integers(0, self.kinds - 1)),
                "margin": draw(st.sampled_from(MARGINS)),
                "tf": draw(st.sampled_from(self.tfs)),
                "seed": draw(gen.SEED),
            }
            if self.extra:
                case.update(self.extra(draw, case))
            return case

        return s()

    # -- transformations that preserve the property (applied to the exact positive instance) --
    def transform(self, m, case, g):
        tf, n, cplx = case["tf"], m.shape[0], case["cplx"]
        if tf == "none":
            return m
        if tf == "unitary":
            u = H.unitary(g, n, cplx)
            m = u @ m @ dag(u)
        elif tf == "orth":
            u = H.unitary(g, n, False)
            m = u @ m @ u.T
        elif tf == "perm":
            p = H.perm_matrix(g, n)
            m = p @ m @ p.T
        elif tf == "perm2":
            m = H.perm_matrix(g, n) @ m @ H.perm_matrix(g, n)
        elif tf == "scale":
            m = m * [2, -3, 0.5, -0.25][int(g.integers(0, 4))]
        elif tf == "pscale":
            m = m * [2, 3, 0.5, 0.25][int(g.integers(0, 4))]
        elif tf == "adj":
            m = dag(m)
        elif tf == "T":
            m = m.T.copy()
        elif tf == "conj":
            m = m.conj()
        elif tf == "lmul":
            m = H.unitary(g, n, cplx) @ m
        elif tf == "phase":
            m = m * np.exp(1j * float(g.uniform(0, 2 * np.pi))) if cplx else -m
        else:
            raise HarnessError(f"unknown transformation {tf}")
        return self.project(m) if self.project else m

    def default_direction(self, m, case, g):
        n = m.shape[0]
        if case["kind"] == 0 or n == 1:
            e = g.normal(size=m.shape)
            if case["cplx"]:
                e = e + 1j * g.normal(size=m.shape)
            return e / max(mx(e), 1e-300)
        e = np.zeros(m.shape, dtype=complex if case["cplx"] else float)
        i, j = g.choice(n, size=2, replace=False)
        e[i, j] = 1
        return e

    def build(self, case, g):
        """-> (args tuple, intended verdict or None)"""
        if self.special:
            r = self.special(case, g)
            if r is not None:
                return r
        n, cplx, src = case["n"], case["cplx"], case["src"]
        if case["pol"] == "nonsq":
            if self.nonsq:
                return self.nonsq(case, g), False
            return (ent(g, *H.nonsquare_shape(g, n), cplx, src),), False
        m, extra = self.pos(case, g)
        m = self.transform(m, case, g)
        if case["pol"] == "neg":
            e = (self.direction or self.default_direction)(m, case, g)
            x = H.push(m, e, self.define, case["margin"], extra)
            if x is not None:
                return (x, *extra), False
        return (m, *extra), True

    def check(self, case):
        g = gen.rng(case["seed"])
        args, intended = self.build(case, g)
        truth = self.define(*args)
        if truth is None:
            raise Inconclusive("residual between 1e-12 and 1e-3 (nothing asserted)")
        if intended is not None and intended != truth:
            raise HarnessError(f"{self.name}: builder intended {intended} but the definition says {truth} for {case}")
        out = self.call(*args)
        req(
            bool(out) == truth,
            f"{self.name} returned {out!r} on a {'x'.join(map(str, args[0].shape))} {args[0].dtype} input whose definition gives {truth} "
            f"(pol={case['pol']}, kind={case['kind']}, tf={case['tf']}, margin={case['margin']})",
            f"{self.name}:{'says-false' if truth else 'says-true'}" + (":nonsquare" if case["pol"] == "nonsq" else ""),
        )

    def nontrivial(self, case):
        n = case["n"]
        if case["pol"] == "neg" and case["margin"] == 1e-3 and n >= 2:
            return "neg@1e-3" + (",complex" if case["cplx"] else "")
        if case["cplx"] and n >= 3 and case["pol"] != "nonsq":
            return f"{case['pol']},complex,n>=3"
        if case["tf"] != "none" and n >= 3 and case["pol"] != "nonsq":
            return f"{case['pol']},transformed,n>=3"
        return None


PREDS: dict[str, Pred] = {}


def _reg(p: Pred):
    PREDS[p.name] = p
    return p


def _tq(mod, name):
    """late import of a toqito function (inside the check, never at module import)."""

    def call(*a, **k):
        import importlib

        return getattr(importlib.import_module(mod), name)(*a, **k)

    return call


MP = "toqito.matrix_props"
SP = "toqito.state_props"
MO = "toqito.matrix_ops"


# ==============================================================================================
# Hermitian family
# ==============================================================================================
def d_herm(m):
    return tri(mx(m - dag(m)), S(m)) if _sq(m) else False


def d_antiherm(m):
    return tri(mx(m + dag(m)), S(m)) if _sq(m) else False


def d_sym(m):
    return tri(mx(m - m.T), S(m)) if _sq(m) else False


def _sym_builder(kind):
    def pos(case, g):
        x = ent(g, case["n"], case["n"], case["cplx"], case["src"])
        y = {"h": dag(x), "a": -dag(x), "s": x.T}[kind]
        m = x + y
        if case["src"] != "int":
            m = m / 2
        return m, ()

    return pos


def _herm_dir(anti):
    def direction(m, case, g):
        n = m.shape[0]
        e = np.zeros(m.shape, dtype=complex)
        if case["kind"] == 0 and n >= 2:
            i, j = g.choice(n, size=2, replace=False)
            e[i, j] = 1 if g.integers(0, 2) else 1j
        elif case["kind"] == 1:
            i = int(g.integers(0, n))
            e[i, i] = 1.0 if anti else 1j  # a Hermitian diagonal is real, an anti-Hermitian one imaginary
        else:
            x = g.normal(size=m.shape) + 1j * g.normal(size=m.shape)
            e = (x + dag(x)) if anti else (x - dag(x))  # the opposite symmetry class
            e = e / max(mx(e), 1e-300)
        return e

    return direction


def _sym_dir(m, case, g):
    n = m.shape[0]
    e = np.zeros(m.shape, dtype=complex if case["cplx"] else float)
    if n == 1:
        return e
    if case["kind"] == 0:
        i, j = g.choice(n, size=2, replace=False)
        e[i, j] = 1
        return e
    x = g.normal(size=m.shape)
    e = x - x.T
    return e / max(mx(e), 1e-300)


_reg(Pred("is_hermitian", _tq(MP, "is_hermitian"), d_herm, _sym_builder("h"), tfs=("none", "unitary", "perm", "scale", "adj", "T", "conj"), kinds=3,
          direction=_herm_dir(False), project=H.herm_part))
_reg(Pred("is_anti_hermitian", _tq(MP, "is_anti_hermitian"), d_antiherm, _sym_builder("a"), tfs=("none", "unitary", "perm", "scale", "adj", "T", "conj"), kinds=3,
          direction=_herm_dir(True), project=lambda x: (x - dag(x)) / 2))
_reg(Pred("is_symmetric", _tq(MP, "is_symmetric"), d_sym, _sym_builder("s"), tfs=("none", "orth", "perm", "scale", "T", "conj", "phase"), kinds=2,
          direction=_sym_dir, project=lambda x: (x + x.T) / 2))


# ==============================================================================================
# normal / unitary / pseudo-unitary / pseudo-Hermitian
# ==============================================================================================
def d_normal(m):
    if not _sq(m):
        return False
    a, b = m @ dag(m), dag(m) @ m
    return tri(mx(a - b), S(a, b))


def _spectrum(g, n, cplx, src):
    lam = g.integers(-3, 4, size=n).astype(float) if src == "int" else g.normal(size=n)
    if cplx:
        lam = lam + 1j * (g.integers(-3, 4, size=n) if src == "int" else g.normal(size=n))
    return lam


def _normal_pos(case, g):
    n, cplx = case["n"], case["cplx"]
    fam = int(g.integers(0, 4))
    if fam == 0:  # U diag(lambda) U^dagger
        u = H.unitary(g, n, cplx)
        return (u * _spectrum(g, n, cplx, case["src"])) @ dag(u), ()
    if fam == 1:  # Hermitian / skew
        x = ent(g, n, n, cplx, case["src"])
        return (x + dag(x) if g.integers(0, 2) else x - dag(x)), ()
    if fam == 2:  # unitary
        return H.unitary(g, n, cplx), ()
    return H.perm_matrix(g, n) * int(g.integers(1, 4)), ()  # scaled permutation (integer, non-symmetric)


_reg(Pred("is_normal", _tq(MP, "is_normal"), d_normal, _normal_pos, tfs=("none", "unitary", "perm", "scale", "adj", "phase"), kinds=2))


def d_unitary(m):
    if not _sq(m):
        return False
    i = np.eye(m.shape[0])
    a, b = dag(m) @ m, m @ dag(m)
    return and3(tri(mx(a - i), S(a)), tri(mx(b - i), S(b)))


def _unitary_pos(case, g):
    n, cplx = case["n"], case["cplx"]
    fam = int(g.integers(0, 3))
    if fam == 0 or case["src"] == "gauss":
        return H.unitary(g, n, cplx), ()
    if fam == 1:
        return H.perm_matrix(g, n), ()
    ph = np.array([1, -1, 1j, -1j])[g.integers(0, 4 if cplx else 2, size=n)]
    return H.perm_matrix(g, n) * (ph if cplx else ph.real.astype(np.int64)), ()


_reg(Pred("is_unitary", _tq(MP, "is_unitary"), d_unitary, _unitary_pos, tfs=("none", "unitary", "perm2", "lmul", "adj", "T", "conj", "phase"), kinds=2))


def d_pseudo_unitary(m, p, q):
    if not _sq(m) or p + q != m.shape[0]:
        return False
    j = np.diag([1.0] * p + [-1.0] * q)
    x = dag(m) @ j @ m
    return tri(mx(x - j), S(x))


def _pu_extra(draw, case):
    n = case["n"]
    return {"p": draw(st.integers(0, n)), "pq_off": draw(st.sampled_from([0, 0, 0, 0, 1, -1]))}


def _pu_pq(case):
    n, p = case["n"], case["p"]
    q = n - p
    if case["pq_off"] == 1:
        q += 1
    elif case["pq_off"] == -1:
        if q > 0:
            q -= 1
        else:
            p -= 1 if p > 0 else 0
    return p, q


def _pu_matrix(case, g):
    n, p, cplx = case["n"], case["p"], case["cplx"]
    q = n - p
    m = np.eye(n, dtype=complex if cplx else float)
    for _ in range(int(g.integers(1, 4))):
        blk = np.eye(n, dtype=complex if cplx else float)
        if p:
            blk[:p, :p] = H.unitary(g, p, cplx)
        if q:
            blk[p:, p:] = H.unitary(g, q, cplx)
        m = m @ blk
        if p and q:
            a, b = int(g.integers(0, p)), p + int(g.integers(0, q))
            t = float(g.uniform(-1, 1))
            ph = np.exp(1j * float(g.uniform(0, 2 * np.pi))) if cplx else 1.0
            h = np.eye(n, dtype=complex if cplx else float)
            h[a, a] = h[b, b] = np.cosh(t)
            h[a, b] = np.sinh(t) * ph
            h[b, a] = np.sinh(t) * np.conj(ph)
            m = m @ h
    return m


def _pu_pos(case, g):
    return _pu_matrix(case, g), _pu_pq(case)


def _pu_special(case, g):
    p, q = _pu_pq(case)
    if case["pol"] == "nonsq":
        return (ent(g, *H.nonsquare_shape(g, case["n"]), case["cplx"], case["src"]), p, q), False
    if case["pq_off"] != 0 and p + q != case["n"]:
        m = _pu_matrix(case, g)  # pseudo-unitary for (p, n-p) but asked with p+q != n
        return (m, p, q), False
    return None


def _pu_transform(self, m, case, g):
    tf = case["tf"]
    if tf == "mul":
        return m @ _pu_matrix(case, g)
    if tf == "adj":
        return dag(m)
    if tf == "phase":
        return m * (np.exp(1j * float(g.uniform(0, 2 * np.pi))) if case["cplx"] else -1)
    return m


_pu = _reg(Pred("is_pseudo_unitary", _tq(MP, "is_pseudo_unitary"), d_pseudo_unitary, _pu_pos, tfs=("none", "mul", "adj", "phase"), kinds=2,
                extra=_pu_extra, special=_pu_special))
_pu.transform = _pu_transform.__get__(_pu)


def d_pseudo_hermitian(m, eta):
    if not _sq(m) or eta.shape != m.shape:
        return False
    x = eta @ m @ np.linalg.inv(eta)
    return tri(mx(x - dag(m)), S(x, m))


def _ph_eta(case, g, n):
    cplx = case["cplx"]
    signs = np.where(g.integers(0, 2, size=n) == 1, 1.0, -1.0)
    if case["src"] == "int":
        return np.diag(signs).astype(np.int64)
    u = H.unitary(g, n, cplx)
    return H.herm_part((u * (signs * g.uniform(0.5, 2.0, size=n))) @ dag(u))


def _ph_pos(case, g):
    n = case["n"]
    eta = _ph_eta(case, g, n)
    x = ent(g, n, n, case["cplx"], case["src"])
    k = x + dag(x)
    if case["src"] == "int":
        return eta @ k, (eta,)  # eta = eta^-1 for a +-1 diagonal
    return np.linalg.inv(eta) @ k, (eta,)


def _ph_special(case, g):
    n = case["n"]
    if case["pol"] == "nonsq":
        if g.integers(0, 2):  # non-square matrix, square signature
            r, c = H.nonsquare_shape(g, n)
            return (ent(g, r, c, case["cplx"], case["src"]), _ph_eta(case, g, r)), False
        m, _ = _ph_pos(case, g)  # signature of another size
        return (m, _ph_eta(case, g, n + 1)), False
    return None


def _ph_build(self, case, g):
    r = _ph_special(case, g)
    if r is not None:
        return r
    m, (eta,) = _ph_pos(case, g)
    n = case["n"]
    if case["tf"] == "scale":
        m = m * [2, -3, 0.5][int(g.integers(0, 3))]
    elif case["tf"] == "congruence":  # H -> S H S^dagger, eta -> S eta S^dagger with S unitary
        s = H.unitary(g, n, case["cplx"])
        m, eta = s @ m @ dag(s), H.herm_part(s @ eta @ dag(s))
    elif case["tf"] == "eta_scale":
        eta = eta * [2, -1, 0.5][int(g.integers(0, 3))]
    if case["pol"] == "neg":
        x = H.push(m, self.default_direction(m, case, g), self.define, case["margin"], (eta,))
        if x is not None:
            return (x, eta), False
    return (m, eta), True


_ph = _reg(Pred("is_pseudo_hermitian", _tq(MP, "is_pseudo_hermitian"), d_pseudo_hermitian, _ph_pos, tfs=("none", "scale", "congruence", "eta_scale"), kinds=2))
_ph.build = _ph_build.__get__(_ph)


# ==============================================================================================
# positive (semi)definite, projection, idempotent, identity
# ==============================================================================================
def _lam_min(m):
    return float(np.linalg.eigvalsh(H.herm_part(m))[0])


def d_pd(m):
    """exactly Hermitian with lambda_min >= 1e-6*scale -> True; non-Hermitian or lambda_min <= -1e-3*scale -> False."""
    if not _sq(m):
        return False
    s = S(m)
    hres = mx(m - dag(m))
    if hres >= FALSE_MARGIN * s:
        return False
    lam = _lam_min(m)
    if lam <= -FALSE_MARGIN * s:
        return False
    if hres == 0 and lam >= 1e-6 * s:
        return True
    return None


def d_psd(m):
    if not _sq(m):
        return False
    s = S(m)
    h = tri(mx(m - dag(m)), s)
    lam = _lam_min(m)
    e = True if lam >= -1e-12 * s else (False if lam <= -FALSE_MARGIN * s else None)
    return and3(h, e)


def _psd_matrix(case, g, strict):
    n, cplx = case["n"], case["cplx"]
    rank = n if strict else int(g.integers(0, n + 1))
    if case["src"] == "int":
        a = ent(g, n, rank, cplx, "int", -2, 2) if rank else np.zeros((n, 0), dtype=np.int64)
        m = a @ dag(a)
        return m + np.eye(n, dtype=np.int64) if strict else m
    u = H.unitary(g, n, cplx)
    lam = np.concatenate([g.uniform(0.05, 3.0, size=rank), np.zeros(n - rank)])
    return H.herm_part((u * lam) @ dag(u))


def _psd_dir(m, case, g):
    n = m.shape[0]
    if case["kind"] == 0:  # exactly Hermitian, negative semidefinite direction
        v = H.unit_vec(g, n, case["cplx"])
        return -np.outer(v, v.conj())
    if case["kind"] == 1 and n >= 2:  # breaks Hermiticity
        e = np.zeros(m.shape, dtype=complex if case["cplx"] else float)
        i, j = g.choice(n, size=2, replace=False)
        e[i, j] = 1
        return e
    e = np.zeros(m.shape, dtype=float)
    i = int(g.integers(0, n))
    e[i, i] = -1.0
    return e


_reg(Pred("is_positive_definite", _tq(MP, "is_positive_definite"), d_pd, lambda c, g: (_psd_matrix(c, g, True), ()), tfs=("none", "unitary", "perm", "pscale", "T", "conj"),
          kinds=3, direction=_psd_dir, project=H.herm_part))
_reg(Pred("is_positive_semidefinite", _tq(MP, "is_positive_semidefinite"), d_psd, lambda c, g: (_psd_matrix(c, g, False), ()), tfs=("none", "unitary", "perm", "pscale", "T", "conj"),
          kinds=3, direction=_psd_dir, project=H.herm_part))


def d_idem(m):
    if not _sq(m):
        return False
    m2 = m @ m
    return tri(mx(m2 - m), S(m, m2))


def _proj_pos(case, g):
    n, cplx = case["n"], case["cplx"]
    r = int(g.integers(0, n + 1))
    if case["src"] == "int":  # coordinate projector, conjugated by a permutation
        d = np.zeros(n, dtype=np.int64)
        d[g.permutation(n)[:r]] = 1
        return np.diag(d), ()
    q = H.unitary(g, n, cplx)[:, :r]
    return H.herm_part(q @ dag(q)), ()


def _herm_dir_any(m, case, g):
    n = m.shape[0]
    if case["kind"] == 0:
        x = g.normal(size=m.shape) + (1j * g.normal(size=m.shape) if case["cplx"] else 0)
        e = x + dag(x)
        return e / max(mx(e), 1e-300)
    if case["kind"] == 1 and mx(m) > 0:
        return np.array(m, dtype=complex if case["cplx"] else float)  # scaling: (1+t)P is not idempotent
    e = np.zeros(m.shape)
    i = int(g.integers(0, n))
    e[i, i] = 1.0
    return e


_reg(Pred("is_projection", _tq(MP, "is_projection"), d_idem, _proj_pos, tfs=("none", "unitary", "perm", "T", "conj"), kinds=3, direction=_herm_dir_any, project=H.herm_part))


def _idem_pos(case, g):
    n, cplx = case["n"], case["cplx"]
    r = int(g.integers(0, n + 1))
    d = np.array([1] * r + [0] * (n - r), dtype=np.int64)
    if case["src"] == "int":
        s, si = H.unimodular(g, n)
        return s @ np.diag(d) @ si, ()
    u, v = H.unitary(g, n, cplx), H.unitary(g, n, cplx)
    sv = g.uniform(0.7, 1.5, size=n)
    s = (u * sv) @ v
    si = (dag(v) / sv) @ dag(u)
    return s @ np.diag(d) @ si, ()


_reg(Pred("is_idempotent", _tq(MP, "is_idempotent"), d_idem, _idem_pos, tfs=("none", "unitary", "perm", "T", "adj", "conj"), kinds=2))


def d_identity(m):
    return tri(mx(m - np.eye(m.shape[0])), S(m)) if _sq(m) else False


def _identity_pos(case, g):
    n = case["n"]
    dt = np.int64 if case["src"] == "int" else (complex if case["cplx"] else float)
    return np.eye(n, dtype=dt), ()


def _identity_nonsq(case, g):
    r, c = H.nonsquare_shape(g, case["n"])
    return (np.eye(r, c),)


_reg(Pred("is_identity", _tq(MP, "is_identity"), d_identity, _identity_pos, tfs=("none", "unitary", "perm"), kinds=2, nonsq=_identity_nonsq))


# ==============================================================================================
# diagonal, diagonally dominant, density, square
# ==============================================================================================
def d_diag(m):
    if not _sq(m):
        return False
    off = m - np.diag(np.diag(m))
    if mx(off) == 0:
        return True
    return False if mx(off) >= FALSE_MARGIN * S(m) else None


def _diag_pos(case, g):
    n = case["n"]
    d = ent(g, 1, n, case["cplx"], case["src"])[0]
    d = np.where(d == 0, 1, d)  # the docstring asks for a non-zero diagonal
    return np.diag(d), ()


def _diag_special(case, g):
    """kind 2, negative: a sparse non-diagonal matrix - some diagonal slots are zero and there are at most as many non-zero
    off-diagonal entries as diagonal slots (nilpotent shifts, permutation matrices, diag(1, 0, 3) + one entry).  Counting
    non-zeros, looking only at one triangle or only next to the diagonal all accept some of these."""
    n = case["n"]
    if case["pol"] != "neg" or case["kind"] != 2 or n < 2:
        return None
    dt = complex if case["cplx"] else float
    m = np.zeros((n, n), dtype=dt)
    d = ent(g, 1, n, case["cplx"], case["src"])[0]
    d = np.where(d == 0, 1, d)
    zeros = g.choice(n, size=int(g.integers(1, n + 1)), replace=False)
    d[zeros] = 0
    m[np.arange(n), np.arange(n)] = d
    k = int(g.integers(1, n + 1))
    off = [(i, j) for i in range(n) for j in range(n) if i != j]
    for idx in g.choice(len(off), size=min(k, len(off)), replace=False):
        i, j = off[int(idx)]
        v = ent(g, 1, 1, case["cplx"], case["src"])[0, 0]
        m[i, j] = v if abs(v) >= 0.5 else 1.0
    if case["src"] == "int" and not case["cplx"]:
        m = m.astype(np.int64)
    return (m,), False


_reg(Pred("is_diagonal", _tq(MP, "is_diagonal"), d_diag, _diag_pos, tfs=("none", "perm", "scale", "T", "conj", "adj"), kinds=3, special=_diag_special))


def d_dd(m, strict):
    if not _sq(m):
        return False
    a = np.abs(m)
    n = a.shape[0]
    d = np.diag(a)
    r = np.array([sum(a[i, j] for j in range(n) if j != i) for i in range(n)]) if n else np.zeros(0)
    gap = d - r
    if not np.iscomplexobj(m) and np.all(np.asarray(m) == np.round(m)):  # integers: exact arithmetic, ties decided exactly
        return bool(np.all(gap > 0)) if strict else bool(np.all(gap >= 0))
    s = S(m)
    if np.all(gap >= FALSE_MARGIN * s):
        return True
    if np.any(gap <= -FALSE_MARGIN * s):
        return False
    return None


def _dd_extra(draw, case):
    return {"strict": draw(st.sampled_from([True, False, None])), "rowsel": draw(st.integers(0, 5))}


def _dd_build(self, case, g):
    n, cplx, src, pol = case["n"], case["cplx"], case["src"], case["pol"]
    strict = case["strict"]
    args_tail = () if strict is None else (strict,)
    eff = True if strict is None else strict
    if pol == "nonsq":
        return (ent(g, *H.nonsquare_shape(g, n), cplx, src), *args_tail), False
    if pol == "tie":
        cplx, src = False, "int"
    m = ent(g, n, n, cplx, src).astype(complex if cplx else (np.int64 if src == "int" else float))
    a = np.abs(m)
    r = a.sum(axis=1) - np.diag(a)
    phase = np.where(g.integers(0, 2, size=n) == 1, 1, -1)
    if src == "int" and not cplx:
        diag = (np.round(r).astype(np.int64) + g.integers(1, 4, size=n)) * phase
    else:
        diag = (r + g.uniform(0.5, 2.0, size=n)) * phase
    m[np.arange(n), np.arange(n)] = diag
    if case["tf"] == "perm":
        p = H.perm_matrix(g, n)
        m = p @ m @ p.T
    elif case["tf"] == "scale":
        m = m * ([2, -3, -1] if pol == "tie" else [2, -3, 0.5])[int(g.integers(0, 3))]
    i = case["rowsel"] % n
    a = np.abs(m)
    ri = a[i].sum() - a[i, i]
    intended = True
    if pol == "tie":
        m[i, i] = int(round(ri)) * (1 if g.integers(0, 2) else -1)
        intended = not eff
    elif pol == "neg":
        s = S(m)
        m = m.astype(complex if cplx else float)
        target = ri - 1.002 * case["margin"] * s * 1.01
        m[i, i] = target if target >= 0 else 0.0
        if src == "int" and not cplx and target >= 0 and case["margin"] == 1.0:
            m[i, i] = np.floor(target)
        intended = None if target < 0 else False  # a row with (almost) no off-diagonal mass cannot be broken by margin
    return (m, *args_tail), intended


def _dd_define(m, strict=True):
    return d_dd(m, strict)


_dd = _reg(Pred("is_diagonally_dominant", _tq(MP, "is_diagonally_dominant"), _dd_define, None, tfs=("none", "perm", "scale"), extra=_dd_extra,
                pols=("pos", "neg", "tie", "nonsq")))
_dd.build = _dd_build.__get__(_dd)


def d_density(m):
    if not _sq(m):
        return False
    return and3(d_psd(m), tri(abs(np.trace(m) - 1), 1.0))


def _density_pos(case, g):
    n, cplx = case["n"], case["cplx"]
    rank = int(g.integers(1, n + 1))
    if case["src"] == "int":  # dyadic spectrum in a permuted coordinate basis, exact
        lam = np.zeros(n)
        lam[g.permutation(n)[:rank]] = H.dyadic_row(g, rank, allow_zero=False)
        return np.diag(lam), ()
    return gen.rand_density(int(g.integers(0, 2**62)), n, rank, real=not cplx), ()


def _density_dir(m, case, g):
    n = m.shape[0]
    k = case["kind"]
    if k == 0:  # trace leaves 1
        return np.array(m, dtype=complex if case["cplx"] else float) * (1 if g.integers(0, 2) else -1)
    if k == 1 and n >= 2:  # trace preserved, an eigenvalue goes negative
        u = H.unitary(g, n, case["cplx"])
        return np.outer(u[:, 0], u[:, 0].conj()) - np.outer(u[:, 1], u[:, 1].conj())
    if k == 2 and n >= 2:  # not Hermitian
        e = np.zeros(m.shape, dtype=complex if case["cplx"] else float)
        i, j = g.choice(n, size=2, replace=False)
        e[i, j] = 1
        return e
    e = np.zeros(m.shape)
    e[0, 0] = 1.0
    return e


_reg(Pred("is_density", _tq(MP, "is_density"), d_density, _density_pos, tfs=("none", "unitary", "perm", "T", "conj"), kinds=3, direction=_density_dir, project=H.herm_part))


def _square_build(self, case, g):
    n = case["n"]
    shape = (n, n) if case["pol"] == "pos" else H.nonsquare_shape(g, n)
    return (ent(g, *shape, case["cplx"], case["src"]),), shape[0] == shape[1]


_sqp = _reg(Pred("is_square", _tq(MP, "is_square"), lambda m: m.shape[0] == m.shape[1], None, pols=("pos", "nonsq")))
_sqp.build = _square_build.__get__(_sqp)


# ==============================================================================================
# permutation, circulant, stochastic, non-negative, positive
# ==============================================================================================
def d_perm(m):
    m = np.asarray(m)
    dev = np.minimum(np.abs(m), np.abs(m - 1))
    if mx(dev) >= FALSE_MARGIN:
        return False
    if mx(dev) > 0:
        return None
    rows_ok = np.all(m.sum(axis=1) == 1) and np.all(m.sum(axis=0) == 1)
    return bool(rows_ok)


def _perm_build(self, case, g):
    n, pol, kind = case["n"], case["pol"], case["kind"]
    dt = [np.int64, float, complex][int(g.integers(0, 3))]
    if pol == "nonsq":
        r, c = H.nonsquare_shape(g, n)
        m = np.zeros((r, c), dtype=dt)
        if r < c:
            m[np.arange(r), g.permutation(c)[:r]] = 1  # every row sums to one, some column is empty
        else:
            m[g.permutation(r)[:c], np.arange(c)] = 1
        return (m,), False
    m = H.perm_matrix(g, n, dt)
    if case["tf"] == "perm2":
        m = H.perm_matrix(g, n, dt) @ m @ H.perm_matrix(g, n, dt)
    elif case["tf"] == "T":
        m = m.T.copy()
    if pol == "pos":
        return (m,), True
    i = int(g.integers(0, n))
    j = int(np.argmax(np.abs(m[i])))
    if kind == 0:  # one entry leaves {0,1} by the margin
        m = m.astype(complex if dt is complex else float)
        k = int(g.integers(0, n))
        m[i, k] += case["margin"] * 1.002 * (1 if g.integers(0, 2) else -1)
        return (m,), False
    if kind == 1:  # a one moved inside its row: one column has two ones, another none
        if n == 1:
            m[0, 0] = 0
        else:
            k = (j + 1 + int(g.integers(0, n - 1))) % n
            m[i, j], m[i, k] = 0, 1
        return (m,), False
    if kind == 2:  # a one removed
        m[i, j] = 0
        return (m,), False
    if n == 1:  # kind 3: 2 is not a permutation entry
        return (m * 2,), False
    p2 = np.roll(np.eye(n), 1, axis=1) @ m  # average of two different permutations
    return ((m + p2) / 2,), False


_pm = _reg(Pred("is_permutation", _tq(MP, "is_permutation"), d_perm, None, tfs=("none", "perm2", "T"), kinds=4, cplx=False))
_pm.build = _perm_build.__get__(_pm)


def d_circ(m):
    if not _sq(m):
        return False
    n = m.shape[0]
    if n == 1:
        return True
    res = max(mx(m[i + 1] - np.roll(m[i], 1)) for i in range(n - 1))
    return tri(res, S(m))


def _circ(c):
    n = len(c)
    return np.array([[c[(j - i) % n] for j in range(n)] for i in range(n)])


def _circ_pos(case, g):
    n = case["n"]
    return _circ(ent(g, 1, n, case["cplx"], case["src"])[0]), ()


def _circ_special(case, g):
    if case["pol"] == "neg" and case["kind"] == 2 and case["n"] >= 3:  # anti-circulant (rows rotate to the left)
        n = case["n"]
        c = np.arange(1, n + 1) * (1.0 if not case["cplx"] else (1 + 0.5j))
        c = c[g.permutation(n)]
        return (np.array([[c[(i + j) % n] for j in range(n)] for i in range(n)]),), False
    return None


def _circ_transform(self, m, case, g):
    tf, n = case["tf"], m.shape[0]
    if tf == "mul":
        return m @ _circ(ent(g, 1, n, case["cplx"], case["src"])[0])
    if tf == "add":
        return m + _circ(ent(g, 1, n, case["cplx"], case["src"])[0])
    if tf == "shift":
        p = np.roll(np.eye(n, dtype=np.int64), int(g.integers(0, n)), axis=1)
        return p @ m @ p.T
    return Pred.transform(self, m, case, g)


_cc = _reg(Pred("is_circulant", _tq(MP, "is_circulant"), d_circ, _circ_pos, tfs=("none", "mul", "add", "shift", "scale", "T", "conj"), kinds=3, special=_circ_special))
_cc.transform = _circ_transform.__get__(_cc)


def _nn(m):
    mn = float(np.min(m)) if m.size else 0.0
    return True if mn >= 0 else (False if mn <= -FALSE_MARGIN * S(m) else None)


def d_stoch(m, typ):
    if not _sq(m):
        return False
    res = [_nn(m)]
    if typ in ("left", "doubly"):
        res.append(tri(mx(m.sum(axis=0) - 1), 1.0))
    if typ in ("right", "doubly"):
        res.append(tri(mx(m.sum(axis=1) - 1), 1.0))
    return and3(*res)


def _stoch_extra(draw, case):
    return {"ask": draw(st.sampled_from(["left", "right", "doubly"])), "built": draw(st.sampled_from(["same", "same", "left", "right", "doubly", "perm"]))}


def _stoch_matrix(g, n, built, src):
    if built == "perm":
        return H.perm_matrix(g, n, float if g.integers(0, 2) else np.int64)
    if built == "doubly":
        k = int(g.integers(1, 5))
        w = H.dyadic_row(g, k) if src == "int" else g.dirichlet(np.ones(k))
        return sum(wi * H.perm_matrix(g, n, float) for wi in w)
    rows = np.array([H.dyadic_row(g, n) if src == "int" else g.dirichlet(np.ones(n)) for _ in range(n)])
    return rows if built == "right" else rows.T.copy()


def _stoch_build(self, case, g):
    n, ask = case["n"], case["ask"]
    built = ask if case["built"] == "same" else case["built"]
    if case["pol"] == "nonsq":
        r, c = H.nonsquare_shape(g, n)
        m = np.array([H.dyadic_row(g, c) for _ in range(r)])
        return ((m if ask != "left" else m.T.copy()), ask), False
    m = _stoch_matrix(g, n, built, case["src"])
    if case["tf"] == "perm2":
        m = H.perm_matrix(g, n) @ m @ H.perm_matrix(g, n)
    elif case["tf"] == "T" and ask == "doubly":
        m = m.T.copy()
    intended = True if built in (ask, "doubly", "perm") else None
    if case["pol"] == "neg":
        e = np.zeros((n, n))
        i, j = int(g.integers(0, n)), int(g.integers(0, n))
        if case["kind"] == 0 or n == 1:  # a row and a column sum leave 1
            e[i, j] = 1 if g.integers(0, 2) else -1
        else:  # sums preserved, an entry goes negative: +t / -t on a 2x2 minor
            k, l = (i + 1 + int(g.integers(0, n - 1))) % n, (j + 1 + int(g.integers(0, n - 1))) % n
            e[i, j], e[k, l], e[i, l], e[k, j] = -1, -1, 1, 1
        x = H.push(np.asarray(m, dtype=float), e, d_stoch, case["margin"], (ask,))
        if x is not None:
            return (x, ask), False
    return (m, ask), intended


_stp = _reg(Pred("is_stochastic", _tq(MP, "is_stochastic"), d_stoch, None, tfs=("none", "perm2", "T"), kinds=2, extra=_stoch_extra, cplx=False))
_stp.build = _stoch_build.__get__(_stp)


def d_nonneg(m, typ):
    if typ == "positive":
        mn = float(np.min(m))
        return True if mn >= FALSE_MARGIN * S(m) else (False if (mn == 0 or mn <= -FALSE_MARGIN * S(m)) else None)
    if typ == "nonnegative":
        return _nn(m)
    return and3(_nn(m), d_psd(m))


def _nonneg_call(m, typ):
    import toqito.matrix_props as mp

    if typ == "positive":
        return mp.is_positive(m)
    if typ == "default":
        return mp.is_nonnegative(m)
    return mp.is_nonnegative(m, typ)


def _nonneg_extra(draw, case):
    return {"typ": draw(st.sampled_from(["nonnegative", "default", "doubly", "doubly", "positive"]))}


def _nonneg_build(self, case, g):
    n, typ, src = case["n"], case["typ"], case["src"]
    dtyp = "nonnegative" if typ == "default" else typ
    if case["pol"] == "nonsq":  # rectangular non-negative matrix: fine for entrywise types, never PSD
        r, c = H.nonsquare_shape(g, n)
        m = np.abs(ent(g, r, c, False, src)) + (1 if typ == "positive" else 0)
        return (m, typ), (typ != "doubly")
    if typ == "doubly":
        fam = int(g.integers(0, 3))
        b = np.abs(ent(g, n, int(g.integers(1, n + 1)), False, src))
        if fam == 0:  # completely positive: entrywise >= 0 and PSD
            m, intended = b @ b.T, True
        elif fam == 1 and n >= 2:  # entrywise >= 0, symmetric, hollow: trace 0, hence an eigenvalue < 0 unless zero
            x = np.abs(ent(g, n, n, False, src)) + 1
            m = x + x.T
            m[np.arange(n), np.arange(n)] = 0
            intended = False
        else:  # PSD with exact zero pattern
            m, intended = np.diag(np.abs(ent(g, 1, n, False, src))[0]), True
    else:
        m = np.abs(ent(g, n, n, False, src))
        if typ == "positive":
            m = m + (1 if src == "int" else 0.01)
        intended = True
    if case["tf"] == "perm":
        p = H.perm_matrix(g, n)
        m = p @ m @ p.T
    elif case["tf"] == "pscale":
        m = m * [2, 3, 0.5][int(g.integers(0, 3))]
    if case["pol"] == "neg" and intended:
        i, j = int(g.integers(0, n)), int(g.integers(0, n))
        if typ == "positive" and case["kind"] == 1:  # an exact zero entry is not positive
            m = np.array(m)
            m[i, j] = 0
            return (m, typ), False
        e = np.zeros((n, n))
        e[i, j] = e[j, i] = -1
        x = H.push(np.asarray(m, dtype=float), e, d_nonneg, case["margin"], (dtyp,))
        if x is not None:
            return (x, typ), False
    return (m, typ), intended


_nnp = _reg(Pred("is_nonnegative", _nonneg_call, lambda m, typ: d_nonneg(m, "nonnegative" if typ == "default" else typ), None, tfs=("none", "perm", "pscale"), kinds=2,
                 extra=_nonneg_extra, cplx=False))
_nnp.build = _nonneg_build.__get__(_nnp)


# ==============================================================================================
# commuting pairs
# ==============================================================================================
def d_commuting(a, b):
    ab, ba = a @ b, b @ a
    return tri(mx(ab - ba), S(ab, ba))


def _poly(x, coef):
    out = np.zeros_like(x)
    p = np.eye(x.shape[0], dtype=x.dtype)
    for c in coef:
        out = out + c * p
        p = p @ x
    return out


def _comm_pos(case, g):
    n, cplx, src = case["n"], case["cplx"], case["src"]
    fam = int(g.integers(0, 3))
    if src == "int":
        if fam == 0 and n <= 4:  # two polynomials in one small integer matrix: exact
            x = ent(g, n, n, cplx, "int", -1, 1)
            a, b = _poly(x, g.integers(-2, 3, size=3)), _poly(x, g.integers(-2, 3, size=3))
        else:  # simultaneously diagonal in a unimodular basis: exact integers
            s, si = H.unimodular(g, n)
            a = s @ np.diag(g.integers(-3, 4, size=n)) @ si
            b = s @ np.diag(g.integers(-3, 4, size=n)) @ si
        return a, (b,)
    u = H.unitary(g, n, cplx)
    if fam == 0:  # commuting normal matrices
        a = (u * _spectrum(g, n, cplx, "gauss")) @ dag(u)
        b = (u * _spectrum(g, n, cplx, "gauss")) @ dag(u)
    elif fam == 1:  # non-normal: polynomials in a generic matrix
        x = ent(g, n, n, cplx, "gauss") / max(1, n)
        a, b = _poly(x, g.normal(size=3)), _poly(x, g.normal(size=3))
    else:  # A (x) I and I (x) B style: block structure
        a = (u * _spectrum(g, n, cplx, "gauss")) @ dag(u)
        b = np.eye(n) * float(g.normal())
    return a, (b,)


def _comm_build(self, case, g):
    n = case["n"]
    a, (b,) = _comm_pos(case, g)
    if case["tf"] == "unitary":
        u = H.unitary(g, n, case["cplx"])
        a, b = u @ a @ dag(u), u @ b @ dag(u)
    elif case["tf"] == "swap":
        a, b = b, a
    elif case["tf"] == "adj":
        a, b = dag(a), dag(b)
    if case["pol"] == "neg":
        e = self.default_direction(b, case, g)
        # push B only: define(B + tE) with A fixed
        x = H.push(b, e, lambda bb, aa: d_commuting(aa, bb), case["margin"], (a,), start_scale=S(a @ b, b @ a))
        if x is not None:
            return (a, x), False
    return (a, b), True


_cm = _reg(Pred("is_commuting", _tq(MP, "is_commuting"), d_commuting, None, tfs=("none", "unitary", "swap", "adj"), kinds=2, pols=("pos", "neg")))
_cm.build = _comm_build.__get__(_cm)


# ==============================================================================================
# vector-set predicates of matrix_props: orthonormal, linearly independent; totally positive
# ==============================================================================================
def d_orthonormal(v):
    gm = v.conj() @ v.T  # gm[i, j] = <v_j, v_i>
    return tri(mx(gm - np.eye(v.shape[0])), S(gm))


def _on_extra(draw, case):
    return {"k": draw(st.sampled_from([2, 3, 1, 4, 5, 6])), "form": draw(st.sampled_from(["array", "array_int"]))}


def _on_build(self, case, g):
    n, cplx = case["n"], case["cplx"]
    n = max(n, 2)
    k = max(2, min(case["k"] + 1, n))
    if case["src"] == "int" and case["form"] == "array_int" and not cplx:
        v = (H.perm_matrix(g, n) * np.where(g.integers(0, 2, size=n) == 1, 1, -1))[:k]  # signed coordinate vectors
    else:
        v = H.unitary(g, n, cplx)[:k]
    if case["tf"] == "unitary":
        v = v @ H.unitary(g, n, cplx)
    elif case["tf"] == "perm":
        v = v[g.permutation(k)]
    elif case["tf"] == "phase":
        ph = np.exp(1j * g.uniform(0, 2 * np.pi, size=k)) if cplx else np.where(g.integers(0, 2, size=k) == 1, 1.0, -1.0)
        v = v * ph[:, None]
    if case["pol"] == "neg":
        i, j = g.choice(k, size=2, replace=False)
        e = np.zeros(v.shape, dtype=complex if cplx else float)
        if case["kind"] == 0:  # orthogonal but one vector is not normalised
            e[i] = v[i]
        elif case["kind"] == 1:  # normalised-ish but two vectors overlap
            e[i] = v[j]
        else:
            e = g.normal(size=v.shape)
            e = e / mx(e)
        x = H.push(np.asarray(v, dtype=e.dtype if not np.iscomplexobj(v) else complex), e, d_orthonormal, case["margin"])
        if x is not None:
            return (x,), False
    return (v,), True


_on = _reg(Pred("is_orthonormal", _tq(MP, "is_orthonormal"), d_orthonormal, None, tfs=("none", "unitary", "perm", "phase"), kinds=3, extra=_on_extra, pols=("pos", "neg"), nmin=2))
_on.build = _on_build.__get__(_on)


def _li_define(vectors, truth):
    return truth


def _li_extra(draw, case):
    return {"k": draw(st.integers(1, 7)), "form": draw(st.sampled_from(["1d", "col", "mixed_list"]))}


def _li_build(self, case, g):
    """ground truth by construction: k <= n columns of a well-conditioned matrix (independent), or an exact integer
    dependency / more vectors than the dimension (dependent)."""
    n, cplx, src = case["n"], case["cplx"], case["src"]
    k = case["k"]
    if case["pol"] == "pos":
        k = min(k, n)
        if src == "int":  # integer, exactly independent: columns of a unimodular matrix
            s, _ = H.unimodular(g, n)
            m = s[:, g.permutation(n)[:k]].astype(complex if cplx else np.int64)
            if cplx:
                m = m * np.array([1, 1j, -1, 1 + 1j])[g.integers(0, 4, size=k)]
        else:
            u, v = H.unitary(g, n, cplx), H.unitary(g, k, cplx)
            m = (u[:, :k] * g.uniform(0.5, 2.0, size=k)) @ v
        truth = True
    else:
        if case["kind"] == 0 or n == 1:  # more vectors than dimensions
            k = n + 1 + (k % 2)
            m = ent(g, n, k, cplx, src)
        else:  # planted exact integer dependency among k <= n+? vectors
            k = max(2, min(k, n + 1))
            base = ent(g, n, k - 1, cplx, "int")
            coef = ent(g, k - 1, 1, cplx, "int", -2, 2)
            if case["kind"] == 2:
                coef[:] = 0  # the zero vector
            m = np.concatenate([base, base @ coef], axis=1)[:, g.permutation(k)]
        truth = False
    if case["tf"] == "unitary" and not (truth is False and src == "int" and case["kind"] != 0):
        m = H.unitary(g, n, cplx) @ m
    elif case["tf"] == "perm":
        m = m[:, g.permutation(m.shape[1])]
    elif case["tf"] == "scale":
        m = m * g.integers(1, 4, size=m.shape[1])
    # guard: the computed smallest singular value must be far from numpy's rank threshold on the stated side
    sv = np.linalg.svd(m, compute_uv=False)
    thr = sv.max() * max(m.shape) * np.finfo(float).eps if sv.size else 0
    if truth and sv.min() < 1e3 * thr:
        raise Inconclusive("independent set too ill-conditioned for a rank decision")
    if not truth and m.shape[1] <= m.shape[0] and sv.min() > thr / 4:
        raise Inconclusive("rounding noise of an exactly dependent set is close to the rank threshold")
    cols = [m[:, j] for j in range(m.shape[1])]
    if case["form"] == "col":
        cols = [c.reshape(-1, 1) for c in cols]
    return (cols, truth), truth


_li = _reg(Pred("is_linearly_independent", lambda vs, truth: _tq(MP, "is_linearly_independent")(vs), _li_define, None, tfs=("none", "unitary", "perm", "scale"), kinds=3,
                extra=_li_extra, pols=("pos", "neg")))
_li.build = _li_build.__get__(_li)


def _li_check(self, case):
    g = gen.rng(case["seed"])
    (cols, truth), _ = self.build(case, g)
    out = self.call(cols, truth)
    req(bool(out) == truth, f"is_linearly_independent returned {out!r} for {len(cols)} vectors in dimension {len(cols[0])} that are "
        f"{'independent' if truth else 'dependent'} by construction (kind={case['kind']}, tf={case['tf']})", f"is_linearly_independent:{'says-false' if truth else 'says-true'}")


_li.check = _li_check.__get__(_li)


def _tp_extra(draw, case):
    return {"fam": draw(st.sampled_from(["vandermonde", "pascal", "bidiagonal", "random", "tn"])), "sub": draw(st.sampled_from([None, None, [1], [2], [1, 2], [2, 3]])),
            "rect": draw(st.integers(0, 2))}


def _tp_matrix(case, g):
    n = min(case["n"], 4)
    fam = case["fam"]
    if fam == "vandermonde":
        nodes = np.sort(g.choice(np.arange(1, 6), size=n, replace=False))
        m = np.array([[int(x) ** j for j in range(n)] for x in nodes], dtype=np.int64)
    elif fam == "pascal":
        from math import comb

        m = np.array([[comb(i + j, i) for j in range(n)] for i in range(n)], dtype=np.int64)
    elif fam in ("bidiagonal", "tn"):  # Whitney factorisation: products of elementary bidiagonal matrices with positive weights
        m = np.diag(g.integers(1, 3, size=n)).astype(np.int64)
        for sweep in range(n - 1):
            for i in range(n - 1, sweep, -1):
                w = int(g.integers(0 if fam == "tn" else 1, 3))
                lo = np.eye(n, dtype=np.int64)
                lo[i, i - 1] = w
                up = np.eye(n, dtype=np.int64)
                up[i - 1, i] = int(g.integers(0 if fam == "tn" else 1, 3))
                m = lo @ m @ up
    else:
        m = g.integers(-1, 5, size=(n, n)).astype(np.int64)
    return m


def _tp_build(self, case, g):
    m = _tp_matrix(case, g)
    n = m.shape[0]
    if case["pol"] == "neg" and n >= 2:
        if case["kind"] == 0:  # swap two rows: some 2x2 minors change sign
            i, j = g.choice(n, size=2, replace=False)
            m[[i, j]] = m[[j, i]]
        elif case["kind"] == 1:  # one entry negated
            i, j = int(g.integers(0, n)), int(g.integers(0, n))
            m[i, j] = -m[i, j]
        elif case["kind"] == 2:  # two equal rows: zero minors
            i, j = g.choice(n, size=2, replace=False)
            m[i] = m[j]
        else:
            # one entry raised (kind 3) or lowered but kept positive (kind 4): only the few minors through that entry
            # can turn non-positive, and which ones depends on where the entry sits (above / below the diagonal) - a
            # verdict that skips part of the (row set, column set) grid is exposed by these and by nothing coarser
            i, j = int(g.integers(0, n)), int(g.integers(0, n))
            if case["kind"] == 3:
                m[i, j] += int(g.integers(1, 2 * int(np.abs(m).max()) + 2))
            else:
                m[i, j] = max(1, int(m[i, j]) - int(g.integers(1, abs(int(m[i, j])) + 2)))
    if case["rect"] == 1 and n >= 2:
        m = m[: n - 1]
    elif case["rect"] == 2 and n >= 2:
        m = m[:, : n - 1]
    if case["tf"] == "T":
        m = m.T.copy()
    elif case["tf"] == "flip":
        m = m[::-1, ::-1].copy()
    elif case["tf"] == "dscale":
        m = np.diag(g.integers(1, 4, size=m.shape[0])) @ m @ np.diag(g.integers(1, 4, size=m.shape[1]))
    sub = case["sub"]
    if sub is not None:
        sub = [k for k in sub if k <= min(m.shape)] or None
    if case["cplx"]:
        m = m.astype(complex)
        if case["pol"] == "neg" and case["kind"] == 1:
            m[0, 0] += 1j * case["margin"] * 1.002 * 10  # an entry with a clearly non-zero imaginary part
    if case["src"] == "gauss" and not case["cplx"]:
        m = m.astype(float)
    return (m, sub), None


def d_tp(m, sub):
    if np.iscomplexobj(m) and mx(m.imag) > 0:
        if sub is None or 1 in sub:
            return False if mx(m.imag) >= 1e-3 else None
        return None
    mi = np.real(m).astype(np.int64)
    sizes = list(sub) if sub is not None else list(range(1, min(mi.shape) + 1))
    big = [k for k in sizes if k >= 2]
    # integer matrix: every minor is an integer, positive iff >= 1 (toqito's tol is 1e-6)
    if big and H.exact_min_minor(mi, big)[0] <= 0:
        return False
    if 1 in sizes:
        if mi.min() <= -1:
            return False
        if mi.min() == 0:
            return None  # a zero entry sits exactly on the boundary of the 1x1 rule (entries >= -tol are accepted)
    return True


def _tp_call(m, sub):
    f = _tq(MP, "is_totally_positive")
    return f(m) if sub is None else f(m, sub_sizes=list(sub))


_tp = _reg(Pred("is_totally_positive", _tp_call, d_tp, None, tfs=("none", "T", "flip", "dscale"), kinds=5, extra=_tp_extra, pols=("pos", "neg"), nmax=4))
_tp.build = _tp_build.__get__(_tp)


# ==============================================================================================
# state-set predicates
# ==============================================================================================
def _verdict(name, out, truth, detail, tag=""):
    req(bool(out) == truth, f"{name} returned {out!r} where the definition gives {truth}: {detail}", f"{name}:{'says-false' if truth else 'says-true'}{tag}")


def _nt_basic(case):
    n = case.get("n", 0)
    if case.get("pol") == "neg" and case.get("margin") == 1e-3 and n >= 2:
        return "neg@1e-3" + (",complex" if case.get("cplx") else "")
    if case.get("cplx") and n >= 3:
        return f"{case.get('pol')},complex,n>=3"
    if case.get("tf", "none") != "none" and n >= 3:
        return f"{case.get('pol')},transformed,n>=3"
    return None


@st.composite
def _state_case(draw, tfs=("none", "unitary", "perm"), kinds=2, nmin=1, extra=None):
    case = {
        "n": draw(_sizes(nmin, 6)),
        "cplx": draw(st.booleans()),
        "src": draw(st.sampled_from(["int", "gauss"])),
        "pol": draw(st.sampled_from(["pos", "neg"])),
        "kind": draw(st.integers(0, kinds - 1)),
        "margin": draw(st.sampled_from(MARGINS)),
        "tf": draw(st.sampled_from(tfs)),
        "count": draw(st.sampled_from([0, 1, 2, 3, 4])),
        "seed": draw(gen.SEED),
    }
    if extra:
        case.update(extra(draw, case))
    return case


def _state_with_spectrum(g, n, lam, cplx, src):
    """density matrix with the given spectrum (exact diagonal in a permuted basis for src == 'int')."""
    lam = np.asarray(lam, dtype=float)
    if src == "int":
        d = np.zeros(n)
        d[g.permutation(n)] = lam
        return np.diag(d)
    u = H.unitary(g, n, cplx)
    return H.herm_part((u * lam) @ dag(u))


def _mixed_spectrum(g, n, margin):
    """spectrum with largest eigenvalue <= 1 - margin (n >= 2), summing to 1."""
    top = 1 - 1.002 * margin if g.integers(0, 2) else float(g.uniform(1.0 / n, 1 - 1.002 * margin)) if 1.0 / n < 1 - 1.002 * margin else 1.0 / n
    top = max(top, 1.0 / n)
    rest = g.dirichlet(np.ones(n - 1)) * (1 - top)
    if rest.max() > top:  # keep `top` the largest: flatten
        rest[:] = (1 - top) / (n - 1)
    return np.concatenate([[top], rest])


def _pure_states(case, g):
    """-> (list of density matrices, all_pure?)"""
    n, cplx, src = case["n"], case["cplx"], case["src"]
    k = case["count"] + 1
    lst = [_state_with_spectrum(g, n, [1.0] + [0.0] * (n - 1), cplx, src) for _ in range(k)]
    truth = True
    if case["pol"] == "neg" and n >= 2:
        lam = _mixed_spectrum(g, n, case["margin"])
        if lam.max() <= 1 - FALSE_MARGIN:
            lst[int(g.integers(0, k))] = _state_with_spectrum(g, n, lam, cplx, src)
            truth = False
    if case["tf"] == "unitary":
        u = H.unitary(g, n, cplx)
        lst = [H.herm_part(u @ r @ dag(u)) for r in lst]
    elif case["tf"] == "perm":
        lst = [lst[i] for i in g.permutation(k)]
    return lst, truth


def check_pure_mixed(case):
    from toqito.state_props import is_mixed, is_pure

    g = gen.rng(case["seed"])
    lst, truth = _pure_states(case, g)
    lam_max = [float(np.linalg.eigvalsh(r)[-1]) for r in lst]
    oracle = and3(*[tri(abs(l - 1), 1.0) for l in lam_max])
    if oracle is None:
        raise Inconclusive("largest eigenvalue between 1-1e-3 and 1-1e-12")
    if oracle != truth:
        raise HarnessError(f"pure/mixed builder intended {truth}, spectra say {oracle}")
    detail = f"{len(lst)} state(s) of dimension {case['n']}, largest eigenvalues {np.round(lam_max, 6).tolist()}"
    if case["form"] == "list":
        _verdict("is_pure", is_pure(lst), truth, "list form; " + detail)
    else:
        for r, l in zip(lst, lam_max):
            t = abs(l - 1) <= 1e-12
            _verdict("is_pure", is_pure(r), t, detail)
            _verdict("is_mixed", is_mixed(r), not t, detail)
        if case["form"] == "single_and_list":
            _verdict("is_mixed", is_mixed(lst), not truth, "list form; " + detail)


def _ensemble(case, g):
    n, cplx, src = case["n"], case["cplx"], case["src"]
    k = case["count"] + 1
    w = H.dyadic_row(g, k) if src == "int" else g.dirichlet(np.ones(k))
    lst = []
    for wi in w:
        rank = int(g.integers(1, n + 1))
        lam = np.concatenate([H.dyadic_row(g, rank) if src == "int" else g.dirichlet(np.ones(rank)), np.zeros(n - rank)])
        lst.append(wi * _state_with_spectrum(g, n, lam, cplx, src))
    truth = True
    if case["pol"] == "neg":
        i = int(g.integers(0, k))
        eps = 1.002 * case["margin"]
        if case["kind"] == 0 or n == 1:  # total trace leaves 1
            v = H.unit_vec(g, n, cplx)
            lst[i] = lst[i] + eps * np.outer(v, v.conj())
        else:  # traces still sum to 1 but one member is not PSD
            u = H.unitary(g, n, cplx)
            lam_top = float(np.linalg.eigvalsh(lst[i])[-1])
            t = eps * max(1.0, S(lst[i])) + lam_top  # certainly below -margin in direction u1
            lst[i] = lst[i] + t * (np.outer(u[:, 0], u[:, 0].conj()) - np.outer(u[:, 1], u[:, 1].conj()))
        truth = False
    if case["tf"] == "unitary":
        u = H.unitary(g, n, cplx)
        lst = [H.herm_part(u @ r @ dag(u)) for r in lst]
    elif case["tf"] == "perm":
        lst = [lst[i] for i in g.permutation(k)]
    return lst, truth


def check_ensemble(case):
    from toqito.state_props import is_ensemble

    g = gen.rng(case["seed"])
    lst, truth = _ensemble(case, g)
    oracle = and3(tri(abs(sum(np.trace(r) for r in lst) - 1), 1.0), *[d_psd(r) for r in lst])
    if oracle is None:
        raise Inconclusive("residual between 1e-12 and 1e-3 (nothing asserted)")
    if oracle != truth:
        raise HarnessError(f"ensemble builder intended {truth}, definition says {oracle}: {case}")
    _verdict("is_ensemble", is_ensemble(lst), truth, f"{len(lst)} operators of dimension {case['n']}, kind={case['kind']}, tf={case['tf']}")


def _mo_extra(draw, case):
    return {"form": draw(st.sampled_from(["1d", "col", "array"]))}


def check_mutually_orthogonal(case):
    from toqito.state_props import is_mutually_orthogonal

    g = gen.rng(case["seed"])
    n, cplx = max(case["n"], 2), case["cplx"]
    k = max(2, min(case["count"] + 2, n))
    if case["src"] == "int":
        v = (H.perm_matrix(g, n) * g.integers(1, 4, size=n))[:k].astype(complex if cplx else np.int64)
    else:
        v = H.unitary(g, n, cplx)[:k] * g.uniform(0.3, 3.0, size=(k, 1))  # orthogonal, not normalised
    if case["tf"] == "unitary":
        v = v @ H.unitary(g, n, cplx)
    elif case["tf"] == "perm":
        v = v[g.permutation(k)]
    elif case["tf"] == "scale":
        v = v * (np.exp(1j * g.uniform(0, 6.28, size=(k, 1))) if cplx else np.where(g.integers(0, 2, size=(k, 1)) == 1, 2.0, -0.5))
    if case["pol"] == "neg":
        i, j = g.choice(k, size=2, replace=False)
        e = np.zeros(v.shape, dtype=complex if cplx else float)
        e[i] = v[j] / np.linalg.norm(v[j]) ** 2 / max(np.linalg.norm(v[i]), 1e-300) if case["kind"] == 0 else g.normal(size=n)

        def define(x):
            gm = x.conj() @ x.T
            return tri(mx(gm - np.diag(np.diag(gm))), S(gm))

        x = H.push(v.astype(e.dtype), e, define, case["margin"])
        v = x if x is not None else v
    gm = v.conj() @ v.T
    truth = tri(mx(gm - np.diag(np.diag(gm))), S(gm))
    if truth is None:
        raise Inconclusive("residual between 1e-12 and 1e-3 (nothing asserted)")
    vecs = [v[i] for i in range(k)] if case["form"] == "1d" else ([v[i].reshape(-1, 1) for i in range(k)] if case["form"] == "col" else v)
    _verdict("is_mutually_orthogonal", is_mutually_orthogonal(vecs), truth, f"{k} vectors in dimension {n}, max off-diagonal overlap {mx(gm - np.diag(np.diag(gm))):.3g}, form={case['form']}")


# ---- mutually unbiased bases -------------------------------------------------------------------
def _mub_bases(d):
    """complete set of d+1 MUBs for prime d (computational basis + quadratic-phase bases), as a list of d x d arrays
    whose COLUMNS are the basis vectors; for other d the computational and the Fourier basis."""
    w = np.exp(2j * np.pi / d)
    comp = np.eye(d, dtype=complex)
    if d == 2:
        return [comp, np.array([[1, 1], [1, -1]]) / np.sqrt(2), np.array([[1, 1], [1j, -1j]]) / np.sqrt(2)]
    if d in (3, 5):
        out = [comp]
        for k in range(d):
            out.append(np.array([[w ** ((k * l * l + j * l) % d) for j in range(d)] for l in range(d)]) / np.sqrt(d))
        return out
    return [comp, np.array([[w ** ((j * l) % d) for j in range(d)] for l in range(d)]) / np.sqrt(d)]


def _mub_extra(draw, case):
    return {"nb": draw(st.integers(2, 6)), "form": draw(st.sampled_from(["1d", "col"])), "lib": draw(st.booleans())}


def check_mub(case):
    from toqito.state_props import is_mutually_unbiased_basis

    g = gen.rng(case["seed"])
    d = max(case["n"], 2)
    if case["lib"] and d in (2, 3, 5):
        from toqito.states import mutually_unbiased_basis

        flat = mutually_unbiased_basis(d)
        bases = [np.array(flat[i * d : (i + 1) * d]).T for i in range(d + 1)]
    else:
        bases = _mub_bases(d)
    nb = min(case["nb"], len(bases))
    bases = [bases[i] for i in g.permutation(len(bases))[:nb]]
    if case["tf"] == "unitary":
        u = H.unitary(g, d, True)
        bases = [u @ b for b in bases]
    elif case["tf"] == "perm":
        bases = [b[:, g.permutation(d)] for b in bases]
    elif case["tf"] == "phase":
        bases = [b * np.exp(1j * g.uniform(0, 2 * np.pi, size=d)) for b in bases]
    if case["pol"] == "neg":
        i = int(g.integers(0, nb))
        if case["kind"] == 0:  # one basis rotated by a small unitary exp(i t K): still orthonormal, no longer unbiased
            x = g.normal(size=(d, d)) + 1j * g.normal(size=(d, d))
            k = H.herm_part(x)
            w, q = np.linalg.eigh(k / np.linalg.norm(k, 2))
            t = 4 * d * case["margin"]
            bases[i] = (q * np.exp(1j * t * w)) @ dag(q) @ bases[i]
        else:  # a basis repeated: overlaps are 0 / 1
            bases[i] = bases[(i + 1) % nb].copy()
    dev = 0.0
    for a in range(nb):
        for b in range(a + 1, nb):
            dev = max(dev, mx(np.abs(dag(bases[a]) @ bases[b]) ** 2 - 1.0 / d))
    truth = tri(dev, 1.0)
    if truth is None:
        raise Inconclusive("overlap deviation between 1e-12 and 1e-3 (nothing asserted)")
    vecs = [b[:, j] for b in bases for j in range(d)]
    if case["form"] == "col":
        vecs = [v.reshape(-1, 1) for v in vecs]
    _verdict("is_mutually_unbiased_basis", is_mutually_unbiased_basis(vecs), truth, f"{nb} bases in dimension {d}, max deviation of |<u,v>|^2 from 1/d = {dev:.3g}")
    if truth and nb * d % d == 0 and d >= 2 and case["kind"] == 1 and case["pol"] == "pos":
        # a number of vectors that is not a multiple of d cannot be a set of bases
        _verdict("is_mutually_unbiased_basis", is_mutually_unbiased_basis(vecs[:-1]), False, f"{nb * d - 1} vectors in dimension {d}", ":count")


# ---- unextendible product bases ------------------------------------------------------------------
def _upb_family(name):
    """-> (list of lists of local vectors, dims)"""
    e = np.eye(3)
    if name == "tiles":
        loc = [
            [e[0], (e[0] - e[1]) / np.sqrt(2)],
            [(e[0] - e[1]) / np.sqrt(2), e[2]],
            [e[2], (e[1] - e[2]) / np.sqrt(2)],
            [(e[1] - e[2]) / np.sqrt(2), e[0]],
            [(e[0] + e[1] + e[2]) / np.sqrt(3), (e[0] + e[1] + e[2]) / np.sqrt(3)],
        ]
        return loc, [3, 3]
    if name == "pyramid":
        h = 0.5 * np.sqrt(1 + np.sqrt(5))
        nrm = 2 / np.sqrt(5 + np.sqrt(5))
        v = [nrm * np.array([np.cos(2 * np.pi * i / 5), np.sin(2 * np.pi * i / 5), h]) for i in range(5)]
        return [[v[i], v[(2 * i) % 5]] for i in range(5)], [3, 3]
    z0, z1 = np.array([1.0, 0]), np.array([0, 1.0])
    p, m = (z0 + z1) / np.sqrt(2), (z0 - z1) / np.sqrt(2)
    return [[z0, z0, z0], [p, z1, m], [z1, m, p], [m, p, z1]], [2, 2, 2]  # Shifts


def _upb_strategy(families, cplx):
    """cplx: False = real inputs only, True = complex local unitaries / phases only."""

    def extra(draw, case):
        case["cplx"] = cplx
        if cplx:
            case["tf"] = draw(st.sampled_from(["local_unitary", "all", "phase"]))
        return {"family": draw(st.sampled_from(families)), "drop": draw(st.integers(0, 4)), "form": draw(st.sampled_from(["1d", "col"])),
                "dims_sel": draw(st.integers(0, 7))}

    return _state_case(tfs=("none", "local_unitary", "order", "phase", "all"), extra=extra)


def check_upb(case):
    from toqito.state_props import is_unextendible_product_basis

    g = gen.rng(case["seed"])
    cplx, fam = case["cplx"], case["family"]
    pol = case["pol"]
    if fam in ("product_subset", "qubit_x", "unequal"):
        # a subset of a full product basis {a_i (x) b_j}: with at most sum(d_i - 1) members, or with a qubit factor in a
        # bipartite system, an orthogonal product basis is always extendible
        if fam == "qubit_x":  # unequal local dimensions, one of them a qubit
            dims = [[2, 3], [3, 2], [2, 4], [4, 2], [2, 3], [3, 2], [2, 5], [4, 2]][case["dims_sel"]]
        elif fam == "unequal":
            dims = [[3, 4], [4, 3], [3, 5], [5, 3], [3, 4], [4, 3], [4, 5], [5, 4]][case["dims_sel"]]
        else:
            dims = [[2, 2], [3, 3], [4, 4], [3, 3], [2, 2], [3, 3], [4, 4], [5, 5]][case["dims_sel"]]
        full = [(i, j) for i in range(dims[0]) for j in range(dims[1])]
        cap = dims[0] * dims[1] - 1 if 2 in dims else dims[0] + dims[1] - 2
        size = int(g.integers(1, cap + 1))
        idx = [full[t] for t in g.permutation(len(full))[:size]]
        loc = [[np.eye(dims[0])[i], np.eye(dims[1])[j]] for i, j in idx]
        truth = False
    else:
        loc, dims = _upb_family("tiles" if fam == "tiles_lib" else fam)
        truth = True
        if pol == "neg":
            loc = [l for t, l in enumerate(loc) if t != case["drop"] % len(loc)]
            truth = False
    us = [H.unitary(g, d, cplx) if case["tf"] in ("local_unitary", "all") else np.eye(d) for d in dims]
    from tqv import ref

    vecs = [ref.kron_all([(u @ f).reshape(-1, 1) for u, f in zip(us, l)])[:, 0] for l in loc]
    if fam == "tiles_lib" and case["tf"] == "none" and truth:
        from toqito.states import tile

        vecs = [tile(i).reshape(-1) for i in range(5)]
    if case["tf"] in ("order", "all"):
        vecs = [vecs[i] for i in g.permutation(len(vecs))]
    if case["tf"] in ("phase", "all"):
        vecs = [v * (np.exp(1j * float(g.uniform(0, 6.28))) if cplx else (-1.0) ** int(g.integers(0, 2))) * float(g.uniform(0.5, 2.0)) for v in vecs]
    arg = [v.reshape(-1, 1) for v in vecs] if case["form"] == "col" else vecs
    try:
        res = is_unextendible_product_basis(arg, list(dims))
    except ValueError as exc:
        if "not a product state" in str(exc):
            raise Inconclusive("is_product rejected a rounded product vector") from None
        raise
    req(isinstance(res, tuple) and len(res) == 2, f"return value is not a (verdict, witness) pair: {res!r}", "is_unextendible_product_basis:return-form")
    verdict, wit = res
    what = f"{fam} ({len(vecs)} vectors, dims {dims}, tf={case['tf']}, complex={cplx})"
    _verdict("is_unextendible_product_basis", verdict, truth, what)
    if truth:
        req(wit is None, f"a UPB came with a witness: {what}", "is_unextendible_product_basis:witness-for-upb")
        return
    req(wit is not None, f"no witness returned for an extendible product basis: {what}", "is_unextendible_product_basis:witness-missing")
    w = np.asarray(wit).reshape(-1)
    req(w.size == int(np.prod(dims)) and np.linalg.norm(w) > 1e-6, f"witness has {w.size} entries / zero norm: {what}", "is_unextendible_product_basis:witness-shape")
    w = w / np.linalg.norm(w)
    # product across the cut 1 | rest ... : every bipartition of a product vector has Schmidt rank one
    t = w.reshape(dims)
    for ax in range(len(dims)):
        sv = np.linalg.svd(np.moveaxis(t, ax, 0).reshape(dims[ax], -1), compute_uv=False)
        req(sv.size < 2 or sv[1] <= 1e-9, f"witness is not a product vector (second Schmidt coefficient {sv[1] if sv.size > 1 else 0:.3g}): {what}", "is_unextendible_product_basis:witness-not-product")
    ov = max(abs(np.vdot(v / np.linalg.norm(v), w)) for v in vecs)
    if ov > 1e-9:
        ovc = max(abs(np.vdot(v / np.linalg.norm(v), w.conj())) for v in vecs)
        sig = "is_unextendible_product_basis:witness-orthogonal-to-conjugates" if ovc <= 1e-9 else "is_unextendible_product_basis:witness-not-orthogonal"
        raise Violation(f"the returned witness has overlap {ov:.3g} with a member of the set (its complex conjugate has overlap {ovc:.3g}): {what}", sig)


def _nt_upb(case):
    if case["tf"] in ("local_unitary", "all"):
        return f"{case['family']},{case['pol']},local-unitary" + (",complex" if case["cplx"] else "")
    if case["pol"] == "neg" or case["family"] in ("product_subset", "qubit_x", "unequal"):
        return f"{case['family']},extendible"
    return None


# ==============================================================================================
# helper identities: vec / unvec / tensor
# ==============================================================================================
def _close(a, b, scale=None, tol=1e-9):
    a, b = np.asarray(a), np.asarray(b)
    if a.shape != b.shape:
        return False
    return bool(mx(a - b) <= tol * (scale if scale is not None else S(a, b)))


@st.composite
def _vec_case(draw):
    return {"r": draw(_sizes()), "c": draw(_sizes()), "p": draw(_sizes()), "q": draw(_sizes()), "cplx": draw(st.booleans()),
            "src": draw(st.sampled_from(["label", "int", "gauss"])), "seed": draw(gen.SEED)}


def check_vec_unvec(case):
    from toqito.matrix_ops import unvec, vec

    g = gen.rng(case["seed"])
    r, c = case["r"], case["c"]
    if case["src"] == "label":
        x = np.arange(r * c, dtype=np.int64).reshape(r, c)
        if case["cplx"]:
            x = x + 1j * x[::-1, ::-1]
    else:
        x = ent(g, r, c, case["cplx"], case["src"])
    v = vec(x)
    req(v.shape == (r * c, 1), f"vec of a {r}x{c} matrix has shape {v.shape}", "vec:shape")
    col_stack = np.concatenate([x[:, j] for j in range(c)]).reshape(-1, 1)
    req(np.array_equal(v, col_stack), "vec(X) is not the stack of the columns of X", "vec:order")
    back = unvec(v, [r, c])
    req(back.shape == (r, c) and np.array_equal(back, x), "unvec(vec(X), shape) != X", "unvec:roundtrip")
    if r == c:
        req(np.array_equal(unvec(v), x), "unvec(vec(X)) with the default (square) shape != X", "unvec:default-shape")
    # vec(unvec(v)) = v for an arbitrary vector, both as (N,1) column and as 1-D array
    w = ent(g, r * c, 1, case["cplx"], "int")
    m = unvec(w, [r, c])
    req(m.shape == (r, c) and all(m[i, j] == w[i + r * j, 0] for i in range(r) for j in range(c)), "unvec(v)[i, j] != v[i + rows*j]", "unvec:order")
    req(np.array_equal(vec(m), w), "vec(unvec(v)) != v", "vec:roundtrip")
    m1 = unvec(w[:, 0], [r, c])
    req(np.array_equal(m1, m), "unvec of a 1-D vector differs from unvec of the column vector", "unvec:1d")
    # vec(A X B) = (B^T (x) A) vec(X)
    p, q = case["p"], case["q"]
    a, b = ent(g, p, r, case["cplx"], "gauss" if case["src"] == "gauss" else "int"), ent(g, c, q, case["cplx"], "gauss" if case["src"] == "gauss" else "int")
    lhs = vec(a @ x @ b)
    rhs = np.kron(b.T, a) @ v
    req(_close(lhs, rhs), f"vec(AXB) != (B^T (x) A) vec(X) for A {p}x{r}, X {r}x{c}, B {c}x{q} (max diff {mx(lhs - rhs):.3g})", "vec:AXB")


def _nt_vec(case):
    if case["r"] != case["c"] and min(case["r"], case["c"]) >= 2:
        return "rectangular" + (",complex" if case["cplx"] else "")
    if case["cplx"] and case["r"] >= 3:
        return "square,complex,n>=3"
    return None


@st.composite
def _tensor_case(draw):
    k = draw(st.sampled_from([3, 2, 4, 1]))
    shapes = []
    budget = 400
    for _ in range(k):
        r = draw(st.integers(1, 4))
        c = draw(st.integers(1, 4))
        if r * c > budget:
            r = c = 1
        budget //= max(1, r * c)
        shapes.append([r, c])
    return {"shapes": shapes, "kind": draw(st.sampled_from(["matrix", "matrix", "column", "1d"])), "cplx": draw(st.booleans()), "src": draw(st.sampled_from(["int", "gauss"])),
            "power": draw(st.integers(0, 5)), "seed": draw(gen.SEED)}


def check_tensor(case):
    from toqito.matrix_ops import tensor

    from tqv import ref

    g = gen.rng(case["seed"])
    mats = []
    for r, c in case["shapes"]:
        if case["kind"] == "column":
            c = 1
        m = ent(g, r, c, case["cplx"], case["src"])
        mats.append(m[:, 0] if case["kind"] == "1d" else m)
    exact = case["src"] == "int"

    def same(a, b, what, sig):
        a, b = np.asarray(a), np.asarray(b)
        ok = a.shape == b.shape and (np.array_equal(a, b) if exact else _close(a, b))
        req(ok, f"{what} (shapes {a.shape} vs {b.shape})", sig)

    def kron_ref(ms):
        out = ms[0]
        for m in ms[1:]:
            out = np.kron(out, m)
        return out

    expected = kron_ref(mats)
    k = len(mats)
    same(tensor(list(mats)), expected, f"tensor([A_1..A_{k}]) != A_1 (x) ... (x) A_{k}", "tensor:list")
    if k >= 2:
        same(tensor(*mats), expected, f"tensor(A_1, ..., A_{k}) != A_1 (x) ... (x) A_{k}", "tensor:varargs")
    if k == 3:
        a, b, c = mats
        same(tensor(tensor(a, b), c), tensor(a, tensor(b, c)), "tensor is not associative", "tensor:assoc")
        same(tensor(a, tensor(b, c)), expected, "tensor(A, tensor(B, C)) != A (x) B (x) C", "tensor:assoc")
    if k >= 2 and case["kind"] == "matrix":
        # mixed-product rule (A (x) B)(C (x) D) = AC (x) BD with C, D conformable
        a, b = mats[0], mats[1]
        c2 = ent(g, a.shape[1], 2, case["cplx"], case["src"])
        d2 = ent(g, b.shape[1], 3, case["cplx"], case["src"])
        lhs, rhs = tensor(a, b) @ tensor(c2, d2), tensor(a @ c2, b @ d2)
        req(_close(lhs, rhs), "(A (x) B)(C (x) D) != AC (x) BD", "tensor:mixed-product")
    # n-fold power
    a = mats[0]
    n = case["power"]
    if a.size ** max(n, 1) <= 5000:
        out = tensor(a, n)
        if n == 0:
            req(np.asarray(out).shape == (1, 1) and np.asarray(out)[0, 0] == 1, "tensor(A, 0) is not the 1x1 identity", "tensor:power0")
        else:
            same(out, kron_ref([a] * n), f"tensor(A, {n}) != A^(x){n}", "tensor:power")


def _nt_tensor(case):
    sh = case["shapes"]
    if len(sh) >= 3 and any(r != c for r, c in sh) and case["kind"] == "matrix":
        return "k>=3,rectangular" + (",complex" if case["cplx"] else "")
    if case["power"] >= 3 and sh[0][0] * sh[0][1] >= 2:
        return "power>=3"
    return None


# ==============================================================================================
# Gram matrices
# ==============================================================================================
@st.composite
def _gram_case(draw, branch):
    n = draw(_sizes(1 if branch == "pd" else 2, 6))
    if branch == "pd":
        mult = [1] * n
        zero = 0
    else:
        zero = draw(st.integers(1, n - 1)) if branch == "deficient_simple" else draw(st.integers(0, n - 2))
        rest = n - zero
        if branch == "deficient_simple":
            mult = [1] * rest
        else:  # at least one repeated non-zero eigenvalue
            first = draw(st.integers(2, rest))
            mult = [first] + [1] * (rest - first)
    return {"branch": branch, "n": n, "mult": mult, "zero": zero, "cplx": draw(st.booleans()), "src": draw(st.sampled_from(["int", "gauss"])), "seed": draw(gen.SEED)}


def _gram_matrix(case, g):
    n, cplx = case["n"], case["cplx"]
    vals = g.permutation(np.arange(1, 9))[: len(case["mult"])] * 0.5  # distinct, gaps >= 0.5
    lam = np.concatenate([np.repeat(vals, case["mult"]), np.zeros(case["zero"])])
    if case["branch"] == "pd" and case["src"] == "int":
        a = ent(g, n, n, cplx, "int", -2, 2)
        return a.conj().T @ a + np.eye(n, dtype=np.int64), None
    if case["src"] == "int" and not cplx and case["branch"] == "degenerate" and case["zero"] == 1 and case["mult"] == [n - 1]:
        return (n * np.eye(n) - np.ones((n, n))) / (n - 1), lam  # equiangular (simplex / trine) Gram matrix, exact entries
    u = H.unitary(g, n, cplx)
    return H.herm_part((u * lam) @ dag(u)), lam


def check_gram_roundtrip(case):
    from toqito.matrix_ops import vectors_from_gram_matrix, vectors_to_gram_matrix

    g = gen.rng(case["seed"])
    gram, lam = _gram_matrix(case, g)
    n = case["n"]
    try:
        np.linalg.cholesky(gram)
        branch = "cholesky"
    except np.linalg.LinAlgError:
        branch = "eig"
    vecs = _quiet(vectors_from_gram_matrix, gram)
    req(len(vecs) == n, f"{len(vecs)} vectors returned for a {n}x{n} Gram matrix", "gram:count")
    back = vectors_to_gram_matrix([np.asarray(v) for v in vecs])
    if _close(back, gram):
        return
    diff = mx(np.asarray(back) - gram)
    ev = np.linalg.eigvalsh(gram)
    nz = ev[ev > 1e-6]
    degenerate = bool(nz.size >= 2 and np.min(np.diff(nz)) < 1e-6)
    what = f"vectors_to_gram_matrix(vectors_from_gram_matrix(G)) differs from G by {diff:.3g} ({n}x{n}, {'complex' if np.iscomplexobj(gram) else 'real'}, " \
           f"rank {int((ev > 1e-9).sum())}, spectrum {np.round(ev, 3).tolist()}, numpy cholesky {'succeeds' if branch == 'cholesky' else 'fails'})"
    if np.iscomplexobj(gram) and _close(back, gram.conj()):
        raise Violation(what + ": the result is conj(G)", f"gram:{branch}-conj")
    if branch == "eig" and degenerate:
        raise Violation(what + ": repeated non-zero eigenvalue in the eigen-decomposition branch", "gram:eig-degenerate")
    raise Violation(what, f"gram:{branch}-value")


def _nt_gram(case):
    tags = []
    if case["zero"]:
        tags.append("rank-deficient")
    if any(m > 1 for m in case["mult"]):
        tags.append("repeated-eigenvalue")
    if case["cplx"] and case["n"] >= 2:
        tags.append("complex")
    return ",".join(tags) if tags and case["n"] >= 2 else None


@st.composite
def _gramdef_case(draw):
    return {"n": draw(_sizes()), "k": draw(_sizes()), "cplx": draw(st.booleans()), "src": draw(st.sampled_from(["int", "gauss"])), "form": draw(st.sampled_from(["1d", "col"])),
            "seed": draw(gen.SEED)}


def check_gram_definition(case):
    from toqito.matrix_ops import vectors_to_gram_matrix

    g = gen.rng(case["seed"])
    n, k = case["n"], case["k"]
    m = ent(g, n, k, case["cplx"], case["src"])
    vecs = [m[:, j] if case["form"] == "1d" else m[:, j].reshape(-1, 1) for j in range(k)]
    out = np.asarray(vectors_to_gram_matrix(vecs))
    exp = np.array([[np.sum(np.conj(m[:, i]) * m[:, j]) for j in range(k)] for i in range(k)])
    req(out.shape == (k, k), f"Gram matrix of {k} vectors has shape {out.shape}", "gram-def:shape")
    if not _close(out, exp):
        sig = "gram-def:conj" if _close(out, exp.conj()) else "gram-def:value"
        raise Violation(f"G[i,j] != <v_i, v_j> (conjugate-linear in the first argument) for {k} vectors in dimension {n}", sig)


# ==============================================================================================
# commutant
# ==============================================================================================
@st.composite
def _commutant_case(draw):
    # blocks: list of [block size n_i, multiplicity k_i]; the generated algebra is (+)_i M_{n_i} (x) I_{k_i}
    blocks = []
    total = 0
    for _ in range(draw(st.integers(1, 3))):
        ni = draw(st.integers(1, 3))
        ki = draw(st.integers(1, 3))
        if total + ni * ki > 6:
            continue
        blocks.append([ni, ki])
        total += ni * ki
    if not blocks:
        blocks = [[1, 1]]
    return {"blocks": blocks, "mode": draw(st.sampled_from(["normal", "normal", "set", "jordan"])), "cplx": draw(st.booleans()),
            "hide": draw(st.sampled_from(["perm", "unitary", "none"])), "form": draw(st.sampled_from(["list", "array"])), "bicommutant": draw(st.booleans()), "seed": draw(gen.SEED)}


def _commutant_generators(case, g):
    """-> (list of generators, expected dimension of the commutant or None)"""
    blocks, cplx = case["blocks"], case["cplx"]
    dim = sum(n * k for n, k in blocks)
    # a single scalar block gives a multiple of the identity: conjugating it would leave only rounding noise in
    # A (x) I - I (x) A^T, and the exact commutant of "identity + noise" is not the full algebra; keep it exact instead
    scalar = len(blocks) == 1 and (case["mode"] == "normal" or blocks[0][0] == 1)
    hide = "none" if scalar else case["hide"]
    u = H.unitary(g, dim, cplx) if hide == "unitary" else (H.perm_matrix(g, dim) if hide == "perm" else np.eye(dim))
    if case["mode"] in ("normal", "jordan"):
        # one generator with eigenvalue multiplicities m_i = n_i*k_i (normal) -> commutant dimension sum m_i^2;
        # 'jordan': a single Jordan block J_m(lambda) per distinct eigenvalue -> commutant dimension sum m_i
        mults = [n * k for n, k in blocks]
        vals = g.permutation(np.arange(-4, 5))[: len(mults)] * (1.0 if not cplx else (1 + 0.5j))
        a = np.zeros((dim, dim), dtype=complex if cplx else float)
        pos = 0
        for lam, m in zip(vals, mults):
            a[pos : pos + m, pos : pos + m] = lam * np.eye(m)
            if case["mode"] == "jordan":
                a[pos : pos + m, pos : pos + m] += np.diag(np.ones(m - 1), 1)
            pos += m
        if case["mode"] == "jordan":
            if hide == "unitary" and dim > 1:
                s = (H.unitary(g, dim, cplx) * g.uniform(0.8, 1.25, size=dim)) @ H.unitary(g, dim, cplx)
            else:
                s = u
            return [s @ a @ np.linalg.inv(s)], sum(mults)
        return [u @ a @ dag(u)], sum(m * m for m in mults)
    # 'set': three generic generators of (+)_i M_{n_i} (x) I_{k_i}; commutant = (+)_i I_{n_i} (x) M_{k_i}, dimension sum k_i^2
    gens = []
    for _ in range(3):
        a = np.zeros((dim, dim), dtype=complex if cplx else float)
        pos = 0
        for n, k in blocks:
            x = ent(g, n, n, cplx, "gauss")
            a[pos : pos + n * k, pos : pos + n * k] = np.kron(x, np.eye(k))
            pos += n * k
        gens.append(u @ a @ dag(u))
    # blocks of equal size n_i are inequivalent representations for generic x, so nothing else commutes
    return gens, sum(k * k for _, k in blocks)


def _commutant_gap(gens):
    """Guard: the commutation equations of the *floating-point* generators must have a clean numerical rank.  A planted
    degeneracy that went through a change of basis is only exact up to rounding (~1e-15), which is where scipy's
    null_space puts its threshold (eps * max(shape) * sigma_max); the exact commutant of such an input is smaller than the
    planted one, so nothing is asserted unless every singular value is either < threshold/30 or > 1e4 * threshold."""
    dim = gens[0].shape[0]
    k = np.vstack([np.kron(a, np.eye(dim)) - np.kron(np.eye(dim), a.T) for a in gens])
    sv = np.linalg.svd(k, compute_uv=False)
    if sv.size == 0 or sv.max() == 0:
        return
    thr = np.finfo(float).eps * max(k.shape) * sv.max()
    if np.any((sv > thr / 30) & (sv < 1e4 * thr)):
        raise Inconclusive("a singular value of the commutation equations is within rounding distance of null_space's threshold")


def check_commutant(case):
    from toqito.matrix_props import commutant

    g = gen.rng(case["seed"])
    gens, expdim = _commutant_generators(case, g)
    dim = gens[0].shape[0]
    _commutant_gap(gens)
    arg = gens if case["form"] == "list" or len(gens) > 1 else gens[0]
    basis = commutant(arg)
    what = f"{len(gens)} generator(s) of size {dim}, mode={case['mode']}, blocks={case['blocks']}, complex={case['cplx']}"
    for b in basis:
        b = np.asarray(b)
        req(b.shape == (dim, dim), f"basis element of shape {b.shape}: {what}", "commutant:shape")
        for a in gens:
            res = mx(a @ b - b @ a)
            req(res <= 1e-9 * S(a) * S(b), f"a basis element does not commute with a generator (residual {res:.3g}): {what}", "commutant:not-commuting")
    if basis:
        flat = np.array([np.asarray(b).reshape(-1) for b in basis])
        gm = flat.conj() @ flat.T
        req(_close(gm, np.eye(len(basis))), f"the basis is not orthonormal in the Hilbert-Schmidt inner product: {what}", "commutant:not-orthonormal")
    req(len(basis) == expdim, f"commutant has {len(basis)} basis elements, expected dimension {expdim}: {what}", "commutant:dimension")
    # (a commutant that is only C*I is skipped: A (x) I - I (x) A^T is then pure rounding noise and the exact commutant of
    # "identity + noise" is not the full algebra)
    if case["bicommutant"] and 2 <= len(basis) <= 20:
        _commutant_gap([np.asarray(b) for b in basis])
        bi = commutant([np.asarray(b) for b in basis])
        req(len(bi) >= 1, f"the commutant of the commutant is empty: {what}", "commutant:bicommutant")
        span = np.array([np.asarray(b).reshape(-1) for b in bi]).T
        for a in gens:
            coef, *_ = np.linalg.lstsq(span, a.reshape(-1), rcond=None)
            res = mx(span @ coef - a.reshape(-1))
            req(res <= 1e-9 * S(a), f"a generator is not in the commutant of the commutant (distance {res:.3g}): {what}", "commutant:bicommutant")


def _nt_commutant(case):
    dim = sum(n * k for n, k in case["blocks"])
    if dim >= 3 and (case["hide"] != "none" or case["mode"] == "set"):
        return f"{case['mode']},dim>=3" + (f",hidden-basis({case['hide']})" if case["hide"] != "none" else "") + (",complex" if case["cplx"] else "")
    return None


# ==============================================================================================
# majorizes, spark, norms, PSD rank
# ==============================================================================================
@st.composite
def _maj_case(draw):
    return {"n": draw(_sizes()), "m": draw(st.sampled_from([0, 0, 1, -1, 2])), "kind": draw(st.sampled_from(["vector", "vector", "matrix", "mixed"])),
            "relation": draw(st.sampled_from(["generic", "tie", "doubly_stochastic", "margin"])), "margin": draw(st.sampled_from(MARGINS)),
            "form": draw(st.sampled_from(["list", "array"])), "signed": draw(st.booleans()), "cplx": draw(st.booleans()), "seed": draw(gen.SEED)}


def check_majorizes(case):
    from toqito.matrix_props import majorizes

    g = gen.rng(case["seed"])
    n = case["n"]
    nb = max(1, n + case["m"])
    signed = case["signed"] and nb == n and case["kind"] == "vector"
    lo = -4 if signed else 0
    a = g.integers(lo, 9, size=n).astype(float)
    rel = case["relation"]
    if rel == "doubly_stochastic" and nb == n:  # b = D a with D doubly stochastic: a majorises b
        w = H.dyadic_row(g, 3)
        d = sum(wi * H.perm_matrix(g, n, float) for wi in w)
        b = d @ a
    elif rel == "tie" and nb == n:
        b = a[g.permutation(n)].copy()
    else:
        b = g.integers(lo, 9, size=nb).astype(float)
    if rel == "margin" and nb == n and n >= 2:  # equal partial sums except one that is short by the margin
        b = np.sort(a)[::-1].copy()
        k = int(g.integers(0, n))
        sign = 1 if g.integers(0, 2) else -1
        eps = case["margin"] * 1.002 * S(a)
        if b[k] - eps < 0 and not signed:
            sign = 1  # singular values / padded vectors stay non-negative
        b[k] += sign * eps
    # partial-sum definition on the decreasingly sorted, zero-padded sequences
    L = max(len(a), len(b))
    sa = np.concatenate([np.sort(a)[::-1], np.zeros(L - len(a))])
    sb = np.concatenate([np.sort(b)[::-1], np.zeros(L - len(b))])
    gaps = np.cumsum(sa) - np.cumsum(sb)
    scale = S(a, b)
    if np.all(gaps >= -1e-13 * scale):
        truth = True
    elif np.any(gaps <= -FALSE_MARGIN * scale):
        truth = False
    else:
        raise Inconclusive("partial sums differ by less than the margin")

    def as_arg(v, want_matrix):
        if want_matrix:  # a matrix whose singular values are |v| ... only for non-negative v
            u1 = H.unitary(g, len(v), case["cplx"])
            r = len(v) + int(g.integers(0, 2))
            u2 = H.unitary(g, r, case["cplx"])
            return (u1 * v) @ u2[: len(v), :]
        return [float(x) for x in v] if case["form"] == "list" else np.array(v)

    ma = case["kind"] in ("matrix", "mixed") and not signed
    mb = case["kind"] == "matrix" and not signed
    out = majorizes(as_arg(a, ma), as_arg(b, mb))
    _verdict("majorizes", out, truth, f"a={a.tolist()} ({'matrix' if ma else 'vector'}), b={np.round(b, 6).tolist()} ({'matrix' if mb else 'vector'}), smallest partial-sum gap {gaps.min():.4g}")


def _nt_maj(case):
    if case["kind"] != "vector" and case["n"] >= 2:
        return case["kind"] + "," + case["relation"]
    if case["relation"] in ("margin", "doubly_stochastic") and case["n"] >= 3:
        return "vector," + case["relation"]
    return None


@st.composite
def _spark_case(draw):
    return {"r": draw(_sizes(1, 5)), "c": draw(_sizes(1, 6)), "plant": draw(st.integers(0, 4)), "cplx": draw(st.booleans()), "src": draw(st.sampled_from(["int", "int", "gauss"])),
            "zero_col": draw(st.sampled_from([False, False, False, True])), "seed": draw(gen.SEED),
            # the spark is invariant under rescaling the matrix or single columns; powers of two keep the planted integer
            # dependencies exact (seeded change C16-c2 - dependence decided by np.isclose(det(Gram), 0), an absolute
            # tolerance on a quantity of degree 2k in the scale - was missed while every entry was O(1))
            "scale2": draw(st.sampled_from([0, 0, 0, -20, -10, 10, 20])), "colscale": draw(st.booleans())}


def check_spark(case):
    from toqito.matrix_props import spark

    g = gen.rng(case["seed"])
    r, c, cplx = case["r"], case["c"], case["cplx"]
    if case["src"] == "gauss":
        # generic position: every min(r,c) columns are independent -> spark = min(r, c) + 1
        m = ent(g, r, c, cplx, "gauss")
        sv_min = min(np.linalg.svd(m[:, list(s)], compute_uv=False)[-1] for s in itertools.combinations(range(c), min(r, c)))
        if sv_min < 1e-6 * S(m):
            raise Inconclusive("a column subset of the generic matrix is ill-conditioned")
        expected = min(r, c) + 1
    else:
        m = ent(g, r, c, cplx, "int", -2, 2)
        k = case["plant"]
        if k and c >= 2:  # plant: one column is an integer combination of k other columns
            k = min(k, c - 1)
            cols = g.permutation(c)
            tgt, src = cols[0], cols[1 : 1 + k]
            coef = g.integers(1, 3, size=k) * np.where(g.integers(0, 2, size=k) == 1, 1, -1)
            m[:, tgt] = m[:, src] @ coef
        if case["zero_col"]:
            m[:, int(g.integers(0, c))] = 0
        expected = H.exact_spark(m)
        # guard against numerical rank decisions near numpy's threshold: every independent subset must be well conditioned
        for kk in range(1, min(expected, min(r, c) + 1)):
            for s in itertools.combinations(range(c), kk):
                sv = np.linalg.svd(m[:, list(s)].astype(complex), compute_uv=False)
                if sv[-1] < 1e-8 * max(1.0, sv[0]):
                    raise Inconclusive("an independent column subset is ill-conditioned")
    scaled = ""
    if case.get("scale2") or case.get("colscale"):
        f = np.full(c, 2.0 ** int(case.get("scale2") or 0))
        if case.get("colscale"):
            f = f * 2.0 ** g.integers(-6, 7, size=c)
        m = m * f[None, :]
        scaled = f" scaled column-wise by {np.array2string(f, precision=3)}"
        # the conditioning guards above were evaluated before scaling: re-check relative to the largest singular value
        for kk in range(1, min(expected, min(r, c) + 1)):
            for s_ in itertools.combinations(range(c), kk):
                sv = np.linalg.svd(m[:, list(s_)].astype(complex), compute_uv=False)
                if sv[-1] < 1e-8 * sv[0]:
                    raise Inconclusive("an independent column subset is ill-conditioned after scaling")
    out = spark(m)
    req(int(out) == expected, f"spark returned {out} for a {r}x{c}{scaled} {'complex' if cplx else 'real'} matrix whose smallest dependent column set has {expected} columns "
        f"({'none: columns+1 / rows+1 convention' if expected == min(r, c) + 1 else 'planted'})", "spark:value")


def _nt_spark(case):
    if (case.get("scale2") or case.get("colscale")) and case["c"] >= 2 and case["r"] >= 2:
        return "scaled" + (",planted" if case["src"] == "int" and case["plant"] >= 1 else "")
    if case["src"] == "int" and case["plant"] >= 2 and case["c"] >= 3 and case["r"] >= 2:
        return "planted-dependency" + (",complex" if case["cplx"] else "")
    if case["src"] == "gauss" and case["c"] > case["r"] >= 2:
        return "generic,wide"
    return None


@st.composite
def _norm_case(draw):
    return {"r": draw(_sizes()), "c": draw(_sizes()), "k": draw(st.integers(1, 7)), "p": draw(st.sampled_from([1, 2, 3, "inf", 1.5])), "cplx": draw(st.booleans()),
            "src": draw(st.sampled_from(["int", "gauss", "spectrum"])), "seed": draw(gen.SEED)}


def check_norms(case):
    from toqito.matrix_props import kp_norm, trace_norm

    g = gen.rng(case["seed"])
    r, c, cplx = case["r"], case["c"], case["cplx"]
    d = min(r, c)
    if case["src"] == "spectrum":  # planted singular values (including zeros and ties)
        sv = np.sort(g.integers(0, 5, size=d).astype(float))[::-1]
        u, v = H.unitary(g, r, cplx), H.unitary(g, c, cplx)
        m = (u[:, :d] * sv) @ v[:d, :]
    else:
        m = ent(g, r, c, cplx, case["src"])
        gm = dag(m) @ m if c <= r else m @ dag(m)
        sv = np.sqrt(np.clip(np.sort(np.linalg.eigvalsh(gm))[::-1], 0, None))  # singular values without calling svd/norm
    scale = S(m) * max(r, c)
    tn = trace_norm(m)
    req(abs(tn - sv.sum()) <= 1e-7 * scale, f"trace_norm = {tn}, sum of singular values = {sv.sum()} ({r}x{c})", "trace_norm:value")
    k = case["k"]
    p = np.inf if case["p"] == "inf" else case["p"]
    top = sv[: min(k, d)]
    exp = float(top.max()) if p == np.inf else float(np.sum(top**p) ** (1.0 / p))
    out = kp_norm(m, k, p)
    req(abs(out - exp) <= 1e-7 * scale, f"kp_norm(M, k={k}, p={case['p']}) = {out}, (sum of the {min(k, d)} largest singular values^p)^(1/p) = {exp} ({r}x{c})", "kp_norm:value")


def _nt_norm(case):
    d = min(case["r"], case["c"])
    if 1 < case["k"] < d:
        return "1<k<min(r,c)" + (",complex" if case["cplx"] else "")
    if case["r"] != case["c"] and d >= 2:
        return "rectangular"
    return None


def _psd_rank_cases(tier):
    return [{"kind": "identity", "n": n} for n in (1, 2, 3)] + [{"kind": "rank1", "n": n, "seed": s} for n in (2, 3) for s in (1, 2)]


def check_psd_rank_smoke(case):
    from toqito.matrix_props import positive_semidefinite_rank

    n = case["n"]
    if case["kind"] == "identity":
        m, exp = np.eye(n), n
    else:
        v = np.abs(gen.rand_ket(case["seed"], n, real=True)) + 0.1
        v = v / np.linalg.norm(v)
        m, exp = np.outer(v, v), 1
    out = positive_semidefinite_rank(m)
    req(out == exp, f"positive_semidefinite_rank = {out} for {'the identity' if case['kind'] == 'identity' else 'a normalised v v^T'} of size {n}, expected {exp}", "psd_rank:smoke")


# ==============================================================================================
# registry
# ==============================================================================================
def _pred_sub(name, quick=1000, thorough=20000):
    p = PREDS[name]
    return SubCheck(name, p.check, p.strategy, p.nontrivial, quick=quick, thorough=thorough, shards=4)


def _form_extra(draw, case):
    return {"form": draw(st.sampled_from(["single", "list", "single_and_list"]))}


_UPB_EQ = ["tiles", "shifts", "pyramid", "tiles_lib", "product_subset"]

SUBCHECKS = [_pred_sub(n) for n in PREDS] + [
    SubCheck("is_pure_is_mixed", check_pure_mixed, lambda: _state_case(extra=_form_extra), _nt_basic, quick=1000, thorough=20000, shards=4),
    SubCheck("is_ensemble", check_ensemble, lambda: _state_case(), _nt_basic, quick=1000, thorough=20000, shards=4),
    SubCheck("is_mutually_orthogonal", check_mutually_orthogonal, lambda: _state_case(tfs=("none", "unitary", "perm", "scale"), nmin=2, extra=_mo_extra), _nt_basic, quick=1000,
             thorough=20000, shards=4),
    SubCheck("is_mutually_unbiased_basis", check_mub, lambda: _state_case(tfs=("none", "unitary", "perm", "phase"), nmin=2, extra=_mub_extra), _nt_basic, quick=800, thorough=16000,
             shards=4),
    SubCheck("upb_real", check_upb, lambda: _upb_strategy(_UPB_EQ, False), _nt_upb, quick=600, thorough=12000, shards=4),
    SubCheck("upb_complex", check_upb, lambda: _upb_strategy(_UPB_EQ[:3] + ["product_subset"], True), _nt_upb, quick=600, thorough=12000, shards=4),
    SubCheck("upb_unequal_dims", check_upb, lambda: _upb_strategy(["qubit_x", "unequal"], False), _nt_upb, quick=400, thorough=8000, shards=4),
    SubCheck("vec_unvec", check_vec_unvec, _vec_case, _nt_vec, quick=1200, thorough=24000, shards=4),
    SubCheck("tensor", check_tensor, _tensor_case, _nt_tensor, quick=1200, thorough=24000, shards=4),
    SubCheck("gram_roundtrip_pd", check_gram_roundtrip, lambda: _gram_case("pd"), _nt_gram, quick=1000, thorough=20000, shards=4),
    SubCheck("gram_roundtrip_deficient", check_gram_roundtrip, lambda: _gram_case("deficient_simple"), _nt_gram, quick=1000, thorough=20000, shards=4),
    SubCheck("gram_roundtrip_degenerate", check_gram_roundtrip, lambda: _gram_case("degenerate"), _nt_gram, quick=1000, thorough=20000, shards=4),
    SubCheck("gram_definition", check_gram_definition, _gramdef_case, lambda c: "complex,k>=2" if c["cplx"] and c["k"] >= 2 else None, quick=800, thorough=16000, shards=4),
    SubCheck("commutant", check_commutant, _commutant_case, _nt_commutant, quick=600, thorough=12000, shards=4),
    SubCheck("majorizes", check_majorizes, _maj_case, _nt_maj, quick=1200, thorough=24000, shards=4),
    SubCheck("spark", check_spark, _spark_case, _nt_spark, quick=600, thorough=12000, shards=4),
    SubCheck("kp_trace_norm", check_norms, _norm_case, _nt_norm, quick=1200, thorough=24000, shards=4),
    SubCheck("psd_rank_smoke", check_psd_rank_smoke, None, lambda c: None, cases=_psd_rank_cases, shards=1, case_timeout=60),
]


# ------------------------------------------------------------------------------------------
# tolerance semantics of the eigenvalue-threshold predicates (the margin logic above never places an eigenvalue between
# the function's rtol and atol arguments; a seeded change of that kind was missed in C06 and the same gap existed here)
# ------------------------------------------------------------------------------------------
@st.composite
def _psdtol_case(draw):
    return {
        "n": draw(st.integers(2, 6)),
        "seed": draw(gen.SEED),
        "cplx": draw(st.booleans()),
        "fn": draw(st.sampled_from(["is_positive_semidefinite", "is_positive_semidefinite", "is_density"])),
        "atol": draw(st.sampled_from([None, 1e-8, 1e-7, 1e-6, 1e-4])),
        "rtol": draw(st.sampled_from([None, 1e-5, 1e-3, 1e-9])),
        "side": draw(st.sampled_from(["violates", "within"])),
        "factor": draw(st.sampled_from([10.0, 30.0, 100.0])),
    }


def check_psd_tolerance(case):
    from toqito.matrix_props import is_density, is_positive_semidefinite

    n = case["n"]
    is_dens = case["fn"] == "is_density"
    atol = 1e-8 if (case["atol"] is None or is_dens) else case["atol"]
    u = gen.rand_unitary(case["seed"], n, real=not case["cplx"])
    g = gen.rng(case["seed"] // 5 + 3)
    lam = np.sort(g.uniform(0.2, 1.0, size=n))
    lam[0] = -atol * case["factor"] if case["side"] == "violates" else -atol / case["factor"]
    if is_dens:
        lam[1:] *= (1.0 - lam[0]) / lam[1:].sum()
    m = (u * lam) @ u.conj().T
    m = (m + m.conj().T) / 2
    if abs(float(np.linalg.eigvalsh(m)[0]) - lam[0]) > atol / 1000:
        raise Inconclusive("construction-inexact")
    want = case["side"] == "within"
    if is_dens:
        got = bool(is_density(m))
        what = "is_density(M)"
    else:
        kw = {}
        if case["atol"] is not None:
            kw["atol"] = case["atol"]
        if case["rtol"] is not None:
            kw["rtol"] = case["rtol"]
        got = bool(is_positive_semidefinite(m, **kw))
        what = f"is_positive_semidefinite(M, {kw or 'default tolerances'})"
    req(got == want, f"{what} with smallest eigenvalue {lam[0]:.1e} returned {got}; the eigenvalue tolerance is atol = {atol:.0e}, so the definition gives {want}", "psd:tolerance-semantics")


SUBCHECKS.append(SubCheck("psd_tolerance", check_psd_tolerance, _psdtol_case, lambda c: f"{c['fn']},{c['side']},atol={c['atol']}", quick=1500, thorough=30000, shards=4))


# Hermiticity tolerance on *zero* entries (np.allclose(mat, mat^dagger, rtol, atol): for an entry whose partner is 0 the
# tolerance is atol alone).  Delegating predicates pass (rtol, atol) on positionally, so an exchanged order anywhere in
# the chain moves this threshold from 1e-8 to 1e-5 without touching any O(1) entry.
@st.composite
def _hermtol_case(draw):
    return {
        "n": draw(st.integers(3, 6)),
        "seed": draw(gen.SEED),
        "cplx": draw(st.booleans()),
        "fn": draw(st.sampled_from(["is_hermitian", "is_positive_semidefinite", "is_density"])),
        "side": draw(st.sampled_from(["violates", "within"])),
        "factor": draw(st.sampled_from([30.0, 100.0, 300.0])),
    }


def check_herm_tolerance(case):
    from toqito.matrix_props import is_density, is_hermitian, is_positive_semidefinite

    n = case["n"]
    atol = 1e-8
    k = n // 2
    # block-diagonal positive definite matrix: the off-diagonal blocks are exact zeros
    a = gen.rand_density(case["seed"], k, k, real=not case["cplx"]) + np.eye(k) / k
    b = gen.rand_density(case["seed"] // 3 + 1, n - k, n - k, real=not case["cplx"]) + np.eye(n - k) / (n - k)
    m = np.zeros((n, n), dtype=complex if case["cplx"] else float)
    m[:k, :k] = a
    m[k:, k:] = b
    m = m / np.trace(m).real
    m = (m + m.conj().T) / 2
    eps = atol * case["factor"] if case["side"] == "violates" else atol / case["factor"]
    m[0, n - 1] += eps  # its partner m[n-1, 0] stays exactly 0
    fn = {"is_hermitian": is_hermitian, "is_positive_semidefinite": is_positive_semidefinite, "is_density": is_density}[case["fn"]]
    got = bool(fn(m))
    want = case["side"] == "within"
    req(got == want, f"{case['fn']}(M) returned {got} for a positive definite M with one entry {eps:.1e} opposite an exact 0 (Hermiticity tolerance on a zero entry is atol = 1e-08): the definition gives {want}", "herm:tolerance-on-zero-entry")


SUBCHECKS.append(SubCheck("herm_tolerance", check_herm_tolerance, _hermtol_case, lambda c: f"{c['fn']},{c['side']}", quick=1200, thorough=24000, shards=4))


# Tolerance *arguments* of the allclose-based predicates: I + eps*E_{0,n-1} differs from the property only at an entry
# whose comparison partner is exactly 0, where numpy.allclose allows atol and nothing else.  Default and custom
# (rtol, atol) pairs; eps = 30..100 x atol must be rejected, atol / 30..100 accepted.
_TOLARG_FUNCS = ["is_hermitian", "is_symmetric", "is_anti_hermitian", "is_identity", "is_unitary", "is_idempotent", "is_projection"]


@st.composite
def _tolarg_case(draw):
    return {
        "fn": draw(st.sampled_from(_TOLARG_FUNCS)),
        "n": draw(st.integers(2, 6)),
        "tols": draw(st.sampled_from([None, [1e-9, 1e-6], [1e-3, 1e-10], [1e-7, 1e-4], [1e-12, 1e-8]])),
        "side": draw(st.sampled_from(["violates", "within"])),
        "factor": draw(st.sampled_from([30.0, 100.0])),
        "imag": draw(st.booleans()),
        "how": draw(st.sampled_from(["keyword", "positional"])),
    }


def check_tolerance_args(case):
    import toqito.matrix_props as mp

    fn = getattr(mp, case["fn"])
    n = case["n"]
    rtol, atol = case["tols"] if case["tols"] is not None else (1e-5, 1e-8)
    eps = atol * case["factor"] if case["side"] == "violates" else atol / case["factor"]
    cplx = case["imag"] and case["fn"] not in ("is_symmetric",)
    m = np.eye(n, dtype=complex if (cplx or case["fn"] == "is_anti_hermitian") else float)
    m[0, n - 1] += (1j if cplx else 1.0) * eps
    if case["fn"] == "is_anti_hermitian":
        m = 1j * np.eye(n) + 0j
        m[0, n - 1] += eps
    if case["tols"] is None:
        got = bool(fn(m))
    elif case["how"] == "keyword":
        got = bool(fn(m, rtol=rtol, atol=atol))
    else:
        got = bool(fn(m, rtol, atol))
    want = case["side"] == "within"
    req(
        got == want,
        f"{case['fn']}(base + {eps:.1e} * E_0,{n - 1}, {'defaults' if case['tols'] is None else f'rtol={rtol:g}, atol={atol:g} ({case[chr(104) + chr(111) + chr(119)]})'}) returned {got}; "
        f"the perturbed entry is compared with an exact 0, so the tolerance is atol = {atol:g} and the definition gives {want}",
        "tolerance-arguments",
    )


SUBCHECKS.append(SubCheck("tolerance_args", check_tolerance_args, _tolarg_case, lambda c: f"{c['fn']},{c['side']},tols={c['tols']},{c['how']}", quick=2500, thorough=40000, shards=4))


# Scale: "A commutes with A^dagger" does not depend on the size of A, and numpy.allclose(AA^dagger, A^dagger A, rtol, atol)
# scales with it through rtol.  (Seeded change C16-u3 compared the commutator with 0 instead, leaving only atol: exactly
# normal matrices of norm ~1e5 were rejected on rounding alone.  Every generated matrix used to have norm O(1).)
@st.composite
def _normal_scale_case(draw):
    # scales not below 1: a tiny matrix is normal "within atol" by the library's own tolerance
    return {"n": draw(st.integers(2, 6)), "seed": draw(gen.SEED), "cplx": draw(st.booleans()), "scale": draw(st.sampled_from([1.0, 1e3, 1e5, 1e6])), "normal": draw(st.booleans())}


def check_normal_scale(case):
    from toqito.matrix_props import is_normal

    n, c = case["n"], case["scale"]
    g = gen.rng(case["seed"] // 7 + 5)
    if case["normal"]:
        u = gen.rand_unitary(case["seed"], n, real=not case["cplx"])
        d = g.normal(size=n) + (1j * g.normal(size=n) if case["cplx"] else 0)
        a = (u * d) @ u.conj().T
        if not case["cplx"]:
            a = np.real(a)
    else:
        a = np.triu(g.normal(size=(n, n)) + (1j * g.normal(size=(n, n)) if case["cplx"] else 0))
        a[0, n - 1] += 2.0  # strictly upper-triangular part: clearly non-normal
    a = a / np.linalg.norm(a, 2)
    comm = np.linalg.norm(a @ a.conj().T - a.conj().T @ a, 2)
    if case["normal"] and comm > 1e-13:
        raise Inconclusive("construction-inexact")
    if not case["normal"] and comm < 1e-2:
        raise Inconclusive("not non-normal by margin")
    got = bool(is_normal(c * a))
    req(got == case["normal"], f"is_normal(c*A) = {got} for c = {c:g} and a matrix with ||[A, A^dagger]|| / ||A||^2 = {comm:.1e} (expected {case['normal']})", "is_normal:scale")


SUBCHECKS.append(SubCheck("is_normal_scale", check_normal_scale, _normal_scale_case, lambda c: f"scale={c['scale']:g},{'normal' if c['normal'] else 'not'}", quick=1000, thorough=20000, shards=4))
