"""C05 — dual and complementary maps satisfy their defining identities.

Functions under test: dual_channel, complementary_channel (observed directly through numpy reference application of the
returned representation and, where the input is in apply_channel's domain, through apply_channel).
Oracles: Hilbert-Schmidt adjoint identity <Y, Phi(X)> = <Phi*(Y), X> with Phi(X) = sum A X B^dagger in plain numpy;
reference predicates unital (sum A B^dagger = I) and trace preserving (sum D^dagger C = I for Kraus pairs (C, D),
Tr_out J = I for a Choi matrix); closed form Tr(K_i rho K_j^dagger) for the complementary channel.
Map specs and builders are shared with c04.py.
"""

from __future__ import annotations

import numpy as np
from hypothesis import strategies as st

from tqv import gen
from tqv.core import SubCheck, Violation, req, unlisted_rejection
from tqv.props.c04 import (
    apply_choi_ref,
    apply_ref,
    as_pairs,
    build_pairs,
    build_x,
    choi_ref,
    close,
    dim_matrix,
    fro,
    is_cp,
    kraus_forms,
    map_scale,
    map_spec,
)

# caller-owned arrays handed to the library must come back unchanged (see tqv/purity.py)
from tqv.purity import install as _install_purity  # noqa: E402

_install_purity('toqito.channel_ops', twice=True)

PROPERTY = "C05"
RULE = (
    "Cases are drawn by Hypothesis.  Dual part: a linear map given by r in 1..5 pairs (A_k, B_k), input/output "
    "dimensions 1..4 drawn independently for the left and right side (CP, Hermiticity-preserving non-CP, general), real "
    "or complex, small-integer or Gaussian entries from a drawn seed; the representation handed to dual_channel (flat, "
    "nested, single row for r>2, pairs, Choi matrix with the dims argument as matrix / vector / scalar / omitted); "
    "operators X and Y from drawn seeds; for the double dual a drawn flag makes the second dual be taken in the other "
    "kind of representation (Kraus <-> Choi, converted by a numpy reference) of the first dual.  Unital/TP part: families built unital and TP (mixed unitary), TP only "
    "(Stinespring isometry blocks), unital only (their adjoints, or non-CP pairs solved for sum A B^dagger = I), or "
    "neither (generic), residuals measured by the reference predicates.  Complementary part: square trace-preserving "
    "Kraus families from isometries C^d -> C^(d r), d in 1..4, r in 1..5 (plus integer permutation and "
    "measure-and-prepare families), states rho pure or mixed; rejected families are non-TP by a margin >= 1e-3 "
    "(one operator scaled or dropped, generic, skewed with the trace of the completeness sum kept, adjoint family) or "
    "non-square.  A case is non-trivial when (complex entries and input dim != output dim) or the Choi form is used, "
    "for the complementary part when r >= 2 and d >= 2.  distinct = distinct SHA-1 of the canonical case JSON among "
    "non-trivial cases."
)
ASSUMPTIONS = [
    "a Choi matrix handed to dual_channel has both sides >= 2; the dual is additionally observed through toqito's "
    "apply_channel only when all four input/output dimensions are >= 2 (operators with a side of length 1 are treated "
    "as vectors by the library)",
    "single-row form [[K1..Kr]] is a CP form only for r > 2",
    "complementary_channel accepts flat lists of square, trace-preserving Kraus operators only (its docstring); "
    "non-square or non-TP (by a margin >= 1e-3, the library compares with numpy.allclose defaults) families must raise "
    "ValueError",
    "unital <=> TP(dual) is evaluated with reference predicates on square operator spaces (i1 = i2, o1 = o2), on maps "
    "whose unitality residual is <= 1e-12*scale or >= 1e-3",
    "numpy matmul / einsum / eigvalsh are trusted as the reference arithmetic",
]


def _inner(a, b):
    """Hilbert-Schmidt inner product <A, B> = Tr(A^dagger B)."""
    return complex(np.vdot(np.asarray(a), np.asarray(b)))


def nt_dual(case):
    m = case["map"]
    if case.get("form") == "choi":
        return "choi form" + (",din!=dout" if (m["i1"], m["i2"]) != (m["o1"], m["o2"]) else "")
    if m["cplx"] and (m["i1"] != m["o1"] or m["i2"] != m["o2"]):
        return "complex,din!=dout"
    return None


def _choi_sides_ok(m):
    return m["i1"] * m["o1"] >= 2 and m["i2"] * m["o2"] >= 2


@st.composite
def _dual_case(draw):
    m = draw(map_spec())
    forms = ["pairs"]
    if is_cp(m):
        forms += ["flat", "nested"] + (["row"] if m["r"] > 2 else [])
    if _choi_sides_ok(m):
        forms += ["choi", "choi"]
    form = draw(st.sampled_from(forms))
    dimsform = "n/a"
    if form == "choi":
        dfs = ["matrix", "matrix_array"]
        if (m["i1"], m["o1"]) == (m["i2"], m["o2"]):
            dfs.append("vector")
            if m["i1"] == m["o1"]:
                dfs += ["omitted", "scalar"]
        elif m["i1"] == m["o1"] and m["i2"] == m["o2"]:
            dfs.append("omitted")
        dimsform = draw(st.sampled_from(dfs))
    return {"map": m, "form": form, "dimsform": dimsform, "xseed": draw(gen.SEED), "yseed": draw(gen.SEED)}


def _dims_arg(m, form, swapped=False):
    dm = dim_matrix(m)
    if swapped:
        dm = [[dm[0][1], dm[0][0]], [dm[1][1], dm[1][0]]]
    if form == "matrix":
        return dm
    if form == "matrix_array":
        return np.array(dm)
    if form == "vector":
        return [dm[0][0], dm[0][1]]
    if form == "scalar":
        return int(dm[0][0])
    return None


def _call_dual(rep, m, form, dimsform, swapped=False):
    from toqito.channel_ops import dual_channel

    if form != "choi" or dimsform == "omitted":
        return dual_channel(rep)
    return dual_channel(rep, dims=_dims_arg(m, dimsform, swapped))


def _apply_rep(rep, form, y, din, dout, what):
    """numpy reference application of a representation returned by toqito; din = (rows, cols) of the input space"""
    if form == "choi":
        rep = np.asarray(rep)
        req(rep.ndim == 2 and rep.shape == (din[0] * dout[0], din[1] * dout[1]), f"{what}: Choi matrix shape {rep.shape} != {(din[0] * dout[0], din[1] * dout[1])}", "dual:shape")
        return apply_choi_ref(rep, y, din[0], dout[0], din[1], dout[1])
    fp, _ = as_pairs(_flatten_form(rep, form, what), what)
    for a, b in fp:
        req(a.shape == (dout[0], din[0]) and b.shape == (dout[1], din[1]), f"{what}: operator shapes {a.shape}, {b.shape} != {(dout[0], din[0])}, {(dout[1], din[1])}", "dual:shape")
    return apply_ref(fp, y, tuple(dout))


def _flatten_form(rep, form, what):
    """the dual must come back in the representation it was given in; reduce it to flat / pairs"""
    req(isinstance(rep, list) and len(rep) > 0, f"{what}: expected a non-empty list, got {type(rep).__name__}", "dual:structure")
    if form == "flat":
        req(all(isinstance(k, np.ndarray) for k in rep), f"{what}: flat list did not stay a flat list", "dual:structure")
        return rep
    if form == "nested":
        req(all(isinstance(k, list) and len(k) == 1 for k in rep), f"{what}: nested [[K]] form did not stay nested", "dual:structure")
        return [k[0] for k in rep]
    if form == "row":
        req(len(rep) == 1 and isinstance(rep[0], list) and len(rep[0]) > 2, f"{what}: single-row form did not stay a single row", "dual:structure")
        return list(rep[0])
    req(all(isinstance(k, list) and len(k) == 2 for k in rep), f"{what}: pairs did not stay pairs", "dual:structure")
    return rep


def _rep_of(m, pairs, form):
    return choi_ref(pairs, m["i1"], m["i2"]) if form == "choi" else kraus_forms(m, pairs)[form]


# ------------------------------------------------------------------------------------------
# 1. adjoint identity
# ------------------------------------------------------------------------------------------
def check_adjoint(case):
    from toqito.channel_ops import apply_channel

    m = case["map"]
    form = case["form"]
    pairs = build_pairs(m)
    i1, i2, o1, o2 = m["i1"], m["i2"], m["o1"], m["o2"]
    x = build_x(case["xseed"], i1, i2, "prng", True)
    y = build_x(case["yseed"], o1, o2, "prng", True)
    rep = _rep_of(m, pairs, form)
    dual = _call_dual(rep, m, form, case["dimsform"])
    what = f"dual_channel(<{form}>" + (f", dims=<{case['dimsform']}>)" if form == "choi" else ")")
    lhs = _inner(y, apply_ref(pairs, x, (o1, o2)))
    tol = 1e-9 * map_scale(pairs) * max(1.0, fro(x)) * max(1.0, fro(y))
    dy = _apply_rep(dual, form, y, (o1, o2), (i1, i2), what)
    rhs = _inner(dy, x)
    req(abs(lhs - rhs) <= tol, f"{what}: <Y, Phi(X)> = {lhs:.6g} but <Phi*(Y), X> = {rhs:.6g}", "dual:adjoint:" + form)
    if min(i1, i2, o1, o2) >= 2:
        rhs2 = _inner(apply_channel(y, dual), x)
        req(abs(lhs - rhs2) <= tol, f"{what} observed through apply_channel: <Y, Phi(X)> = {lhs:.6g} but <Phi*(Y), X> = {rhs2:.6g}", "dual:adjoint-via-apply:" + form)


# ------------------------------------------------------------------------------------------
# 2. dual of the dual acts as Phi
# ------------------------------------------------------------------------------------------
@st.composite
def _double_case(draw):
    case = draw(_dual_case())
    # "cross": the second dual is taken in the other kind of representation (Kraus-type <-> Choi) of the first dual,
    # obtained by a numpy reference conversion, so that an error made twice in one branch cannot cancel
    case["cross"] = _choi_sides_ok(case["map"]) and draw(st.booleans())
    return case


def _svd_pairs(j, din, dout):
    """numpy reference: pairs (A_s, B_s) with J[(i,a),(k,b)] = sum_s A_s[a,i] conj(B_s[b,k])"""
    u, sv, vh = np.linalg.svd(np.asarray(j, dtype=complex), full_matrices=False)
    out = []
    for s in range(len(sv)):
        a = np.sqrt(sv[s]) * u[:, s].reshape(din[0], dout[0]).T
        b = np.sqrt(sv[s]) * vh[s, :].conj().reshape(din[1], dout[1]).T
        out.append([a, b])
    return out


def check_double_dual(case):
    from toqito.channel_ops import dual_channel

    m = case["map"]
    form = case["form"]
    pairs = build_pairs(m)
    i1, i2, o1, o2 = m["i1"], m["i2"], m["o1"], m["o2"]
    x = build_x(case["xseed"], i1, i2, "prng", True)
    rep = _rep_of(m, pairs, form)
    exp = apply_ref(pairs, x, (o1, o2))
    tol = 1e-9 * map_scale(pairs) * max(1.0, fro(x))
    d1 = _call_dual(rep, m, form, case["dimsform"])
    if not case.get("cross"):
        d2 = _call_dual(d1, m, form, case["dimsform"], swapped=True)
        what = f"dual_channel(dual_channel(<{form}>))"
        got = _apply_rep(d2, form, x, (i1, i2), (o1, o2), what)
        close(got, exp, tol, f"{what} applied to X vs Phi(X)", "dual:double:" + form)
        return
    if form == "choi":
        what = "dual_channel(<pairs of dual_channel(<choi>)>)"
        d1 = np.asarray(d1)
        req(d1.shape == (o1 * i1, o2 * i2), f"dual_channel(<choi>): shape {d1.shape}", "dual:shape")
        d2 = dual_channel(_svd_pairs(d1, (o1, o2), (i1, i2)))
        got = _apply_rep(d2, "pairs", x, (i1, i2), (o1, o2), what)
        tol = tol * 100  # goes through an SVD of the first dual
    else:
        what = f"dual_channel(<choi of dual_channel(<{form}>)>)"
        fp, _ = as_pairs(_flatten_form(d1, form, what), what)
        for a, b in fp:
            req(a.shape == (i1, o1) and b.shape == (i2, o2), f"dual_channel(<{form}>): operator shapes {a.shape}, {b.shape}", "dual:shape")
        d2 = dual_channel(choi_ref(fp, o1, o2), dims=[[o1, i1], [o2, i2]])
        got = _apply_rep(d2, "choi", x, (i1, i2), (o1, o2), what)
    close(got, exp, tol, f"{what} applied to X vs Phi(X)", "dual:double-cross:" + form)


# ------------------------------------------------------------------------------------------
# 3. unital(Phi) <=> TP(Phi*)
# ------------------------------------------------------------------------------------------
_FAMS = ["mixed_unitary", "tp_only", "unital_only", "unital_noncp", "neither_cp", "neither_gen"]


@st.composite
def _unital_case(draw):
    fam = draw(st.sampled_from(_FAMS))
    i = draw(st.integers(1, 4))
    o = i if fam == "mixed_unitary" else draw(st.integers(1, 4))
    r = draw(st.integers(1, 5))
    forms = ["pairs"]
    if fam not in ("unital_noncp", "neither_gen"):
        forms += ["flat", "nested"]
    if i * o >= 2:
        forms += ["choi", "choi"]
    form = draw(st.sampled_from(forms))
    dimsform = "n/a"
    if form == "choi":
        dimsform = draw(st.sampled_from(["matrix", "vector"] + (["omitted"] if i == o else [])))
    return {"fam": fam, "i": i, "o": o, "r": r, "real": draw(st.booleans()), "seed": draw(gen.SEED), "form": form, "dimsform": dimsform}


def _unital_pairs(case):
    """pairs (A_k, B_k), A_k and B_k of shape o x i, for the drawn family"""
    fam, i, o, r, real = case["fam"], case["i"], case["o"], case["r"], case["real"]
    g = gen.rng(case["seed"])

    def rnd(a, b):
        z = g.normal(size=(a, b))
        return z if real else z + 1j * g.normal(size=(a, b))

    if fam == "mixed_unitary":
        p = gen.rand_probs(int(g.integers(0, 2**62)), r)
        ks = [np.sqrt(p[k]) * gen.rand_unitary(int(g.integers(0, 2**62)), i, real) for k in range(r)]
        return [[k, k] for k in ks]
    if fam in ("tp_only", "unital_only"):
        # Stinespring isometry V: C^a -> C^(b r) with a <= b r ; blocks K_k (b x a) satisfy sum K^dagger K = I_a
        a, b = (i, o) if fam == "tp_only" else (o, i)
        while b * r < a:
            r += 1
        v = gen.rand_isometry(int(g.integers(0, 2**62)), b * r, a, real)
        ks = [v[k * b : (k + 1) * b, :] for k in range(r)]
        if fam == "unital_only":
            ks = [k.conj().T for k in ks]
        return [[k, k] for k in ks]
    if fam == "unital_noncp":
        while r * i < o:
            r += 1
        bs = rnd(o, r * i)
        gram_inv = np.linalg.inv(bs @ bs.conj().T)
        proj = bs.conj().T @ gram_inv @ bs
        # A B^dagger = I with A = (B B^dagger)^-1 B + G (I - P), P the projector on the row space of B
        as_ = gram_inv @ bs + rnd(o, r * i) @ (np.eye(r * i) - proj)
        return [[as_[:, k * i : (k + 1) * i], bs[:, k * i : (k + 1) * i]] for k in range(r)]
    if fam == "neither_cp":
        ks = [rnd(o, i) for _ in range(r)]
        return [[k, k] for k in ks]
    return [[rnd(o, i), rnd(o, i)] for _ in range(r)]


def check_unital_tp(case):
    i, o, form = case["i"], case["o"], case["form"]
    pairs = _unital_pairs(case)
    m = {"i1": i, "i2": i, "o1": o, "o2": o, "kind": "cp" if case["fam"] not in ("unital_noncp", "neither_gen") else "gen", "r": len(pairs)}
    scale = map_scale(pairs)
    # reference predicate on Phi: unital <=> sum A B^dagger = I_o
    u_res = float(np.max(np.abs(apply_ref(pairs, np.eye(i), (o, o)) - np.eye(o))))
    rep = _rep_of(m, pairs, form)
    dual = _call_dual(rep, m, form, case["dimsform"])
    what = f"dual_channel(<{form}>) of a map built '{case['fam']}'"
    # reference predicate on the returned dual: trace preserving
    if form == "choi":
        dj = np.asarray(dual)
        req(dj.shape == (o * i, o * i), f"{what}: Choi matrix shape {dj.shape}", "dual:shape")
        t = dj.reshape(o, i, o, i)
        tp_mat = np.einsum("aibi->ab", t)
    else:
        fp, _ = as_pairs(_flatten_form(dual, form, what), what)
        for c, d in fp:
            req(c.shape == (i, o) and d.shape == (i, o), f"{what}: operator shapes {c.shape}, {d.shape} != {(i, o)}", "dual:shape")
        tp_mat = sum(d.conj().T @ c for c, d in fp)
    tp_res = float(np.max(np.abs(tp_mat - np.eye(o))))
    if u_res <= 1e-12 * scale:
        req(tp_res <= 1e-9 * scale, f"{what}: Phi is unital (residual {u_res:.1e}) but the dual is not trace preserving (residual {tp_res:.3e})", "dual:unital-not-tp")
    elif u_res >= 1e-3:
        req(tp_res >= 1e-3 - 1e-9 * scale, f"{what}: Phi is not unital (residual {u_res:.3e}) but the dual is trace preserving (residual {tp_res:.1e})", "dual:tp-not-unital")
    req(abs(tp_res - u_res) <= 1e-9 * scale, f"{what}: unitality residual of Phi {u_res:.6e} != trace-preservation residual of the dual {tp_res:.6e}", "dual:residuals")


def nt_unital(case):
    if case["form"] == "choi":
        return "choi form," + case["fam"]
    if not case["real"] and case["i"] != case["o"]:
        return "complex,din!=dout," + case["fam"]
    return None


# ------------------------------------------------------------------------------------------
# 4. complementary channel
# ------------------------------------------------------------------------------------------
@st.composite
def _comp_case(draw):
    fam = draw(st.sampled_from(["isometry", "isometry", "isometry", "perm", "measure_prepare", "mixed_dtype"]))
    d = draw(st.integers(1, 4))
    r = draw(st.integers(1, 5))
    if fam == "mixed_dtype":
        # operators of different dtypes in one list, narrowest first (added after seeded change C05-s3 was missed)
        d = max(d, 2)
        r = draw(st.integers(2, 3))
    if fam == "perm":
        r = 1
    elif fam == "measure_prepare":
        r = d
    return {
        "fam": fam,
        "d": d,
        "r": r,
        "real": draw(st.booleans()),
        "seed": draw(gen.SEED),
        "pure": draw(st.booleans()),
        "rank": draw(st.integers(1, d)),
        "rseed": draw(gen.SEED),
        "generic_x": draw(st.booleans()),
    }


def _tp_family(case, d_in=None, d_out=None):
    d_in = case["d"] if d_in is None else d_in
    d_out = case["d"] if d_out is None else d_out
    r, fam = case["r"], case["fam"]
    g = gen.rng(case["seed"])
    if fam == "perm":
        p = g.permutation(d_in)
        k = np.zeros((d_in, d_in), dtype=np.int64)
        k[p, np.arange(d_in)] = 1
        return [k]
    if fam == "measure_prepare":
        f = g.integers(0, d_in, size=d_in)
        ks = []
        for a in range(d_in):
            k = np.zeros((d_in, d_in), dtype=np.int64)
            k[f[a], a] = 1
            ks.append(k)
        return ks
    if fam == "mixed_dtype":
        # K_0 = integer projector onto a coordinate subset S, K_1 = (complex unitary)(I - P_S) [x sqrt(w)],
        # K_2 = (real orthogonal)(I - P_S) x sqrt(1 - w):  sum K^dagger K = I exactly up to rounding
        m = int(g.integers(1, d_in))
        mask = np.zeros(d_in, dtype=np.int64)
        mask[g.permutation(d_in)[:m]] = 1
        k0 = np.diag(mask)
        rest = np.diag(1 - mask).astype(float)
        u1 = gen.rand_unitary(int(g.integers(0, 2**62)), d_in, False)
        if r == 2:
            return [k0, u1 @ rest]
        w = float(g.uniform(0.2, 0.8))
        o2 = gen.rand_unitary(int(g.integers(0, 2**62)), d_in, True)
        return [k0, np.sqrt(1 - w) * (o2 @ rest), np.sqrt(w) * (u1 @ rest)]
    v = gen.rand_isometry(int(g.integers(0, 2**62)), d_out * r, d_in, case["real"])
    return [np.array(v[k * d_out : (k + 1) * d_out, :]) for k in range(r)]


def check_complementary(case):
    from toqito.channel_ops import apply_channel, complementary_channel

    d = case["d"]
    ks = _tp_family(case)
    r = len(ks)
    comp = complementary_channel(list(ks))
    req(isinstance(comp, list) and len(comp) == d and all(np.asarray(c).shape == (r, d) for c in comp), f"complementary_channel: expected {d} operators of shape {(r, d)}, got {[np.asarray(c).shape for c in comp] if isinstance(comp, list) else type(comp).__name__}", "comp:structure")
    if case["pure"]:
        psi = gen.rand_ket(case["rseed"], d, case["real"])
        rho = np.outer(psi, psi.conj())
    elif case["generic_x"]:
        rho = build_x(case["rseed"], d, d, "prng", True)
    else:
        rho = gen.rand_density(case["rseed"], d, case["rank"], case["real"])
    exp = np.array([[np.trace(ks[a] @ rho @ ks[b].conj().T) for b in range(r)] for a in range(r)])
    tol = 1e-9 * max(1.0, fro(rho))
    got_ref = apply_ref([(c, c) for c in comp], rho, (r, r))
    close(got_ref, exp, tol, "complementary channel output entry (i,j) vs Tr(K_i rho K_j^dagger)", "comp:entries")
    out = np.asarray(apply_channel(rho, comp))
    close(out, exp, tol, "apply_channel(rho, complementary_channel(K)) entry (i,j) vs Tr(K_i rho K_j^dagger)", "comp:entries-via-apply")
    req(abs(np.trace(out) - np.trace(rho)) <= tol, f"complementary channel does not preserve the trace: {np.trace(out)} vs {np.trace(rho)}", "comp:trace")
    if case["pure"]:
        phi_rho = apply_ref([(k, k) for k in ks], rho, (d, d))
        n = max(d, r)
        s1 = np.zeros(n)
        s2 = np.zeros(n)
        s1[:d] = np.linalg.eigvalsh((phi_rho + phi_rho.conj().T) / 2)
        s2[:r] = np.linalg.eigvalsh((out + out.conj().T) / 2)
        req(np.max(np.abs(np.sort(s1) - np.sort(s2))) <= 1e-8, f"pure input: spectra of Phi(rho) {np.sort(s1)[::-1]} and of the complementary output {np.sort(s2)[::-1]} differ", "comp:spectrum")


def nt_comp(case):
    if case["r"] >= 2 and case["d"] >= 2:
        if case["fam"] == "mixed_dtype":
            return "comp:mixed-dtype-list"
        return "comp:r>=2,d>=2" + (",pure" if case["pure"] else "") + ("" if case["real"] or case["fam"] != "isometry" else ",complex")
    return None


# ------------------------------------------------------------------------------------------
# 5. complementary_channel rejects non-TP / non-square families
# ------------------------------------------------------------------------------------------
@st.composite
def _reject_case(draw):
    mode = draw(st.sampled_from(["nonsquare_tp", "scaled", "dropped", "generic", "one_nonsquare", "skewed_same_trace", "adjoint_family"]))
    d = draw(st.integers(1, 4))
    r = draw(st.integers(2 if mode in ("dropped", "one_nonsquare") else 1, 5))
    d_out = d
    if mode == "nonsquare_tp":
        d_out = draw(st.sampled_from([k for k in range(1, 5) if k != d]))
    return {
        "fam": "isometry",
        "mode": mode,
        "d": d,
        "d_out": d_out,
        "r": r,
        "real": draw(st.booleans()),
        "seed": draw(gen.SEED),
        "delta": draw(st.sampled_from([0.01, 0.1, 1.0, -0.5])),
        "which": draw(st.integers(0, r - 1)),
    }


def check_reject(case):
    from toqito.channel_ops import complementary_channel

    d, mode = case["d"], case["mode"]
    if mode == "nonsquare_tp":
        c = dict(case)
        while case["d_out"] * c["r"] < d:
            c["r"] += 1
        ks = _tp_family(c, d, case["d_out"])
    elif mode == "generic":
        g = gen.rng(case["seed"])
        ks = [g.normal(size=(d, d)) + (0 if case["real"] else 1j * g.normal(size=(d, d))) for _ in range(case["r"])]
    else:
        ks = _tp_family(case)
        w = case["which"]
        if mode == "scaled":
            ks[w] = ks[w] * (1 + case["delta"])
        elif mode == "dropped":
            ks = ks[:w] + ks[w + 1 :]
        elif mode == "skewed_same_trace":
            # K_k S with S = diag(sqrt(w)), sum w = d: sum K^dagger K = S^2 has the trace of the identity but is not the identity
            wts = d * gen.rand_probs(case["seed"] ^ 0x5A5A, d, floor=0.02)
            ks = [k @ np.diag(np.sqrt(wts)) for k in ks]
        elif mode == "adjoint_family":
            # unital (sum K K^dagger = I) but in general not trace preserving
            ks = [k.conj().T for k in ks]
        else:
            ks[w] = np.vstack([ks[w], np.zeros((1, d))])
    square = all(k.shape[0] == k.shape[1] == d for k in ks)
    if square:
        res = float(np.max(np.abs(sum(k.conj().T @ k for k in ks) - np.eye(d))))
        if res < 1e-3:
            return  # not rejected by a margin: nothing is asserted
        why = f"not trace preserving (residual {res:.2e})"
    else:
        why = f"operators of shape {[k.shape for k in ks][:3]} are not all square of one size"
    try:
        got = complementary_channel(list(ks))
    except ValueError:
        return
    unlisted_rejection(f"complementary_channel accepted a family that is {why}; returned {len(got)} operators", "comp:accepts-" + ("nonsquare" if not square else "nontp"))


SUBCHECKS = [
    SubCheck("adjoint_identity", check_adjoint, _dual_case, nt_dual, quick=36000, thorough=576000, fuzz=10000),
    SubCheck("dual_of_dual", check_double_dual, _double_case, nt_dual, quick=20000, thorough=320000),
    SubCheck("unital_iff_dual_tp", check_unital_tp, _unital_case, nt_unital, quick=24000, thorough=384000),
    SubCheck("complementary", check_complementary, _comp_case, nt_comp, quick=24000, thorough=384000),
    SubCheck("complementary_rejects", check_reject, _reject_case, lambda c: "reject:" + c["mode"] if c["d"] >= 2 else None, quick=8000, thorough=128000),
]
