"""C18 — symmetric / antisymmetric projectors and combinatorial enumerators are exact.

Functions under test: symmetric_projection, antisymmetric_projection, perm_sign, unique_perms, perfect_matchings.

The stated finite domain is ENUMERATED (``cases=``): every (d, p) with d, p in 1..4 (d^p <= 256), partial flag on and
off; every permutation of 1..6 elements (and every ordered pair of permutations of <= 4 elements for multiplicativity;
pairs of permutations of 5 and 6 elements are drawn); every multiset over an alphabet of <= 4 letters with <= 6
elements; every n <= 10 for the perfect matchings.  The thorough tier adds larger enumerated / drawn cases.

Oracles (none calls the function under test): the subsystem-permutation action is the row-major index model
``tqv.ref.permute(.., row_only=True)`` (= left multiplication by ``ref.perm_operator``), the sign is (-1)^inversions
counted by a double loop, the reference (anti)symmetric projector used for the isometry forms is the signed average of
``ref.perm_operator``; multiset permutations are compared with ``set(itertools.permutations)`` and the multinomial
count; perfect matchings with an independent recursive enumeration and the double factorial.
"""

from __future__ import annotations

import itertools
import math
from collections import Counter

import numpy as np
from hypothesis import strategies as st

from tqv import gen, ref
from tqv.core import SubCheck, Violation, req

# caller-owned arrays handed to the library must come back unchanged (see tqv/purity.py)
from tqv.purity import install as _install_purity  # noqa: E402

_install_purity('toqito.perms', twice=True)

PROPERTY = "C18"
EXHAUSTIVE = True
TOL = 1e-9

RULE = (
    "Enumerated, not sampled: projector cases are all (d, p, partial) with d, p in 1..4 (d^p <= 256; the thorough tier "
    "adds every d <= 6, p <= 5 with d^p <= 1024); perm_sign cases are all 873 permutations of 1..6 elements in list and "
    "array form plus all 617 ordered pairs of permutations of <= 4 elements (pairs of permutations of 5-6 elements are "
    "drawn by Hypothesis); unique_perms cases are all 210 multisets over alphabets of <= 4 letters with <= 6 elements, "
    "each presented sorted, reversed and shuffled and with two label sets (larger multisets drawn); perfect_matchings "
    "cases are all n in 1..10 (thorough: ..12) as int, list and array with three label sets (more label sets drawn). "
    "A case is non-trivial when p >= 2 and d >= 2 (projectors), the permutation has >= 3 elements (sign), the multiset "
    "has a repeated element and >= 2 distinct letters (unique_perms), n >= 4 (matchings). distinct = distinct SHA-1 of "
    "the canonical case JSON among non-trivial cases."
)
ASSUMPTIONS = [
    "perm_sign takes a 1-indexed permutation vector (its docstring examples and its `perm - 1` indexing); the 0-indexed "
    "vectors some callers pass are outside its documented domain and are not asserted on",
    "perfect_matchings of 2 objects may be returned as a 1-D array of length 2 (one matching); rows are read as "
    "consecutive pairs (r[0], r[1]), (r[2], r[3]), ...; object labels are distinct integers; n = 0 is outside the domain",
    "perfect_matchings of an odd number of objects returns an array with zero rows (source comment and pinned test)",
    "unique_perms takes a Python list of integers (it calls list.count)",
    "rank is computed with numpy.linalg.matrix_rank at tolerance 1e-9 (the non-zero singular values of a projector are 1)",
    "numpy reshape/transpose (row-major) is trusted as the subsystem-permutation model",
]


# ------------------------------------------------------------------------------------------
# helpers / reference models
# ------------------------------------------------------------------------------------------
def _inversions(p):
    n = len(p)
    return sum(1 for i in range(n) for j in range(i + 1, n) if p[i] > p[j])


def _sign(p):
    return -1 if _inversions(p) % 2 else 1


def _ref_projector(d, p, anti):
    n = d**p
    acc = np.zeros((n, n))
    for perm in itertools.permutations(range(p)):
        acc += (_sign(perm) if anti else 1) * ref.perm_operator([d] * p, list(perm))
    return acc / math.factorial(p)


def _act(perm, m, d, p):
    """P_perm @ m for a matrix with d^p rows (index model; equals ref.perm_operator([d]*p, perm) @ m)."""
    c = m.shape[1]
    return ref.permute(m, list(perm), [d] * p, [c] + [1] * (p - 1), row_only=True)


def _close(a, b, tol=TOL):
    return a.shape == b.shape and (a.size == 0 or float(np.max(np.abs(a - b))) <= tol)


def _as_matrix(x, what):
    try:
        a = np.asarray(x)
    except Exception:  # ragged tuple etc.
        raise Violation(f"{what}: the returned object is not a numeric array ({type(x).__name__})", "shape") from None
    req(a.dtype != object, f"{what}: the returned object is not a numeric array (dtype=object)", "shape")
    return a


def _sym(d, p, *rest):
    """symmetric_projection; a crash on the admitted local dimension 1 gets its own signature."""
    from toqito.perms import symmetric_projection

    try:
        return symmetric_projection(d, p, *rest)
    except Exception as e:  # noqa: BLE001
        if d == 1 and p >= 2:
            raise Violation(
                f"symmetric_projection(1, {p}{', True' if rest else ''}) raises {type(e).__name__}: {e} -- dim = 1 is admitted "
                "(only dim < 1 is rejected) and the projection is the 1x1 identity",
                "dim1_raises",
            ) from None
        raise


def _proj_cases(tier):
    out = []
    dmax, pmax, cap = (4, 4, 256) if tier == "quick" else (6, 5, 1024)
    for p in range(1, pmax + 1):
        for d in range(1, dmax + 1):
            if d**p <= cap:
                out.append({"d": d, "p": p})
    out.sort(key=lambda c: (c["d"] ** c["p"], c["p"]))
    return out


def nt_proj(case):
    return f"p={min(case['p'], 3)}{'+' if case['p'] > 3 else ''},d>=2" if case["p"] >= 2 and case["d"] >= 2 else None


def _check_projector_common(P, d, p, rank, name):
    n = d**p
    req(P.ndim == 2 and P.shape == (n, n), f"{name}({d},{p}) has shape {P.shape}, expected {(n, n)}", "shape")
    req(_close(P, P.conj().T), f"{name}({d},{p}) is not Hermitian", "hermitian")
    if not _close(P @ P, P):
        if _close(P @ P, -P):
            raise Violation(f"{name}({d},{p}) is MINUS a projector: X@X = -X (eigenvalue -1), so it is not idempotent", "minus_projector")
        raise Violation(f"{name}({d},{p}) is not idempotent (max |X@X - X| = {np.max(np.abs(P @ P - P)):.3g})", "idempotent")
    r = int(np.linalg.matrix_rank(P, tol=1e-9)) if P.size else 0
    req(r == rank, f"{name}({d},{p}) has rank {r}, expected {rank}", "rank")


# ------------------------------------------------------------------------------------------
# 1. symmetric projection
# ------------------------------------------------------------------------------------------
def check_sym_projector(case):
    from toqito.perms import symmetric_projection

    d, p = case["d"], case["p"]
    S = _as_matrix(_sym(d, p), "symmetric_projection")
    _check_projector_common(S, d, p, math.comb(d + p - 1, p), "symmetric_projection")
    for perm in itertools.permutations(range(p)):
        req(_close(_act(perm, S, d, p), S), f"symmetric_projection({d},{p}) is not fixed by the subsystem permutation {list(perm)}", "invariance")
    if p == 2:
        S2 = _as_matrix(symmetric_projection(d), "symmetric_projection")
        req(_close(S2, S), "the default p_val is not 2", "default_p")


def check_sym_partial(case):
    d, p = case["d"], case["p"]
    n, rank = d**p, math.comb(d + p - 1, p)
    V = _as_matrix(_sym(d, p, True), "symmetric_projection(partial)")
    req(V.ndim == 2 and V.shape == (n, rank), f"symmetric_projection({d},{p},partial=True) has shape {V.shape}, expected {(n, rank)}", "shape")
    req(_close(V.conj().T @ V, np.eye(rank)), "partial symmetric projection: columns are not orthonormal", "orthonormal")
    req(_close(V @ V.conj().T, _ref_projector(d, p, False)), "partial symmetric projection: V V^dagger is not the symmetric projector", "span")


# ------------------------------------------------------------------------------------------
# 2. antisymmetric projection
# ------------------------------------------------------------------------------------------
def check_antisym_projector(case):
    from toqito.perms import antisymmetric_projection, symmetric_projection

    d, p = case["d"], case["p"]
    n = d**p
    A = _as_matrix(antisymmetric_projection(d, p), "antisymmetric_projection")
    _check_projector_common(A, d, p, math.comb(d, p), "antisymmetric_projection")
    for perm in itertools.permutations(range(p)):
        req(
            _close(_act(perm, A, d, p), _sign(perm) * A),
            f"antisymmetric_projection({d},{p}): the subsystem permutation {list(perm)} does not act as its sign {_sign(perm)}",
            "sign_action",
        )
    # relations between the two functions' outputs (for d = 1 the antisymmetric projection of p >= 2 copies is the 1x1
    # zero matrix, already established above, and symmetric_projection(1, p) is examined by sym_projector)
    S = _as_matrix(symmetric_projection(d, p), "symmetric_projection") if d >= 2 or p == 1 else np.eye(1)
    if p >= 2:
        req(S.shape == A.shape and _close(A @ S, np.zeros((n, n))) and _close(S @ A, np.zeros((n, n))), f"antisymmetric and symmetric projections ({d},{p}) are not orthogonal", "orthogonal")
    if p == 2:
        req(_close(A + S, np.eye(n)), f"antisymmetric + symmetric projection != identity for d={d}, p=2", "sum_identity")
        A2 = _as_matrix(antisymmetric_projection(d), "antisymmetric_projection")
        req(_close(A2, A), "the default p_param is not 2", "default_p")


def check_antisym_partial(case):
    from toqito.perms import antisymmetric_projection

    d, p = case["d"], case["p"]
    n, rank = d**p, math.comb(d, p)
    V = _as_matrix(antisymmetric_projection(d, p, True), "antisymmetric_projection(partial)")
    if V.ndim == 3 and V.shape == (2, n, n):
        raise Violation(
            f"antisymmetric_projection({d},{p},partial=True) returns a stacked pair of {n}x{n} matrices (the Q and R factors of a QR "
            f"factorisation), not a {n}x{rank} matrix with orthonormal columns",
            "partial_is_qr_pair",
        )
    req(V.ndim == 2 and V.shape == (n, rank), f"antisymmetric_projection({d},{p},partial=True) has shape {V.shape}, expected {(n, rank)}", "shape")
    req(_close(V.conj().T @ V, np.eye(rank)), "partial antisymmetric projection: columns are not orthonormal", "orthonormal")
    req(_close(V @ V.conj().T, _ref_projector(d, p, True)), "partial antisymmetric projection: V V^dagger is not the antisymmetric projector", "span")


# ------------------------------------------------------------------------------------------
# 3. perm_sign
# ------------------------------------------------------------------------------------------
def _sign_cases(tier):
    out = []
    for n in range(1, 7):
        for perm in itertools.permutations(range(1, n + 1)):
            out.append({"perm": list(perm)})
    return out


def _call_sign(perm, form):
    from toqito.perms import perm_sign

    v = perm_sign(list(perm) if form == "list" else np.array(perm))
    try:
        return float(v)
    except Exception:
        raise Violation(f"perm_sign({perm}) did not return a number: {v!r}", "type") from None


def check_sign_value(case):
    perm = case["perm"]
    exp = _sign(perm)
    for form in ("list", "array"):
        out = _call_sign(perm, form)
        req(abs(out - exp) <= TOL, f"perm_sign({perm}) [{form}] = {out}, but the permutation has {_inversions(perm)} inversions (sign {exp})", "value")


def _sign_pair_cases(tier):
    out = []
    for n in range(1, 5):
        perms = list(itertools.permutations(range(1, n + 1)))
        for s in perms:
            for t in perms:
                out.append({"s": list(s), "t": list(t)})
    return out


def check_sign_mult(case):
    s, t = case["s"], case["t"]
    comp = [s[t[i] - 1] for i in range(len(s))]
    a, b, c = _call_sign(s, "list"), _call_sign(t, "array"), _call_sign(comp, "list")
    req(abs(c - a * b) <= TOL, f"perm_sign is not multiplicative: sign({s} o {t} = {comp}) = {c} but sign*sign = {a * b}", "multiplicative")
    req(abs(c - _sign(comp)) <= TOL, f"perm_sign({comp}) = {c} != (-1)^inversions", "value")
    inv = [0] * len(s)
    for i, k in enumerate(s):
        inv[k - 1] = i + 1
    req(abs(_call_sign(inv, "list") - a) <= TOL, f"perm_sign of the inverse of {s} differs from perm_sign({s})", "inverse")


@st.composite
def _sign_pair_drawn(draw):
    n = draw(st.integers(5, 6))
    base = list(range(1, n + 1))
    return {"s": list(draw(st.permutations(base))), "t": list(draw(st.permutations(base)))}


def nt_sign(case):
    p = case.get("perm", case.get("s"))
    return f"n={len(p)}" if len(p) >= 3 else None


# ------------------------------------------------------------------------------------------
# 4. unique_perms
# ------------------------------------------------------------------------------------------
_LABELS = [[0, 1, 2, 3], [7, -2, 100, 3]]


def _multiset_cases(tier):
    out = []
    idx = 0
    for size in range(0, 7):
        for combo in itertools.combinations_with_replacement(range(4), size):
            counts = [combo.count(k) for k in range(4)]
            for li, _lab in enumerate(_LABELS):
                for order in ("sorted", "reversed", "shuffled"):
                    if size <= 1 and order != "sorted":
                        continue
                    idx += 1
                    out.append({"counts": counts, "labels": li, "order": order, "seed": idx})
    return out


def _elements(case):
    lab = _LABELS[case["labels"]] if isinstance(case["labels"], int) else case["labels"]
    el = [lab[k] for k, c in enumerate(case["counts"]) for _ in range(c)]
    if case["order"] == "reversed":
        el = el[::-1]
    elif case["order"] == "shuffled":
        g = gen.rng(case["seed"])
        el = [el[i] for i in g.permutation(len(el))]
    return [int(x) for x in el]


def check_unique_perms(case):
    from toqito.perms import unique_perms

    el = _elements(case)
    n = len(el)
    given = list(el)
    out = list(unique_perms(given))
    req(given == el, "unique_perms modified its input list", "input_mutated")
    try:
        tup = [tuple(int(x) for x in o) for o in out]
    except Exception:
        raise Violation(f"unique_perms({el}) yielded a non-sequence: {out[:3]!r}", "type") from None
    target = sorted(el)
    for o in tup:
        req(len(o) == n and sorted(o) == target, f"unique_perms({el}) yielded {o}, which is not a rearrangement of the input", "invented")
    cnt = Counter(tup)
    dup = [o for o, c in cnt.items() if c > 1]
    req(not dup, f"unique_perms({el}) lists {dup[:1]} more than once ({len(tup)} outputs, {len(cnt)} distinct)", "duplicate")
    expected_n = math.factorial(n)
    for c in Counter(el).values():
        expected_n //= math.factorial(c)
    req(len(cnt) == expected_n, f"unique_perms({el}) lists {len(cnt)} distinct rearrangements, expected {expected_n}", "missing")
    if n <= 7:
        full = set(itertools.permutations(el))
        req(set(cnt) == full, f"unique_perms({el}) differs from set(itertools.permutations): missing {sorted(full - set(cnt))[:2]}", "missing")
    # a second call enumerates the same thing (the occurrence counters are restored)
    if n <= 4:
        again = [tuple(int(x) for x in o) for o in unique_perms(list(el))]
        req(Counter(again) == cnt, "a second call of unique_perms on the same input gives a different enumeration", "second_call")


def nt_multiset(case):
    c = [k for k in case["counts"] if k > 0]
    return f"size={sum(c)},letters={len(c)}" if len(c) >= 2 and max(c) >= 2 else None


@st.composite
def _multiset_drawn(draw):
    k = draw(st.integers(2, 6))
    size = draw(st.integers(5, 8))
    counts = [0] * k
    for _ in range(size):
        counts[draw(st.integers(0, k - 1))] += 1
    labels = draw(st.lists(st.integers(-20, 20), min_size=k, max_size=k, unique=True))
    return {"counts": counts, "labels": labels, "order": draw(st.sampled_from(["sorted", "reversed", "shuffled"])), "seed": draw(gen.SEED)}


@st.composite
def _multiset_history(draw):
    k = draw(st.integers(2, 4))
    size = draw(st.integers(3, 6))
    counts = [0] * k
    for _ in range(size):
        counts[draw(st.integers(0, k - 1))] += 1
    labels = draw(st.lists(st.integers(-20, 20), min_size=k, max_size=k, unique=True))
    return {
        "counts": counts, "labels": labels, "order": draw(st.sampled_from(["sorted", "reversed", "shuffled"])), "seed": draw(gen.SEED),
        "taken": draw(st.integers(0, 12)), "keep_alive": draw(st.booleans()), "outer": draw(st.integers(1, 3)),
    }


def check_unique_perms_history(case):
    """Every enumeration lists each rearrangement exactly once whatever happened to earlier enumerations of the same
    multiset: one abandoned after a few items (still referenced, or dropped), one suspended while another runs (nested
    loops).  unique_perms is a generator, so these are the ordinary ways of consuming it (next / break / islice)."""
    from toqito.perms import unique_perms

    el = _elements(case)
    full = Counter(itertools.permutations(el))
    want = set(full)
    total = len(want)

    def listing(what):
        got = [tuple(int(x) for x in o) for o in unique_perms(list(el))]
        c = Counter(got)
        req(set(c) == want and len(got) == total, f"unique_perms({el}) {what}: {len(got)} outputs, {len(c)} distinct, expected {total} distinct rearrangements", "history:" + what.split(":")[0])

    # 1. an enumeration abandoned after `taken` items
    it = unique_perms(list(el))
    head = [tuple(int(x) for x in o) for o in itertools.islice(it, min(case["taken"], total))]
    if not case["keep_alive"]:
        del it
    listing("after-abandoned: a full enumeration following one that was stopped early")
    # 2. the suspended enumeration resumes where it stopped
    if case["keep_alive"]:
        rest = [tuple(int(x) for x in o) for o in it]
        c = Counter(head + rest)
        req(set(c) == want and len(head) + len(rest) == total, f"unique_perms({el}) resumed after another enumeration ran: {len(head) + len(rest)} outputs, {len(c)} distinct, expected {total}", "history:resumed")
    # 3. nested loops over the same multiset
    seen_outer = []
    for n_outer, o in enumerate(unique_perms(list(el))):
        seen_outer.append(tuple(int(x) for x in o))
        if n_outer < case["outer"]:
            listing("nested: an enumeration run inside the loop body of another one")
    c = Counter(seen_outer)
    req(set(c) == want and len(seen_outer) == total, f"unique_perms({el}) outer loop with nested enumerations: {len(seen_outer)} outputs, {len(c)} distinct, expected {total}", "history:outer")


def nt_multiset_history(case):
    c = [k for k in case["counts"] if k > 0]
    if len(c) < 2 or max(c) < 2:
        return None
    return f"taken={min(case['taken'], 3)},alive={case['keep_alive']},outer={case['outer']}"


# ------------------------------------------------------------------------------------------
# 5. perfect_matchings
# ------------------------------------------------------------------------------------------
def _all_matchings(objs):
    """Independent enumeration: the first object is paired with each other object in turn."""
    if not objs:
        return [frozenset()]
    a, rest = objs[0], objs[1:]
    out = []
    for i, b in enumerate(rest):
        for m in _all_matchings(rest[:i] + rest[i + 1 :]):
            out.append(m | {frozenset((a, b))})
    return out


def _double_factorial_odd(n):
    """(n-1)!! for even n."""
    r = 1
    for k in range(n - 1, 0, -2):
        r *= k
    return r


def _pm_labels(n, kind):
    if kind == "range":
        return list(range(n))
    if kind == "shifted":  # distinct, unsorted, negative and large labels
        return [(-1) ** i * (3 * i + 5) for i in range(n)]
    return [n - i for i in range(n)]  # 'descending': overlaps with 0..n-1 but in another order


def _pm_cases(tier):
    out = []
    top = 10 if tier == "quick" else 12
    for n in range(1, top + 1):
        out.append({"n": n, "form": "int", "labels": None})
        for kind in ("range", "shifted", "descending"):
            for form in ("list", "array"):
                out.append({"n": n, "form": form, "labels": _pm_labels(n, kind)})
    return out


def check_perfect_matchings(case):
    from toqito.perms import perfect_matchings

    n = case["n"]
    labels = list(range(n)) if case["labels"] is None else [int(x) for x in case["labels"]]
    arg = n if case["form"] == "int" else (list(labels) if case["form"] == "list" else np.array(labels))
    out = np.asarray(perfect_matchings(arg))
    if n % 2 == 1:
        req(out.shape[0] == 0 if out.ndim >= 1 else False, f"perfect_matchings of {n} (odd) objects returned {out.shape[0] if out.ndim else out!r} rows, expected none", "odd_nonempty")
        return
    req(out.size % n == 0 and out.ndim in (1, 2) and (out.ndim == 1 or out.shape[1] == n), f"perfect_matchings({n} objects) has shape {out.shape}", "shape")
    rows = out.reshape(-1, n)
    expected = _double_factorial_odd(n)
    seen = set()
    target = sorted(labels)
    for r in rows:
        rr = [int(x) for x in r]
        req(all(float(x) == float(y) for x, y in zip(r, rr)) and sorted(rr) == target, f"row {rr} is not a partition of the objects {labels} into pairs", "not_partition")
        m = frozenset(frozenset((rr[2 * i], rr[2 * i + 1])) for i in range(n // 2))
        req(m not in seen, f"the matching {rr} is listed more than once", "duplicate")
        seen.add(m)
    req(len(rows) == expected, f"perfect_matchings({n} objects) lists {len(rows)} matchings, expected ({n}-1)!! = {expected}", "count")
    if n <= 10:
        req(seen == set(_all_matchings(labels)), "the listed matchings differ from the independent enumeration", "missing")


def nt_pm(case):
    return f"n={case['n']},{case['form']}" if case["n"] >= 4 and case["n"] % 2 == 0 else None


@st.composite
def _pm_drawn(draw):
    n = draw(st.integers(1, 8))
    labels = draw(st.lists(st.integers(-1000, 1000), min_size=n, max_size=n, unique=True))
    return {"n": n, "form": draw(st.sampled_from(["list", "array"])), "labels": labels}


SUBCHECKS = [
    SubCheck("sym_projector", check_sym_projector, None, nt_proj, cases=_proj_cases, exhaustive=True),
    SubCheck("sym_partial", check_sym_partial, None, nt_proj, cases=_proj_cases, exhaustive=True),
    SubCheck("antisym_projector", check_antisym_projector, None, nt_proj, cases=_proj_cases, exhaustive=True),
    SubCheck("antisym_partial", check_antisym_partial, None, nt_proj, cases=_proj_cases, exhaustive=True),
    SubCheck("perm_sign_value", check_sign_value, None, nt_sign, cases=_sign_cases, exhaustive=True, shards=4),
    SubCheck("perm_sign_mult_enum", check_sign_mult, None, nt_sign, cases=_sign_pair_cases, exhaustive=True, shards=4),
    SubCheck("perm_sign_mult_drawn", check_sign_mult, _sign_pair_drawn, nt_sign, quick=8000, thorough=40000, shards=4),
    SubCheck("unique_perms_enum", check_unique_perms, None, nt_multiset, cases=_multiset_cases, exhaustive=True, shards=4),
    SubCheck("unique_perms_drawn", check_unique_perms, _multiset_drawn, nt_multiset, quick=600, thorough=4000, shards=8),
    SubCheck("unique_perms_history", check_unique_perms_history, _multiset_history, nt_multiset_history, quick=600, thorough=4000, shards=4),
    SubCheck("perfect_matchings_enum", check_perfect_matchings, None, nt_pm, cases=_pm_cases, exhaustive=True, shards=8),
    SubCheck("perfect_matchings_drawn", check_perfect_matchings, _pm_drawn, nt_pm, quick=1500, thorough=8000, shards=4),
]
