"""C01 — subsystem permutation is exactly tensor-factor relabelling.

Functions under test: permute_systems, swap, permutation_operator, swap_operator.
Oracles: row-major reshape/transpose index model (tqv.ref.permute), Kronecker law on product operators,
round trip forward/inverse, row_only == left multiplication by the permutation operator.
"""

from __future__ import annotations

import numpy as np
import scipy.sparse as sp
from hypothesis import strategies as st

from tqv import gen, ref
from tqv.core import SubCheck, Violation, req

# caller-owned arrays handed to the library must come back unchanged (see tqv/purity.py)
from tqv.purity import install as _install_purity  # noqa: E402

_install_purity('toqito.perms', twice=True)

PROPERTY = "C01"
RULE = (
    "Cases are drawn by Hypothesis: number of subsystems n in 1..5, row and column local dimensions drawn against a "
    "size budget of 64 (rectangular or square), a permutation, row_only / inv_perm flags, the input form (dense, "
    "scipy.sparse, 1-D vector, column vector), the dim-argument form and the entry source (labelled r*C+c, small "
    "integers entry by entry, or PRNG seed).  A case is non-trivial when (n>=3, local dims not all equal, permutation "
    "not an involution) or (rectangular with row dims != column dims) or (inv_perm with a non-involutive permutation); "
    "for the enumerated omitted-dims sub-check when n>=3 and the permutation is non-involutive. distinct = distinct "
    "SHA-1 of the canonical case JSON among non-trivial cases."
)
ASSUMPTIONS = [
    "a 2-D (1,N) row vector is not an accepted vector form of permute_systems (1-D and (N,1) are)",
    "row and column totals are both >= 2 for matrix inputs (a side of length 1 means 'vector' to the library)",
    "the result for sparse input may be returned dense; only the values are compared",
    "numpy reshape/transpose (row-major) is trusted as the index model",
    "swap(vector, sys, dim=<int>) is outside the accepted forms (the scalar form divides both sides of the shape by dim)",
]


def _involutive(p):
    return all(p[p[i]] == i for i in range(len(p)))


@st.composite
def _perm(draw, n):
    return list(draw(st.permutations(list(range(n)))))


# ------------------------------------------------------------------------------------------
# 1. index model on matrices
# ------------------------------------------------------------------------------------------
@st.composite
def _mat_case(draw, nmax=5, budget=64, hi=4, shuffle=False):
    n = draw(st.integers(1, nmax))
    dr = draw(gen.dims(n=n, budget=budget, hi=hi))
    square = draw(st.booleans())
    dc = list(dr) if square else draw(gen.dims(n=n, budget=budget, hi=hi))
    if shuffle:
        # the size budget pushes the non-trivial factors to the front; put them at drawn positions
        order = list(draw(st.permutations(list(range(n)))))
        dr = [dr[i] for i in order]
        dc = [dc[i] for i in order] if not square else list(dr)
    perm = draw(_perm(n))
    inv = draw(st.booleans())
    row_only = draw(st.booleans())
    R, C = gen.prod(dr), gen.prod(dc)
    spec = draw(gen.matrix_spec(R, C))
    form = draw(st.sampled_from(["dense", "dense", "csr", "csc"]))
    dimforms = ["rc_list", "rc_array"]
    if dr == dc:
        dimforms += ["flat_list", "flat_array"]
    if len(set(dr)) == 1 and len(set(dc)) == 1 and n >= 1 and dr == dc:
        dimforms.append("omitted")
    dimform = draw(st.sampled_from(dimforms))
    return {"dr": dr, "dc": dc, "perm": perm, "inv": inv, "row_only": row_only, "x": spec, "form": form, "dimform": dimform}


def _dim_arg(case):
    f = case["dimform"]
    if f == "rc_list":
        return [list(case["dr"]), list(case["dc"])]
    if f == "rc_array":
        return np.array([case["dr"], case["dc"]])
    if f == "flat_list":
        return list(case["dr"])
    if f == "flat_array":
        return np.array(case["dr"])
    return None


def _as_form(x, form):
    if form == "csr":
        return sp.csr_matrix(x)
    if form == "csc":
        return sp.csc_matrix(x)
    return x


def _dense(a):
    return a.toarray() if sp.issparse(a) else np.asarray(a)


def _cmp(out, exp, exact, what):
    out = _dense(out)
    req(out.shape == exp.shape, f"{what}: shape {out.shape} != expected {exp.shape}", "shape")
    if exact:
        req(np.array_equal(out, exp), f"{what}: entries differ from the index model (max abs diff {np.max(np.abs(out - exp))})", "value")
    else:
        req(np.allclose(out, exp, rtol=0, atol=1e-9 * max(1.0, float(np.max(np.abs(exp))))), f"{what}: entries differ from the index model", "value")


def check_index_model(case):
    from toqito.perms import permute_systems

    x = gen.build_matrix(case["x"])
    p = case["perm"]
    eff = ref.inverse_perm(p) if case["inv"] else p
    exp = ref.permute(x, eff, case["dr"], case["dc"], row_only=case["row_only"])
    x_in = _as_form(x, case["form"])
    x0 = x.copy()
    p_arg = list(p)
    dim_arg = _dim_arg(case)
    dim0 = None if dim_arg is None else np.array(dim_arg, dtype=float).copy()
    out = permute_systems(x_in, p_arg, dim_arg, case["row_only"], case["inv"])
    _cmp(out, exp, case["x"]["src"] != "prng" or case["x"]["dtype"] == "int", "permute_systems")
    req(p_arg == list(p), "permute_systems modified the caller's permutation", "args-mutated")
    req(np.array_equal(_dense(x_in), x0), "permute_systems modified the caller's input array", "args-mutated")
    if dim_arg is not None:
        req(np.array_equal(np.array(dim_arg, dtype=float), dim0), "permute_systems modified the caller's `dim` argument", "args-mutated")
    if case["x"]["dtype"] == "int" and not sp.issparse(out):
        req(np.issubdtype(np.asarray(out).dtype, np.integer), "integer input did not give integer output", "dtype")


def nt_mat(case):
    dr, dc, p = case["dr"], case["dc"], case["perm"]
    if len(dr) >= 3 and len(set(dr)) > 1 and not _involutive(p):
        return "n>=3,nonuniform,noninvolutive"
    if dr != dc and len(dr) >= 2:
        return "rectangular"
    if case.get("inv") and not _involutive(p):
        return "inv,noninvolutive"
    return None


# ------------------------------------------------------------------------------------------
# 2. vectors
# ------------------------------------------------------------------------------------------
@st.composite
def _vec_case(draw):
    n = draw(st.integers(1, 6))
    d = draw(gen.dims(n=n, budget=256, hi=5))
    perm = draw(_perm(n))
    N = gen.prod(d)
    spec = draw(gen.matrix_spec(N, 1))
    return {
        "d": d,
        "perm": perm,
        "inv": draw(st.booleans()),
        "x": spec,
        "shape": draw(st.sampled_from(["1d", "col"])),
        "dimform": draw(st.sampled_from(["list", "array"] + (["omitted"] if len(set(d)) == 1 else []))),
    }


def check_vector(case):
    from toqito.perms import permute_systems

    col = gen.build_matrix(case["x"])
    v = col[:, 0] if case["shape"] == "1d" else col
    p = case["perm"]
    eff = ref.inverse_perm(p) if case["inv"] else p
    exp = ref.permute_vec(col[:, 0], eff, case["d"])
    dim = {"list": list(case["d"]), "array": np.array(case["d"]), "omitted": None}[case["dimform"]]
    out = np.asarray(permute_systems(v, list(p), dim, False, case["inv"]))
    req(out.size == exp.size, f"vector result has {out.size} entries, expected {exp.size}", "shape")
    out = out.reshape(-1)
    exact = case["x"]["src"] != "prng" or case["x"]["dtype"] == "int"
    ok = np.array_equal(out, exp) if exact else np.allclose(out, exp, rtol=0, atol=1e-9)
    req(ok, "permute_systems(vector) differs from the index model", "value")


def nt_vec(case):
    d, p = case["d"], case["perm"]
    if len(d) >= 3 and len(set(d)) > 1 and not _involutive(p):
        return "vec:n>=3,nonuniform,noninvolutive"
    if case["inv"] and not _involutive(p):
        return "vec:inv,noninvolutive"
    return None


# ------------------------------------------------------------------------------------------
# 3. Kronecker law
# ------------------------------------------------------------------------------------------
@st.composite
def _kron_case(draw):
    n = draw(st.integers(2, 4))
    dr = draw(gen.dims(n=n, budget=48))
    square = draw(st.booleans())
    dc = list(dr) if square else draw(gen.dims(n=n, budget=48))
    return {
        "dr": dr,
        "dc": dc,
        "perm": draw(_perm(n)),
        "inv": draw(st.booleans()),
        "seeds": [draw(gen.SEED) for _ in range(n)],
        "cplx": draw(st.booleans()),
        "vector": draw(st.booleans()),
    }


def check_kron(case):
    from toqito.perms import permute_systems

    n = len(case["dr"])
    p = case["perm"]
    eff = ref.inverse_perm(p) if case["inv"] else p
    if case["vector"]:
        fac = [gen.rand_matrix(s, r, 1, case["cplx"]) for s, r in zip(case["seeds"], case["dr"])]
        x = ref.kron_all(fac)[:, 0]
        exp = ref.kron_all([fac[eff[i]] for i in range(n)])[:, 0]
        out = np.asarray(permute_systems(x, list(p), list(case["dr"]), False, case["inv"])).reshape(-1)
    else:
        fac = [gen.rand_matrix(s, r, c, case["cplx"]) for s, r, c in zip(case["seeds"], case["dr"], case["dc"])]
        x = ref.kron_all(fac)
        if min(x.shape) < 2:
            return
        exp = ref.kron_all([fac[eff[i]] for i in range(n)])
        out = np.asarray(permute_systems(x, list(p), [list(case["dr"]), list(case["dc"])], False, case["inv"]))
    req(out.shape == exp.shape, f"kron law: shape {out.shape} != {exp.shape}", "shape")
    req(np.allclose(out, exp, rtol=0, atol=1e-9 * max(1.0, np.max(np.abs(exp)))), "A_0(x)...(x)A_{n-1} was not mapped to A_{p[0]}(x)...(x)A_{p[n-1]}", "value")


# ------------------------------------------------------------------------------------------
# 4. forward / inverse round trip
# ------------------------------------------------------------------------------------------
def check_roundtrip(case):
    from toqito.perms import permute_systems

    x = gen.build_matrix(case["x"])
    p = case["perm"]
    dr, dc = case["dr"], case["dc"]
    fwd = np.asarray(permute_systems(x, list(p), [list(dr), list(dc)]))
    pdr = [dr[i] for i in p]
    pdc = [dc[i] for i in p]
    back = np.asarray(permute_systems(fwd, list(p), [pdr, pdc], False, True))
    req(back.shape == x.shape and np.array_equal(back, x), "inverse call with the permuted dims does not undo the forward call", "value")


# ------------------------------------------------------------------------------------------
# 5. permutation_operator
# ------------------------------------------------------------------------------------------
@st.composite
def _pop_case(draw):
    n = draw(st.integers(1, 5))
    uniform = draw(st.booleans())
    if uniform:
        dmax = {1: 6, 2: 6, 3: 4, 4: 3, 5: 2}[n]
        dd = draw(st.integers(2 if n == 1 else 1, dmax))
        d = [dd] * n
        if gen.prod(d) < 2:
            d = [2] * n
    else:
        d = draw(gen.dims(n=n, budget=64))
    cols = draw(st.integers(1, 3))
    return {
        "d": d,
        "perm": draw(_perm(n)),
        "inv": draw(st.booleans()),
        "sparse": draw(st.booleans()),
        "scalar_dim": uniform and draw(st.booleans()),
        "xseed": draw(gen.SEED),
        "cols": cols,
    }


def check_perm_operator(case):
    from toqito.perms import permutation_operator, permute_systems

    d, p = case["d"], case["perm"]
    n = len(d)
    N = gen.prod(d)
    dim = int(d[0]) if case["scalar_dim"] else list(d)
    P = permutation_operator(dim, list(p), case["inv"], case["sparse"])
    P = _dense(P)
    eff = ref.inverse_perm(p) if case["inv"] else p
    exp = ref.perm_operator(d, eff)
    req(P.shape == (N, N), f"permutation_operator shape {P.shape} != {(N, N)}", "shape")
    req(np.array_equal(P, exp), "permutation_operator is not the relabelling operator", "value")
    req(np.array_equal(P @ P.T, np.eye(N)), "permutation_operator is not orthogonal", "value")
    # product vectors
    g = gen.rng(case["xseed"])
    vs = [g.normal(size=(k, 1)) + 1j * g.normal(size=(k, 1)) for k in d]
    lhs = P @ ref.kron_all(vs)
    rhs = ref.kron_all([vs[eff[i]] for i in range(n)])
    req(np.allclose(lhs, rhs, atol=1e-9), "P (v_0 x ... ) != v_{p[0]} x ...", "value")
    # row_only == left multiplication
    if N >= 2:
        C = max(2, case["cols"] * 2)
        x = g.integers(-5, 6, size=(N, C))
        ro = np.asarray(permute_systems(x, list(p), [list(d), [C] + [1] * (n - 1)], True, case["inv"]))
        req(np.array_equal(ro, (P @ x).astype(ro.dtype)), "row_only result != permutation_operator @ X", "rowonly")


def nt_pop(case):
    if len(case["d"]) >= 3 and not _involutive(case["perm"]):
        return "op:n>=3,noninvolutive" + (",nonuniform" if len(set(case["d"])) > 1 else "")
    return None


# ------------------------------------------------------------------------------------------
# 6. swap / swap_operator
# ------------------------------------------------------------------------------------------
@st.composite
def _swap_case(draw):
    n = draw(st.integers(2, 5))
    dr = draw(gen.dims(n=n, budget=64))
    kind = draw(st.sampled_from(["square", "rect", "vec1d", "veccol"]))
    if kind == "rect":
        dc = draw(gen.dims(n=n, budget=64))
    else:
        dc = list(dr)
    i = draw(st.integers(1, n))
    j = draw(st.integers(1, n).filter(lambda k: k != i))
    R, C = gen.prod(dr), gen.prod(dc)
    spec = draw(gen.matrix_spec(R, 1 if kind.startswith("vec") else C))
    forms = ["list"]
    if kind == "rect" or draw(st.booleans()):
        forms = ["rc"]
    if n == 2 and kind != "rect" and len(set(dr)) == 1:
        forms += ["omitted"]
    if n == 2 and not kind.startswith("vec"):
        # an integer dim is only meaningful for matrices: for a vector the library (like QETLAB) divides the
        # length-1 side by it and rejects the call
        forms += ["scalar"]
    return {
        "dr": dr,
        "dc": dc,
        "kind": kind,
        "sys": [i, j],
        "sysform": draw(st.sampled_from(["list", "array"])),
        "x": spec,
        "dimform": draw(st.sampled_from(forms)),
        "row_only": draw(st.booleans()),
    }


def check_swap(case):
    from toqito.perms import swap

    dr, dc, kind = case["dr"], case["dc"], case["kind"]
    n = len(dr)
    x = gen.build_matrix(case["x"])
    i, j = case["sys"]
    p = list(range(n))
    p[i - 1], p[j - 1] = p[j - 1], p[i - 1]
    f = case["dimform"]
    sys_arg = np.array(case["sys"]) if case.get("sysform") == "array" else list(case["sys"])

    def call_twice(fn, arr, dim_arg, *rest):
        """the same argument objects are reused: a call must neither modify them nor depend on an earlier call"""
        arr0 = arr.copy()
        dim0 = None if dim_arg is None else np.array(dim_arg, dtype=float).copy()
        first = np.asarray(fn(arr, sys_arg, dim_arg, *rest))
        req(np.array_equal(np.asarray(sys_arg), np.asarray(case["sys"])), "swap modified the caller's `sys` argument", "args-mutated")
        req(np.array_equal(arr, arr0), "swap modified the caller's input array", "args-mutated")
        if dim_arg is not None and not isinstance(dim_arg, int):
            req(np.array_equal(np.array(dim_arg, dtype=float), dim0), "swap modified the caller's `dim` argument", "args-mutated")
        second = np.asarray(fn(arr, sys_arg, dim_arg, *rest))
        req(first.shape == second.shape and np.array_equal(first, second), "a second identical swap call returned a different result", "history-dependent")
        return first

    if kind.startswith("vec"):
        v = x[:, 0] if kind == "vec1d" else x
        exp = ref.permute_vec(x[:, 0], p, dr)
        if f == "scalar":
            dim = int(dr[0])
        elif f == "omitted":
            dim = None
        else:
            dim = list(dr)
        out = call_twice(swap, v, dim).reshape(-1)
        req(out.size == exp.size and np.array_equal(out, exp) if case["x"]["src"] != "prng" else np.allclose(out, exp, atol=1e-9), "swap(vector) is not the transposition", "value")
        return
    if min(x.shape) < 2:
        return
    row_only = case["row_only"]
    exp = ref.permute(x, p, dr, dc, row_only=row_only)
    if f == "scalar":
        if kind == "rect" and dr[0] != dc[0]:
            dim = [list(dr), list(dc)]
        else:
            dim = int(dr[0])
    elif f == "omitted":
        dim = None
    elif f == "rc" or kind == "rect":
        dim = [list(dr), list(dc)]
    else:
        dim = list(dr)
    out = call_twice(swap, x, dim, row_only)
    _cmp(out, exp, case["x"]["src"] != "prng" or case["x"]["dtype"] == "int", "swap")


def nt_swap(case):
    if case["kind"] == "rect" and case["dr"] != case["dc"]:
        return "swap:rect"
    if len(case["dr"]) >= 3 and len(set(case["dr"])) > 1:
        return "swap:n>=3,nonuniform"
    return None


@st.composite
def _swapop_case(draw):
    return {"d1": draw(st.integers(1, 8)), "d2": draw(st.integers(1, 8)), "scalar": draw(st.booleans()), "sparse": draw(st.booleans())}


def check_swap_operator(case):
    from toqito.perms import swap_operator

    d1, d2 = case["d1"], case["d2"]
    if case["scalar"]:
        d2 = d1
    if d1 * d2 < 2:
        d1 = d2 = 2
    dim = int(d1) if case["scalar"] else [int(d1), int(d2)]
    W = _dense(swap_operator(dim, case["sparse"]))
    exp = ref.perm_operator([d1, d2], [1, 0])
    req(W.shape == exp.shape and np.array_equal(W, exp), "swap_operator is not the operator a(x)b -> b(x)a", "value")


# ------------------------------------------------------------------------------------------
# 7. omitted dims: every (d, n) enumerated
# ------------------------------------------------------------------------------------------
def _omitted_cases(tier):
    import itertools

    out = []
    for n in range(1, 7):
        for d in range(2, 17):
            if d**n > 4096:
                break
            perms = list(itertools.permutations(range(n)))
            # every permutation for n<=4, a spread of 24 for larger n
            if len(perms) > 24:
                step = len(perms) // 24
                perms = perms[1::step][:24]
            for p in perms:
                if d**n <= 256:
                    out.append({"d": d, "n": n, "perm": list(p), "kind": "matrix"})
                out.append({"d": d, "n": n, "perm": list(p), "kind": "vector"})
    return out


def check_omitted(case):
    from toqito.perms import permute_systems

    d, n, p = case["d"], case["n"], case["perm"]
    N = d**n
    if case["kind"] == "matrix":
        x = np.arange(N * N, dtype=np.int64).reshape(N, N)
        exp = ref.permute(x, p, [d] * n, [d] * n)
        out = np.asarray(permute_systems(x, list(p)))
    else:
        x = np.arange(N, dtype=np.int64)
        exp = ref.permute_vec(x, p, [d] * n)
        out = np.asarray(permute_systems(x, list(p))).reshape(-1)
    req(out.shape == exp.shape and np.array_equal(out, exp), f"omitted dims (d={d}, n={n}) differ from explicit equal dims", "value")


def nt_omitted(case):
    return "omitted:n>=3,noninvolutive" if case["n"] >= 3 and not _involutive(case["perm"]) else None


SUBCHECKS = [
    SubCheck("index_model", check_index_model, _mat_case, nt_mat, quick=12000, thorough=400000, fuzz=20000),
    # larger systems than the dense sweep above (up to 12 subsystems at drawn positions, local dimension up to 7, totals up to 512): the
    # property is not bounded in size, so a slip that needs many factors or a large local dimension must be reachable
    SubCheck("index_model_large", check_index_model, lambda: _mat_case(nmax=12, budget=512, hi=7, shuffle=True), nt_mat, quick=900, thorough=18000),
    SubCheck("vector", check_vector, _vec_case, nt_vec, quick=4000, thorough=100000),
    SubCheck("kron_law", check_kron, _kron_case, lambda c: nt_mat({**c, "inv": c["inv"]}), quick=3000, thorough=60000),
    SubCheck("roundtrip", check_roundtrip, _mat_case, nt_mat, quick=3000, thorough=60000),
    SubCheck("perm_operator", check_perm_operator, _pop_case, nt_pop, quick=3000, thorough=60000),
    SubCheck("swap", check_swap, _swap_case, nt_swap, quick=4000, thorough=80000),
    SubCheck("swap_operator", check_swap_operator, _swapop_case, lambda c: "swapop:d1!=d2" if (not c["scalar"] and c["d1"] != c["d2"]) else None, quick=300, thorough=2000, shards=2),
    SubCheck("omitted_dims_enum", check_omitted, None, nt_omitted, cases=_omitted_cases, exhaustive=True),
]
