"""Ensemble generators shared by C10, C11 (and C12): drawn structure + PRNG seed -> list of states and priors."""

from __future__ import annotations

import numpy as np
from hypothesis import strategies as st

from tqv import gen


@st.composite
def ensemble_case(draw, families, forms=("ket1d", "ketcol", "dm"), nmin=2, nmax=5, dmin=2, dmax=4, allow_none_probs=True):
    fam = draw(st.sampled_from(list(families)))
    d = draw(st.integers(dmin, dmax))
    n = draw(st.integers(nmin, nmax))
    cplx = draw(st.booleans())
    form = draw(st.sampled_from(list(forms)))
    if fam == "orthogonal":
        n = min(n, d)
    if fam == "two":
        n = 2
    if fam == "dependent":
        # n kets spanning a subspace of dimension < n
        n = max(n, 3)
    if fam == "chain":
        n = 3
    if fam in ("mixed",):
        form = "dm"
    rank = draw(st.integers(1, d)) if fam == "mixed" else 1
    pk = draw(st.sampled_from(["none", "uniform", "dyadic"] if allow_none_probs else ["uniform", "dyadic"]))
    counts = None
    if pk == "dyadic":
        # "any prior" includes priors that are exactly zero for some states (seeded changes C11-t3 / C12-t2 prune or
        # mis-pair such states; every generated prior used to be >= 1/64)
        counts = draw(gen.dyadic_probs(n, m=6, allow_zero=False))
        if n >= 2 and draw(st.integers(0, 3)) == 0:
            z = draw(st.integers(0, n - 1))
            t = (z + 1 + draw(st.integers(0, n - 2))) % n
            counts[t] += counts[z]
            counts[z] = 0
    # mixed dtypes inside one ensemble: the first state is stored as a real (float) array, the others are complex
    # (added after seeded changes C10-s2 / C11-s1, which look only at the first state's dtype, were considered)
    real_first = cplx and fam in ("generic", "two", "mixed") and draw(st.integers(0, 3)) == 0
    return {"family": fam, "d": d, "n": n, "cplx": cplx, "form": form, "rank": rank, "seed": draw(gen.SEED), "probs": pk, "counts": counts, "real_first": real_first}


def build_kets_or_dms(case):
    """Return (states as density matrices, kets or None)."""
    fam, d, n, cplx, seed = case["family"], case["d"], case["n"], case["cplx"], case["seed"]
    real = not cplx
    g = gen.rng(seed)
    kets = None
    rf = bool(case.get("real_first"))
    if fam == "generic" or fam == "two":
        kets = [gen.rand_ket(int(g.integers(0, 2**62)), d, real or (rf and i == 0)) for i in range(n)]
    elif fam == "orthogonal":
        u = gen.rand_unitary(seed, d, real)
        kets = [u[:, i].copy() for i in range(n)]
    elif fam == "dependent":
        k = int(g.integers(1, min(d, n - 1) + 1))  # span dimension < n
        basis = gen.rand_isometry(seed, d, k, real)
        kets = []
        for i in range(n):
            c = g.normal(size=k) + (0 if real else 1j * g.normal(size=k))
            v = basis @ c
            kets.append(v / np.linalg.norm(v))
    elif fam == "gu":
        # geometrically uniform: psi_k = U^k psi with U^n = I
        ph = np.exp(2j * np.pi * np.arange(d) * int(g.integers(1, n + 1)) / n) if cplx else np.where(np.arange(d) % 2 == 0, 1.0, -1.0)
        u0 = gen.rand_unitary(seed, d, real)
        u = u0 @ np.diag(ph) @ u0.conj().T
        psi = gen.rand_ket(seed // 2 + 1, d, real)
        kets = [np.linalg.matrix_power(u, k) @ psi for k in range(n)]
        kets = [v / np.linalg.norm(v) for v in kets]
    elif fam == "chain":
        # consecutive states orthogonal, the first and the last overlapping: u0, u1, (a u0 + b u2), or in dimension 2
        # v, v_perp, v (seeded change C10-w3 tested orthogonality of neighbouring pairs only)
        u = gen.rand_unitary(seed, d, real)
        if d >= 3:
            a = 0.3 + 0.6 * float(g.random())
            kets = [u[:, 0].copy(), u[:, 1].copy(), a * u[:, 0] + np.sqrt(1 - a * a) * u[:, 2]]
        else:
            kets = [u[:, 0].copy(), u[:, 1].copy(), u[:, 0].copy()]
    elif fam == "mixed":
        dms = [gen.rand_density(int(g.integers(0, 2**62)), d, case["rank"], real or (rf and i == 0)) for i in range(n)]
        if rf:
            dms[0] = np.real(dms[0])
        return dms, None
    else:
        raise ValueError(fam)
    if real:
        kets = [np.real(v) for v in kets]
    elif rf:
        kets[0] = np.real(kets[0])
    dms = [np.outer(v, v.conj()) for v in kets]
    return dms, kets


def as_inputs(case, dms, kets):
    """The list handed to toqito in the case's calling form."""
    form = case["form"]
    if kets is None or form == "dm":
        return [np.array(r) for r in dms]
    if form == "ket1d":
        return [np.array(v) for v in kets]
    return [np.array(v).reshape(-1, 1) for v in kets]


def priors(case):
    n = case["n"]
    if case["probs"] == "dyadic":
        tot = sum(case["counts"])
        return [c / tot for c in case["counts"]]
    return [1 / n] * n


def probs_arg(case):
    return None if case["probs"] == "none" else priors(case)


def to_np(m):
    """picos / cvxopt value -> numpy complex array."""
    v = getattr(m, "value", m)
    a = np.array(v, dtype=complex)
    return a
