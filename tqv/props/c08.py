"""C08 -- XOR game values are the Tsirelson optimum and agree across formulations; Bell-inequality maximiser.

Functions under test: XORGame (constructor validation, quantum_value, classical_value, nonsignaling_value,
to_nonlocal_game, reps), NonlocalGame.commuting_measurement_value_upper_bound(1) / classical_value /
nonsignaling_value on the converted game, bell_inequality_max with two settings per party.

Oracles (tqv/props/_c08_helpers.py, no toqito call): a certified interval for the optimal quantum bias (explicit unit
vectors evaluated in numpy / explicit dual-feasible point verified with eigvalsh; the harness solves the *primal* Gram
program with CLARABEL whereas toqito solves the dual with SCS), brute force over +/-1 assignments, the closed form
"non-signalling value of an XOR game = 1", Grothendieck's inequality, a reference product game, and for Bell
expressions a certified two-level grid over the Jordan-lemma qubit family plus an un-gauged Nelder-Mead search.
"""

from __future__ import annotations

import warnings

import numpy as np
from hypothesis import strategies as st

from tqv import gen
from tqv.core import Inconclusive, SubCheck, Violation, req, unlisted_rejection
from tqv.props import _c08_helpers as H

# caller-owned arrays handed to the library must come back unchanged (see tqv/purity.py)
from tqv.purity import install as _install_purity  # noqa: E402

_install_purity('toqito.state_opt')

PROPERTY = "C08"

# ---- tolerances (DESIGN 1.3; residuals measured on the unchanged tree are listed in the final report) ----------
TOL_EQ = 5e-4  # SCS value vs certified value (win probabilities)
TOL_ORD = 2e-3  # order relations between two SCS values
TOL_EXACT = 1e-12  # classical values of dyadic games
GAP_MAX = 1e-5  # certificate interval width above which nothing is asserted
TOL_BELL = 1e-3  # relative to scale = sum |coefficient| * |outcome values|

RULE = (
    "XOR games are drawn by Hypothesis: shape (q0, q1) from all 25 shapes in 1..5 x 1..5 (rectangular allowed), "
    "optionally one or two zero-probability rows / columns, probabilities = integer counts over 2^m on the kept cells "
    "(stars-and-bars cuts drawn one by one, m in {3,6,10}; multinomial counts from a drawn seed with Dirichlet "
    "alpha in {0.5,1,2,8}, m in {6,10}; or uniform) so that the matrix sums to 1 exactly, a 0/1 predicate "
    "drawn bit by bit / from a seed / from two frustrated families (AND, inner product) behind local flips, predicate "
    "dtype int/bool/float, tol omitted or one of 1e-12/1e-8/1e-4, constructor argument form positional or keyword, "
    "reps 1..3 (sub-check pred_dtype stores the same predicate as (u)int8/16/32/64, bool or float32/64). A game is non-trivial when it is rectangular or its distribution is not uniform on its support AND an "
    "achieved quantum value (alternating maximisation, numpy) exceeds the brute-force classical value by >= 0.01; "
    "conversion / validation cases are non-trivial when rectangular or reps >= 2 / when the defect is the only one "
    "present. Bell cases: 2x2 coefficient matrices from integers -3..3, a drawn PRNG seed, or an odd-parity "
    "(CHSH-like) sign pattern times drawn magnitudes; marginal vectors zero or drawn; outcome values (1,-1), (-1,1), "
    "(0,1) or (1,0) per party; non-trivial when marginals are non-zero or an outcome pair is 0/1-valued, tagged "
    "'qadv' when the certified qubit optimum exceeds the best deterministic value by 1e-3*scale. distinct = distinct "
    "SHA-1 of the canonical case JSON among non-trivial cases."
)
ASSUMPTIONS = [
    "probability matrices are exactly normalised dyadic rationals (XORGame validates |sum - 1| against eps*q0^2*q1^2)",
    "the non-signalling value of every XOR game is exactly 1 (p(a,b|x,y) = [a xor b = f(x,y)]/2 is non-signalling)",
    "Grothendieck: quantum bias <= K_G * classical bias with K_G^R <= 1.7823 (Krivine)",
    "Jordan's lemma: for two dichotomic measurements per party the quantum maximum of a Bell expression is attained on "
    "two qubits with real rank-one projective measurements or deterministic outcomes",
    "SCS noise limits the visible defect size in SDP-valued outputs to ~5e-4 (absolute for win probabilities, relative "
    "to the sum of |coefficients| for Bell values)",
    "a cvxpy 'solution may be inaccurate' warning or a solver exception makes the case inconclusive, never a pass or a "
    "violation; a certificate interval wider than 1e-5 makes the case inconclusive",
    "reps >= 2 sandwich (classical(G^2) <= w*^2 <= NPA_1(G^2)) only for games with q0*q1 <= 6 and min(q0,q1) <= 2",
    "a 0/1 predicate may be stored in any numeric numpy dtype, signed or unsigned (the docstring says 'a binary matrix')",
    "bell_inequality_max with three or more settings is outside the property text (two settings per party only)",
]


# ------------------------------------------------------------------------------------------
# helpers
# ------------------------------------------------------------------------------------------
_CALIB = None  # calibration aid only: set to a dict by a calibration script to collect the largest residual per class


def _rec(name, value):
    if _CALIB is not None:
        _CALIB[name] = max(_CALIB.get(name, 0.0), float(value))


def _sdp(fn):
    """Call a toqito function that enters a solver; an 'inaccurate' solver warning makes the case inconclusive."""
    with warnings.catch_warnings(record=True) as rec:
        warnings.simplefilter("always")
        val = fn()
    for w in rec:
        if "inaccurate" in str(w.message).lower():
            raise Inconclusive("solver-inaccurate")
    if val is None:
        raise Inconclusive("solver-no-value")
    val = float(np.real(val))
    return val


def _finite(val, what):
    req(np.isfinite(val), f"{what} returned a non-finite value {val}", f"nonfinite:{what}")


def _interval(D):
    try:
        lb, ub = H.tsirelson_interval(D)
    except H.OracleFailure as e:
        raise Inconclusive(str(e)) from None
    if ub - lb > GAP_MAX:
        raise Inconclusive("certificate-gap")
    if lb > ub + 1e-9:
        raise Inconclusive("certificate-inconsistent")
    return lb, ub


def _pm(case):
    prob = np.array(case["counts"], dtype=float) / float(2 ** case["m"])
    pred = np.array(case["pred"], dtype=int)
    return prob, pred


def _make(case, prob=None, pred=None, reps=None):
    """Construct the XORGame with the drawn argument form / tol."""
    from toqito.nonlocal_games.xor_game import XORGame

    p0, f0 = _pm(case)
    prob = p0 if prob is None else prob
    pred = f0 if pred is None else pred
    reps = case.get("reps", 1) if reps is None else reps
    pred = np.asarray(pred).astype({"int": int, "bool": bool, "float": float}[case.get("pred_dtype", "int")], copy=False)
    tol = case.get("tol")
    form = case.get("form", "kw")
    if form == "pos":
        if tol is None:
            return XORGame(prob, pred) if reps == 1 else XORGame(prob, pred, reps)
        return XORGame(prob, pred, reps, tol)
    kw = {}
    if reps != 1 or case.get("explicit_reps"):
        kw["reps"] = reps
    if tol is not None:
        kw["tol"] = tol
    return XORGame(prob, pred, **kw)


# ------------------------------------------------------------------------------------------
# generators
# ------------------------------------------------------------------------------------------
@st.composite
def _zero_lines(draw, q0, q1):
    """indices of rows / columns that get probability zero: usually none, never all of them"""
    mode = draw(st.sampled_from(["none", "none", "row", "none", "col", "none", "both", "none", "two"]))
    zr, zc = [], []
    if mode in ("row", "both", "two") and q0 >= 2:
        zr = [draw(st.integers(0, q0 - 1))]
    if mode in ("col", "both") and q1 >= 2:
        zc = [draw(st.integers(0, q1 - 1))]
    if mode == "two" and q1 >= 3:
        a = draw(st.integers(0, q1 - 1))
        b = draw(st.integers(0, q1 - 2))
        zc = sorted({a, b + 1 if b >= a else b})
    return zr, zc


# every shape with q0, q1 in 1..5; the order only steers Hypothesis (which favours the ends of a list) towards shapes
# on which the quantum and classical values can differ, and the shrinker towards 2x2
_SHAPES = [(2, 2), (2, 3), (3, 2), (3, 3), (3, 4), (4, 3), (4, 4), (2, 4), (4, 2), (4, 5), (5, 4), (5, 5), (1, 2), (2, 1), (1, 3),
           (3, 1), (1, 1), (1, 4), (4, 1), (1, 5), (5, 1), (2, 5), (5, 2), (3, 5), (5, 3)]  # fmt: skip


@st.composite
def _xor_case(draw, qmax=5, cells_max=25, with_tol=True):
    shapes = [s for s in _SHAPES if max(s) <= qmax and s[0] * s[1] <= cells_max]
    q0, q1 = draw(st.sampled_from(shapes + [s for s in shapes if min(s) > 1]))  # shapes with a side of 1 at half weight
    zr, zc = draw(_zero_lines(q0, q1))
    cells = [(x, y) for x in range(q0) for y in range(q1) if x not in zr and y not in zc]
    n = len(cells)
    srcs = ["prng", "prng", "cuts"] + (["uniform"] if n in (1, 2, 4, 8, 16) else [])
    src = draw(st.sampled_from(srcs))
    case = {"src": src}
    if src == "cuts":
        # stars and bars, drawn cut by cut (shrinks to readable matrices)
        m = draw(st.sampled_from([6, 3, 10]))
        allow_zero = True if 2**m < n else draw(st.booleans())
        cnt = draw(gen.dyadic_probs(n, m=m, allow_zero=allow_zero))
    elif src == "uniform":
        m = 6
        cnt = [2**m // n] * n
    else:
        # multinomial counts from a drawn seed: generic-position distributions, flat (Dirichlet alpha = 8) to spiky (alpha = 0.5)
        m = draw(st.sampled_from([10, 6]))
        alpha = draw(st.sampled_from([2.0, 8.0, 1.0, 0.5]))
        seed = draw(gen.SEED)
        g = gen.rng(seed)
        cnt = g.multinomial(2**m, g.dirichlet(alpha * np.ones(n))).tolist()
        case.update(seed=seed, alpha=alpha)
    counts = [[0] * q1 for _ in range(q0)]
    for (x, y), c in zip(cells, cnt):
        counts[x][y] = int(c)
    pk = draw(st.sampled_from(["ip", "bits", "prng", "and"]))
    case["pred_kind"] = pk
    if pk == "bits":
        pred = [[draw(st.integers(0, 1)) for _ in range(q1)] for _ in range(q0)]
    elif pk == "prng":
        pseed = draw(gen.SEED)
        pred = gen.rng(pseed).integers(0, 2, size=(q0, q1)).tolist()
        case["pseed"] = pseed
    else:
        # frustrated predicates (quantum > classical for balanced distributions), hidden behind drawn local flips:
        # "and": f = bx[x] & by[y] (CHSH with repeated questions), "ip": f = <bits(x), bits(y)> mod 2 (Hadamard game)
        pseed = draw(gen.SEED)
        case["pseed"] = pseed
        g = gen.rng(pseed)
        rx, cy = g.integers(0, 2, size=q0), g.integers(0, 2, size=q1)
        if pk == "and":
            bx, by = g.permutation(np.arange(q0) % 2), g.permutation(np.arange(q1) % 2)
            pred = [[int((bx[x] & by[y]) ^ rx[x] ^ cy[y]) for y in range(q1)] for x in range(q0)]
        else:
            px, py = g.permutation(q0), g.permutation(q1)
            pred = [[int((bin(int(px[x]) & int(py[y])).count("1") & 1) ^ rx[x] ^ cy[y]) for y in range(q1)] for x in range(q0)]
    case.update(counts=counts, m=m, pred=pred)
    if with_tol:
        case["tol"] = draw(st.sampled_from([None, 1e-8, None, 1e-12, 1e-4]))
        case["form"] = draw(st.sampled_from(["kw", "pos"]))
        case["explicit_reps"] = draw(st.booleans())
        case["pred_dtype"] = draw(st.sampled_from(["int", "int", "bool", "float"]))
    return case


def _shape_label(case):
    counts = np.array(case["counts"])
    q0, q1 = counts.shape
    lab = []
    if q0 != q1:
        lab.append("rect")
    nz = counts[counts > 0]
    if len(set(nz.tolist())) > 1:
        lab.append("biased")
    if np.any(counts.sum(axis=1) == 0) or np.any(counts.sum(axis=0) == 0):
        lab.append("zero-line")
    return lab


def nt_game(case):
    """rectangular or biased, with an achieved quantum value >= classical value + 0.01."""
    lab = _shape_label(case)
    if not ({"rect", "biased"} & set(lab)):
        return None
    prob, pred = _pm(case)
    D = H.d_matrix(prob, pred)
    if min(D.shape) < 2:
        return None
    gap = (H.rank_lower_bound(D) - H.classical_bias(D)) / 2
    if gap < 0.01:
        return None
    return "gap>=0.01:" + ",".join(lab)


def nt_shape(case):
    lab = _shape_label(case)
    return ",".join(lab) if lab else None


# ------------------------------------------------------------------------------------------
# 1. quantum value inside the certified Tsirelson interval
# ------------------------------------------------------------------------------------------
def check_tsirelson(case):
    prob, pred = _pm(case)
    D = H.d_matrix(prob, pred)
    lb, ub = _interval(D)
    g = _make(case, reps=1)
    qv = _sdp(g.quantum_value)
    _finite(qv, "quantum_value")
    w_lo, w_hi = 0.5 + lb / 2, 0.5 + ub / 2
    _rec("tsirelson: toqito outside certified interval", max(w_lo - qv, qv - w_hi, 0))
    _rec("tsirelson: certificate width", w_hi - w_lo)
    req(
        qv >= w_lo - TOL_EQ,
        f"quantum_value {qv:.7f} is below the value {w_lo:.7f} achieved by explicit unit vectors (dual bound {w_hi:.7f})",
        "quantum<achieved",
    )
    req(
        qv <= w_hi + TOL_EQ,
        f"quantum_value {qv:.7f} exceeds the dual-feasible certificate {w_hi:.7f} (achieved {w_lo:.7f})",
        "quantum>dual-bound",
    )


# ------------------------------------------------------------------------------------------
# 2. quantum value = NPA level 1 of the converted game
# ------------------------------------------------------------------------------------------
def check_npa1(case):
    prob, pred = _pm(case)
    lb, ub = _interval(H.d_matrix(prob, pred))
    w_lo, w_hi = 0.5 + lb / 2, 0.5 + ub / 2
    g = _make(case, reps=1)
    ng = g.to_nonlocal_game()
    npa = _sdp(lambda: ng.commuting_measurement_value_upper_bound(1) if case.get("k_explicit") else ng.commuting_measurement_value_upper_bound())
    _finite(npa, "npa1")
    _rec("npa1: outside certified interval", max(w_lo - npa, npa - w_hi, 0))
    req(
        w_lo - TOL_EQ <= npa <= w_hi + TOL_EQ,
        f"NPA level 1 of to_nonlocal_game() = {npa:.7f} but the Tsirelson optimum is certified in [{w_lo:.7f}, {w_hi:.7f}]",
        "npa1!=tsirelson",
    )
    qv = _sdp(g.quantum_value)
    _rec("npa1: |quantum_value - npa1|", abs(qv - npa))
    req(abs(qv - npa) <= 2 * TOL_EQ, f"quantum_value {qv:.7f} != NPA level 1 of the converted game {npa:.7f}", "quantum!=npa1")


@st.composite
def _npa_case(draw):
    case = draw(_xor_case())
    case["k_explicit"] = draw(st.booleans())
    return case


# ------------------------------------------------------------------------------------------
# 3. classical value = brute force; both formulations; non-signalling value
# ------------------------------------------------------------------------------------------
def check_classical(case):
    prob, pred = _pm(case)
    wc = 0.5 + H.classical_bias(H.d_matrix(prob, pred)) / 2
    g = _make(case, reps=1)
    cv = float(g.classical_value())
    _rec("classical: |toqito - brute force|", abs(cv - wc))
    req(abs(cv - wc) <= TOL_EXACT, f"XORGame.classical_value {cv!r} != max over +/-1 assignments {wc!r}", "classical!=bruteforce")
    cv2 = float(g.to_nonlocal_game().classical_value())
    req(abs(cv2 - wc) <= TOL_EXACT, f"to_nonlocal_game().classical_value {cv2!r} != max over +/-1 assignments {wc!r}", "converted-classical!=bruteforce")
    # the same statement for the game built with reps = 2 (the 2-fold product game), small games only: the XOR object and
    # its conversion both report the brute-force value of the reference product game
    if prob.size <= 6 and min(prob.shape) <= 2:
        g2 = _make(case, reps=2)
        p2, v2 = H.product_game(prob, H.xor_pred(pred), 2)
        c2_ref = H.general_classical_value(p2, v2)
        cx2 = float(g2.classical_value())
        _rec("classical: |toqito(reps=2) - brute force on the product game|", abs(cx2 - c2_ref))
        req(abs(cx2 - c2_ref) <= TOL_EXACT, f"XORGame(reps=2).classical_value() = {cx2!r} != brute force on the reference 2-fold product game {c2_ref!r} (single game {wc!r})", "classical(reps=2)!=bruteforce")


def check_nonsignaling(case):
    prob, pred = _pm(case)
    g = _make(case, reps=1)
    which = case.get("which", "both")
    small = prob.size <= 12
    if which == "xor" or small:
        ns = _sdp(g.nonsignaling_value)
        _finite(ns, "nonsignaling_value")
        _rec("ns: |value - 1|", abs(ns - 1))
        req(abs(ns - 1.0) <= TOL_EQ, f"XORGame.nonsignaling_value = {ns:.7f}, the non-signalling value of an XOR game is 1", "ns!=1")
    if which == "conv" or small:
        ns2 = _sdp(g.to_nonlocal_game().nonsignaling_value)
        _finite(ns2, "nonsignaling_value")
        _rec("ns: |value - 1|", abs(ns2 - 1))
        req(abs(ns2 - 1.0) <= TOL_EQ, f"to_nonlocal_game().nonsignaling_value = {ns2:.7f}, expected 1", "converted-ns!=1")


@st.composite
def _ns_case(draw):
    case = draw(_xor_case())
    case["which"] = draw(st.sampled_from(["xor", "conv"]))
    return case


# ------------------------------------------------------------------------------------------
# 4. classical <= quantum <= Grothendieck
# ------------------------------------------------------------------------------------------
def check_order(case):
    g = _make(case, reps=1)
    qv = _sdp(g.quantum_value)
    _finite(qv, "quantum_value")
    cv = float(g.classical_value())
    _rec("order: classical - quantum", max(cv - qv, 0))
    _rec("order: qbias - K_G cbias", max(2 * qv - 1 - H.K_G * (2 * cv - 1), 0))
    req(cv <= qv + TOL_ORD, f"classical value {cv:.6f} > quantum value {qv:.6f}", "classical>quantum")
    req(
        2 * qv - 1 <= H.K_G * (2 * cv - 1) + TOL_ORD,
        f"quantum bias {2 * qv - 1:.6f} > K_G * classical bias = {H.K_G * (2 * cv - 1):.6f}",
        "grothendieck",
    )
    req(-TOL_ORD <= qv <= 1 + TOL_ORD, f"quantum value {qv:.6f} outside [0, 1]", "range")


# ------------------------------------------------------------------------------------------
# 5. repetitions
# ------------------------------------------------------------------------------------------
@st.composite
def _reps_case(draw):
    sandwich = draw(st.sampled_from([False, False, True]))
    if sandwich:
        case = draw(_xor_case(qmax=3, cells_max=6))
        counts = np.array(case["counts"])
        if min(counts.shape) > 2:  # cannot happen with cells_max=6, kept for safety
            sandwich = False
    else:
        case = draw(_xor_case())
    case["sandwich"] = bool(sandwich)
    return case


def check_reps(case):
    prob, pred = _pm(case)
    lb, ub = _interval(H.d_matrix(prob, pred))
    w_lo, w_hi = 0.5 + lb / 2, 0.5 + ub / 2
    vals = {}
    for r in (1, 2, 3):
        g = _make(case, reps=r)
        qv = _sdp(g.quantum_value)
        _finite(qv, "quantum_value")
        vals[r] = qv
        _rec(f"reps{r}: outside certified power interval", max(w_lo**r - qv, qv - w_hi**r, 0))
        req(
            w_lo**r - r * TOL_EQ <= qv <= w_hi**r + r * TOL_EQ,
            f"XORGame(reps={r}).quantum_value() = {qv:.7f} but (certified optimum)^{r} lies in [{w_lo**r:.7f}, {w_hi**r:.7f}]",
            f"reps{r}!=power",
        )
    if case.get("sandwich") and prob.size <= 6 and min(prob.shape) <= 2:
        g2 = _make(case, reps=2)
        ng2 = g2.to_nonlocal_game()
        c2 = float(ng2.classical_value())
        p2, v2 = H.product_game(prob, H.xor_pred(pred), 2)
        c2_ref = H.general_classical_value(p2, v2)
        _rec("reps: |classical(G^2) - brute force|", abs(c2 - c2_ref))
        req(abs(c2 - c2_ref) <= TOL_EXACT, f"classical value of the 2-fold game {c2!r} != brute force on the reference product game {c2_ref!r}", "classical(G^2)")
        req(c2 <= vals[2] + TOL_ORD, f"classical(G^2) = {c2:.6f} > quantum value of the repeated game {vals[2]:.6f}", "classical(G^2)>quantum^2")
        n2 = _sdp(lambda: ng2.commuting_measurement_value_upper_bound(1))
        _finite(n2, "npa1")
        _rec("reps: quantum^2 - npa1(G^2)", max(vals[2] - n2, 0))
        _rec("reps: classical(G^2) - quantum^2", max(c2 - vals[2], 0))
        req(vals[2] <= n2 + TOL_ORD, f"quantum value of the repeated game {vals[2]:.6f} > NPA_1(G^2) = {n2:.6f}", "quantum^2>npa1(G^2)")


def nt_reps(case):
    lab = nt_game(case)
    if lab is None:
        return None
    return lab + (",sandwich" if case.get("sandwich") else "")


# ------------------------------------------------------------------------------------------
# 6. conversion
# ------------------------------------------------------------------------------------------
@st.composite
def _conv_case(draw):
    reps = draw(st.sampled_from([1, 1, 2, 3]))
    cells_max = {1: 25, 2: 12, 3: 4}[reps]
    case = draw(_xor_case(qmax=5, cells_max=cells_max))
    case["reps"] = reps
    return case


def check_conversion(case):
    prob, pred = _pm(case)
    reps = case["reps"]
    prob_in, pred_in = prob.copy(), pred.copy()
    g = _make(case, prob=prob_in, pred=pred_in)
    ng = g.to_nonlocal_game()
    q0, q1 = prob.shape
    P = np.asarray(ng.prob_mat)
    V = np.asarray(ng.pred_mat)
    p_ref, v_ref = H.product_game(prob, H.xor_pred(pred), reps)
    req(V.shape == v_ref.shape, f"pred_mat of the converted game has shape {V.shape}, expected {v_ref.shape}", "conv-shape")
    req(P.shape == p_ref.shape, f"prob_mat of the converted game has shape {P.shape}, expected {p_ref.shape}", "conv-shape")
    req(np.array_equal(P, p_ref), "prob_mat of the converted game differs from the XOR game's distribution", "conv-prob")
    if reps == 1:
        bad = np.argwhere(V != v_ref)
        req(len(bad) == 0, f"pred_mat[a,b,x,y] != [f(x,y) == a xor b] at (a,b,x,y) = {bad[0].tolist() if len(bad) else None}", "conv-pred")
    else:
        req(np.array_equal(V, v_ref), f"pred_mat of the converted {reps}-fold game differs from the product of V(a,b|x,y) = [f(x,y) == a xor b]", "conv-pred-reps")
    req(np.array_equal(prob_in, prob) and np.array_equal(pred_in, pred), "to_nonlocal_game modified the caller's matrices", "conv-mutates-input")


def nt_conv(case):
    lab = _shape_label(case)
    if case.get("reps", 1) >= 2:
        lab.append(f"reps{case['reps']}")
    keep = [t for t in lab if t in ("rect", "zero-line") or t.startswith("reps")]
    return ",".join(keep) if keep else None


# ------------------------------------------------------------------------------------------
# 7. validation
# ------------------------------------------------------------------------------------------
@st.composite
def _valid_case(draw):
    case = draw(_xor_case())
    counts = np.array(case["counts"])
    q0, q1 = counts.shape
    kinds = ["shape", "unnormalised", "negative-sum-not-1", "ok"]
    if counts.size >= 2:
        kinds = ["negative-sum-1"] + kinds
    kind = draw(st.sampled_from(kinds))
    case["kind"] = kind
    total = 2 ** case["m"]
    if kind == "unnormalised":
        case["delta"] = draw(st.integers(1, total)) * draw(st.sampled_from([1, -1]))
        case["cell"] = [draw(st.integers(0, q0 - 1)), draw(st.integers(0, q1 - 1))]
    elif kind == "negative-sum-not-1":
        case["delta"] = -draw(st.integers(1, total))
        case["cell"] = [draw(st.integers(0, q0 - 1)), draw(st.integers(0, q1 - 1))]
    elif kind == "negative-sum-1":
        case["delta"] = -draw(st.integers(1, total))
        i = draw(st.integers(0, counts.size - 1))
        j = draw(st.integers(0, counts.size - 2))
        j = j + 1 if j >= i else j
        case["cell"] = [i // q1, i % q1]
        case["cell2"] = [j // q1, j % q1]
    elif kind == "shape":
        shapes = [(a, b) for a in range(1, 7) for b in range(1, 7) if (a, b) != (q0, q1)]
        pref = [(q1, q0)] if q0 != q1 else []
        pref += [(a, b) for (a, b) in shapes if a * b == q0 * q1]
        s = draw(st.sampled_from(pref + shapes)) if draw(st.booleans()) or not pref else draw(st.sampled_from(pref))
        case["pred_shape"] = list(s)
        case["pred_seed"] = draw(gen.SEED)
    return case


def _invalid_inputs(case):
    prob, pred = _pm(case)
    counts = np.array(case["counts"], dtype=np.int64)
    total = float(2 ** case["m"])
    kind = case["kind"]
    if kind == "unnormalised":
        x, y = case["cell"]
        d = case["delta"]
        if counts[x, y] + d < 0:
            d = abs(d)  # keep the entries non-negative: the only defect is the sum
        counts[x, y] += d
        return counts / total, pred
    if kind == "negative-sum-not-1":
        x, y = case["cell"]
        counts[x, y] = case["delta"]
        return counts / total, pred
    if kind == "negative-sum-1":
        (x, y), (x2, y2) = case["cell"], case["cell2"]
        old = counts[x, y]
        counts[x, y] = case["delta"]
        counts[x2, y2] += old - case["delta"]
        return counts / total, pred
    if kind == "shape":
        a, b = case["pred_shape"]
        return prob, gen.rng(case["pred_seed"]).integers(0, 2, size=(a, b))
    return prob, pred


def check_validation(case):
    kind = case["kind"]
    prob, pred = _invalid_inputs(case)
    if kind == "ok":
        g = _make(case, prob=prob, pred=pred, reps=1)  # must not raise (an exception here is reported by the runner)
        req(g.prob_mat.shape == prob.shape, "constructor changed the probability matrix shape", "ctor")
        return
    # the defect is larger than any drawn tol (>= 2^-10 vs tol <= 1e-4)
    if kind == "negative-sum-1":
        assert abs(prob.sum() - 1) < 1e-15 and prob.min() < 0
    try:
        _make(case, prob=prob, pred=pred, reps=1)
    except ValueError:
        return
    unlisted_rejection(f"XORGame accepted an invalid input of kind '{kind}' (prob sum {prob.sum()!r}, min {prob.min()!r}, pred shape {pred.shape}, prob shape {prob.shape}) without ValueError", f"accepted:{kind}")


def nt_valid(case):
    k = case["kind"]
    if k == "ok":
        return "ok,tol=" + ("default" if case.get("tol") is None else "given")
    return k + (",tol-given" if case.get("tol") is not None else "")


# ------------------------------------------------------------------------------------------
# 8. Bell-inequality maximiser, two settings per party
# ------------------------------------------------------------------------------------------
_VALS = [[1, -1], [-1, 1], [0, 1], [1, 0]]


def _chsh_pattern(draw):
    """odd-parity sign pattern (the CHSH family) with drawn magnitudes in quarters"""
    mags = [[draw(st.integers(1, 8)) / 4 for _ in range(2)] for _ in range(2)]
    neg = [draw(st.integers(0, 1)), draw(st.integers(0, 1))]
    sg = [[1, 1], [1, -1]]
    return [[mags[x][y] * sg[x][y] * (-1) ** (neg[0] * x + neg[1] * y) for y in range(2)] for x in range(2)]


@st.composite
def _bell_case(draw):
    src = draw(st.sampled_from(["small", "prng", "chsh", "ch"]))
    case = {"src": src}
    if src in ("chsh", "ch"):
        J = _chsh_pattern(draw)
        if draw(st.booleans()):
            ac = [draw(st.integers(-2, 2)) / 8 for _ in range(2)]
            bc = [draw(st.integers(-2, 2)) / 8 for _ in range(2)]
        else:
            ac, bc = [0.0, 0.0], [0.0, 0.0]
        if src == "chsh":
            case.update(J=J, ac=ac, bc=bc, marg="small")
            case["av"] = draw(st.sampled_from(_VALS[:2]))
            case["bv"] = draw(st.sampled_from(_VALS[:2]))
        else:
            # the same expression rewritten for 0/1-valued outcomes (A = 1 - 2 A'), constant dropped: Clauser-Horne form
            Jn = np.array(J)
            case.update(
                J=(4 * Jn).tolist(),
                ac=(-2 * (Jn.sum(axis=1) + np.array(ac))).tolist(),
                bc=(-2 * (Jn.sum(axis=0) + np.array(bc))).tolist(),
                marg="small",
            )
            case["av"] = [0, 1]
            case["bv"] = [0, 1]
    else:
        if src == "small":
            case["J"] = [[draw(st.integers(-3, 3)) for _ in range(2)] for _ in range(2)]
        else:
            case["seed"] = draw(gen.SEED)
        marg = draw(st.sampled_from(["zero", "small", "prng"]))
        case["marg"] = marg
        if marg == "small":
            div = draw(st.sampled_from([1, 2, 4]))
            case["ac"] = [draw(st.integers(-3, 3)) / div for _ in range(2)]
            case["bc"] = [draw(st.integers(-3, 3)) / div for _ in range(2)]
        elif marg == "prng":
            case["mseed"] = draw(gen.SEED)
            case["mscale"] = draw(st.sampled_from([0.25, 1.0]))
        same = draw(st.booleans())
        case["av"] = draw(st.sampled_from(_VALS))
        case["bv"] = case["av"] if same else draw(st.sampled_from(_VALS))
    case["int_dtype"] = draw(st.booleans())
    case["sseed"] = draw(gen.SEED)
    case["deep"] = draw(st.sampled_from([False, False, False, True]))
    return case


def _bell_inputs(case):
    if case["src"] == "prng":
        J = gen.rng(case["seed"]).normal(size=(2, 2))
    else:
        J = np.array(case["J"], dtype=float)
    if case["marg"] == "zero":
        ac, bc = np.zeros(2), np.zeros(2)
    elif case["marg"] == "small":
        ac, bc = np.array(case["ac"], dtype=float), np.array(case["bc"], dtype=float)
    else:
        g = gen.rng(case["mseed"])
        ac, bc = g.normal(size=2) * case["mscale"], g.normal(size=2) * case["mscale"]
    return J, ac, bc, list(case["av"]), list(case["bv"])


def _is_integral(a):
    return bool(np.all(a == np.round(a)))


def check_bell(case):
    from toqito.state_opt import bell_inequality_max

    J, ac, bc, av, bv = _bell_inputs(case)
    try:
        lo, hi, info = H.bell_m2_interval(J, ac, bc, av, bv)
    except H.OracleFailure as e:
        lo, hi, info = None, None, {"classical": H.bell_classical(J, ac, bc, av, bv), "scale": H.bell_scale(J, ac, bc, av, bv), "fail": str(e)}
    # un-gauged search: a lower bound that does not rely on the gauge fixing, and a self-check of the grid certificate
    nm, _starts = H.bell_m2_search(J, ac, bc, av, bv, case["sseed"], starts=3, full=bool(case.get("deep")))
    if hi is not None and nm > hi + 1e-9 * max(1.0, info["scale"]):
        raise Inconclusive("oracle-selfcheck-failed")
    # the call, with the dtypes a user would naturally pass
    if case.get("int_dtype") and _is_integral(J) and _is_integral(ac) and _is_integral(bc):
        Jc, acc, bcc = J.astype(int), ac.astype(int), bc.astype(int)
    else:
        Jc, acc, bcc = J, ac, bc
    val = _sdp(lambda: bell_inequality_max(Jc, acc, bcc, np.array(av), np.array(bv)))
    _finite(val, "bell_inequality_max")
    scale = max(1.0, info["scale"])
    tol = TOL_BELL * scale
    cl = info["classical"]
    _rec("bell: (achieved - toqito)/scale", max(max(nm, lo if lo is not None else -np.inf) - val, 0) / scale)
    if hi is not None:
        _rec("bell: (toqito - certified upper)/scale", max(val - hi, 0) / scale)
        _rec("bell: certificate width/scale", (hi - lo) / scale)
        _rec("bell: (nm search - certified upper)/scale", (nm - hi) / scale + 1)
    req(val >= cl - tol, f"bell_inequality_max = {val:.6f} is below the best deterministic assignment {cl:.6f}", "bell<deterministic")
    best = max(nm, lo if lo is not None else -np.inf)
    req(val >= best - tol, f"bell_inequality_max = {val:.6f} is below a value achieved by an explicit two-qubit strategy {best:.6f} (deterministic {cl:.6f})", "bell<achieved")
    if hi is None:
        raise Inconclusive("bell-oracle-flat")
    # Known finding C08-bell-max-relaxation-gap: with marginal terms the extension + PPT programme toqito solves is a
    # relaxation that is occasionally not tight (witness: 2.0306 against a true optimum of 2.0260, the same with SCS and
    # CLARABEL).  Only that shape gets the listed signature - marginals present and an overshoot below 1% of the
    # coefficient scale (measured: 1 case in ~2000 exceeds 0.1%, none exceeds 0.2%); anything larger, or any overshoot
    # of a pure correlation expression (where the relaxation is Tsirelson-tight), keeps the unlisted signature.
    over = (val - hi) / scale
    has_marg = bool(np.any(ac != 0) or np.any(bc != 0))
    sig = "bell>optimum:marginals:overshoot<1e-2" if has_marg and over <= 1e-2 else "bell>optimum"
    req(val <= hi + tol, f"bell_inequality_max = {val:.6f} exceeds the quantum optimum, certified <= {hi:.6f} (best deterministic {cl:.6f})", sig)


def nt_bell(case):
    J, ac, bc, av, bv = _bell_inputs(case)
    lab = []
    if np.any(ac != 0) or np.any(bc != 0):
        lab.append("marginals")
    if 0 in av or 0 in bv:
        lab.append("01-valued")
    if not lab:
        return None
    try:
        _lo, _hi, info = H.bell_m2_interval(J, ac, bc, av, bv, n_coarse=48, k_fine=2, max_cand=10**6)
        if info["qubit_lo"] > info["classical"] + 1e-3 * max(1.0, info["scale"]):
            lab.append("qadv")
    except H.OracleFailure:
        pass
    return ",".join(lab)


# pure correlation inequality with +/-1 outcomes: the value is the Tsirelson optimum of the same coefficient matrix
@st.composite
def _bell_corr_case(draw):
    src = draw(st.sampled_from(["small", "prng", "chsh", "xor"]))
    case = {"src": src}
    if src == "small":
        case["J"] = [[draw(st.integers(-3, 3)) for _ in range(2)] for _ in range(2)]
    elif src == "prng":
        case["seed"] = draw(gen.SEED)
    elif src == "chsh":
        case["J"] = _chsh_pattern(draw)
    else:
        # the D matrix of a 2x2 XOR game: the Bell value is then exactly the game's quantum bias
        cnt = draw(gen.dyadic_probs(4, m=6))
        f = [draw(st.integers(0, 1)) for _ in range(4)]
        case["counts"] = [cnt[:2], cnt[2:]]
        case["pred"] = [f[:2], f[2:]]
        case["m"] = 6
    case["av"] = draw(st.sampled_from([[1, -1], [-1, 1]]))
    case["bv"] = draw(st.sampled_from([[1, -1], [-1, 1]]))
    case["zeros_int"] = draw(st.booleans())
    return case


def _corr_J(case):
    if case["src"] == "prng":
        return gen.rng(case["seed"]).normal(size=(2, 2))
    if case["src"] == "xor":
        prob, pred = _pm(case)
        return H.d_matrix(prob, pred)
    return np.array(case["J"], dtype=float)


def check_bell_tsirelson(case):
    from toqito.state_opt import bell_inequality_max

    J = _corr_J(case)
    av, bv = case["av"], case["bv"]
    # outcome values (-1, 1) only relabel the outcomes: <A_x B_y> ranges over the same set
    lb, ub = _interval(J)
    z = np.zeros(2, dtype=int) if case["zeros_int"] else np.zeros(2)
    val = _sdp(lambda: bell_inequality_max(J, z, z.copy(), np.array(av), np.array(bv)))
    _finite(val, "bell_inequality_max")
    scale = max(1.0, float(np.abs(J).sum()))
    tol = TOL_BELL * scale
    _rec("bell_tsirelson: outside certified interval/scale", max(lb - val, val - ub, 0) / scale)
    req(val >= lb - tol, f"bell_inequality_max = {val:.6f} is below the correlation value {lb:.6f} achieved by explicit unit vectors (Tsirelson)", "bell<tsirelson")
    req(val <= ub + tol, f"bell_inequality_max = {val:.6f} exceeds the Tsirelson optimum of the coefficient matrix, certified <= {ub:.6f}", "bell>tsirelson")
    if case["src"] == "xor":
        from toqito.nonlocal_games.xor_game import XORGame

        prob, pred = _pm(case)
        qv = _sdp(XORGame(prob, pred).quantum_value)
        req(abs((2 * qv - 1) - val) <= 2 * TOL_EQ, f"Bell value {val:.6f} of D = pi*(-1)^f differs from the XOR game's quantum bias {2 * qv - 1:.6f}", "bell!=xor-bias")


def nt_bell_corr(case):
    J = _corr_J(case)
    gap = H.rank_lower_bound(J, dim=2) - H.classical_bias(J)
    if gap > 1e-3 * max(1.0, float(np.abs(J).sum())):
        return "corr:qadv," + case["src"]
    return None


# ------------------------------------------------------------------------------------------
# 9. the same 0/1 predicate in any numeric dtype
# ------------------------------------------------------------------------------------------
_DTYPES = ["uint8", "int8", "bool", "float32", "uint64", "int64", "float64", "uint16", "int32"]


@st.composite
def _dtype_case(draw):
    case = draw(_xor_case(with_tol=False))
    case["np_dtype"] = draw(st.sampled_from(_DTYPES))
    return case


def check_pred_dtype(case):
    """'Any 0/1 predicate': the values must not depend on the numeric dtype in which the 0/1 matrix is stored."""
    from toqito.nonlocal_games.xor_game import XORGame

    prob, pred = _pm(case)
    D = H.d_matrix(prob, pred)
    lb, ub = _interval(D)
    w_lo, w_hi = 0.5 + lb / 2, 0.5 + ub / 2
    f = pred.astype(np.dtype(case["np_dtype"]))
    g = XORGame(prob, f)
    wc = 0.5 + H.classical_bias(D) / 2
    cv = float(g.classical_value())
    req(abs(cv - wc) <= TOL_EXACT, f"classical_value {cv!r} != brute force {wc!r} for a predicate stored as {case['np_dtype']}", "dtype:classical")
    V = np.asarray(g.to_nonlocal_game().pred_mat)
    req(np.array_equal(V, H.xor_pred(pred)), f"converted predicate wrong for a predicate stored as {case['np_dtype']}", "dtype:conversion")
    qv = _sdp(g.quantum_value)
    _finite(qv, "quantum_value")
    req(
        w_lo - TOL_EQ <= qv <= w_hi + TOL_EQ,
        f"quantum_value {qv:.7f} outside the certified interval [{w_lo:.7f}, {w_hi:.7f}] for a predicate stored as {case['np_dtype']}",
        "dtype:quantum",
    )


def nt_dtype(case):
    lab = _shape_label(case)
    return case["np_dtype"] + ("," + ",".join(lab) if lab else "")


SUBCHECKS = [
    SubCheck("tsirelson_interval", check_tsirelson, _xor_case, nt_game, quick=1000, thorough=12000, case_timeout=30),
    SubCheck("npa1", check_npa1, _npa_case, nt_game, quick=256, thorough=3200, case_timeout=30),
    SubCheck("classical", check_classical, _xor_case, nt_shape, quick=2000, thorough=30000),
    SubCheck("nonsignaling", check_nonsignaling, _ns_case, nt_shape, quick=96, thorough=1200, case_timeout=30),
    SubCheck("order", check_order, _xor_case, nt_game, quick=1000, thorough=12000, case_timeout=30),
    SubCheck("reps", check_reps, _reps_case, nt_reps, quick=128, thorough=1600, case_timeout=60),
    SubCheck("conversion", check_conversion, _conv_case, nt_conv, quick=1500, thorough=20000),
    SubCheck("validation", check_validation, _valid_case, nt_valid, quick=2000, thorough=30000),
    SubCheck("bell_m2", check_bell, _bell_case, nt_bell, quick=176, thorough=2200, case_timeout=30),
    SubCheck("pred_dtype", check_pred_dtype, _dtype_case, nt_dtype, quick=320, thorough=4000, case_timeout=30),
    SubCheck("bell_tsirelson", check_bell_tsirelson, _bell_corr_case, nt_bell_corr, quick=128, thorough=1600, case_timeout=30),
]


# ------------------------------------------------------------------------------------------
# 12. values do not depend on the validation tolerance, and not on what was asked of the object before
#     (added after seeded changes C08-u1 - question probabilities below an explicitly given `tol` clipped to zero - and
#     C08-u2 - nonsignaling_value leaving the object at reps = 1 - were missed: tol was only ever far below the smallest
#     probability, and every method was called on a fresh object)
# ------------------------------------------------------------------------------------------
@st.composite
def _tolhist_case(draw):
    case = draw(_xor_case(qmax=3, cells_max=9, with_tol=False))
    case["tol"] = None
    case["big_tol"] = draw(st.sampled_from([1e-3, 2e-2, 5e-2]))
    case["reps"] = draw(st.sampled_from([1, 1, 2]))
    case["order"] = list(draw(st.permutations(["quantum", "classical", "ns"])))
    return case


def check_tol_and_history(case):
    prob, pred = _pm(case)
    reps = case["reps"] if prob.size <= 6 else 1
    lb, ub = _interval(H.d_matrix(prob, pred))
    w_lo, w_hi = (0.5 + lb / 2) ** reps, (0.5 + ub / 2) ** reps
    wc1 = 0.5 + H.classical_bias(H.d_matrix(prob, pred)) / 2

    def values(game, order):
        out = {}
        for name in order:
            if name == "quantum":
                out[name] = _sdp(game.quantum_value)
            elif name == "classical":
                out[name] = float(game.classical_value())
            else:
                out[name] = _sdp(game.nonsignaling_value)
        return out

    fresh = {}
    for name in ("quantum", "classical", "ns"):
        fresh.update(values(_make(dict(case, tol=None), reps=reps), [name]))  # one fresh object per method
    req(w_lo - reps * TOL_EQ <= fresh["quantum"] <= w_hi + reps * TOL_EQ, f"quantum value {fresh['quantum']:.7f} outside the certified interval [{w_lo:.7f}, {w_hi:.7f}] (reps={reps})", "quantum-value")
    if reps == 1:
        req(abs(fresh["classical"] - wc1) <= TOL_EXACT, f"classical value {fresh['classical']!r} != brute force {wc1!r}", "classical!=bruteforce")
    # (a) the same game built with a large validation tolerance (larger than some of its probabilities)
    big = values(_make(dict(case, tol=case["big_tol"]), reps=reps), ["quantum", "classical"])
    req(abs(big["classical"] - fresh["classical"]) <= TOL_EXACT, f"classical value changes from {fresh['classical']!r} to {big['classical']!r} when tol={case['big_tol']} is passed (smallest positive probability {prob[prob > 0].min():.4f})", "value-depends-on-tol")
    req(abs(big["quantum"] - fresh["quantum"]) <= 2 * TOL_EQ, f"quantum value changes from {fresh['quantum']:.7f} to {big['quantum']:.7f} when tol={case['big_tol']} is passed", "value-depends-on-tol")
    # (b) one object, methods in a drawn order, the first one asked again at the end
    g = _make(dict(case, tol=None), reps=reps)
    seq = values(g, case["order"])
    seq_again = values(g, case["order"][:1])
    for name, v in list(seq.items()) + [(k + " (asked again)", v) for k, v in seq_again.items()]:
        base = fresh[name.split(" ")[0]]
        tol = TOL_EXACT if name.startswith("classical") else 2 * TOL_EQ
        req(abs(v - base) <= tol, f"{name} value on an object already asked for {case['order']} is {v:.7f}; a fresh object gives {base:.7f} (reps={reps})", "value-depends-on-call-history")


SUBCHECKS.append(SubCheck("tol_and_history", check_tol_and_history, _tolhist_case, lambda c: f"reps={c['reps']},tol={c['big_tol']},first={c['order'][0]}", quick=64, thorough=1000, case_timeout=90))
