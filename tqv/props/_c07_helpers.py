"""Helpers of the C07 check: game builders, value-preserving transformations, independent oracles.

Nothing here calls the toqito functions under test (``NonlocalGame`` is only *constructed* by the check module).
"""

from __future__ import annotations

import contextlib
import itertools
import signal
import time
import warnings

import numpy as np

from tqv import gen
from tqv.core import HarnessError, Inconclusive

TOL_EXACT = 1e-9  # classical value against enumeration
TOL_SDP = 2e-3  # order relations / equalities between two SCS values
TOL_LP = 5e-4  # SCS value against a certified LP optimum

PAIR_CAP = 200_000  # full enumeration of deterministic strategy pairs up to this many pairs


# ------------------------------------------------------------------------------------------------
# pinning the unseeded randomness of the see-saw (numpy is patched, not toqito)
# ------------------------------------------------------------------------------------------------
@contextlib.contextmanager
def pin(seed: int):
    """np.random.seed(seed) and default_rng(None) -> default_rng([seed, k]) for the k-th unseeded request."""
    seed = int(seed)
    state = np.random.get_state()
    orig = np.random.default_rng
    count = [0]

    def patched(seed_arg=None, *args, **kwargs):
        if "seed" in kwargs:
            seed_arg = kwargs.pop("seed")
        if seed_arg is None:
            k = count[0]
            count[0] += 1
            return orig([seed, k])
        return orig(seed_arg)

    np.random.seed(seed % (2**32))
    np.random.default_rng = patched
    try:
        yield
    finally:
        np.random.default_rng = orig
        np.random.set_state(state)


CALL_TIMEOUT = 30.0  # seconds per solver-backed toqito call


class _CallTimeout(BaseException):
    pass


@contextlib.contextmanager
def call_limit(seconds):
    """Per-call time limit that nests inside tqv.core.time_limit (the outer timer is re-armed with what is left)."""
    remaining, interval = signal.getitimer(signal.ITIMER_REAL)
    if remaining and remaining <= seconds:
        yield  # the enclosing case/step limit fires first anyway
        return
    old = signal.getsignal(signal.SIGALRM)
    t0 = time.monotonic()

    def handler(signum, frame):
        raise _CallTimeout()

    signal.signal(signal.SIGALRM, handler)
    # re-fires every second: an exception raised by the handler inside a gc/weakref callback is swallowed by CPython
    signal.setitimer(signal.ITIMER_REAL, seconds, 1.0)
    try:
        yield
    finally:
        signal.setitimer(signal.ITIMER_REAL, 0)
        signal.signal(signal.SIGALRM, old)
        if remaining:
            signal.setitimer(signal.ITIMER_REAL, max(remaining - (time.monotonic() - t0), 0.01), interval)


def call_value(fn, *args, **kwargs):
    """Call a solver-backed toqito method; None when the solver did not deliver a usable value
    (cvxpy SolverError, 'Solution may be inaccurate', non-finite optimum, more than CALL_TIMEOUT seconds)."""
    with warnings.catch_warnings(record=True) as rec:
        warnings.simplefilter("always")
        try:
            with call_limit(CALL_TIMEOUT):
                v = fn(*args, **kwargs)
        except _CallTimeout:
            return None
        except Exception as exc:  # noqa: BLE001
            if type(exc).__name__ == "SolverError" and (type(exc).__module__ or "").startswith("cvxpy"):
                return None
            raise
    if any("inaccurate" in str(w.message).lower() for w in rec):
        return None
    if v is None:
        return None
    v = np.real(v)
    if not np.isfinite(v):
        return None
    return float(v)


# ------------------------------------------------------------------------------------------------
# base games
# ------------------------------------------------------------------------------------------------
def _probs(spec, X, Y):
    if spec.get("pk", "uniform") == "uniform":
        return np.ones((X, Y)) / (X * Y)
    counts = np.array(spec["counts"], dtype=np.int64)
    if counts.size != X * Y or counts.sum() <= 0:
        raise HarnessError("bad probability counts in case")
    return counts.reshape(X, Y) / float(counts.sum())


def bcs_constraints(spec, dtype=float):
    """list of 0/1 arrays of shape (2,)*n from {"n", "cons": [{"mask", "par"} | {"tt": [...]}]}"""
    n = int(spec["n"])
    out = []
    for c in spec["cons"]:
        arr = np.zeros((2,) * n, dtype=dtype)
        if "tt" in c:
            tt = [int(t) & 1 for t in c["tt"]]
            if len(tt) != 2**n:
                raise HarnessError("truth table length")
            if len(set(tt)) == 1:
                tt[0] ^= 1  # a constant table depends on no variable: outside the domain, made dependent by construction
            for idx, bits in enumerate(itertools.product(range(2), repeat=n)):
                arr[bits] = tt[idx]
        else:
            mask = int(c["mask"]) % (2**n)
            if mask == 0:
                mask = 1
            par = int(c["par"]) & 1
            for bits in itertools.product(range(2), repeat=n):
                s = sum(b for i, b in enumerate(bits) if (mask >> i) & 1) & 1
                arr[bits] = 1 if s == par else 0
        out.append(arr)
    return out


def bcs_reference(constraints):
    """Reference BCS game (docstring convention): Alice gets a constraint x and answers an assignment a of *all*
    n variables (index a = big-endian binary of the assignment), Bob gets a variable y and answers a bit b.
    V(a,b|x,y) = 1 iff a satisfies constraint x and b = a[y].  pi(x,y) = 1/m * 1/|dep(x)| for y in dep(x)."""
    m = len(constraints)
    n = constraints[0].ndim
    pred = np.zeros((2**n, 2, m, n))
    prob = np.zeros((m, n))
    for x, c in enumerate(constraints):
        dep = []
        for y in range(n):
            lo = np.take(c, 0, axis=y)
            hi = np.take(c, 1, axis=y)
            dep.append(bool(np.any(lo != hi)))
        nd = sum(dep)
        for y in range(n):
            if dep[y]:
                prob[x, y] = (1.0 / m) * (1.0 / nd)
        for a in range(2**n):
            bits = tuple((a >> (n - 1 - i)) & 1 for i in range(n))
            if c[bits] == 1:
                for y in range(n):
                    pred[a, bits[y], x, y] = 1.0
    return prob, pred


def bcs_satisfiable(constraints):
    n = constraints[0].ndim
    return any(all(c[bits] == 1 for c in constraints) for bits in itertools.product(range(2), repeat=n))


def base_game(spec):
    """-> (prob (X,Y), pred (A,B,X,Y)) of the un-transformed game described by ``spec``"""
    fam = spec["fam"]
    if fam == "bcs":
        return bcs_reference(bcs_constraints(spec))
    if fam == "xor":
        X, Y = int(spec["X"]), int(spec["Y"])
        f = np.array(spec["f"], dtype=np.int64).reshape(X, Y) & 1
        pred = np.zeros((2, 2, X, Y))
        for a, b, x, y in itertools.product(range(2), range(2), range(X), range(Y)):
            pred[a, b, x, y] = 1.0 if (a ^ b) == f[x, y] else 0.0
        return _probs(spec, X, Y), pred
    if fam == "modk":
        k, X, Y = int(spec["k"]), int(spec["X"]), int(spec["Y"])
        pred = np.zeros((k, k, X, Y))
        for a, b, x, y in itertools.product(range(k), range(k), range(X), range(Y)):
            pred[a, b, x, y] = 1.0 if (a + b) % k == (x * y) % k else 0.0
        return _probs(spec, X, Y), pred
    if fam == "unique":
        k, X, Y = int(spec["k"]), int(spec["X"]), int(spec["Y"])
        g = gen.rng(spec["seed"])
        pred = np.zeros((k, k, X, Y))
        for x in range(X):
            for y in range(Y):
                p = g.permutation(k)
                for a in range(k):
                    pred[a, p[a], x, y] = 1.0
        return _probs(spec, X, Y), pred
    A, B, X, Y = (int(v) for v in spec["shape"])
    if fam == "small":
        vals = np.array(spec["vals"], dtype=np.float64)
        if vals.size != A * B * X * Y:
            raise HarnessError("small predicate size")
        pred = (vals / 4.0).reshape(A, B, X, Y)
    else:
        g = gen.rng(spec["seed"])
        if fam == "rand01":
            pred = (g.random((A, B, X, Y)) < int(spec.get("dens", 2)) / 4.0).astype(np.float64)
        elif fam == "frac16":
            pred = g.integers(0, 17, size=(A, B, X, Y)).astype(np.float64) / 16.0
        elif fam == "float":
            pred = g.random((A, B, X, Y))
        elif fam == "planted":
            # one pair of answer functions (f*, g*) wins every question pair; any other answer earns at most `leak`.
            # With strictly positive question probabilities (f*, g*) is the unique optimum (value exactly the total
            # weight), so an enumeration that skips a single function of either player - the first, the last, one in
            # the last partial block of a chunked loop - returns a smaller value.  Added after seeded change C07-b1
            # (pool branch evaluating only num_iterations // 256 full blocks) was missed by random predicates, whose
            # optimum is attained by many strategies.
            leak = float(spec.get("leak", 0.0))
            pred = np.round(g.random((A, B, X, Y)) * 16) / 16.0 * leak
            f_star, g_star = planted_functions(spec)
            for x in range(X):
                for y in range(Y):
                    pred[f_star[x], g_star[y], x, y] = 1.0
        else:
            raise HarnessError(f"unknown family {fam}")
    return _probs(spec, X, Y), pred


def planted_functions(spec):
    A, B, X, Y = (int(v) for v in spec["shape"])
    g = gen.rng(int(spec["seed"]) ^ 0x5EED)

    def pick(kind, n_out, n_in):
        if kind == "first":
            return [0] * n_in
        if kind == "last":
            return [n_out - 1] * n_in
        if kind == "lastbut":  # the last function with one digit lowered: inside the final block of any chunking
            f = [n_out - 1] * n_in
            f[int(g.integers(n_in))] = max(0, n_out - 2)
            return f
        return [int(v) for v in g.integers(0, n_out, size=n_in)]

    return pick(spec.get("f_pos", "random"), A, X), pick(spec.get("g_pos", "random"), B, Y)


def is_dyadic(spec):
    return spec["fam"] != "float" and (spec["fam"] == "bcs" or spec.get("pk", "uniform") == "dyadic")


# ------------------------------------------------------------------------------------------------
# value-preserving transformations
# ------------------------------------------------------------------------------------------------
def apply_tf(prob, pred, tf):
    """pad answers (always losing), add zero-probability questions (arbitrary predicate there), relabel answers
    per question (independently for the two players), permute questions, exchange the players."""
    if not tf:
        return prob, pred
    g = gen.rng(tf.get("seed", 0))
    A, B, X, Y = pred.shape
    pa, pb = int(tf.get("padA", 0)), int(tf.get("padB", 0))
    zx, zy = int(tf.get("zx", 0)), int(tf.get("zy", 0))
    new = np.zeros((A + pa, B + pb, X + zx, Y + zy))
    if zx or zy:
        new[:, :, :, :] = (g.random(new.shape) < 0.5).astype(np.float64)
        new[:, :, :X, :Y] = 0.0
    new[:A, :B, :X, :Y] = pred
    nprob = np.zeros((X + zx, Y + zy))
    nprob[:X, :Y] = prob
    pred, prob = new, nprob
    A, B, X, Y = pred.shape
    if tf.get("relabel"):
        out = np.empty_like(pred)
        for x in range(X):
            p = g.permutation(A)
            out[:, :, x, :][p, :, :] = pred[:, :, x, :]
        pred = out
        out = np.empty_like(pred)
        for y in range(Y):
            p = g.permutation(B)
            out[:, :, :, y][:, p, :] = pred[:, :, :, y]
        pred = out
    if tf.get("qperm"):
        px, py = g.permutation(X), g.permutation(Y)
        pred = pred[:, :, px, :][:, :, :, py]
        prob = prob[px, :][:, py]
    if tf.get("swap"):
        pred = pred.transpose(1, 0, 3, 2)
        prob = prob.T
    return np.ascontiguousarray(prob), np.ascontiguousarray(pred)


def tf_is_identity(tf):
    return not tf or not any(tf.get(k) for k in ("padA", "padB", "zx", "zy", "relabel", "qperm", "swap"))


def build_game(spec):
    prob, pred = base_game(spec)
    return apply_tf(prob, pred, spec.get("tf"))


def final_shape(spec):
    return build_game(spec)[1].shape


# ------------------------------------------------------------------------------------------------
# classical value oracles
# ------------------------------------------------------------------------------------------------
def strategies(n_out, n_in):
    """all functions {0..n_in-1} -> {0..n_out-1}; row i = big-endian base-n_out digits of i"""
    n = n_out**n_in
    idx = np.arange(n)
    out = np.zeros((n, n_in), dtype=np.int64)
    for j in range(n_in - 1, -1, -1):
        idx, out[:, j] = np.divmod(idx, n_out)
    return out


def n_pairs(shape):
    A, B, X, Y = shape
    return (A**X) * (B**Y)


POOL_THRESHOLD = 1000  # classical_value forks a multiprocessing.Pool() (one worker per core) above this count


def toqito_enum_count(shape):
    """number of loop iterations of NonlocalGame.classical_value for this shape: the larger of the intended count
    (#functions of the enumerated player) and the count of the unrepaired formula (other player's alphabet size)"""
    A, B, X, Y = (int(v) for v in shape)
    if A**X < B**Y:
        A, B, X, Y = B, A, Y, X
    return max(A**Y, B**Y)


def classical_pairs(prob, pred):
    """max over *all pairs* (f, g) of deterministic answer functions of sum_xy pi(x,y) V(f(x), g(y) | x, y)"""
    A, B, X, Y = pred.shape
    if n_pairs(pred.shape) > PAIR_CAP:
        raise HarnessError("pair enumeration above the cap")
    W = pred * prob[None, None, :, :]
    F = strategies(A, X)
    G = strategies(B, Y)
    S = np.zeros((F.shape[0], B, Y))
    for x in range(X):
        S += W[F[:, x], :, x, :]
    V = np.zeros((F.shape[0], G.shape[0]))
    for y in range(Y):
        V += S[:, G[:, y], y]
    return float(V.max())


def classical_best_response(prob, pred, cap=2_000_000):
    """exact classical value for games too large for pair enumeration: enumerate the functions of the player with
    fewer of them, the other answers optimally question by question"""
    A, B, X, Y = pred.shape
    W = pred * prob[None, None, :, :]
    if A**X > B**Y:
        W = W.transpose(1, 0, 3, 2)
        A, B, X, Y = W.shape
    if A**X > cap:
        raise HarnessError("best-response enumeration above the cap")
    F = strategies(A, X)
    best = -np.inf
    for lo in range(0, F.shape[0], 4096):
        Fc = F[lo : lo + 4096]
        S = np.zeros((Fc.shape[0], B, Y))
        for x in range(X):
            S += W[Fc[:, x], :, x, :]
        best = max(best, float(S.max(axis=1).sum(axis=1).max()))
    return best


def classical_oracle(prob, pred):
    if n_pairs(pred.shape) <= PAIR_CAP:
        return classical_pairs(prob, pred), "pairs"
    return classical_best_response(prob, pred), "best-response"


def truncated_enumeration_value(prob, pred):
    """What an enumeration of only the first (other player's #answers)^(#questions of the enumerated player)
    functions of the enumerated player returns; None when that count is not smaller than the full count."""
    A, B, X, Y = pred.shape
    W = pred * prob[None, None, :, :]
    if A**X < B**Y:
        W = W.transpose(1, 0, 3, 2)
        A, B, X, Y = W.shape
    n_it, n_full = A**Y, B**Y
    if n_it >= n_full:
        return None
    G = strategies(B, Y)[:n_it]
    T = np.zeros((G.shape[0], A, X))
    for y in range(Y):
        T += W[:, G[:, y], :, y]  # (g, a, x): the advanced indices are separated by a slice
    return float(T.max(axis=1).sum(axis=1).max())


def classical_signature(prob, pred, value):
    """specific signature of a wrong classical value"""
    t = truncated_enumeration_value(prob, pred)
    if t is not None and abs(t - value) <= 1e-9:
        return "classical_value:only-first-Aout^Yin-of-Bout^Yin-functions-enumerated"
    return "classical_value!=max-over-deterministic-pairs"


# ------------------------------------------------------------------------------------------------
# no-signalling value by linear programming
# ------------------------------------------------------------------------------------------------
def ns_lp(prob, pred):
    from scipy.optimize import linprog

    A, B, X, Y = pred.shape
    n = A * B * X * Y

    def idx(a, b, x, y):
        return ((a * B + b) * X + x) * Y + y

    c = -(pred * prob[None, None, :, :]).reshape(-1)
    rows, rhs = [], []
    for x, y in itertools.product(range(X), range(Y)):
        r = np.zeros(n)
        for a, b in itertools.product(range(A), range(B)):
            r[idx(a, b, x, y)] = 1
        rows.append(r)
        rhs.append(1.0)
    for a, x in itertools.product(range(A), range(X)):
        for y in range(1, Y):
            r = np.zeros(n)
            for b in range(B):
                r[idx(a, b, x, y)] += 1
                r[idx(a, b, x, 0)] -= 1
            rows.append(r)
            rhs.append(0.0)
    for b, y in itertools.product(range(B), range(Y)):
        for x in range(1, X):
            r = np.zeros(n)
            for a in range(A):
                r[idx(a, b, x, y)] += 1
                r[idx(a, b, 0, y)] -= 1
            rows.append(r)
            rhs.append(0.0)
    res = linprog(c, A_eq=np.array(rows), b_eq=np.array(rhs), bounds=(0, 1), method="highs")
    if res.status != 0:
        raise Inconclusive(f"linprog status {res.status}")
    p = np.clip(res.x, 0, None)
    # certificate: the returned point is re-checked (feasible to 1e-9) and re-evaluated
    if np.max(np.abs(np.array(rows) @ p - np.array(rhs))) > 1e-8:
        raise Inconclusive("linprog point not feasible to 1e-8")
    return float(-(c @ p))


# ------------------------------------------------------------------------------------------------
# product game
# ------------------------------------------------------------------------------------------------
def product_game(prob, pred, r):
    """r-fold parallel repetition: question/answer tuples are indexed big-endian (first round most significant);
    V = product of the round predicates, pi = product of the round distributions."""
    P, Q = pred, prob
    for _ in range(r - 1):
        a, b, x, y = P.shape
        a1, b1, x1, y1 = pred.shape
        P = np.einsum("abxy,cdzw->acbdxzyw", P, pred).reshape(a * a1, b * b1, x * x1, y * y1)
        Q = np.einsum("xy,zw->xzyw", Q, prob).reshape(x * x1, y * y1)
    return Q, P


def snapshot(a):
    a = np.asarray(a)
    return (a.dtype.str, a.shape, a.tobytes())
