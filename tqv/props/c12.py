"""C12 — PPT / symmetric-extension discrimination values: ordered, dual-consistent, caller's list untouched.

Functions under test: ppt_distinguishability (primal / dual, either party), symmetric_extension_hierarchy.
"""

from __future__ import annotations

import numpy as np
from hypothesis import strategies as st

from tqv import gen, ref, sdp_ref
from tqv.core import Inconclusive, SubCheck, Violation, req
from tqv.props import _ens

# caller-owned arrays handed to the library must come back unchanged (see tqv/purity.py)
from tqv.purity import install as _install_purity  # noqa: E402

_install_purity('toqito.state_opt')

PROPERTY = "C12"
RULE = (
    "Bipartite ensembles drawn by Hypothesis on 2x2, 2x3 and 3x2: 2..4 states; family (generic kets, mixed states of "
    "drawn rank, local-unitary images of the Bell states, product-basis states); real/complex; calling form (1-D kets, "
    "column kets, density matrices); priors omitted / uniform / exact dyadic; transposed party 0 or 1; primal or dual; "
    "hierarchy level 1..2.  Non-trivial = complex with non-uniform priors, or a certified gap global-PPT >= 0.01, or (for "
    "the no-mutation sub-check) kets passed as column arrays.  distinct = distinct SHA-1 of the case JSON."
)
ASSUMPTIONS = [
    "picos/cvxopt value tolerance 1e-5; cvxpy default (SCS) tolerance 2e-3 for order relations and 1e-3 for level-1 = PPT",
    "solver-internal failures and time-outs are inconclusive; certified intervals wider than 1e-6 are inconclusive",
    "on 2x2 and 2x3 PPT = separable, so 'non-increasing in the level' can only show up as (near) equality",
    "symmetric_extension_hierarchy takes 2-D arrays (column kets or density matrices) and priors summing to 1",
    "harness PPT certificate: primal POVM mixed with I/n until every element is PPT (achieved value); dual (Y, Q_i) shifted until Y - p_i rho_i - PT(Q_i) >= 0 (proven bound), partial transposes by the reference index model",
]
TOL = 1e-5
DIMS = [[2, 2], [2, 3], [3, 2]]


def _counts(draw, n):
    """exact dyadic prior; every fourth one has a state of prior exactly zero (seeded changes C11-t3 / C12-t2)"""
    counts = draw(gen.dyadic_probs(n, m=6, allow_zero=False))
    if n >= 2 and draw(st.integers(0, 3)) == 0:
        z = draw(st.integers(0, n - 1))
        t = (z + 1 + draw(st.integers(0, n - 2))) % n
        counts[t] += counts[z]
        counts[z] = 0
    return counts


@st.composite
def _case(draw, forms=("ket1d", "ketcol", "dm"), families=("generic", "mixed", "bell", "product"), nmax=4):
    dims = draw(st.sampled_from(DIMS))
    fam = draw(st.sampled_from(list(families)))
    if fam == "bell":
        dims = [2, 2]
    d = dims[0] * dims[1]
    n = draw(st.integers(2, nmax))
    form = draw(st.sampled_from(list(forms)))
    if fam == "mixed":
        form = "dm"
    pk = draw(st.sampled_from(["none", "uniform", "dyadic"]))
    return {
        "dims": dims,
        "d": d,
        "family": fam,
        "n": n,
        "cplx": draw(st.booleans()),
        "form": form,
        "rank": draw(st.integers(1, 3)),
        "seed": draw(gen.SEED),
        "probs": pk,
        "counts": _counts(draw, n) if pk == "dyadic" else None,
        "party": draw(st.integers(0, 1)),
        "useed": draw(gen.SEED),
        # first state stored as a real array, the others complex (seeded change C12-s2 keys on the first state's dtype)
        "real_first": fam in ("generic", "mixed") and draw(st.integers(0, 3)) == 0,
    }


def _build(case):
    fam, dims, n, cplx = case["family"], case["dims"], case["n"], case["cplx"]
    real = not cplx
    g = gen.rng(case["seed"])
    da, db = dims
    if fam in ("generic", "mixed"):
        c2 = dict(case, family=fam)
        return _ens.build_kets_or_dms(c2)
    ua = gen.rand_unitary(int(g.integers(0, 2**62)), da, real)
    ub = gen.rand_unitary(int(g.integers(0, 2**62)), db, real)
    loc = np.kron(ua, ub)
    if fam == "bell":
        s = 1 / np.sqrt(2)
        bells = [np.array([s, 0, 0, s]), np.array([s, 0, 0, -s]), np.array([0, s, s, 0]), np.array([0, s, -s, 0])]
        order = list(g.permutation(4))[:n]
        kets = [loc @ bells[i] for i in order]
    else:  # product basis states
        idx = list(g.permutation(da * db))[:n]
        kets = [loc[:, i].copy() for i in idx]
    if real:
        kets = [np.real(k) for k in kets]
    return [np.outer(k, k.conj()) for k in kets], kets


def _setup(case):
    dms, kets = _build(case)
    return dms, kets, _ens.as_inputs(case, dms, kets), _ens.priors(case), _ens.probs_arg(case)


def _ppt(inputs, case, parg, party=None, pd="dual"):
    from toqito.state_opt import ppt_distinguishability

    party = case["party"] if party is None else party
    before = [np.array(v, copy=True) for v in inputs]
    val, meas = ppt_distinguishability(vectors=inputs, subsystems=[party], dimensions=list(case["dims"]), probs=parg, primal_dual=pd)
    req(all(a.shape == b.shape and np.array_equal(a, b) for a, b in zip(before, inputs)), "ppt_distinguishability modified the caller's states", "args-mutated")
    if val is None or not np.isfinite(val):
        raise Inconclusive("solver_no_value")
    return float(np.real(val)), meas


def _product_measurement_value(case, dms, p):
    """value of an explicit one-way LOCC (product projective measurement + best guess): an achieved PPT value"""
    da, db = case["dims"]
    ua = gen.rand_unitary(case["useed"], da, not case["cplx"])
    ub = gen.rand_unitary(case["useed"] // 5 + 3, db, not case["cplx"])
    tot = 0.0
    for i in range(da):
        for j in range(db):
            v = np.kron(ua[:, i], ub[:, j])
            tot += max(pk * float(np.real(v.conj() @ r @ v)) for pk, r in zip(p, dms))
    return tot


def _nt(case):
    if case.get("real_first") and case["cplx"]:
        return "mixed-dtype-ensemble"
    if case["cplx"] and case["probs"] == "dyadic":
        return "complex,nonuniform"
    if case["family"] == "bell":
        return "bell"
    return None


# ------------------------------------------------------------------------------------------
def _check_value(case, pd):
    dms, kets, inputs, p, parg = _setup(case)
    lb, ub, _ = sdp_ref.discrimination_interval(dms, p, ppt=(case["dims"], case["party"]))
    if ub - lb > 1e-5:
        raise Inconclusive("oracle_gap")
    glb, gub, _ = sdp_ref.discrimination_interval(dms, p)
    val, _ = _ppt(inputs, case, parg, pd=pd)
    req(lb - 2 * TOL <= val <= ub + 2 * TOL, f"PPT value ({pd}, party {case['party']}) {val:.8f} outside the certified interval [{lb:.8f}, {ub:.8f}]", "value")
    req(val <= gub + TOL, f"PPT value {val:.8f} exceeds the global optimum {gub:.8f}", "above-global")
    pm = _product_measurement_value(case, dms, p)
    req(val >= pm - TOL, f"PPT value {val:.8f} is below the value {pm:.8f} of an explicit product (LOCC) measurement", "below-locc")
    if case["family"] == "product":
        req(abs(val - 1) <= 2 * TOL, f"orthogonal product states: PPT value {val:.8f} != 1", "product-basis")


def check_value_dual(case):
    _check_value(case, "dual")


def check_value_primal(case):
    _check_value(case, "primal")


def _check_povm(case, pd):
    dms, kets, inputs, p, parg = _setup(case)
    val, meas = _ppt(inputs, case, parg, pd=pd)
    ms = [_ens.to_np(m) for m in meas]
    d = case["d"]
    req(len(ms) == case["n"], f"{len(ms)} operators for {case['n']} states", "povm:count")
    for m in ms:
        req(m.shape == (d, d), f"operator shape {m.shape}", "povm:shape")
        req(np.allclose(m, m.conj().T, atol=1e-6), "returned operator is not Hermitian", "povm:herm")
        req(ref.lam_min(m) >= -1e-6, f"returned operator has eigenvalue {ref.lam_min(m):.2e}", "povm:psd")
        req(ref.lam_min(ref.partial_transpose(m, [case["party"]], case["dims"])) >= -1e-6, "returned operator is not PPT", "povm:ppt")
    req(np.allclose(sum(ms), np.eye(d), atol=1e-5), "returned operators do not sum to the identity", "povm:sum")
    got = float(sum(pi * np.real(np.trace(r @ m)) for pi, r, m in zip(p, dms, ms)))
    if abs(got - val) > 1e-4:
        got_t = float(sum(pi * np.real(np.trace(r @ m.T)) for pi, r, m in zip(p, dms, ms)))
        sig = "povm:attains-only-after-transpose" if abs(got_t - val) <= 1e-4 else "povm:not-attaining"
        raise Violation(f"returned PPT POVM ({pd}) attains {got:.6f}, reported {val:.6f} (transposed operators attain {got_t:.6f})", sig)


def check_povm_dual(case):
    _check_povm(case, "dual")


def check_povm_primal(case):
    _check_povm(case, "primal")


def check_laws(case):
    dms, kets, inputs, p, parg = _setup(case)
    da, db = case["dims"]
    v0, _ = _ppt(inputs, case, parg, party=0)
    v1, _ = _ppt(inputs, case, parg, party=1)
    req(abs(v0 - v1) <= 2 * TOL, f"PPT value depends on the transposed party: {v0:.8f} vs {v1:.8f}", "party")
    try:
        vp = _ppt(inputs, case, parg, pd="primal")[0]
    except Exception as e:  # noqa: BLE001  (the primal often fails inside cvxopt: that half is then skipped)
        from tqv.core import classify_exception

        if not isinstance(e, Inconclusive) and classify_exception(e)[0] != "inconclusive":
            raise
        vp = None
    if vp is not None:
        req(abs(vp - v0) <= 2 * TOL, f"PPT primal {vp:.8f} != dual {v0:.8f}", "duality")
    ua = gen.rand_unitary(case["useed"], da, not case["cplx"])
    ub = gen.rand_unitary(case["useed"] // 7 + 1, db, not case["cplx"])
    loc = np.kron(ua, ub)
    if kets is not None:
        k2 = [loc @ k for k in kets]
        d2 = [np.outer(k, k.conj()) for k in k2]
    else:
        k2 = None
        d2 = [loc @ r @ loc.conj().T for r in dms]
        d2 = [(r + r.conj().T) / 2 for r in d2]
    v2, _ = _ppt(_ens.as_inputs(case, d2, k2), case, parg)
    req(abs(v2 - (v0 if case["party"] == 0 else v1)) <= 2 * TOL, f"PPT value changed under local unitaries: {v0:.8f} -> {v2:.8f}", "local-unitary")
    if case["family"] == "bell" and case["n"] == 4 and case["probs"] != "dyadic":
        req(abs(v0 - 0.5) <= 2 * TOL, f"four Bell states: PPT value {v0:.8f} != 1/2", "bell")


# ------------------------------------------------------------------------------------------
def _hier(states, parg, level, dims, dimform="list"):
    from toqito.state_opt import symmetric_extension_hierarchy

    # dim as a list, or as the scalar dimension of the FIRST subsystem (seeded change C12-s4 read the scalar as the
    # second subsystem's dimension; the hierarchy had only ever been called with the list form)
    dim = int(dims[0]) if dimform == "scalar" else list(dims)
    v = symmetric_extension_hierarchy(states, parg, level=level, dim=dim)
    if v is None or not np.isfinite(v):
        raise Inconclusive("solver_no_value")
    return float(v)


def _hier_inputs(case, dms, kets):
    c = dict(case)
    if c["form"] == "ket1d":
        c["form"] = "ketcol"
    return _ens.as_inputs(c, dms, kets)


def check_hierarchy(case):
    dms, kets, _, p, parg = _setup(case)
    lb, ub, _ = sdp_ref.discrimination_interval(dms, p, ppt=(case["dims"], 1))
    if ub - lb > 1e-5:
        raise Inconclusive("oracle_gap")
    dimform = "scalar" if case["seed"] % 3 == 0 else "list"
    l1 = _hier(_hier_inputs(case, dms, kets), parg, 1, case["dims"], dimform)
    req(abs(l1 - ub) <= 1e-3, f"hierarchy level 1 value {l1:.6f} != PPT value {ub:.6f}", "level1!=ppt")
    pm = _product_measurement_value(case, dms, p)
    req(l1 >= pm - 2e-3, f"level 1 value {l1:.6f} below an explicit separable measurement {pm:.6f}", "below-separable")
    if case["level2"]:
        l2 = _hier(_hier_inputs(case, dms, kets), parg, 2, case["dims"], dimform)
        req(l2 <= l1 + 2e-3, f"hierarchy increased with the level: level 1 {l1:.6f}, level 2 {l2:.6f}", "level-increase")
        req(l2 >= pm - 2e-3, f"level 2 value {l2:.6f} below an explicit separable measurement {pm:.6f}", "below-separable")
        # default arguments: level=2 and (for equal local dims) dim omitted
        if case["dims"][0] == case["dims"][1]:
            from toqito.state_opt import symmetric_extension_hierarchy

            ld = symmetric_extension_hierarchy(_hier_inputs(case, dms, kets), parg)
            if ld is not None and np.isfinite(ld):
                req(abs(float(ld) - l2) <= 2e-3, f"default call {float(ld):.6f} != explicit level 2 {l2:.6f}", "defaults")


@st.composite
def _hier_case(draw):
    c = draw(_case(forms=("ketcol", "dm"), nmax=3))
    # level 2 also on 2x3 / 3x2 (an 18-dimensional program): seeded change C12-w3 - a wrong cut in the PPT constraints of
    # the extension - is invisible for equal local dimensions and at level 1
    c["level2"] = draw(st.integers(0, 3)) == 0
    if c["cplx"] and c["family"] == "generic" and draw(st.booleans()):
        c["real_first"] = True  # kets of mixed dtype (seeded change C12-t1: the ket -> density-matrix buffer took kets[0].dtype)
    return c


def check_no_mutation(case):
    from toqito.state_opt import symmetric_extension_hierarchy

    dms, kets, _, p, parg = _setup(case)
    states = _hier_inputs(case, dms, kets)
    ids = [id(s) for s in states]
    copies = [s.copy() for s in states]
    n0 = len(states)
    probs = None if parg is None else list(parg)
    probs0 = None if probs is None else list(probs)
    try:
        symmetric_extension_hierarchy(states, probs, level=1, dim=list(case["dims"]))
    except Exception as e:  # noqa: BLE001
        from tqv.core import classify_exception

        c = classify_exception(e)
        if c[0] != "inconclusive":
            raise
    req(len(states) == n0, "the caller's list changed length", "mutated-list")
    req(all(id(s) == i for s, i in zip(states, ids)), "entries of the caller's list were replaced by other objects", "mutated-list")
    req(all(s.shape == c.shape and np.array_equal(s, c) for s, c in zip(states, copies)), "arrays in the caller's list were modified", "mutated-arrays")
    req(probs == probs0, "the caller's probability list was modified", "mutated-probs")


def _nt_mut(case):
    return "kets-as-columns" if case["form"] == "ketcol" and case["family"] != "mixed" else None


def _nt_gap(case):
    return _nt(case)


SUBCHECKS = [
    SubCheck("value_dual", check_value_dual, _case, _nt, quick=320, thorough=5000, case_timeout=60),
    SubCheck("value_primal", check_value_primal, _case, _nt, quick=200, thorough=3000, case_timeout=60),
    SubCheck("povm_dual", check_povm_dual, _case, _nt, quick=240, thorough=4000, case_timeout=60),
    SubCheck("povm_primal", check_povm_primal, _case, _nt, quick=160, thorough=3000, case_timeout=60),
    SubCheck("laws", check_laws, _case, _nt, quick=160, thorough=3000, case_timeout=90),
    SubCheck("hierarchy", check_hierarchy, _hier_case, _nt, quick=96, thorough=1200, case_timeout=120),
    SubCheck("no_mutation", check_no_mutation, lambda: _case(forms=("ketcol", "dm"), nmax=3), _nt_mut, quick=64, thorough=800, case_timeout=60),
]
