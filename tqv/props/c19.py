"""C19 — random generators and measurement constructions give valid, reproducible objects.

Functions under test: toqito.rand.* (random_unitary, random_density_matrix, random_psd_operator,
random_orthonormal_basis, random_state_vector, random_povm, random_ginibre, random_states,
random_circulant_gram_matrix), pretty_good_measurement, pretty_bad_measurement, measure, is_povm.

Oracles: validity predicates evaluated with plain numpy (never toqito's own predicates); a recorded table of
first results per (generator, args, seed) inside a Hypothesis rule-based machine (bit-for-bit reproducibility,
purity with respect to the legacy global numpy stream); the documented PGM / PBM formulas with an own eigh inverse
square root; a certified interval for the optimal discrimination probability from an own cvxpy SDP (primal point
projected to exact feasibility = lower bound, dual candidate shifted to feasibility = upper bound); the Born rule
written out with numpy for ``measure``; POVMs built from isometries (exact by construction) for ``is_povm``.
"""

from __future__ import annotations

import warnings

import numpy as np
from hypothesis import strategies as st

from tqv import gen
from tqv.core import Inconclusive, SubCheck, Violation, canon, req, unlisted_rejection
from tqv.machine import HistorySpec

# caller-owned arrays handed to the library must come back unchanged (see tqv/purity.py)
from tqv.purity import install as _install_purity  # noqa: E402

_install_purity('toqito.measurements', 'toqito.measurement_ops', 'toqito.measurement_props')

PROPERTY = "C19"
RULE = (
    "Validity sub-checks: Hypothesis draws the generator arguments (dimension 1..6 as int or list form, real/complex "
    "flag, rank / Schmidt-rank bound over its whole range incl. the default, metric, numbers of inputs/outputs) and a "
    "seed in 0..2^32-1; non-trivial = rank bound strictly below the dimension, list-dim calling form, or (for "
    "generators without such options) dimension >= 2.  seed_difference: one generator, one argument set, two distinct "
    "seeds; non-trivial = object has >= 2 degrees of freedom.  history: a machine whose initial configuration is a "
    "pool of (generator, args, two seeds) and whose steps are seeded call / unseeded call / np.random.seed / "
    "consumption of the legacy stream / seeded call of another drawn generator; non-trivial = some key is called "
    "seeded at least twice with an unseeded call, a global reseed or a consumption of the global stream in between. "
    "pgm_pbm / pgm_bounds: ensembles of 2..6 states (1-D kets, column kets, density matrices of drawn rank; real or "
    "complex) that span the space by construction of the rank budget, priors None / drawn; non-trivial = non-uniform "
    "priors with >= 3 states or mixed states.  measure: Kraus sets cut from a drawn isometry (complete), with a "
    "kernel on the support of a rank-deficient state (zero-probability outcome), with one operator dropped/scaled "
    "(incomplete) or a single operator; non-trivial = complex non-normal operators with n >= 2 or a zero-probability "
    "outcome or an incomplete set.  distinct = distinct SHA-1 of the canonical case JSON among non-trivial cases."
)
ASSUMPTIONS = [
    "seeded results are compared bit-for-bit inside one process: numpy/LAPACK are assumed deterministic for equal inputs (0 mismatches in 15000 probe calls)",
    "'regardless of the global random state' is read with DESIGN C19 as: a seeded call neither depends on nor changes np.random.get_state(); unseeded calls are allowed to do anything to the global stream",
    "random_density_matrix rank bounds are drawn from 1..dim (k_param = 0 divides by a zero trace; k_param > dim is not a rank bound)",
    "random_state_vector(int d, k) with 0 < k < d is documented to mean the bipartite space d x d (vector of length d*d); otherwise a vector of length d (int) or d1*d2 (list); k = 0 and k >= min(dim) mean 'no bound'",
    "random_unitary with a non-square list dim: ValueError is the accepted outcome (implemented and pinned by the repository tests, not in the docstring); any returned object would not be a unitary on that space",
    "random_povm is held to 1e-6 (sum) / -1e-6 (PSD): with a single output the normaliser is one d x d Wishart matrix and the returned identity carries cond*eps error (1.3e-7 seen at d=6 on the unchanged tree)",
    "different seeds are required to give different objects only for objects with >= 2 real degrees of freedom (dimension >= 2; random_povm additionally >= 2 outputs, one output is always the identity)",
    "PGM / PBM ensembles: average state has lambda_min >= 1e-6 (otherwise the case is inconclusive: fractional_matrix_power accuracy is not the property's subject); priors sum to 1 within 1e-12 and are >= 0.02",
    "P_opt interval: own cvxpy/CLARABEL SDP, certified by projection / dual shift; cases whose certified gap exceeds 1e-5 or whose solver fails are inconclusive; comparison tolerance 1e-6",
    "measure: a single ndarray is a Kraus operator K (p = Tr K rho K^dagger as in the docstring formula), operators are square d x d, states are 2-D density matrices; outcome probabilities are either > 1e-6 or < 1e-12 by construction (nothing is asserted for probabilities within a factor 1e4 of tol = 1e-10)",
    "measure: incomplete sets are built with full-rank states (lambda_min >= 0.1/d) and deviate from completeness by >= 1e-3, so the documented ValueError (state_update=True, every outcome above tol) is due; nothing is asserted for incomplete sets with a zero-probability outcome",
    "is_povm: True asserted on POVMs exact to 1e-13, False on sets violating one condition by a margin >= 1e-2",
]

GENS = ["unitary", "density", "psd", "basis", "state_vector", "povm", "ginibre", "states", "circulant"]
SEED32 = st.integers(0, 2**32 - 1)
ATOL = 1e-9


# ------------------------------------------------------------------------------------------
# small numpy helpers (own predicates; toqito's predicates are never used as oracles)
# ------------------------------------------------------------------------------------------
def _herm(m):
    return (m + m.conj().T) / 2


def _herm_err(m):
    return float(np.max(np.abs(m - m.conj().T))) if m.size else 0.0


def _lam(m):
    return np.linalg.eigvalsh(_herm(np.asarray(m, dtype=complex)))


def _is_real_valued(x):
    x = np.asarray(x)
    return np.isrealobj(x) or not np.any(np.imag(x) != 0)


def _finite(x, what):
    req(bool(np.all(np.isfinite(np.asarray(x)))), f"{what}: non-finite entries", "nonfinite")


def _inv_sqrt(p):
    w, v = np.linalg.eigh(_herm(p))
    return (v / np.sqrt(w)) @ v.conj().T


def _psd_part(m):
    w, v = np.linalg.eigh(_herm(m))
    return (v * np.clip(w, 0, None)) @ v.conj().T


# ------------------------------------------------------------------------------------------
# calling the generators from a JSON argument dict
# ------------------------------------------------------------------------------------------
def _call(g, e, seed):
    """One call of generator ``g`` with effective arguments ``e`` (JSON dict) and ``seed`` (int or None)."""
    from toqito import rand as R

    if seed is not None and int(seed) % 2 == 1:
        # odd seeds: every argument positionally, in the documented order (the two calling forms are the same call; a
        # reordered signature - seeded change C19-a3 - is invisible to keyword-only calls).  Decided by the seed, so a
        # repeated call with the same seed uses the same form.
        if g == "unitary":
            return R.random_unitary([e["d"], e["d"]] if e["list"] else e["d"], e["real"], seed)
        if g == "density":
            return R.random_density_matrix(e["d"], e["real"], e["k"], e["metric"], seed)
        if g == "psd":
            return R.random_psd_operator(e["d"], e["real"], seed)
        if g == "basis":
            return R.random_orthonormal_basis(e["d"], e["real"], seed)
        if g == "state_vector":
            return R.random_state_vector(list(e["dim"]) if isinstance(e["dim"], list) else e["dim"], e["real"], 0 if e["k"] is None else e["k"], seed)
        if g == "povm":
            return R.random_povm(e["d"], e["nin"], e["nout"], seed)
        if g == "ginibre":
            return R.random_ginibre(e["n"], e["m"], seed)
        if g == "states":
            return R.random_states(e["n"], e["d"], seed)
        if g == "circulant":
            return R.random_circulant_gram_matrix(e["d"], seed)
    if g == "unitary":
        dim = [e["d"], e["d"]] if e["list"] else e["d"]
        return R.random_unitary(dim, e["real"], seed=seed)
    if g == "density":
        kw = {} if e["k"] is None else {"k_param": e["k"]}
        return R.random_density_matrix(e["d"], e["real"], distance_metric=e["metric"], seed=seed, **kw)
    if g == "psd":
        return R.random_psd_operator(e["d"], e["real"], seed)
    if g == "basis":
        return R.random_orthonormal_basis(e["d"], is_real=e["real"], seed=seed)
    if g == "state_vector":
        kw = {} if e["k"] is None else {"k_param": e["k"]}
        dim = list(e["dim"]) if isinstance(e["dim"], list) else e["dim"]
        return R.random_state_vector(dim, is_real=e["real"], seed=seed, **kw)
    if g == "povm":
        return R.random_povm(e["d"], e["nin"], e["nout"], seed=seed)
    if g == "ginibre":
        return R.random_ginibre(e["n"], e["m"], seed=seed)
    if g == "states":
        return R.random_states(e["n"], e["d"], seed=seed)
    if g == "circulant":
        return R.random_circulant_gram_matrix(e["d"], seed=seed)
    raise AssertionError(g)


@st.composite
def _args(draw, g, dmax=6, known_ok=False):
    """Effective argument dict of generator ``g``.  ``known_ok`` keeps to the calling forms that the validity
    sub-checks cover in separate sub-checks of their own (list-dim state vectors, Bures rank bounds)."""
    d = draw(st.integers(1, dmax))
    real = draw(st.booleans())
    if g == "unitary":
        return {"d": d, "list": draw(st.booleans()), "real": real}
    if g == "density":
        k = draw(st.one_of(st.none(), st.integers(1, d)))
        return {"d": d, "real": real, "k": k, "metric": draw(st.sampled_from(["haar", "bures"]))}
    if g in ("psd", "basis"):
        return {"d": d, "real": real}
    if g == "state_vector":
        if draw(st.booleans()):
            return {"dim": d, "real": real, "k": draw(st.one_of(st.none(), st.integers(0, d + 1)))}
        d2 = draw(st.integers(1, dmax))
        return {"dim": [d, d2], "real": real, "k": draw(st.one_of(st.none(), st.integers(0, min(d, d2) + 1)))}
    if g == "povm":
        return {"d": d, "nin": draw(st.integers(1, 3)), "nout": draw(st.integers(1, 4))}
    if g == "ginibre":
        return {"n": d, "m": draw(st.integers(1, dmax))}
    if g == "states":
        return {"n": draw(st.integers(1, 4)), "d": d}
    return {"d": d}


def _dof2(g, e):
    """True when the object has at least two continuous degrees of freedom (different seeds must then differ)."""
    if g == "state_vector":
        dim = e["dim"]
        return (gen.prod(dim) if isinstance(dim, list) else dim) >= 2
    if g == "povm":
        return e["d"] >= 2 and e["nout"] >= 2
    if g == "ginibre":
        return True
    return e["d"] >= 2


def _blob(res):
    """Bit-exact, hashable image of a generator result (array or list of arrays)."""
    if isinstance(res, (list, tuple)):
        return tuple(_blob(r) for r in res)
    a = np.asarray(res)
    return (a.dtype.str, a.shape, a.tobytes())


def _call_or_exc(g, e, seed):
    """Result blob, or ('raised', type) when the generator raises: whether a call form is *accepted* is decided by
    the validity sub-checks; the reproducibility sub-checks compare whatever the call produces."""
    try:
        return _blob(_call(g, e, seed))
    except Exception as exc:  # noqa: BLE001
        return ("raised", type(exc).__name__)


def _raised(blob):
    return isinstance(blob[0], str) and blob[0] == "raised"


# ------------------------------------------------------------------------------------------
# (a) validity predicates, one sub-check per generator
# ------------------------------------------------------------------------------------------
@st.composite
def _unitary_case(draw):
    d = draw(st.integers(1, 6))
    form = draw(st.sampled_from(["int", "list", "list", "nonsquare"]))
    c = {"d": d, "form": form, "real": draw(st.booleans()), "seed": draw(SEED32), "pos": draw(st.booleans())}
    if form == "nonsquare":
        c["d2"] = draw(st.integers(1, 5))
        if c["d2"] >= d:
            c["d2"] += 1
    return c


def check_unitary(case):
    from toqito.rand import random_unitary

    d, real, seed = case["d"], case["real"], case["seed"]
    if case["form"] == "nonsquare":
        try:
            out = random_unitary([d, case["d2"]], real, seed=seed)
        except ValueError:
            return
        unlisted_rejection(f"random_unitary([{d}, {case['d2']}]) returned an array of shape {np.shape(out)} instead of rejecting a non-square space", "unitary:nonsquare-accepted")
    dim = [d, d] if case["form"] == "list" else d
    u = random_unitary(dim, real, seed) if case["pos"] else random_unitary(dim=dim, is_real=real, seed=seed)
    u = np.asarray(u)
    req(u.shape == (d, d), f"random_unitary shape {u.shape} != {(d, d)}", "unitary:shape")
    _finite(u, "random_unitary")
    err = max(float(np.max(np.abs(u.conj().T @ u - np.eye(d)))), float(np.max(np.abs(u @ u.conj().T - np.eye(d)))))
    req(err <= ATOL, f"random_unitary: U^dagger U differs from I by {err:.2e}", "unitary:not-unitary")
    if real:
        req(_is_real_valued(u), "random_unitary(is_real=True) has complex entries", "unitary:not-real")


def nt_unitary(case):
    if case["form"] == "nonsquare":
        return "unitary:nonsquare-rejected"
    if case["d"] >= 2:
        return "unitary:list-dim" if case["form"] == "list" else "unitary:d>=2"
    return None


@st.composite
def _density_case(draw, bures_rank=False):
    if bures_rank:
        d = draw(st.integers(2, 6))
        return {"d": d, "real": draw(st.booleans()), "k": draw(st.integers(1, d - 1)), "metric": "bures", "seed": draw(SEED32)}
    d = draw(st.integers(1, 6))
    metric = draw(st.sampled_from(["haar", "haar", "bures"]))
    if metric == "haar":
        k = draw(st.one_of(st.none(), st.integers(1, d)))
    else:
        k = draw(st.sampled_from([None, d]))
    return {"d": d, "real": draw(st.booleans()), "k": k, "metric": metric, "seed": draw(SEED32)}


def check_density(case):
    d, k, metric = case["d"], case["k"], case["metric"]
    e = {"d": d, "real": case["real"], "k": k, "metric": metric}
    lowrank_bures = metric == "bures" and k is not None and k < d
    try:
        rho = np.asarray(_call("density", e, case["seed"]))
    except ValueError as exc:
        if lowrank_bures and "broadcast" in str(exc):
            raise Violation(f"random_density_matrix({d}, k_param={k}, distance_metric='bures') raises {exc}", "density:bures:k_param<dim") from None
        raise
    req(rho.shape == (d, d), f"random_density_matrix shape {rho.shape} != {(d, d)}", "density:shape")
    _finite(rho, "random_density_matrix")
    req(_herm_err(rho) <= ATOL, "random_density_matrix: not Hermitian", "density:not-hermitian")
    req(abs(np.trace(rho) - 1) <= ATOL, f"random_density_matrix: trace {np.trace(rho)}", "density:trace")
    w = _lam(rho)
    req(w[0] >= -ATOL, f"random_density_matrix: eigenvalue {w[0]:.3e} < 0", "density:not-psd")
    bound = d if k is None else k
    rank = int(np.sum(w > 1e-9))
    req(rank <= bound, f"random_density_matrix(dim={d}, k_param={k}, {metric}): rank {rank} exceeds the requested bound (eigenvalues {np.round(w, 6).tolist()})", "density:bures:k_param<dim" if lowrank_bures else "density:rank>k")
    if case["real"]:
        req(_is_real_valued(rho), "random_density_matrix(is_real=True) has complex entries", "density:not-real")


def nt_density(case):
    if case["k"] is not None and case["k"] < case["d"]:
        return f"density:{case['metric']}:rank-bound<dim"
    return f"density:{case['metric']}:d>=2" if case["d"] >= 2 else None


@st.composite
def _dreal_case(draw):
    return {"d": draw(st.integers(1, 6)), "real": draw(st.booleans()), "seed": draw(SEED32)}


def check_psd(case):
    d = case["d"]
    m = np.asarray(_call("psd", case, case["seed"]))
    req(m.shape == (d, d), f"random_psd_operator shape {m.shape}", "psd:shape")
    _finite(m, "random_psd_operator")
    scale = max(1.0, float(np.max(np.abs(m))))
    req(_herm_err(m) <= ATOL * scale, "random_psd_operator: not Hermitian", "psd:not-hermitian")
    w = _lam(m)
    req(w[0] >= -ATOL * scale, f"random_psd_operator: eigenvalue {w[0]:.3e} < 0", "psd:not-psd")
    if case["real"]:
        req(_is_real_valued(m), "random_psd_operator(is_real=True) has complex entries", "psd:not-real")


def check_basis(case):
    d = case["d"]
    b = _call("basis", case, case["seed"])
    req(isinstance(b, (list, tuple)) and len(b) == d, f"random_orthonormal_basis: {len(b)} vectors, expected {d}", "basis:count")
    vs = [np.asarray(v).reshape(-1) for v in b]
    req(all(v.size == d for v in vs), "random_orthonormal_basis: vector length != dim", "basis:shape")
    mat = np.stack(vs, axis=1)
    _finite(mat, "random_orthonormal_basis")
    err = float(np.max(np.abs(mat.conj().T @ mat - np.eye(d))))
    req(err <= ATOL, f"random_orthonormal_basis: Gram matrix differs from I by {err:.2e}", "basis:not-orthonormal")
    if case["real"]:
        req(_is_real_valued(mat), "random_orthonormal_basis(is_real=True) has complex entries", "basis:not-real")


def nt_dreal(name):
    return lambda case: f"{name}:d>=2" + (",real" if case["real"] else "") if case["d"] >= 2 else None


@st.composite
def _sv_case(draw, listdim):
    real = draw(st.booleans())
    if listdim:
        d1, d2 = draw(st.integers(1, 6)), draw(st.integers(1, 6))
        m = min(d1, d2)
        k = draw(st.one_of(st.none(), st.integers(0, m + 1), st.integers(1, max(1, m - 1))))
        return {"dim": [d1, d2], "real": real, "k": k, "seed": draw(SEED32)}
    d = draw(st.integers(1, 6))
    k = draw(st.one_of(st.none(), st.integers(0, d + 1), st.integers(1, max(1, d - 1))))
    return {"dim": d, "real": real, "k": k, "seed": draw(SEED32)}


def check_state_vector(case):
    dim, k = case["dim"], case["k"]
    v = np.asarray(_call("state_vector", case, case["seed"]))
    keff = 0 if k is None else k
    if isinstance(dim, list):
        d1, d2 = dim
        bounded = 0 < keff < min(d1, d2)
        n = d1 * d2
    else:
        bounded = 0 < keff < dim
        d1 = d2 = dim
        n = dim * dim if bounded else dim
    req(v.size == n, f"random_state_vector(dim={dim}, k_param={k}): {v.size} amplitudes, expected {n}", "sv:size")
    v = v.reshape(-1)
    _finite(v, "random_state_vector")
    req(abs(np.linalg.norm(v) - 1) <= ATOL, f"random_state_vector: norm {np.linalg.norm(v)}", "sv:norm")
    if bounded or isinstance(dim, list):
        s = np.linalg.svd(v.reshape(d1, d2), compute_uv=False)
        rank = int(np.sum(s > 1e-9))
        bound = keff if bounded else min(d1, d2)
        req(rank <= bound, f"random_state_vector(dim={dim}, k_param={k}): Schmidt rank {rank} > {bound} (Schmidt coefficients {np.round(s, 6).tolist()})", "sv:schmidt-rank>k")
    if case["real"]:
        req(_is_real_valued(v), "random_state_vector(is_real=True) has complex entries", "sv:not-real")


def nt_sv(case):
    dim, k = case["dim"], case["k"] or 0
    lst = isinstance(dim, list)
    m = min(dim) if lst else dim
    if 0 < k < m:
        return ("sv:list-dim" if lst else "sv:int-dim") + ",schmidt-bound<min"
    if lst and gen.prod(dim) >= 2:
        return "sv:list-dim,full-rank" + (",default-k" if case["k"] is None else "")
    return None


@st.composite
def _povm_case(draw):
    return {"d": draw(st.integers(1, 6)), "nin": draw(st.integers(1, 4)), "nout": draw(st.integers(1, 5)), "seed": draw(SEED32)}


POVM_TOL = 1e-6


def check_povm(case):
    d, nin, nout = case["d"], case["nin"], case["nout"]
    p = np.asarray(_call("povm", case, case["seed"]))
    req(p.shape == (d, d, nin, nout), f"random_povm shape {p.shape} != {(d, d, nin, nout)}", "povm:shape")
    _finite(p, "random_povm")
    for x in range(nin):
        tot = np.zeros((d, d), dtype=complex)
        for a in range(nout):
            m = p[:, :, x, a]
            req(_herm_err(m) <= POVM_TOL, f"random_povm: element (input {x}, output {a}) is not Hermitian", "povm:not-hermitian")
            req(_lam(m)[0] >= -POVM_TOL, f"random_povm: element (input {x}, output {a}) has eigenvalue {_lam(m)[0]:.3e}", "povm:not-psd")
            tot = tot + m
        err = float(np.max(np.abs(tot - np.eye(d))))
        req(err <= POVM_TOL, f"random_povm: elements of input {x} sum to I + {err:.2e}", "povm:sum")


def nt_povm(case):
    if case["d"] >= 2 and case["nout"] >= 2:
        return "povm:d>=2,nout>=2" + (",nin>=2" if case["nin"] >= 2 else "")
    return None


@st.composite
def _misc_case(draw):
    g = draw(st.sampled_from(["ginibre", "states", "circulant"]))
    return {"gen": g, "e": draw(_args(g)), "seed": draw(SEED32)}


def check_misc(case):
    g, e = case["gen"], case["e"]
    out = _call(g, e, case["seed"])
    if g == "ginibre":
        out = np.asarray(out)
        req(out.shape == (e["n"], e["m"]), f"random_ginibre shape {out.shape} != {(e['n'], e['m'])}", "ginibre:shape")
        req(np.iscomplexobj(out), "random_ginibre is not complex", "ginibre:not-complex")
        _finite(out, "random_ginibre")
        req(bool(np.all(out.real != 0) and np.all(out.imag != 0)), "random_ginibre has an exactly zero real or imaginary part", "ginibre:degenerate")
    elif g == "states":
        req(isinstance(out, list) and len(out) == e["n"], f"random_states returned {len(out)} states, expected {e['n']}", "states:count")
        for v in out:
            v = np.asarray(v)
            req(v.shape == (e["d"], 1), f"random_states: state of shape {v.shape}, documented column vector ({e['d']}, 1)", "states:shape")
            _finite(v, "random_states")
            req(abs(np.linalg.norm(v) - 1) <= ATOL, f"random_states: norm {np.linalg.norm(v)}", "states:norm")
    else:
        d = e["d"]
        c = np.asarray(out)
        req(c.shape == (d, d), f"random_circulant_gram_matrix shape {c.shape}", "circulant:shape")
        _finite(c, "random_circulant_gram_matrix")
        req(np.isrealobj(c), "random_circulant_gram_matrix is not real", "circulant:not-real")
        req(float(np.max(np.abs(c - np.roll(np.roll(c, 1, axis=0), 1, axis=1)))) <= ATOL, "random_circulant_gram_matrix is not circulant", "circulant:not-circulant")
        req(float(np.max(np.abs(c - c.T))) <= ATOL, "random_circulant_gram_matrix is not symmetric", "circulant:not-symmetric")
        req(_lam(c)[0] >= -ATOL, f"random_circulant_gram_matrix has eigenvalue {_lam(c)[0]:.3e}", "circulant:not-psd")


def nt_misc(case):
    g, e = case["gen"], case["e"]
    if g == "ginibre":
        return "ginibre:rectangular" if e["n"] != e["m"] else ("ginibre:square" if e["n"] >= 2 else None)
    if g == "states":
        return "states:n>=2,d>=2" if e["n"] >= 2 and e["d"] >= 2 else None
    return "circulant:d>=3" if e["d"] >= 3 else None


# different seeds -> different objects, same seed -> same object (stateless version; the history version is below)
@st.composite
def _seeddiff_case(draw):
    g = draw(st.sampled_from(GENS))
    s1 = draw(SEED32)
    s2 = (s1 + 1 + draw(st.integers(0, 2**32 - 2))) % 2**32
    # the type the repeated seed arrives in: seeds drawn with numpy (rng.integers, array elements) are numpy integers;
    # numpy's default_rng - which every generator hands its seed to - treats them exactly like the Python int
    return {"gen": g, "e": draw(_args(g)), "s1": s1, "s2": s2, "seed_type": draw(st.sampled_from(["int", "int", "int64", "uint32", "uint64"]))}


def check_seed_difference(case):
    g, e = case["gen"], case["e"]
    a = _call_or_exc(g, e, case["s1"])
    b = _call_or_exc(g, e, case["s2"])
    s1_again = {"int": int, "int64": np.int64, "uint32": np.uint32, "uint64": np.uint64}[case.get("seed_type", "int")](case["s1"])
    a2 = _call_or_exc(g, e, s1_again)
    if _raised(a) and _raised(b) and _raised(a2):
        raise Inconclusive("generator raises for this calling form (decided by the validity sub-checks)")
    req(a == a2, f"{g}{canon(e)}: two calls with seed {case['s1']} give different objects", "seed:not-reproducible")
    if _dof2(g, e) and not _raised(a):
        req(a != b, f"{g}{canon(e)}: seeds {case['s1']} and {case['s2']} give the same object", "seed:ignored")


def nt_seeddiff(case):
    return f"seeddiff:{case['gen']}" if _dof2(case["gen"], case["e"]) else None


# ------------------------------------------------------------------------------------------
# (b) history: reproducibility under interleavings, purity w.r.t. the legacy global stream
# ------------------------------------------------------------------------------------------
@st.composite
def _callspec(draw, dmax=4):
    g = draw(st.sampled_from(GENS))
    return {"gen": g, "e": draw(_args(g, dmax))}


@st.composite
def _pool_entry(draw):
    c = draw(_callspec())
    s1 = draw(SEED32)
    s2 = (s1 + 1 + draw(st.integers(0, 2**32 - 2))) % 2**32
    c["seeds"] = [s1, s2]
    return c


def _states_equal(a, b):
    return a[0] == b[0] and np.array_equal(a[1], b[1]) and a[2:] == b[2:]


class RngHistoryModel:
    """Real object: the toqito generators + numpy's legacy global stream.  Reference model: a table
    key -> first result, where key = canonical JSON of (generator, args, seed)."""

    def __init__(self, cfg):
        self.saved = np.random.get_state()
        self.pool = cfg["pool"]
        self.first = {}  # key -> blob
        self.bad = None

    def _key(self, g, e, seed):
        return canon([g, e, seed])

    def _seeded(self, g, e, seed):
        before = np.random.get_state()
        blob = _call_or_exc(g, e, seed)
        after = np.random.get_state()
        if not _states_equal(before, after):
            raise Violation(f"seeded call {g}{canon(e)} seed={seed} changed the legacy global stream (np.random.get_state())", "history:global-state-changed")
        key = self._key(g, e, seed)
        if key not in self.first:
            self.first[key] = blob
        elif self.first[key] != blob:
            raise Violation(f"seeded call {g}{canon(e)} seed={seed} does not reproduce the first result recorded under the same key", "history:not-reproducible")

    def apply(self, op, a):
        if op == "seeded":
            p = self.pool[a["i"] % len(self.pool)]
            self._seeded(p["gen"], p["e"], p["seeds"][a["j"]])
        elif op == "unseeded":
            p = self.pool[a["i"] % len(self.pool)]
            _call_or_exc(p["gen"], p["e"], None)
        elif op == "np_seed":
            np.random.seed(a["x"])
        elif op == "consume":
            np.random.rand(a["n"])
            if a["normal"]:
                np.random.randn(a["n"])
        elif op == "seeded_other":
            p = self.pool[a["i"] % len(self.pool)]
            self._seeded(a["call"]["gen"], a["call"]["e"], p["seeds"][a["j"]])
        else:
            raise AssertionError(op)

    def invariant(self):
        # every key was checked against its first record when it was called; here: different seeds differ
        for p in self.pool:
            if not _dof2(p["gen"], p["e"]):
                continue
            r = [self.first.get(self._key(p["gen"], p["e"], s)) for s in p["seeds"]]
            if r[0] is not None and r[1] is not None and not _raised(r[0]) and r[0] == r[1]:
                raise Violation(f"{p['gen']}{canon(p['e'])}: seeds {p['seeds']} give the same object", "history:seed-ignored")

    def teardown(self):
        np.random.set_state(self.saved)


_IJ = {"i": st.integers(0, 2), "j": st.integers(0, 1)}
HISTORY = HistorySpec(
    init=st.fixed_dictionaries({"pool": st.lists(_pool_entry(), min_size=1, max_size=3)}),
    ops={
        "seeded": st.fixed_dictionaries(_IJ),
        "unseeded": st.fixed_dictionaries({"i": st.integers(0, 2)}),
        "np_seed": st.fixed_dictionaries({"x": SEED32}),
        "consume": st.fixed_dictionaries({"n": st.integers(1, 7), "normal": st.booleans()}),
        "seeded_other": st.fixed_dictionaries({**_IJ, "call": _callspec()}),
    },
    model=RngHistoryModel,
    max_steps=14,
)


def nt_history(case):
    pool = case["init"]["pool"]
    last = {}  # key -> disturbed since the last seeded call of that key?
    hit, other = False, False
    for op, a in case["steps"]:
        if op in ("seeded", "seeded_other"):
            p = pool[a["i"] % len(pool)]
            spec = p if op == "seeded" else a["call"]
            key = canon([spec["gen"], spec["e"], p["seeds"][a["j"]]])
            if last.get(key):
                hit = True
            last[key] = False
            if op == "seeded_other":
                other = True
                for k in last:
                    if k != key and last[k] is False:
                        last[k] = "other"
        else:
            for k in last:
                last[k] = True
    if hit:
        return "history:repeat-after-global-disturbance" + (",other-generator-interleaved" if other else "")
    return None


# ------------------------------------------------------------------------------------------
# (c) pretty good / pretty bad measurement
# ------------------------------------------------------------------------------------------
@st.composite
def _ensemble_case(draw, dmax=6, nmax=6):
    d = draw(st.integers(2, dmax))
    n = draw(st.integers(2, nmax))
    real = draw(st.booleans())
    states = []
    for _ in range(n):
        kind = draw(st.sampled_from(["ket1d", "ketcol", "dm"]))
        states.append({"kind": kind, "rank": draw(st.integers(1, d)) if kind == "dm" else 1})
    short = d - sum(s["rank"] for s in states)
    if short > 0:
        # construction, not rejection: the last state becomes a density matrix carrying the missing rank
        states[-1]["kind"] = "dm"
        states[-1]["rank"] += short
    pk = draw(st.sampled_from(["none", "uniform", "dyadic", "prng"]))
    c = {"d": d, "real": real, "states": states, "seed": draw(gen.SEED), "priors": pk, "parray": draw(st.booleans())}
    if pk == "dyadic":
        c["counts"] = draw(gen.dyadic_probs(n, m=6, allow_zero=False))
        if n >= 3 and draw(st.integers(0, 2)) == 0:
            # "arbitrary priors" include a state of prior exactly zero (the ensemble average must still be invertible:
            # cases where it is not are inconclusive).  Seeded change C19-u4 - pretty-bad-measurement prefactor computed
            # from the number of non-zero priors - was missed while every prior was >= 1/64.
            z = draw(st.integers(0, n - 1))
            t = (z + 1 + draw(st.integers(0, n - 2))) % n
            c["counts"][t] += c["counts"][z]
            c["counts"][z] = 0
    elif pk == "prng":
        c["pseed"] = draw(gen.SEED)
    return c


def _build_ensemble(case):
    d, real = case["d"], case["real"]
    inputs, rhos = [], []
    for i, s in enumerate(case["states"]):
        seed = case["seed"] * 64 + i  # one drawn seed, one independent stream per state (equal states never by accident)
        # every fourth complex ensemble starts with a real-valued, real-dtype state (dtype decided per ensemble member)
        real = case["real"] or (i == 0 and case["seed"] % 4 == 0)
        if s["kind"] == "dm":
            rho = gen.rand_density(seed, d, s["rank"], real)
            if real:
                rho = np.array(np.real(rho), dtype=float)
            inputs.append(rho)
            rhos.append(rho)
        else:
            v = gen.rand_ket(seed, d, real)
            if real:
                v = np.array(np.real(v), dtype=float)
            inputs.append(v if s["kind"] == "ket1d" else v.reshape(-1, 1))
            rhos.append(np.outer(v, v.conj()))
    n = len(rhos)
    near = case.get("near")
    if near:
        # state j becomes state 0 turned by the small angle theta towards a drawn orthogonal direction (ket kinds only)
        j, theta = int(near["j"]), float(near["theta"])
        g = gen.rng(case["seed"] * 64 + 63)
        v0 = np.asarray(inputs[0]).reshape(-1)
        w = g.normal(size=d) + (0 if np.isrealobj(v0) else 1j * g.normal(size=d))
        w = w - v0 * (v0.conj() @ w)
        w = w / np.linalg.norm(w)
        v = np.cos(theta) * v0 + np.sin(theta) * w
        inputs[j] = v if np.asarray(inputs[j]).ndim == 1 else v.reshape(-1, 1)
        rhos[j] = np.outer(v, v.conj())
    pk = case["priors"]
    if pk == "tiny":
        t = float(case["tiny"]["p"])
        p = [(1 - t) / (n - 1)] * n
        p[int(case["tiny"]["z"])] = t
    elif pk in ("none", "uniform"):
        p = [1 / n] * n
    elif pk == "dyadic":
        p = gen.exact_probs(case["counts"])
    else:
        p = [float(x) for x in gen.rand_probs(case["pseed"], n, floor=0.02)]
    arg = None if pk == "none" else (np.array(p) if case["parray"] else list(p))
    return inputs, rhos, p, arg


def _avg_ok(rhos, p):
    avg = sum(pi * r for pi, r in zip(p, rhos))
    if _lam(avg)[0] < 1e-6:
        raise Inconclusive("ensemble average nearly singular")
    return avg


def _require_povm(ms, d, n, what, tol=1e-7):
    req(len(ms) == n, f"{what}: {len(ms)} operators for {n} states", f"{what}:count")
    tot = np.zeros((d, d), dtype=complex)
    for i, m in enumerate(ms):
        m = np.asarray(m)
        req(m.shape == (d, d), f"{what}: operator {i} has shape {m.shape}", f"{what}:shape")
        _finite(m, what)
        req(_herm_err(m) <= tol, f"{what}: operator {i} is not Hermitian", f"{what}:not-hermitian")
        req(_lam(m)[0] >= -tol, f"{what}: operator {i} has eigenvalue {_lam(m)[0]:.3e}", f"{what}:not-psd")
        tot = tot + m
    err = float(np.max(np.abs(tot - np.eye(d))))
    req(err <= tol, f"{what}: operators sum to I + {err:.2e}", f"{what}:sum")


def check_pgm_pbm(case):
    from toqito.measurements import pretty_bad_measurement, pretty_good_measurement

    inputs, rhos, p, arg = _build_ensemble(case)
    d, n = case["d"], len(rhos)
    avg = _avg_ok(rhos, p)
    pgm = pretty_good_measurement(inputs, arg)
    pbm = pretty_bad_measurement(inputs, arg)
    _require_povm(pgm, d, n, "pgm")
    _require_povm(pbm, d, n, "pbm")
    # the documented formulas G_i = P^-1/2 p_i rho_i P^-1/2,  B_i = (I - G_i)/(n-1)
    r = _inv_sqrt(avg)
    for i in range(n):
        g = r @ (p[i] * rhos[i]) @ r
        req(float(np.max(np.abs(np.asarray(pgm[i]) - g))) <= 1e-6, f"pretty_good_measurement: operator {i} differs from P^-1/2 p_i rho_i P^-1/2", "pgm:formula")
        req(float(np.max(np.abs(np.asarray(pbm[i]) - (np.eye(d) - g) / (n - 1)))) <= 1e-6, f"pretty_bad_measurement: operator {i} differs from (I - G_i)/(n-1)", "pbm:formula")


@st.composite
def _ill_ensemble_case(draw):
    """Spanning ensembles of exactly d pure states (every state is needed) whose average state is nearly singular:
    one prior of 1e-7 ... 1e-9, or two kets 1e-3 ... 1e-4 rad apart.  'All ensembles ... with arbitrary priors' includes
    them; seeded change C19-c2 (inverse square root restricted to eigenvalues above 1e-8) was missed while every
    average state below 1e-6 was skipped."""
    d = draw(st.integers(2, 4))
    states = [{"kind": draw(st.sampled_from(["ket1d", "ketcol"])), "rank": 1} for _ in range(d)]
    c = {"d": d, "real": draw(st.booleans()), "states": states, "seed": draw(gen.SEED), "parray": draw(st.booleans())}
    if draw(st.booleans()):
        c["priors"] = "tiny"
        c["tiny"] = {"z": draw(st.integers(0, d - 1)), "p": draw(st.sampled_from([1e-7, 1e-8, 3e-9, 1e-9]))}
    else:
        c["priors"] = draw(st.sampled_from(["none", "uniform"]))
        c["near"] = {"j": draw(st.integers(1, d - 1)), "theta": draw(st.sampled_from([1e-3, 3e-4, 1e-4]))}
    return c


def check_pgm_pbm_ill(case):
    from toqito.measurements import pretty_bad_measurement, pretty_good_measurement

    inputs, rhos, p, arg = _build_ensemble(case)
    d, n = case["d"], len(rhos)
    lam = float(_lam(sum(pi * r for pi, r in zip(p, rhos)))[0])
    if not 1e-10 <= lam <= 1e-5:
        raise Inconclusive("average state not in the ill-conditioned band")
    # rounding grows like eps / lambda_min (2e-4 observed at 1e-9 on the unchanged tree); dropping a direction costs 1
    tol = 2e-2
    pgm = pretty_good_measurement(inputs, arg)
    pbm = pretty_bad_measurement(inputs, arg)
    _require_povm(pgm, d, n, "pgm[ill-conditioned]", tol)
    _require_povm(pbm, d, n, "pbm[ill-conditioned]", tol)
    for i in range(n):
        dev = float(np.max(np.abs(np.asarray(pbm[i]) - (np.eye(d) - np.asarray(pgm[i])) / (n - 1))))
        req(dev <= tol, f"pretty_bad_measurement: operator {i} differs from (I - G_i)/(n-1) by {dev:.2e} (ill-conditioned ensemble)", "pbm:formula")


def nt_ill(case):
    return "tiny-prior:%g" % case["tiny"]["p"] if case["priors"] == "tiny" else "near-parallel:%g" % case["near"]["theta"]


def nt_ensemble(case):
    n = len(case["states"])
    mixed = any(s["kind"] == "dm" and s["rank"] >= 2 for s in case["states"])
    nonuni = case["priors"] in ("dyadic", "prng")
    if nonuni and n >= 3:
        return "ensemble:nonuniform,n>=3" + (",mixed" if mixed else ",pure")
    if mixed:
        return "ensemble:mixed"
    return None


@st.composite
def _badprior_case(draw):
    c = draw(_ensemble_case(dmax=4, nmax=5))
    n = len(c["states"])
    c["priors"] = "prng"
    c["pseed"] = draw(gen.SEED)
    c["bad"] = draw(st.sampled_from(["short", "long", "sum_low", "sum_high"]))
    c["margin"] = draw(st.sampled_from([1e-3, 1e-2, 0.25]))
    c["which"] = draw(st.sampled_from(["pgm", "pbm"]))
    c["n"] = n
    return c


def check_bad_priors(case):
    from toqito.measurements import pretty_bad_measurement, pretty_good_measurement

    inputs, _rhos, p, _ = _build_ensemble(case)
    n, bad = len(p), case["bad"]
    if bad == "short":
        q = gen.rand_probs(case["pseed"], n - 1).tolist()
    elif bad == "long":
        q = gen.rand_probs(case["pseed"], n + 1).tolist()
    else:
        f = 1 - case["margin"] if bad == "sum_low" else 1 + case["margin"]
        q = [x * f for x in p]
    arg = np.array(q) if case["parray"] else q
    fn = pretty_good_measurement if case["which"] == "pgm" else pretty_bad_measurement
    try:
        fn(inputs, arg)
    except ValueError:
        return
    unlisted_rejection(f"{fn.__name__} accepted a prior vector with defect '{bad}' (len {len(q)} for {n} states, sum {sum(q):.4f}); a ValueError is documented", f"{case['which']}:bad-priors-accepted:{'len' if bad in ('short', 'long') else 'sum'}")


def _popt_interval(rhos, p):
    """Certified [lb, ub] for the minimum-error discrimination probability (own SDP, no toqito)."""
    import cvxpy as cp

    n, d = len(rhos), rhos[0].shape[0]
    cplx = any(np.iscomplexobj(r) and np.any(r.imag != 0) for r in rhos)
    try:
        ms = [cp.Variable((d, d), hermitian=True) if cplx else cp.Variable((d, d), symmetric=True) for _ in range(n)]
        cons = [m >> 0 for m in ms] + [sum(ms) == np.eye(d)]
        if cplx:
            obj = cp.Maximize(cp.real(sum(p[i] * cp.trace(rhos[i] @ ms[i]) for i in range(n))))
        else:
            obj = cp.Maximize(sum(p[i] * cp.trace(np.real(rhos[i]) @ ms[i]) for i in range(n)))
        prob = cp.Problem(obj, cons)
        with warnings.catch_warnings():
            warnings.simplefilter("ignore")
            prob.solve(solver=cp.CLARABEL)
        if prob.status not in ("optimal", "optimal_inaccurate") or any(m.value is None for m in ms):
            raise Inconclusive(f"own SDP status {prob.status}")
        vals = [np.asarray(m.value, dtype=complex) for m in ms]
        dual = cons[-1].dual_value
    except Inconclusive:
        raise
    except Exception as exc:  # noqa: BLE001  (solver-internal failure of the oracle, not toqito)
        raise Inconclusive(f"own SDP failed: {type(exc).__name__}") from None
    plus = [_psd_part(v) + 1e-12 * np.eye(d) for v in vals]
    r = _inv_sqrt(sum(plus))
    feas = [r @ m @ r for m in plus]
    lb = float(sum(p[i] * np.trace(rhos[i] @ feas[i]).real for i in range(n)))
    # dual candidates Y (any Hermitian Y becomes feasible, Y' >= p_i rho_i for all i, after a shift by a multiple of I)
    cands = [_herm(sum(p[i] * rhos[i] @ feas[i] for i in range(n)))]
    if dual is not None and np.shape(dual) == (d, d):
        cands += [_herm(np.asarray(dual, dtype=complex)), -_herm(np.asarray(dual, dtype=complex))]
    ub = np.inf
    for y in cands:
        shift = max(0.0, max(float(_lam(p[i] * rhos[i] - y)[-1]) for i in range(n)))
        ub = min(ub, float(np.trace(y).real + d * shift))
    return lb, ub


def check_pgm_bounds(case):
    from toqito.measurements import pretty_good_measurement

    inputs, rhos, p, arg = _build_ensemble(case)
    _avg_ok(rhos, p)
    pgm = pretty_good_measurement(inputs, arg)
    n = len(rhos)
    req(len(pgm) == n, "pretty_good_measurement: wrong number of operators", "pgm:count")
    p_pgm = float(sum(p[i] * np.trace(rhos[i] @ np.asarray(pgm[i])).real for i in range(n)))
    lb, ub = _popt_interval(rhos, p)
    if ub - lb > 1e-5:
        raise Inconclusive("own SDP: certified gap > 1e-5")
    tol = 1e-6
    req(p_pgm <= ub + tol, f"P_pgm = {p_pgm:.8f} exceeds the certified optimum [{lb:.8f}, {ub:.8f}]", "pgm:above-optimum")
    req(p_pgm >= lb * lb - tol, f"P_pgm = {p_pgm:.8f} is below P_opt^2 >= {lb * lb:.8f} (P_opt in [{lb:.8f}, {ub:.8f}])", "pgm:below-opt-squared")


# ------------------------------------------------------------------------------------------
# (d) measure, is_povm
# ------------------------------------------------------------------------------------------
@st.composite
def _measure_case(draw):
    mode = draw(st.sampled_from(["complete", "complete", "complete_zero", "incomplete", "single", "single_zero"]))
    d = draw(st.integers(2 if mode in ("complete_zero", "single_zero") else 1, 5))
    n = draw(st.integers(2 if mode in ("complete_zero",) else 1, 4))
    c = {
        "mode": mode,
        "d": d,
        "n": n,
        "real": draw(st.booleans()),
        "update": draw(st.booleans()),
        "tuple": draw(st.booleans()),
        "seeds": [draw(gen.SEED) for _ in range(4)],
    }
    if mode in ("complete_zero", "single_zero"):
        c["rank"] = draw(st.integers(1, d - 1))
        c["zpos"] = draw(st.integers(0, n - 1))
    elif mode == "incomplete":
        c["rank"] = d
        c["defect"] = draw(st.sampled_from(["drop", "scale"])) if n >= 2 else "scale"
        c["factor"] = draw(st.sampled_from([0.5, 0.9, 1.1]))
    else:
        c["rank"] = draw(st.integers(1, d))
    return c


def _blocks(v, n, d):
    return [v[i * d : (i + 1) * d, :] for i in range(n)]


def _build_measure(case):
    d, n, real, mode = case["d"], case["n"], case["real"], case["mode"]
    s = case["seeds"]
    if mode in ("complete_zero", "single_zero"):
        r = case["rank"]
        w = gen.rand_unitary(s[0], d, real)
        sup = w[:, :r]
        sigma = gen.rand_density(s[1], r, r, real)
        rho = _herm(sup @ sigma @ sup.conj().T)
        proj = sup @ sup.conj().T
        kz = gen.rand_unitary(s[2], d, real) @ (np.eye(d) - proj)
        if mode == "single_zero":
            return rho, [kz], [0]
        ks = [b @ proj for b in _blocks(gen.rand_isometry(s[3], (n - 1) * d, d, real), n - 1, d)]
        ks.insert(case["zpos"], kz)
        return rho, ks, [case["zpos"]]
    if mode == "incomplete":
        rho = 0.9 * gen.rand_density(s[1], d, d, real) + 0.1 * np.eye(d) / d
    else:
        rho = gen.rand_density(s[1], d, case["rank"], real)
    if mode == "single":
        k = gen.rand_matrix(s[3], d, d, not real)
        return rho, [k / (1.25 * np.linalg.norm(k, 2))], []
    ks = _blocks(gen.rand_isometry(s[3], n * d, d, real), n, d)
    if mode == "incomplete":
        if case["defect"] == "drop":
            ks = ks[:-1]
        else:
            ks[0] = ks[0] * case["factor"]
    return rho, ks, []


def _cmp_outcome(out, k, rho, update, is_zero, d, idx):
    exp = k @ rho @ k.conj().T
    p = float(np.trace(k.conj().T @ k @ rho).real)
    if (is_zero and p > 1e-12) or (not is_zero and 1e-12 < p <= 1e-6):
        raise Inconclusive("outcome probability within a factor 1e4 of tol")
    if update:
        req(isinstance(out, tuple) and len(out) == 2, f"measure(state_update=True): outcome {idx} is not a (probability, state) pair", "measure:form")
        got_p, post = out
    else:
        req(np.ndim(out) == 0, f"measure(state_update=False): outcome {idx} is not a scalar probability", "measure:form")
        got_p, post = out, None
    req(abs(float(np.real(got_p)) - p) <= ATOL and abs(float(np.imag(got_p))) <= ATOL, f"measure: probability {got_p} of outcome {idx} differs from Tr(K rho K^dagger) = {p}", "measure:born-probability")
    if post is None:
        return p
    post = np.asarray(post)
    _finite(post, "measure post-state")
    if is_zero:
        req(post.shape == (d, d) and float(np.max(np.abs(post))) <= ATOL, f"measure: zero-probability outcome {idx} should come with the zero operator (documented convention)", "measure:zero-probability-convention")
    elif p > 1e-6:
        req(post.shape == exp.shape, f"measure: post-state shape {post.shape}", "measure:post-state")
        req(float(np.max(np.abs(post - exp / np.trace(exp).real))) <= 1e-8, f"measure: post-state of outcome {idx} differs from K rho K^dagger / p", "measure:post-state")
        req(abs(np.trace(post) - 1) <= 1e-8 and _herm_err(post) <= 1e-8 and _lam(post)[0] >= -1e-8, f"measure: post-state of outcome {idx} is not a density matrix", "measure:post-state-not-density")
    return p


def check_measure(case):
    from toqito.measurement_ops.measure import measure

    rho, ks, zero = _build_measure(case)
    d, mode, update = case["d"], case["mode"], case["update"]
    if mode in ("single", "single_zero"):
        out = measure(rho, ks[0], state_update=update)
        _cmp_outcome(out, ks[0], rho, update, mode == "single_zero", d, 0)
        return
    arg = tuple(ks) if case["tuple"] else list(ks)
    if mode == "incomplete":
        dev = float(np.max(np.abs(sum(k.conj().T @ k for k in ks) - np.eye(d))))
        if dev < 1e-3:
            raise Inconclusive("incomplete set too close to complete")
        if update:
            try:
                measure(rho, arg, state_update=True)
            except ValueError:
                return
            unlisted_rejection(f"measure(state_update=True) accepted Kraus operators with sum K^dagger K = I + {dev:.3f} (full-rank state, all outcomes possible); a ValueError is documented", "measure:incomplete-accepted")
    out = measure(rho, arg, state_update=update)
    req(isinstance(out, list) and len(out) == len(ks), f"measure: {len(out)} outcomes for {len(ks)} operators", "measure:form")
    ps = [_cmp_outcome(o, k, rho, update, i in zero, d, i) for i, (o, k) in enumerate(zip(out, ks))]
    if mode != "incomplete":
        got = [float(np.real(o[0] if update else o)) for o in out]
        req(abs(sum(got) - 1) <= ATOL and abs(sum(ps) - 1) <= ATOL, f"measure: probabilities of a complete measurement sum to {sum(got)}", "measure:sum")


def nt_measure(case):
    m = case["mode"]
    if m in ("complete_zero", "single_zero"):
        return f"measure:{m}" + (",update" if case["update"] else "")
    if m == "incomplete":
        return "measure:incomplete" + (",update" if case["update"] else "")
    if m == "complete" and case["n"] >= 2 and case["d"] >= 2 and not case["real"]:
        return "measure:complete,complex,n>=2" + (",update" if case["update"] else "")
    return None


@st.composite
def _ispovm_case(draw):
    d = draw(st.integers(1, 5))
    n = draw(st.integers(1, 5))
    defects = ["none", "none", "sum"]
    if n >= 2:
        defects += ["neg", "nonherm"] if d >= 2 else ["neg"]
    return {"d": d, "n": n, "real": draw(st.booleans()), "defect": draw(st.sampled_from(defects)), "seed": draw(gen.SEED), "amount": draw(st.sampled_from([0.01, 0.1, 1.0]))}


def check_is_povm(case):
    from toqito.measurement_props import is_povm

    d, n, amt = case["d"], case["n"], case["amount"]
    ks = _blocks(gen.rand_isometry(case["seed"], n * d, d, case["real"]), n, d)
    ms = [_herm(k.conj().T @ k) for k in ks]
    df = case["defect"]
    if df == "sum":
        ms[0] = ms[0] + amt * np.eye(d)
    elif df == "neg":
        w, v = np.linalg.eigh(ms[0])
        vv = np.outer(v[:, 0], v[:, 0].conj())
        ms[0] = ms[0] - (w[0] + amt) * vv
        ms[1] = ms[1] + (w[0] + amt) * vv
    elif df == "nonherm":
        nn = np.triu(np.ones((d, d)), 1) * amt
        ms[0] = ms[0] + nn
        ms[1] = ms[1] - nn
    ans = is_povm(ms)
    req(isinstance(ans, (bool, np.bool_)), f"is_povm returned {type(ans).__name__}", "is_povm:type")
    if df == "none":
        req(bool(ans), "is_povm rejects a POVM built from an isometry (PSD, sums to I within 1e-13)", "is_povm:false-negative")
    else:
        req(not bool(ans), f"is_povm accepts a set with defect '{df}' of size {amt}", f"is_povm:false-positive:{df}")


def nt_ispovm(case):
    if case["defect"] != "none":
        return f"is_povm:{case['defect']}"
    return "is_povm:valid,n>=2,d>=2" if case["n"] >= 2 and case["d"] >= 2 else None


SUBCHECKS = [
    SubCheck("unitary", check_unitary, _unitary_case, nt_unitary, quick=4000, thorough=70000),
    SubCheck("density_matrix", check_density, _density_case, nt_density, quick=6000, thorough=100000),
    SubCheck("density_matrix_bures_rank", check_density, lambda: _density_case(bures_rank=True), nt_density, quick=1200, thorough=20000, shards=4),
    SubCheck("psd_operator", check_psd, _dreal_case, nt_dreal("psd"), quick=3000, thorough=50000, shards=8),
    SubCheck("orthonormal_basis", check_basis, _dreal_case, nt_dreal("basis"), quick=3000, thorough=50000, shards=8),
    SubCheck("state_vector", check_state_vector, lambda: _sv_case(False), nt_sv, quick=6000, thorough=100000),
    SubCheck("state_vector_listdim", check_state_vector, lambda: _sv_case(True), nt_sv, quick=6000, thorough=100000),
    SubCheck("povm", check_povm, _povm_case, nt_povm, quick=4000, thorough=70000),
    SubCheck("ginibre_states_circulant", check_misc, _misc_case, nt_misc, quick=4000, thorough=60000, shards=8),
    SubCheck("seed_difference", check_seed_difference, _seeddiff_case, nt_seeddiff, quick=8000, thorough=130000),
    SubCheck("history", HISTORY.replay, machine=HISTORY, nontrivial=nt_history, quick=1600, thorough=26000),
    SubCheck("pgm_pbm_povm", check_pgm_pbm, _ensemble_case, nt_ensemble, quick=4000, thorough=70000),
    SubCheck("pgm_pbm_ill_conditioned", check_pgm_pbm_ill, _ill_ensemble_case, nt_ill, quick=1500, thorough=25000),
    SubCheck("pgm_bad_priors", check_bad_priors, _badprior_case, lambda c: f"badpriors:{c['which']}:{c['bad']}", quick=800, thorough=12000, shards=4),
    SubCheck("pgm_bounds", check_pgm_bounds, lambda: _ensemble_case(dmax=4, nmax=5), nt_ensemble, quick=1200, thorough=20000, case_timeout=30),
    SubCheck("measure", check_measure, _measure_case, nt_measure, quick=8000, thorough=140000, fuzz=8000),
    SubCheck("is_povm", check_is_povm, _ispovm_case, nt_ispovm, quick=3000, thorough=50000, shards=8, fuzz=6000),
]


# ------------------------------------------------------------------------------------------
# measure: the state's dtype must not matter (added after seeded change C19-t3 - post-state buffer allocated with the
# dtype of the input state, so an integer or real-float state loses fractions / imaginary parts - was missed: every
# generated state had the dtype of its operators)
# ------------------------------------------------------------------------------------------
@st.composite
def _measure_dtype_case(draw):
    d = draw(st.integers(2, 4))
    return {
        "d": d,
        "n": draw(st.integers(1, 3)),
        "state": draw(st.sampled_from(["int_projector", "int_diagonal_unnormalised_free", "float_real"])),
        "pos": draw(st.integers(0, d - 1)),
        "seeds": [draw(gen.SEED) for _ in range(2)],
        "single": draw(st.booleans()),
        "update": draw(st.sampled_from([True, True, False])),
    }


def check_measure_dtypes(case):
    from toqito.measurement_ops.measure import measure

    d, n = case["d"], case["n"]
    if case["state"] == "float_real":
        rho = np.array(gen.rand_density(case["seeds"][0], d, d, True), dtype=float)
    else:
        rho = np.zeros((d, d), dtype=np.int64)
        rho[case["pos"], case["pos"]] = 1  # a basis projector: an exactly normalised integer-dtype density matrix
    ks = _blocks(gen.rand_isometry(case["seeds"][1], n * d, d, False), n, d)  # complex operators, complete set
    ref_rho = np.array(rho, dtype=complex)
    if case["single"]:
        out = measure(rho, ks[0], state_update=case["update"])
        _cmp_outcome(out, ks[0], ref_rho, case["update"], False, d, 0)
        return
    out = measure(rho, list(ks), state_update=case["update"])
    req(isinstance(out, list) and len(out) == n, f"measure: {len(out)} outcomes for {n} operators", "measure:form")
    for i, (o, k) in enumerate(zip(out, ks)):
        _cmp_outcome(o, k, ref_rho, case["update"], False, d, i)


SUBCHECKS.append(SubCheck("measure_dtypes", check_measure_dtypes, _measure_dtype_case, lambda c: f"{c['state']},complex-operators" + (",update" if c["update"] else ""), quick=1500, thorough=25000, shards=4))
