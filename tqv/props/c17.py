"""C17 — named states and standard matrices satisfy their defining identities.

Functions under test: everything exported from toqito.states and toqito.matrices.

Integer domains are ENUMERATED (local dimensions 2..5, qubit counts 1..5, every index / index pair); real parameters are
drawn by Hypothesis inside the documented range, at its end points, at the known thresholds -/+ 0.05 and (where a range
is documented with a ValueError) just outside.  Oracles never call the constructor under test: closed forms copied from
the docstrings, Kronecker products of basis kets, the row-major index models of tqv.ref (perm_operator, permute_vec,
partial_trace, partial_transpose), Gram matrices, and invariance under drawn unitaries.

Tolerance: 1e-9 (dense linear algebra on entries of modulus <= 1); w_state rounds its output to 4 decimals as its
docstring shows, so its entries are compared at 5e-4.
"""

from __future__ import annotations

import itertools
import math

import numpy as np
import scipy.sparse as sp
from hypothesis import strategies as st

from tqv import gen, ref
from tqv.core import SubCheck, Violation, req

# caller-owned arrays handed to the library must come back unchanged (see tqv/purity.py)
from tqv.purity import install as _install_purity  # noqa: E402

_install_purity('toqito.states', 'toqito.matrices', twice=True)

PROPERTY = "C17"
TOL = 1e-9
W_TOL = 5e-4

RULE = (
    "Integer parameters are enumerated: local dimension d in 2..5 (1 and 6 where cheap), party / qubit counts 1..5, all "
    "index pairs (k1, k2), all Bell / tile / domino / Gell-Mann / Pauli indices, primes 2, 3, 5 (7 in the thorough tier) "
    "for the unbiased bases. Real parameters (Werner / isotropic alpha, Horodecki a, Gisin lambda and theta, Breuer lambda, "
    "PBR theta, chessboard parameters, GHZ / W coefficients) are drawn by Hypothesis as a 'kind' (interior, each end "
    "point, threshold -0.05, threshold +0.05, just outside) plus a float, together with a 63-bit seed for the unitary used "
    "in the invariance statements. A case is non-trivial when d >= 3 or there are >= 3 parties, or when the real "
    "parameter sits at an end point, at a threshold +/- 0.05 or outside the documented range. distinct = distinct SHA-1 "
    "of the canonical case JSON among non-trivial cases."
)
ASSUMPTIONS = [
    "input-validation gaps that the property text does not quantify over (basis(d, -1) accepted although the docstring promises ValueError; werner accepting weight vectors whose length is not p!-1) are deliberately NOT asserted: the property speaks of admissible parameters and of real parameters just outside documented ranges",

    "werner(dim, alpha): the scalar form takes a Python/NumPy float in [-1, 1] (an int is rejected by the library); the "
    "multipartite list form is compared with the docstring formula I - sum_i alpha(i) P(i+1) only for alpha vectors that "
    "give a permutation and its inverse the same weight, because the docstring does not fix whether P(i) permutes "
    "according to the i-th permutation or its inverse; |alpha_i| <= 0.1 so that the trace stays positive",
    "isotropic alpha ranges over [-1/(d^2-1), 1] (the values for which the documented formula is a density operator)",
    "w_state is defined for >= 2 qubits (the library rejects 1) and rounds to 4 decimals: entries compared at 5e-4",
    "GHZ / W custom coefficients are real, either integers (norm far from 1) or normalised to machine precision: the "
    "library renormalises only when |norm - 1| exceeds numpy.isclose's default tolerance",
    "Breuer: only normalisation, positivity and the documented decomposition (weight lam on one antisymmetric maximally "
    "entangled state, the rest uniformly on the symmetric subspace) are asserted; no PPT claim",
    "chessboard: the closed form (QETLAB convention rho = sum_i conj(v_i) v_i^T / trace) is compared for real parameters "
    "only; for complex parameters positivity, unit trace and the documented default s, t are asserted",
    "domino: the formula block of the docstring contradicts its own printed example (|2>(|0>+|1>) vs the printed "
    "|2>(|1>+|2>)); only what the property states (orthonormal product basis) and the two printed examples are asserted",
    "mutually_unbiased_basis: dimensions 4 and 6 may raise ValueError (the library says so); if a list is returned it must "
    "be unbiased",
    "pauli: integer indices 0..3 and the strings I, X, Y, Z (upper case, as documented)",
    "Fourier intertwining is derived from the three documented matrices: F X F^dagger = Z and F^dagger Z F = X with "
    "X|j> = |j+1>, Z = diag(omega^j), F_jk = omega^(jk)/sqrt(d), omega = exp(2 pi i/d)",
    "cyclic_permutation_matrix: k >= 0",
]


# ------------------------------------------------------------------------------------------
# helpers
# ------------------------------------------------------------------------------------------
def _dense(a):
    return a.toarray() if sp.issparse(a) else np.asarray(a)


def _close(a, b, tol=TOL):
    a, b = np.asarray(a), np.asarray(b)
    return a.shape == b.shape and (a.size == 0 or float(np.max(np.abs(a - b))) <= tol)


def _eq(out, exp, what, sig="value", tol=TOL):
    out = _dense(out)
    exp = np.asarray(exp)
    req(out.shape == exp.shape, f"{what}: shape {out.shape}, expected {exp.shape}", "shape")
    req(_close(out, exp, tol), f"{what}: differs from the documented form (max abs diff {float(np.max(np.abs(out - exp))):.3g})", sig)


def _ket(d, i):
    v = np.zeros((d, 1))
    v[i, 0] = 1.0
    return v


def _kets(d, idx):
    return ref.kron_all([_ket(d, i) for i in idx])


def _proj(v):
    v = np.asarray(v).reshape(-1, 1)
    return v @ v.conj().T


def _expect_value_error(fn, what, sig):
    try:
        out = fn()
    except ValueError:
        return
    raise Violation(f"{what}: the documented ValueError was not raised (returned {type(out).__name__})", sig)


def _density(rho, what, psd=True):
    rho = _dense(rho)
    req(rho.ndim == 2 and rho.shape[0] == rho.shape[1], f"{what}: not a square matrix, shape {rho.shape}", "shape")
    req(_close(rho, rho.conj().T), f"{what}: not Hermitian", "hermitian")
    req(abs(np.trace(rho) - 1) <= TOL, f"{what}: trace {np.trace(rho)} != 1", "trace")
    if psd:
        req(ref.lam_min(rho) >= -TOL, f"{what}: not positive semidefinite (lambda_min = {ref.lam_min(rho):.3g})", "psd")
    return rho


def _unit(v, what, tol=TOL):
    v = _dense(v)
    req(abs(np.linalg.norm(v) - 1) <= tol, f"{what}: norm {np.linalg.norm(v)} != 1", "norm")
    return v


def _pt_min(rho, dims):
    return ref.lam_min(ref.partial_transpose(rho, [1], dims))


def _schmidt_sv(v, da, db):
    return np.linalg.svd(np.asarray(v).reshape(da, db), compute_uv=False)


def _is_product(v, da, db):
    s = _schmidt_sv(v, da, db)
    return len(s) < 2 or s[1] <= TOL


def _max_entangled_marginals(rho, d, what):
    for keep, tr in ((0, [1]), (1, [0])):
        m = ref.partial_trace(rho, tr, [d, d])
        req(_close(m, np.eye(d) / d), f"{what}: the marginal on system {keep} is not I/{d}", "marginal")


def _sym_check(v, dims, what):
    """invariance of a vector under every transposition and the cyclic shift of the tensor factors"""
    n = len(dims)
    v = np.asarray(v).reshape(-1)
    perms = []
    for i in range(n):
        for j in range(i + 1, n):
            p = list(range(n))
            p[i], p[j] = p[j], p[i]
            perms.append(p)
    if n >= 3:
        perms.append(list(range(1, n)) + [0])
    for p in perms:
        req(_close(ref.permute_vec(v, p, dims), v), f"{what}: not invariant under the permutation {p} of the parties", "symmetry")


def _nt_d(case):
    return f"d={case['d']}" if case.get("d", 0) >= 3 else None


# ------------------------------------------------------------------------------------------
# Bell / generalised Bell / maximally entangled / maximally mixed / basis kets
# ------------------------------------------------------------------------------------------
def check_bell(case):
    from toqito.states import bell, gen_bell

    s = 1 / math.sqrt(2)
    doc = [s * (_kets(2, [0, 0]) + _kets(2, [1, 1])), s * (_kets(2, [0, 0]) - _kets(2, [1, 1])), s * (_kets(2, [0, 1]) + _kets(2, [1, 0])), s * (_kets(2, [0, 1]) - _kets(2, [1, 0]))]
    vs = []
    for i in range(4):
        v = np.asarray(bell(i))
        _eq(v, doc[i], f"bell({i})")
        _max_entangled_marginals(_proj(v), 2, f"bell({i})")
        vs.append(v.reshape(-1))
    g = np.array(vs).conj() @ np.array(vs).T
    req(_close(g, np.eye(4)), "the four Bell states are not an orthonormal basis", "gram")
    for i, (k1, k2) in enumerate([(0, 0), (0, 1), (1, 0), (1, 1)]):
        _eq(gen_bell(k1, k2, 2), _proj(doc[i]), f"gen_bell({k1},{k2},2) vs bell({i})", "gen_bell_vs_bell")
    for bad in (4, -1):
        _expect_value_error(lambda b=bad: bell(b), f"bell({bad})", "no_value_error")


def _d_cases(lo, hi, hi_thorough=None):
    def f(tier):
        top = hi if tier == "quick" or hi_thorough is None else hi_thorough
        return [{"d": d} for d in range(lo, top + 1)]

    return f


def check_gen_bell(case):
    from toqito.states import gen_bell

    d = case["d"]
    rhos = []
    for k1 in range(d):
        for k2 in range(d):
            what = f"gen_bell({k1},{k2},{d})"
            rho = _density(gen_bell(k1, k2, d), what)
            req(rho.shape == (d * d, d * d), f"{what}: shape {rho.shape}", "shape")
            req(_close(rho @ rho, rho), f"{what}: not a pure state (rho^2 != rho)", "pure")
            _max_entangled_marginals(rho, d, what)
            rhos.append(rho.reshape(-1))
    m = np.array(rhos)
    gram = m.conj() @ m.T
    req(_close(gram, np.eye(d * d)), f"generalised Bell states (d={d}) are not mutually orthogonal: Hilbert-Schmidt Gram matrix != identity", "gram")
    req(_close(m.sum(axis=0).reshape(d * d, d * d), np.eye(d * d)), f"generalised Bell projectors (d={d}) do not sum to the identity", "resolution")


def check_max_entangled(case):
    from toqito.states import max_entangled, max_mixed

    d = case["d"]
    exp = np.eye(d).reshape(d * d, 1)
    v = _unit(max_entangled(d), f"max_entangled({d})")
    _eq(v, exp / math.sqrt(d), f"max_entangled({d})")
    _max_entangled_marginals(_proj(v), d, f"max_entangled({d})")
    _eq(max_entangled(d, False, False), exp, f"max_entangled({d}, is_normalized=False)")
    for norm in (True, False):
        s = max_entangled(d, True, norm)
        req(sp.issparse(s), f"max_entangled({d}, is_sparse=True) is not sparse", "not_sparse")
        _eq(s, exp / math.sqrt(d) if norm else exp, f"max_entangled({d}, is_sparse=True, is_normalized={norm})", "sparse_ne_dense")
    _eq(max_mixed(d), np.eye(d) / d, f"max_mixed({d})")
    s = max_mixed(d, is_sparse=True)
    req(sp.issparse(s), f"max_mixed({d}, is_sparse=True) is not sparse", "not_sparse")
    _eq(s, np.eye(d) / d, f"max_mixed({d}, is_sparse=True)", "sparse_ne_dense")


def check_basis_kets(case):
    from toqito.matrices import standard_basis
    from toqito.states import basis

    d = case["d"]
    for pos in range(d):
        _eq(basis(d, pos), _ket(d, pos), f"basis({d},{pos})")
    _expect_value_error(lambda: basis(d, d), f"basis({d},{d})", "no_value_error")
    sb = standard_basis(d)
    req(isinstance(sb, list) and len(sb) == d, f"standard_basis({d}) is not a list of {d} vectors", "shape")
    for j in range(d):
        _eq(sb[j], _ket(d, j), f"standard_basis({d})[{j}]")
    sb = standard_basis(d, flatten=True)
    req(isinstance(sb, list) and len(sb) == d, f"standard_basis({d}, flatten=True) is not a list of {d} vectors", "shape")
    for j in range(d):
        _eq(sb[j], _ket(d, j).reshape(-1), f"standard_basis({d}, flatten=True)[{j}]")


def check_basis_negative_pos(case):
    from toqito.states import basis

    d = case["d"]
    try:
        out = basis(d, -1)
    except ValueError:
        return
    raise Violation(
        f"basis({d}, -1): the docstring promises ValueError when pos is not in [0, dim-1], but a ket was returned "
        f"({np.asarray(out).reshape(-1).tolist()})",
        "negative_pos_accepted",
    )


# ------------------------------------------------------------------------------------------
# GHZ / W / Dicke
# ------------------------------------------------------------------------------------------
def _dn_cases(tier):
    out = []
    for d in range(1, 6):
        for n in range(1, 6):
            out.append({"d": d, "n": n})
    if tier == "thorough":
        out += [{"d": 6, "n": n} for n in range(1, 5)] + [{"d": 2, "n": n} for n in range(6, 11)]
    return out


def _nt_dn(case):
    return f"d={min(case['d'], 3)}{'+' if case['d'] > 3 else ''},n={min(case['n'], 3)}{'+' if case['n'] > 3 else ''}" if case["d"] >= 3 or case["n"] >= 3 else None


def _ghz_ref(d, n, c):
    v = np.zeros((d**n, 1))
    for i in range(d):
        v += c[i] * _kets(d, [i] * n)
    return v


def check_ghz(case):
    from toqito.states import ghz

    d, n = case["d"], case["n"]
    v = np.asarray(ghz(d, n))
    _eq(v, _ghz_ref(d, n, np.ones(d) / math.sqrt(d)), f"ghz({d},{n})")
    _unit(v, f"ghz({d},{n})")
    _sym_check(v, [d] * n, f"ghz({d},{n})")
    if n == 1:
        _expect_value_error(lambda: ghz(d, 0), f"ghz({d}, 0)", "no_value_error")


@st.composite
def _coeff(draw, k):
    kind = draw(st.sampled_from(["int", "unit"]))
    ints = draw(st.lists(st.integers(-5, 5), min_size=k, max_size=k))
    if not any(ints):
        ints[draw(st.integers(0, k - 1))] = 1
    return {"kind": kind, "ints": ints, "form": draw(st.sampled_from(["list", "array"]))}


def _coeff_values(c):
    a = np.array(c["ints"], dtype=float)
    if c["kind"] == "unit":
        a = a / np.linalg.norm(a)
    return a


def _coeff_arg(c):
    a = _coeff_values(c)
    if c["form"] == "array":
        return a
    return [int(x) for x in c["ints"]] if c["kind"] == "int" else [float(x) for x in a]


@st.composite
def _ghz_coeff_case(draw):
    d = draw(st.integers(2, 5))
    n = draw(st.integers(1, 5))
    return {"d": d, "n": n, "coeff": draw(_coeff(d))}


def check_ghz_coeff(case):
    from toqito.states import ghz

    d, n = case["d"], case["n"]
    c = _coeff_values(case["coeff"])
    v = np.asarray(ghz(d, n, _coeff_arg(case["coeff"])))
    _eq(v, _ghz_ref(d, n, c / np.linalg.norm(c)), f"ghz({d},{n},coeff={case['coeff']['ints']}, {case['coeff']['kind']})", "coeff")


def _n_cases(lo, hi, hi_thorough):
    def f(tier):
        return [{"n": n} for n in range(lo, (hi if tier == "quick" else hi_thorough) + 1)]

    return f


def _w_ref(n, c):
    v = np.zeros((2**n, 1))
    for k in range(n):
        v += c[k] * _kets(2, [1 if j == k else 0 for j in range(n)])
    return v


def check_w_state(case):
    from toqito.states import w_state

    n = case["n"]
    v = np.asarray(w_state(n))
    _eq(v, _w_ref(n, np.ones(n) / math.sqrt(n)), f"w_state({n})", tol=W_TOL)
    _unit(v, f"w_state({n})", tol=W_TOL)
    _sym_check(v, [2] * n, f"w_state({n})")


@st.composite
def _w_coeff_case(draw):
    n = draw(st.integers(2, 5))
    return {"n": n, "coeff": draw(_coeff(n))}


def check_w_coeff(case):
    from toqito.states import w_state

    n = case["n"]
    c = _coeff_values(case["coeff"])
    v = np.asarray(w_state(n, _coeff_arg(case["coeff"])))
    _eq(v, _w_ref(n, c / np.linalg.norm(c)), f"w_state({n}, coeff={case['coeff']['ints']}, {case['coeff']['kind']}) (coeff[k] multiplies the ket with qubit k excited)", "coeff", tol=W_TOL)


def check_dicke(case):
    from toqito.states import dicke

    n = case["n"]
    for k in range(n + 1):
        what = f"dicke({n},{k})"
        exp = np.zeros(2**n)
        for bits in itertools.product([0, 1], repeat=n):
            if sum(bits) == k:
                exp += _kets(2, list(bits)).reshape(-1)
        exp /= math.sqrt(math.comb(n, k))
        v = np.asarray(dicke(n, k))
        _eq(v.reshape(-1), exp, what)
        req(v.ndim == 1, f"{what}: documented as a 1-D state vector, got shape {v.shape}", "shape")
        _unit(v, what)
        _sym_check(v, [2] * n, what)
        _eq(dicke(n, k, return_dm=True), np.outer(exp, exp), what + " density matrix", "dm")
    _expect_value_error(lambda: dicke(n, n + 1), f"dicke({n},{n + 1})", "no_value_error")


# ------------------------------------------------------------------------------------------
# Werner / isotropic / Horodecki / singlet / Breuer
# ------------------------------------------------------------------------------------------
@st.composite
def _param(draw, lo, hi, thr=None, outside=False):
    kinds = ["interior", "interior", "lo", "hi"]
    if thr is not None:
        kinds += ["thr-", "thr+"]
    if outside:
        kinds += ["below", "above"]
    kind = draw(st.sampled_from(kinds))
    if kind == "interior":
        x = draw(st.floats(lo, hi, allow_nan=False, allow_infinity=False))
    elif kind == "lo":
        x = lo
    elif kind == "hi":
        x = hi
    elif kind == "thr-":
        x = thr - 0.05
    elif kind == "thr+":
        x = thr + 0.05
    elif kind == "below":
        x = lo - draw(st.sampled_from([1e-9, 1e-3, 0.5]))
    else:
        x = hi + draw(st.sampled_from([1e-9, 1e-3, 0.5]))
    return {"kind": kind, "x": float(x)}


def _nt_param(case):
    k = case["p"]["kind"]
    if k != "interior":
        return f"param:{k}"
    return _nt_d(case)


@st.composite
def _werner_case(draw):
    d = draw(st.integers(2, 5))
    return {"d": d, "p": draw(_param(-1.0, 1.0, thr=1.0 / d)), "np_float": draw(st.booleans()), "useed": draw(gen.SEED)}


def _swap(d):
    return ref.perm_operator([d, d], [1, 0]).astype(float)


def check_werner(case):
    from toqito.states import werner

    d, a = case["d"], case["p"]["x"]
    what = f"werner({d}, {a!r})"
    rho = _density(werner(d, np.float64(a) if case["np_float"] else float(a)), what)
    _eq(rho, (np.eye(d * d) - a * _swap(d)) / (d * d - d * a), what)
    u = gen.rand_unitary(case["useed"], d)
    k = np.kron(u, u)
    req(_close(k @ rho @ k.conj().T, rho), f"{what}: not invariant under U (x) U", "invariance")
    m = _pt_min(rho, [d, d])
    if a <= 1.0 / d - 1e-3:
        req(m >= -TOL, f"{what}: alpha < 1/d but the partial transpose has eigenvalue {m:.3g}", "ppt_below_threshold")
    elif a >= 1.0 / d + 1e-3:
        req(m <= -1e-6, f"{what}: alpha > 1/d but the state is PPT (lambda_min of the partial transpose {m:.3g})", "npt_above_threshold")


@st.composite
def _werner_list_case(draw):
    d = draw(st.integers(2, 5))
    return {"d": d, "p": draw(_param(-1.0, 1.0, thr=1.0 / d))}


def check_werner_list(case):
    from toqito.states import werner

    d, a = case["d"], case["p"]["x"]
    scalar = (np.eye(d * d) - a * _swap(d)) / (d * d - d * a)
    out = _dense(werner(d, [float(a)]))
    req(out.shape == scalar.shape, f"werner({d}, [{a!r}]): shape {out.shape}", "shape")
    if not _close(out, scalar):
        if _close(out, np.eye(d * d) / (d * d)) and abs(a) > 1e-6:
            raise Violation(
                f"werner({d}, [{a!r}]) is the maximally mixed state: the one-parameter list form ignores alpha instead of "
                f"equalling the scalar form werner({d}, {a!r})",
                "list_form_ignores_alpha",
            )
        raise Violation(f"werner({d}, [{a!r}]) differs from the scalar form werner({d}, {a!r})", "list_ne_scalar")


def _lex_perms(p):
    return [list(x) for x in itertools.permutations(range(p))]


@st.composite
def _werner_multi_case(draw):
    p = draw(st.sampled_from([3, 3, 4]))
    d = draw(st.integers(2, 4 if p == 3 else 3))
    perms = _lex_perms(p)
    vals = {}
    alpha = []
    for i in range(1, len(perms)):
        inv = ref.inverse_perm(perms[i])
        key = min(i, perms.index(inv))
        if key not in vals:
            vals[key] = draw(st.integers(-10, 10))
        alpha.append(vals[key] / 100.0)
    return {"d": d, "p": p, "alpha": alpha}


def _werner_multi_ref(d, p, alpha, pairs, inverse=False):
    rho = np.eye(d**p)
    perms = _lex_perms(p)
    for ai, pi in pairs:
        rho = rho - alpha[ai] * ref.perm_operator([d] * p, ref.inverse_perm(perms[pi]) if inverse else perms[pi])
    return rho / np.trace(rho)


def check_werner_multi(case):
    from toqito.states import werner

    d, p, alpha = case["d"], case["p"], case["alpha"]
    nf = math.factorial(p)
    what = f"werner({d}, <{nf - 1} weights>) on {p} parties"
    rho = _dense(werner(d, [float(a) for a in alpha]))
    req(rho.shape == (d**p, d**p), f"{what}: shape {rho.shape}", "shape")
    exp = _werner_multi_ref(d, p, alpha, [(i - 1, i) for i in range(1, nf)])  # alpha(i) P(i+1), 1-based i = 1..p!-1
    if not _close(rho, exp):
        shifted = [_werner_multi_ref(d, p, alpha, [(i, i) for i in range(1, nf - 1)], inv) for inv in (False, True)]
        if _close(rho, shifted[0]) or _close(rho, shifted[1]):
            raise Violation(
                f"{what}: equals the normalisation of I - alpha(2) P(2) - ... - alpha(p!-1) P(p!-1): alpha(1) and the last "
                "permutation P(p!) are ignored (docstring: I - alpha(1) P(2) - ... - alpha(p!-1) P(p!))",
                "multipartite_off_by_one",
            )
        raise Violation(f"{what}: differs from the normalisation of I - alpha(1) P(2) - ... - alpha(p!-1) P(p!)", "multipartite_value")
    _density(rho, what, psd=False)


def _werner_badlen_cases(tier):
    return [{"d": d, "len": n} for d in (2, 3) for n in (2, 3, 4, 6, 7, 11, 22, 24)]


def check_werner_badlen(case):
    from toqito.states import werner

    _expect_value_error(lambda: werner(case["d"], [0.01] * case["len"]), f"werner({case['d']}, <{case['len']} weights>) ({case['len']} is not p!-1 for any p)", "bad_length_accepted")


@st.composite
def _iso_case(draw):
    d = draw(st.integers(2, 5))
    return {"d": d, "p": draw(_param(-1.0 / (d * d - 1), 1.0, thr=1.0 / (d + 1))), "np_float": draw(st.booleans()), "useed": draw(gen.SEED)}


def check_isotropic(case):
    from toqito.states import isotropic

    d, a = case["d"], case["p"]["x"]
    what = f"isotropic({d}, {a!r})"
    rho = _density(isotropic(d, np.float64(a) if case["np_float"] else float(a)), what)
    psi = np.eye(d).reshape(d * d, 1) / math.sqrt(d)
    _eq(rho, (1 - a) * np.eye(d * d) / (d * d) + a * _proj(psi), what)
    u = gen.rand_unitary(case["useed"], d)
    k = np.kron(u, u.conj())
    req(_close(k @ rho @ k.conj().T, rho), f"{what}: not invariant under U (x) conj(U)", "invariance")
    m = _pt_min(rho, [d, d])
    thr = 1.0 / (d + 1)
    if a <= thr - 1e-3:
        req(m >= -TOL, f"{what}: alpha < 1/(d+1) but the partial transpose has eigenvalue {m:.3g}", "ppt_below_threshold")
    elif a >= thr + 1e-3:
        req(m <= -1e-6, f"{what}: alpha > 1/(d+1) but the state is PPT (lambda_min of the partial transpose {m:.3g})", "npt_above_threshold")


def _horodecki_doc(a, dims):
    b, c = (1 + a) / 2, math.sqrt(max(0.0, 1 - a * a)) / 2
    if dims == [3, 3]:
        m = a * np.eye(9)
        for i in (0, 4, 8):
            for j in (0, 4, 8):
                m[i, j] = a
        m[6, 6] = m[8, 8] = b
        m[6, 8] = m[8, 6] = c
        return m / (8 * a + 1)
    m = a * np.eye(8)
    for i, j in ((0, 5), (1, 6), (2, 7)):
        m[i, j] = m[j, i] = a
    m[4, 4] = m[7, 7] = b
    m[4, 7] = m[7, 4] = c
    return m / (7 * a + 1)


@st.composite
def _horodecki_case(draw):
    dims = draw(st.sampled_from([[3, 3], [2, 4]]))
    forms = ["list", "array"] + (["omitted"] if dims == [3, 3] else [])
    return {"dims": dims, "form": draw(st.sampled_from(forms)), "p": draw(_param(0.0, 1.0, outside=True))}


def check_horodecki(case):
    from toqito.states import horodecki

    dims, a = case["dims"], case["p"]["x"]
    args = {"list": (a, list(dims)), "array": (a, np.array(dims)), "omitted": (a,)}[case["form"]]
    what = f"horodecki({a!r}, {dims if case['form'] != 'omitted' else 'default'})"
    if case["p"]["kind"] in ("below", "above"):
        _expect_value_error(lambda: horodecki(*args), what + " (a outside [0, 1])", "no_value_error")
        return
    rho = _density(horodecki(*args), what)
    _eq(rho, _horodecki_doc(a, list(dims)), what)
    m = _pt_min(rho, dims)
    req(m >= -TOL, f"{what}: not PPT (lambda_min of the partial transpose {m:.3g})", "not_ppt")


def _nt_horodecki(case):
    return f"{case['dims'][0]}x{case['dims'][1]}:{case['p']['kind']}"


@st.composite
def _singlet_case(draw):
    return {"d": draw(st.integers(2, 5)), "useed": draw(gen.SEED)}


def check_singlet(case):
    from toqito.states import singlet

    d = case["d"]
    what = f"singlet({d})"
    rho = _density(singlet(d), what)
    sw = _swap(d)
    _eq(rho, (np.eye(d * d) - sw) / (d * d - d), what)
    req(_close(sw @ rho, -rho), f"{what}: not supported on the antisymmetric subspace", "antisymmetric")
    u = gen.rand_unitary(case["useed"], d)
    k = np.kron(u, u)
    req(_close(k @ rho @ k.conj().T, rho), f"{what}: not invariant under U (x) U", "invariance")
    if d == 2:
        s = (_kets(2, [0, 1]) - _kets(2, [1, 0])) / math.sqrt(2)
        _eq(rho, _proj(s), "singlet(2) vs |01>-|10>")


@st.composite
def _breuer_case(draw):
    return {"d": draw(st.sampled_from([2, 4, 4, 6])), "p": draw(_param(0.0, 1.0))}


def check_breuer(case):
    from toqito.states import breuer

    d, lam = case["d"], case["p"]["x"]
    what = f"breuer({d}, {lam!r})"
    rho = _density(breuer(d, lam), what)
    req(rho.shape == (d * d, d * d), f"{what}: shape {rho.shape}", "shape")
    sw = _swap(d)
    s, a = (np.eye(d * d) + sw) / 2, (np.eye(d * d) - sw) / 2
    req(_close(s @ rho @ a, np.zeros_like(rho)), f"{what}: has coherences between the symmetric and antisymmetric subspaces", "block")
    req(_close(s @ rho @ s, (1 - lam) * s / np.trace(s)), f"{what}: the symmetric part is not (1-lam) P_sym / tr P_sym", "sym_part")
    anti = a @ rho @ a
    req(abs(np.trace(anti) - lam) <= TOL, f"{what}: weight of the singlet component is {np.trace(anti).real}, not lam", "weight")
    if lam > 1e-3:
        pure = anti / lam
        req(_close(pure @ pure, pure, 1e-8), f"{what}: the singlet component is not a pure state", "singlet_pure")
        _max_entangled_marginals(pure, d, what + " singlet component")


def check_breuer_baddim(case):
    from toqito.states import breuer

    _expect_value_error(lambda: breuer(case["d"], 0.3), f"breuer({case['d']}, 0.3)", "no_value_error")


# ------------------------------------------------------------------------------------------
# tile / domino / MUB / trine / BB84 / Brauer / chessboard / Gisin / PBR
# ------------------------------------------------------------------------------------------
def _upb_extendible(vs, da, db):
    """True iff some product vector is orthogonal to all the product vectors vs (partition criterion)."""
    a, b = [], []
    for v in vs:
        u, s, vh = np.linalg.svd(np.asarray(v).reshape(da, db))
        a.append(u[:, 0])
        b.append(vh[0, :].conj())
    n = len(vs)
    for mask in range(2**n):
        pa = [a[i] for i in range(n) if mask >> i & 1]
        pb = [b[i] for i in range(n) if not mask >> i & 1]
        ra = np.linalg.matrix_rank(np.array(pa), tol=1e-9) if pa else 0
        rb = np.linalg.matrix_rank(np.array(pb), tol=1e-9) if pb else 0
        if ra < da and rb < db:
            return True
    return False


def check_tile_domino(case):
    from toqito.states import domino, tile

    fn, count, name = (tile, 5, "tile") if case["family"] == "tile" else (domino, 9, "domino")
    vs = []
    for i in range(count):
        v = np.asarray(fn(i))
        req(v.shape == (9, 1), f"{name}({i}): shape {v.shape}, expected (9, 1)", "shape")
        _unit(v, f"{name}({i})")
        req(_is_product(v, 3, 3), f"{name}({i}) is not a product vector (Schmidt coefficients {_schmidt_sv(v, 3, 3)})", "not_product")
        vs.append(v.reshape(-1))
    m = np.array(vs)
    req(_close(m.conj() @ m.T, np.eye(count)), f"the {name} states are not orthonormal", "gram")
    for bad in (count, -1):
        _expect_value_error(lambda b=bad: fn(b), f"{name}({bad})", "no_value_error")
    e = [_ket(3, i) for i in range(3)]
    s = 1 / math.sqrt(2)
    if name == "tile":
        doc = [s * np.kron(e[0], e[0] - e[1]), s * np.kron(e[0] - e[1], e[2]), s * np.kron(e[2], e[1] - e[2]), s * np.kron(e[1] - e[2], e[0]), np.kron(e[0] + e[1] + e[2], e[0] + e[1] + e[2]) / 3]
        for i in range(5):
            _eq(fn(i), doc[i], f"tile({i})")
        req(not _upb_extendible(vs, 3, 3), "the tile states are not unextendible: a product vector orthogonal to all five exists", "extendible")
    else:
        req(abs(np.linalg.det(m)) > 0.5, "the nine domino states do not span C^3 (x) C^3", "gram")
        _eq(fn(0), np.kron(e[1], e[1]), "domino(0)")
        _eq(fn(3), s * np.kron(e[2], e[1] + e[2]), "domino(3) (printed example)")


def _mub_cases(tier):
    return [{"d": d} for d in ([2, 3, 5, 4, 6] if tier == "quick" else [2, 3, 5, 7, 11, 4, 6, 8, 9, 10])]


def check_mub(case):
    from toqito.states import mutually_unbiased_basis

    d = case["d"]
    prime = d in (2, 3, 5, 7, 11, 13)
    try:
        mubs = mutually_unbiased_basis(d)
    except ValueError:
        if prime:
            raise Violation(f"mutually_unbiased_basis({d}) raises ValueError for a prime dimension", "prime_rejected") from None
        return
    req(isinstance(mubs, list) and len(mubs) == d * (d + 1), f"mutually_unbiased_basis({d}): {len(mubs)} vectors, expected {d * (d + 1)}", "count")
    m = np.array([np.asarray(v).reshape(-1) for v in mubs])
    req(m.shape == (d * (d + 1), d), f"mutually_unbiased_basis({d}): vectors are not of length {d}", "shape")
    g = np.abs(m.conj() @ m.T) ** 2
    exp = np.kron(np.eye(d + 1), np.eye(d)) + np.kron(1 - np.eye(d + 1), np.ones((d, d)) / d)
    for b in range(d + 1):
        blk = g[b * d : (b + 1) * d, b * d : (b + 1) * d]
        req(_close(blk, np.eye(d)), f"mutually_unbiased_basis({d}): basis {b} is not orthonormal", "orthonormal")
    req(_close(g, exp), f"mutually_unbiased_basis({d}): |<a|b>|^2 != 1/{d} between different bases (max deviation {np.max(np.abs(g - exp)):.3g})", "biased")
    req(_close(m[:d], np.eye(d)), f"mutually_unbiased_basis({d}): the first basis is not the standard basis", "first_basis")


def check_trine_bb84(case):
    from toqito.states import bb84, trine

    t = trine()
    req(isinstance(t, list) and len(t) == 3, "trine() is not a list of three states", "shape")
    e0, e1 = _ket(2, 0), _ket(2, 1)
    doc = [e0, -(e0 + math.sqrt(3) * e1) / 2, -(e0 - math.sqrt(3) * e1) / 2]
    for i in range(3):
        _eq(t[i], doc[i], f"trine()[{i}]")
        _unit(t[i], f"trine()[{i}]")
    m = np.array([np.asarray(v).reshape(-1) for v in t])
    req(_close(m @ m.T, 1.5 * np.eye(3) - 0.5 * np.ones((3, 3))), "trine states: pairwise inner products are not -1/2", "gram")
    req(_close(m.T @ m, 1.5 * np.eye(2)), "trine states: projectors do not sum to (3/2) I", "frame")
    b = bb84()
    s = 1 / math.sqrt(2)
    doc = [[e0, e1], [s * (e0 + e1), s * (e0 - e1)]]
    req(isinstance(b, list) and len(b) == 2 and all(len(x) == 2 for x in b), "bb84() is not a 2x2 nested list", "shape")
    for i in range(2):
        for j in range(2):
            _eq(b[i][j], doc[i][j], f"bb84()[{i}][{j}]")
        req(abs(np.vdot(np.asarray(b[i][0]), np.asarray(b[i][1]))) <= TOL, f"bb84 basis {i} is not orthogonal", "gram")
    for j in range(2):
        for k in range(2):
            req(abs(abs(np.vdot(np.asarray(b[0][j]), np.asarray(b[1][k]))) ** 2 - 0.5) <= TOL, "bb84 bases are not mutually unbiased", "biased")


def _all_matchings(objs):
    if not objs:
        return [[]]
    a, rest = objs[0], objs[1:]
    out = []
    for i, b in enumerate(rest):
        for m in _all_matchings(rest[:i] + rest[i + 1 :]):
            out.append([(a, b)] + m)
    return out


def _brauer_cases(tier):
    out = []
    for p in (1, 2, 3):
        for d in range(2, 6):
            if d ** (2 * p) <= (4096 if tier == "quick" else 16000):
                out.append({"d": d, "p": p})
    if tier == "thorough":
        out.append({"d": 2, "p": 4})
    return out


def check_brauer(case):
    from toqito.states import brauer

    d, p = case["d"], case["p"]
    what = f"brauer({d},{p})"
    try:
        out = np.asarray(brauer(d, p))
    except IndexError as e:
        if p == 1:
            raise Violation(f"{what} raises IndexError ({e}); for one pair the single Brauer state is the unnormalised maximally entangled state", "p1_raises") from None
        raise
    ncols = math.factorial(2 * p) // (math.factorial(p) * 2**p)
    req(out.shape == (d ** (2 * p), ncols), f"{what}: shape {out.shape}, expected {(d ** (2 * p), ncols)}", "shape")
    expected = set()
    for m in _all_matchings(list(range(2 * p))):
        idx = []
        for digits in itertools.product(range(d), repeat=p):
            loc = [0] * (2 * p)
            for (a, b), g in zip(m, digits):
                loc[a] = loc[b] = g
            k = 0
            for x in loc:
                k = k * d + x
            idx.append(k)
        expected.add(tuple(sorted(idx)))
    got = []
    for c in range(ncols):
        col = out[:, c]
        nz = np.nonzero(np.abs(col) > TOL)[0]
        req(_close(col[nz], np.ones(len(nz))), f"{what}: column {c} has entries other than 0 and 1", "entries")
        got.append(tuple(int(i) for i in nz))
    req(len(set(got)) == ncols, f"{what}: repeated columns", "duplicate")
    req(set(got) == expected, f"{what}: the columns are not the {ncols} products of maximally entangled pairs over all perfect matchings", "value")


@st.composite
def _chess_case(draw):
    cplx = draw(st.booleans())
    ints = draw(st.lists(st.integers(-4, 4), min_size=6, max_size=6))
    for i in (4, 5):
        if ints[i] == 0:
            ints[i] = draw(st.sampled_from([-2, -1, 1, 3]))
    im = draw(st.lists(st.integers(-3, 3), min_size=6, max_size=6)) if cplx else [0] * 6
    st_given = draw(st.sampled_from(["default", "both", "s_only"]))
    return {"re": ints, "im": im, "cplx": cplx, "st": st_given, "s": draw(st.integers(-4, 4)), "t": draw(st.integers(-4, 4)), "scale": draw(st.sampled_from([1.0, 0.5, 0.1]))}


def check_chessboard(case):
    from toqito.states import chessboard

    if case["cplx"]:
        pr = [complex(r, i) * case["scale"] for r, i in zip(case["re"], case["im"])]
    else:
        pr = [float(r) * case["scale"] for r in case["re"]]
    a, b, c, dd, m, n = pr
    s_def = np.conj(c) / np.conj(n)
    t_def = a * dd / m
    if case["st"] == "default":
        out, s, t = chessboard(list(pr)), s_def, t_def
    elif case["st"] == "s_only":
        s, t = float(case["s"]), t_def
        out = chessboard(list(pr), s)
    else:
        s, t = float(case["s"]), float(case["t"])
        out = chessboard(list(pr), s, t)
    what = f"chessboard({pr}, {case['st']})"
    rho = _density(out, what)
    req(rho.shape == (9, 9), f"{what}: shape {rho.shape}", "shape")
    if case["st"] != "both":
        _eq(rho, chessboard(list(pr), s, t), what + " vs the documented default s_param / t_param", "defaults")
    req(np.linalg.matrix_rank(rho, tol=1e-9) <= 4, f"{what}: rank > 4", "rank")
    if not case["cplx"]:
        v = [[m, 0, s, 0, n, 0, 0, 0, 0], [0, a, 0, b, 0, c, 0, 0, 0], [n, 0, 0, 0, -m, 0, t, 0, 0], [0, b, 0, -a, 0, 0, 0, dd, 0]]
        r = sum(np.outer(x, x) for x in np.array(v, dtype=float))
        _eq(rho, r / np.trace(r), what)


def _nt_chess(case):
    return ("complex," if case["cplx"] else "real,") + case["st"]


@st.composite
def _gisin_case(draw):
    th = draw(st.one_of(st.sampled_from([0.0, math.pi / 4, math.pi / 2, math.pi, 1.0]), st.floats(-7, 7, allow_nan=False)))
    return {"p": draw(_param(0.0, 1.0, outside=True)), "theta": float(th)}


def check_gisin(case):
    from toqito.states import gisin

    lam, th = case["p"]["x"], case["theta"]
    what = f"gisin({lam!r}, {th!r})"
    if case["p"]["kind"] in ("below", "above"):
        _expect_value_error(lambda: gisin(lam, th), what + " (lambda outside [0, 1])", "no_value_error")
        return
    rho = _density(gisin(lam, th), what)
    s, c = math.sin(th), math.cos(th)
    r1 = np.zeros((4, 4))
    r1[1, 1], r1[1, 2], r1[2, 1], r1[2, 2] = s * s, -s * c, -s * c, c * c
    r2 = np.diag([1.0, 0, 0, 1.0])
    _eq(rho, lam * r1 + (1 - lam) * r2 / 2, what)


@st.composite
def _pbr_case(draw):
    th = draw(st.one_of(st.sampled_from([0.0, math.pi / 2, math.pi / 4, 2 * math.atan(2 ** (1 / 2) - 1)]), st.floats(0, math.pi / 2, allow_nan=False)))
    return {"n": draw(st.integers(1, 5)), "theta": float(th)}


def check_pbr(case):
    from toqito.states import pusey_barrett_rudolph

    n, th = case["n"], case["theta"]
    what = f"pusey_barrett_rudolph({n}, {th!r})"
    out = pusey_barrett_rudolph(n, th)
    req(isinstance(out, list) and len(out) == 2**n, f"{what}: {len(out)} states, expected {2**n}", "count")
    psi = [math.cos(th / 2) * _ket(2, 0) + math.sin(th / 2) * _ket(2, 1), math.cos(th / 2) * _ket(2, 0) - math.sin(th / 2) * _ket(2, 1)]
    strings = list(itertools.product([0, 1], repeat=n))
    for x, v in zip(strings, out):
        _eq(v, ref.kron_all([psi[b] for b in x]), f"{what}: state for x = {x}")
    m = np.array([np.asarray(v).reshape(-1) for v in out])
    g = m @ m.T
    ham = np.array([[sum(a != b for a, b in zip(x, y)) for y in strings] for x in strings])
    req(_close(g, math.cos(th) ** ham), f"{what}: inner products are not cos(theta)^(Hamming distance)", "gram")


def _nt_pbr(case):
    if case["theta"] in (0.0, math.pi / 2):
        return "theta:end"
    return f"n={case['n']}" if case["n"] >= 3 else None


# ------------------------------------------------------------------------------------------
# matrices
# ------------------------------------------------------------------------------------------
_PAULI = {
    0: np.eye(2, dtype=complex),
    1: np.array([[0, 1], [1, 0]], dtype=complex),
    2: np.array([[0, -1j], [1j, 0]]),
    3: np.array([[1, 0], [0, -1]], dtype=complex),
}
_PNAME = "IXYZ"


def _pauli_forms_cases(tier):
    out = []
    for n in (0, 1, 2, 3):  # n = 0: scalar index forms
        for idx in itertools.product(range(4), repeat=max(n, 1)):
            if n == 3 and tier == "quick" and (idx[0] + 2 * idx[1] + 3 * idx[2]) % 4:
                continue
            for form in ("int", "str"):
                for sparse in (False, True):
                    out.append({"idx": list(idx), "scalar": n == 0, "form": form, "sparse": sparse})
    return out


def check_pauli_forms(case):
    from toqito.matrices import pauli

    idx = case["idx"]
    conv = (lambda i: int(i)) if case["form"] == "int" else (lambda i: _PNAME[i])
    arg = conv(idx[0]) if case["scalar"] else [conv(i) for i in idx]
    what = f"pauli({arg!r}, is_sparse={case['sparse']})"
    out = pauli(arg, case["sparse"]) if case["sparse"] else pauli(arg)
    exp = ref.kron_all([_PAULI[i] for i in idx])
    if case["sparse"]:
        req(sp.issparse(out), f"{what}: result is not sparse", "not_sparse")
        o = out.toarray()
        if not case["scalar"] and len(idx) >= 2 and o.shape == (2, 2):
            raise Violation(f"{what}: returns a 2x2 matrix instead of the {len(idx)}-fold tensor product ({exp.shape[0]}x{exp.shape[0]})", "list_sparse_not_tensor")
    _eq(out, exp, what)


def _nt_pauli_forms(case):
    return f"{len(case['idx'])} qubits,{'sparse' if case['sparse'] else 'dense'}" if len(case["idx"]) >= 2 else None


def check_pauli_basis(case):
    from toqito.matrices import pauli

    n = case["n"]
    mats = [np.asarray(pauli(list(idx))).reshape(-1) for idx in itertools.product(range(4), repeat=n)]
    m = np.array(mats)
    req(m.shape == (4**n, 4**n), f"{n}-qubit Pauli operators: wrong sizes {m.shape}", "shape")
    req(_close(m.conj() @ m.T, 2**n * np.eye(4**n)), f"the {4**n} {n}-qubit Pauli operators are not a trace-orthogonal basis (Gram != 2^n I)", "gram")


@st.composite
def _pauli_pair_case(draw):
    n = draw(st.integers(3, 5))
    a = draw(st.lists(st.integers(0, 3), min_size=n, max_size=n))
    same = draw(st.booleans())
    b = list(a) if same else draw(st.lists(st.integers(0, 3), min_size=n, max_size=n))
    return {"a": a, "b": b, "form_a": draw(st.sampled_from(["int", "str"])), "form_b": draw(st.sampled_from(["int", "str"]))}


def check_pauli_pair(case):
    from toqito.matrices import pauli

    def call(idx, form):
        return np.asarray(pauli([int(i) for i in idx] if form == "int" else [_PNAME[i] for i in idx]))

    a, b = case["a"], case["b"]
    pa, pb = call(a, case["form_a"]), call(b, case["form_b"])
    _eq(pa, ref.kron_all([_PAULI[i] for i in a]), f"pauli({a})")
    tr = np.trace(pa.conj().T @ pb)
    exp = 2 ** len(a) if a == b else 0
    req(abs(tr - exp) <= TOL, f"Tr(P_a^dagger P_b) = {tr} for a={a}, b={b}, expected {exp}", "trace_orthogonality")
    req(_close(pa @ pa.conj().T, np.eye(2 ** len(a))), f"pauli({a}) is not unitary", "unitary")


def check_gen_pauli(case):
    from toqito.matrices import fourier, gen_pauli, gen_pauli_x, gen_pauli_z

    d = case["d"]
    w = np.exp(2j * np.pi / d)
    x_ref = np.zeros((d, d))
    for j in range(d):
        x_ref[(j + 1) % d, j] = 1
    z_ref = np.diag([w**j for j in range(d)])
    x, z, f = np.asarray(gen_pauli_x(d)), np.asarray(gen_pauli_z(d)), np.asarray(fourier(d))
    _eq(x, x_ref, f"gen_pauli_x({d})")
    _eq(z, z_ref, f"gen_pauli_z({d})")
    _eq(f, np.array([[w ** (j * k) for k in range(d)] for j in range(d)]) / math.sqrt(d), f"fourier({d})")
    req(_close(z @ x, w * x @ z), f"clock and shift (d={d}) do not satisfy Z X = omega X Z", "weyl")
    req(_close(f @ f.conj().T, np.eye(d)), f"fourier({d}) is not unitary", "unitary")
    req(_close(f @ x @ f.conj().T, z), f"fourier({d}) does not intertwine shift and clock: F X F^dagger != Z", "intertwine")
    req(_close(f.conj().T @ z @ f, x), f"fourier({d}) does not intertwine clock and shift: F^dagger Z F != X", "intertwine")
    mats = []
    for k1 in range(d):
        for k2 in range(d):
            g = np.asarray(gen_pauli(k1, k2, d))
            _eq(g, np.linalg.matrix_power(x_ref, k1) @ np.linalg.matrix_power(z_ref, k2), f"gen_pauli({k1},{k2},{d}) vs X^k1 Z^k2")
            req(_close(g @ g.conj().T, np.eye(d)), f"gen_pauli({k1},{k2},{d}) is not unitary", "unitary")
            mats.append(g.reshape(-1))
    m = np.array(mats)
    req(_close(m.conj() @ m.T, d * np.eye(d * d)), f"the {d * d} generalised Pauli operators (d={d}) are not a trace-orthogonal basis", "gram")


def _gell_mann_doc():
    s = 1 / math.sqrt(3)
    return [
        np.eye(3),
        [[0, 1, 0], [1, 0, 0], [0, 0, 0]],
        [[0, -1j, 0], [1j, 0, 0], [0, 0, 0]],
        [[1, 0, 0], [0, -1, 0], [0, 0, 0]],
        [[0, 0, 1], [0, 0, 0], [1, 0, 0]],
        [[0, 0, -1j], [0, 0, 0], [1j, 0, 0]],
        [[0, 0, 0], [0, 0, 1], [0, 1, 0]],
        [[0, 0, 0], [0, 0, -1j], [0, 1j, 0]],
        [[s, 0, 0], [0, s, 0], [0, 0, -2 * s]],
    ]


def check_gell_mann(case):
    from toqito.matrices import gell_mann

    doc = [np.array(m, dtype=complex) for m in _gell_mann_doc()]
    mats = []
    for i in range(9):
        g = gell_mann(i)
        _eq(g, doc[i], f"gell_mann({i})")
        s = gell_mann(i, True)
        req(sp.issparse(s), f"gell_mann({i}, is_sparse=True) is not sparse", "not_sparse")
        _eq(s, doc[i], f"gell_mann({i}, is_sparse=True)", "sparse_ne_dense")
        g = np.asarray(g)
        req(_close(g, g.conj().T), f"gell_mann({i}) is not Hermitian", "hermitian")
        mats.append(g.reshape(-1))
    m = np.array(mats)
    req(_close(m.conj() @ m.T, np.diag([3.0] + [2.0] * 8)), "Gell-Mann matrices are not trace-orthogonal with Tr(l_a l_b) = 2 delta_ab", "gram")
    for bad in (9, -1):
        _expect_value_error(lambda b=bad: gell_mann(b), f"gell_mann({bad})", "no_value_error")


def check_gen_gell_mann(case):
    from toqito.matrices import gen_gell_mann

    d = case["d"]
    mats = []
    for i in range(d):
        for j in range(d):
            g = np.asarray(gen_gell_mann(i, j, d))
            what = f"gen_gell_mann({i},{j},{d})"
            req(g.shape == (d, d), f"{what}: shape {g.shape}", "shape")
            req(_close(g, g.conj().T), f"{what} is not Hermitian", "hermitian")
            mats.append(g.reshape(-1).astype(complex))
    m = np.array(mats)
    gram = m.conj() @ m.T
    off = gram - np.diag(np.diag(gram))
    req(_close(off, np.zeros_like(off)), f"generalised Gell-Mann operators (d={d}) are not trace-orthogonal", "gram")
    req(np.min(np.abs(np.diag(gram))) > 0.5 and np.linalg.matrix_rank(m, tol=1e-9) == d * d, f"generalised Gell-Mann operators (d={d}) do not span the {d}x{d} matrices", "span")
    target = None
    if d == 2:
        target = [_PAULI[i] for i in range(4)]
    elif d == 3:
        target = [np.array(x, dtype=complex) for x in _gell_mann_doc()]
    if target is not None:
        for t in target:
            req(any(_close(x.reshape(d, d), t) for x in m), f"gen_gell_mann(.,.,{d}) does not contain the {'Pauli' if d == 2 else 'Gell-Mann'} operator\n{t}", "generalises")


def check_hadamard(case):
    from toqito.matrices import hadamard

    n = case["n"]
    h1 = np.array([[1, 1], [1, -1]]) / math.sqrt(2)
    exp = np.array([[1.0]])
    for _ in range(n):
        exp = np.kron(exp, h1)
    h = np.asarray(hadamard(n))
    _eq(h, exp, f"hadamard({n}) vs the {n}-fold Kronecker power of H_1")
    req(_close(h @ h.T, np.eye(2**n)), f"hadamard({n}) is not unitary", "unitary")
    if n == 1:
        _eq(hadamard(), h1, "hadamard() default")


def check_cnot_cyclic(case):
    from toqito.matrices import cnot, cyclic_permutation_matrix

    n = case["n"]
    if n == 1:
        c = np.asarray(cnot())
        for a in (0, 1):
            for b in (0, 1):
                req(_close(c @ _kets(2, [a, b]), _kets(2, [a, a ^ b])), f"cnot |{a}{b}> != |{a}{a ^ b}>", "cnot")
        req(_close(c @ c.T, np.eye(4)), "cnot is not unitary", "unitary")
    for k in range(0, 2 * n + 2):
        p = np.asarray(cyclic_permutation_matrix(n, k))
        req(p.shape == (n, n), f"cyclic_permutation_matrix({n},{k}): shape {p.shape}", "shape")
        for j in range(n):
            req(_close(p @ _ket(n, j), _ket(n, (j + k) % n)), f"cyclic_permutation_matrix({n},{k}) e_{j} != e_{(j + k) % n}", "cyclic")
    _eq(cyclic_permutation_matrix(n), cyclic_permutation_matrix(n, 1), f"cyclic_permutation_matrix({n}) default k")
    _eq(cyclic_permutation_matrix(n, n), np.eye(n), f"cyclic_permutation_matrix({n},{n}) = identity")


def _nt_n(case):
    return f"n={case['n']}" if case["n"] >= 3 else None


def _one(tier):
    return [{"id": 0}]


SUBCHECKS = [
    # states, enumerated
    SubCheck("bell", check_bell, None, lambda c: None, cases=_one, shards=1),
    SubCheck("gen_bell", check_gen_bell, None, _nt_d, cases=_d_cases(2, 5, 7), shards=4),
    SubCheck("max_entangled_mixed", check_max_entangled, None, _nt_d, cases=_d_cases(1, 6, 12), shards=2),
    SubCheck("basis_kets", check_basis_kets, None, _nt_d, cases=_d_cases(1, 6, 12), shards=2),
    SubCheck("ghz", check_ghz, None, _nt_dn, cases=_dn_cases, shards=4),
    SubCheck("w_state", check_w_state, None, _nt_n, cases=_n_cases(2, 6, 10), shards=2),
    SubCheck("dicke", check_dicke, None, _nt_n, cases=_n_cases(1, 6, 9), shards=2),
    SubCheck("tile_domino", check_tile_domino, None, lambda c: c["family"], cases=lambda tier: [{"family": "tile"}, {"family": "domino"}], shards=2),
    SubCheck("mub", check_mub, None, _nt_d, cases=_mub_cases, shards=4),
    SubCheck("trine_bb84", check_trine_bb84, None, lambda c: None, cases=_one, shards=1),
    SubCheck("brauer", check_brauer, None, lambda c: f"d={c['d']},p={c['p']}" if c["d"] >= 3 or c["p"] >= 2 else None, cases=_brauer_cases, shards=4),
    SubCheck("breuer_baddim", check_breuer_baddim, None, lambda c: "outside", cases=lambda tier: [{"d": d} for d in (0, -2)], shards=1),
    # states, drawn parameters
    SubCheck("ghz_coeff", check_ghz_coeff, _ghz_coeff_case, _nt_dn, quick=5000, thorough=15000, shards=8),
    SubCheck("w_coeff", check_w_coeff, _w_coeff_case, _nt_n, quick=3000, thorough=10000, shards=8),
    SubCheck("werner", check_werner, _werner_case, _nt_param, quick=10000, thorough=40000),
    SubCheck("werner_list_form", check_werner_list, _werner_list_case, _nt_param, quick=1500, thorough=5000, shards=8),
    SubCheck("werner_multipartite", check_werner_multi, _werner_multi_case, lambda c: f"p={c['p']},d={c['d']}", quick=800, thorough=4000, shards=8),
    SubCheck("isotropic", check_isotropic, _iso_case, _nt_param, quick=10000, thorough=40000),
    SubCheck("horodecki", check_horodecki, _horodecki_case, _nt_horodecki, quick=5000, thorough=15000, shards=8),
    SubCheck("singlet", check_singlet, _singlet_case, _nt_d, quick=600, thorough=3000, shards=4),
    SubCheck("breuer", check_breuer, _breuer_case, lambda c: f"d={c['d']}:{c['p']['kind']}" if c["d"] >= 4 or c["p"]["kind"] != "interior" else None, quick=1200, thorough=6000, shards=8),
    SubCheck("chessboard", check_chessboard, _chess_case, _nt_chess, quick=5000, thorough=15000, shards=8),
    SubCheck("gisin", check_gisin, _gisin_case, lambda c: f"param:{c['p']['kind']}" if c["p"]["kind"] != "interior" else None, quick=3000, thorough=15000, shards=8),
    SubCheck("pbr", check_pbr, _pbr_case, _nt_pbr, quick=1000, thorough=6000, shards=8),
    # matrices
    SubCheck("pauli_forms", check_pauli_forms, None, _nt_pauli_forms, cases=_pauli_forms_cases, shards=4),
    SubCheck("pauli_basis", check_pauli_basis, None, _nt_n, cases=_n_cases(1, 4, 5), shards=4),
    SubCheck("pauli_pairs", check_pauli_pair, _pauli_pair_case, lambda c: f"n={len(c['a'])},{'same' if c['a'] == c['b'] else 'different'}", quick=3000, thorough=15000, shards=8),
    SubCheck("gen_pauli_weyl_fourier", check_gen_pauli, None, _nt_d, cases=_d_cases(1, 6, 11), shards=4),
    SubCheck("gell_mann", check_gell_mann, None, lambda c: "d=3", cases=_one, shards=1),
    SubCheck("gen_gell_mann", check_gen_gell_mann, None, _nt_d, cases=_d_cases(2, 6, 11), shards=4),
    SubCheck("hadamard", check_hadamard, None, _nt_n, cases=_n_cases(0, 6, 9), shards=2),
    SubCheck("cnot_cyclic", check_cnot_cyclic, None, _nt_n, cases=_n_cases(1, 7, 12), shards=2),
]
