"""C10 — state discrimination values are certified optima.

Functions under test: state_distinguishability (min_error / unambiguous, primal / dual), is_distinguishable.
Oracles: harness-side SDP certificates re-verified in numpy (tqv.sdp_ref), Helstrom / orthogonal / overlap closed
forms, pretty-good-measurement lower bound, unitary and relabelling invariance.
"""

from __future__ import annotations

import numpy as np
from hypothesis import strategies as st

from tqv import gen, ref, sdp_ref
from tqv.core import Inconclusive, SubCheck, Violation, req
from tqv.props import _ens

# caller-owned arrays handed to the library must come back unchanged (see tqv/purity.py)
from tqv.purity import install as _install_purity  # noqa: E402

_install_purity('toqito.state_opt', 'toqito.state_props', 'toqito.matrix_ops')

PROPERTY = "C10"
RULE = (
    "Ensembles are drawn by Hypothesis: family (generic kets, orthogonal set = columns of a drawn unitary, linearly "
    "dependent kets, two states, geometrically uniform orbit, mixed states of drawn rank), dimension 2..4, 2..5 states, "
    "real/complex, calling form (1-D kets, column kets, density matrices), priors (omitted, uniform, exact dyadic "
    "non-uniform); numeric content from a drawn PRNG seed.  Non-trivial = complex amplitudes with non-uniform priors "
    "and >= 3 states, or mixed states, or linearly dependent kets.  distinct = distinct SHA-1 of the case JSON."
)
ASSUMPTIONS = [
    "cvxopt (through picos) is the only SDP-capable solver picos finds in this environment, so 'every supported solver' = cvxopt",
    "failures raised inside the solver (cvxopt ArithmeticError/ZeroDivisionError, picos SolutionFailure) and time-outs are inconclusive",
    "harness certificates: CLARABEL solutions are projected/shifted to exact feasibility and re-evaluated in numpy; a case whose certified interval is wider than 1e-6 is inconclusive",
    "SDP value tolerance 1e-5 (picos/cvxopt default 1e-8 tolerances; observed residuals <= 5e-9)",
    "all states of one ensemble are passed in the same form (kets or density matrices)",
    "unambiguous discrimination is defined for pure states given as kets (the implementation works from the Gram matrix)",
]
TOL = 1e-5
FAMILIES = ("generic", "orthogonal", "dependent", "two", "gu", "mixed", "chain")


def _nt(case):
    if case.get("real_first"):
        return "mixed-dtype-ensemble"
    if case["family"] == "mixed":
        return "mixed"
    if case["family"] == "dependent":
        return "dependent"
    if case["family"] == "chain":
        return "neighbours-orthogonal,ends-overlap"
    if case["cplx"] and case["probs"] == "dyadic" and case["n"] >= 3:
        return "complex,nonuniform,n>=3"
    return None


def _setup(case):
    dms, kets = _ens.build_kets_or_dms(case)
    return dms, kets, _ens.as_inputs(case, dms, kets), _ens.priors(case), _ens.probs_arg(case)


def _interval(dms, p):
    lb, ub, povm = sdp_ref.discrimination_interval(dms, p)
    if ub - lb > 1e-6:
        raise Inconclusive("oracle_gap")
    return lb, ub


def _call(vectors, probs, **kw):
    from toqito.state_opt import state_distinguishability

    before = [np.array(v, copy=True) for v in vectors]
    pb = None if probs is None else list(probs)
    val, meas = state_distinguishability(vectors=vectors, probs=probs, **kw)
    req(all(a.shape == b.shape and np.array_equal(a, b) for a, b in zip(before, vectors)) and (probs is None or list(probs) == pb), "state_distinguishability modified the caller's states or priors", "args-mutated")
    if val is None or not np.isfinite(val):
        raise Inconclusive("solver_no_value")
    return float(np.real(val)), meas


# ------------------------------------------------------------------------------------------
def _check_value(case, primal_dual):
    dms, kets, inputs, p, parg = _setup(case)
    lb, ub = _interval(dms, p)
    val, _ = _call(inputs, parg, primal_dual=primal_dual)
    req(lb - TOL <= val <= ub + TOL, f"min-error value ({primal_dual}) {val:.8f} outside the certified interval [{lb:.8f}, {ub:.8f}]", "value")


def check_value_dual(case):
    _check_value(case, "dual")


def check_value_primal(case):
    _check_value(case, "primal")


def _check_povm(case, primal_dual):
    dms, kets, inputs, p, parg = _setup(case)
    val, meas = _call(inputs, parg, primal_dual=primal_dual)
    ms = [_ens.to_np(m) for m in meas]
    d = case["d"]
    req(len(ms) == case["n"], f"{len(ms)} measurement operators returned for {case['n']} states", "povm:count")
    for m in ms:
        req(m.shape == (d, d), f"measurement operator of shape {m.shape}", "povm:shape")
        req(np.allclose(m, m.conj().T, atol=1e-6), "returned measurement operator is not Hermitian", "povm:herm")
        req(ref.lam_min(m) >= -1e-6, f"returned measurement operator has eigenvalue {ref.lam_min(m):.2e}", "povm:psd")
    req(np.allclose(sum(ms), np.eye(d), atol=1e-5), "returned measurement operators do not sum to the identity", "povm:sum")
    got = float(sum(pi * np.real(np.trace(r @ m)) for pi, r, m in zip(p, dms, ms)))
    if abs(got - val) > 1e-4:
        got_t = float(sum(pi * np.real(np.trace(r @ m.T)) for pi, r, m in zip(p, dms, ms)))
        sig = "povm:attains-only-after-transpose" if abs(got_t - val) <= 1e-4 else "povm:not-attaining"
        raise Violation(f"returned POVM ({primal_dual}) attains {got:.6f}, reported value {val:.6f} (transposed operators attain {got_t:.6f})", sig)


def check_povm_dual(case):
    _check_povm(case, "dual")


def check_povm_primal(case):
    _check_povm(case, "primal")


# ------------------------------------------------------------------------------------------
def check_closed_forms(case):
    dms, kets, inputs, p, parg = _setup(case)
    fam, n, d = case["family"], case["n"], case["d"]
    val, _ = _call(inputs, parg)
    req(-TOL <= val <= 1 + TOL, f"value {val} outside [0,1]", "range")
    req(val >= max(p) - TOL, f"value {val:.8f} below the largest prior {max(p):.8f}", "below-max-prior")
    pg = sdp_ref.pgm(dms, p)
    ppgm = float(sum(pi * np.real(np.trace(r @ m)) for pi, r, m in zip(p, dms, pg)))
    req(val >= ppgm - TOL, f"value {val:.8f} below the pretty-good-measurement success {ppgm:.8f}", "below-pgm")
    if fam == "orthogonal":
        req(abs(val - 1) <= TOL, f"orthogonal states: value {val:.8f} != 1", "orthogonal")
    if n == 2:
        hel = 0.5 + 0.5 * ref.trace_norm(p[0] * dms[0] - p[1] * dms[1])
        req(abs(val - hel) <= TOL, f"two states: value {val:.8f} != Helstrom bound {hel:.8f}", "helstrom")
    # common unitary
    u = gen.rand_unitary(case["useed"], d, real=not case["cplx"])
    if kets is not None:
        k2 = [u @ v for v in kets]
        d2 = [np.outer(v, v.conj()) for v in k2]
    else:
        k2 = None
        d2 = [u @ r @ u.conj().T for r in dms]
        d2 = [(r + r.conj().T) / 2 for r in d2]
    v2, _ = _call(_ens.as_inputs(case, d2, k2), parg)
    req(abs(v2 - val) <= 2 * TOL, f"value changed under a common unitary: {val:.8f} -> {v2:.8f}", "unitary")
    # relabelling
    perm = case["perm"][:n] if len(case["perm"]) >= n else list(range(n))
    perm = [i for i in perm if i < n]
    perm = perm + [i for i in range(n) if i not in perm]
    inp3 = [inputs[i] for i in perm]
    p3 = [p[i] for i in perm]
    v3, _ = _call(inp3, p3)
    req(abs(v3 - val) <= 2 * TOL, f"value changed under relabelling: {val:.8f} -> {v3:.8f}", "relabel")


@st.composite
def _closed_case(draw):
    c = draw(_ens.ensemble_case(FAMILIES))
    c["useed"] = draw(gen.SEED)
    c["perm"] = list(draw(st.permutations(list(range(5)))))
    return c


# ------------------------------------------------------------------------------------------
def _unamb_interval(gram, p):
    """certified interval for max p.q s.t. Gram - diag(q) >= 0, q >= 0 (linearly independent kets)"""
    import cvxpy

    n = len(p)
    lmin = ref.lam_min(gram)
    q = cvxpy.Variable(n, nonneg=True)
    prob = cvxpy.Problem(cvxpy.Maximize(np.array(p) @ q), [gram - cvxpy.diag(q) >> 0])
    sdp_ref._solve(prob)
    qv = np.clip(np.asarray(q.value, dtype=float), 0, None)
    worst = ref.lam_min(gram - np.diag(qv))
    if worst < 0:
        if lmin <= 1e-9:
            qv = np.zeros(n)
        else:
            qv = qv * (lmin / (lmin - worst))
    lb = float(np.dot(p, qv))
    z = cvxpy.Variable((n, n), hermitian=True)
    dprob = cvxpy.Problem(cvxpy.Minimize(cvxpy.real(cvxpy.trace(gram @ z))), [z >> 0] + [cvxpy.real(z[i, i]) >= p[i] for i in range(n)])
    sdp_ref._solve(dprob)
    zv = sdp_ref._psd_part(z.value)
    zv = zv + np.diag(np.clip(np.array(p) - np.real(np.diag(zv)), 0, None))
    ub = float(np.real(np.trace(gram @ zv)))
    return lb, ub


def check_unambiguous(case):
    dms, kets, inputs, p, parg = _setup(case)
    n = case["n"]
    gram = np.array([[np.vdot(a, b) for b in kets] for a in kets])
    out = {}
    for pd in ("primal", "dual"):
        try:
            out[pd] = _call(inputs, parg, strategy="unambiguous", primal_dual=pd)
        except Inconclusive:
            out[pd] = None
    if out["primal"] is None and out["dual"] is None:
        raise Inconclusive("solver_no_value")
    lbm, ubm = _interval(dms, p)
    lb, ub = _unamb_interval(gram, p)
    for pd, o in out.items():
        if o is None:
            continue
        val = o[0]
        req(val <= ubm + TOL, f"unambiguous value ({pd}) {val:.8f} exceeds the minimum-error optimum {ubm:.8f}", "unamb>minerr")
        if ub - lb <= 1e-6:
            req(lb - TOL <= val <= ub + TOL, f"unambiguous value ({pd}) {val:.8f} outside the certified interval [{lb:.8f}, {ub:.8f}]", "unamb-value")
        if case["family"] == "dependent":
            req(abs(val) <= TOL, f"linearly dependent kets: unambiguous value ({pd}) {val:.8f} != 0", "unamb-dependent")
        if n == 2 and case["probs"] != "dyadic":
            cf = 1 - abs(np.vdot(kets[0], kets[1]))
            req(abs(val - cf) <= TOL, f"two equiprobable kets: unambiguous value ({pd}) {val:.8f} != 1-|<psi|phi>| = {cf:.8f}", "unamb-overlap")
    if out["primal"] is not None and out["dual"] is not None:
        req(abs(out["primal"][0] - out["dual"][0]) <= 2 * TOL, f"unambiguous primal {out['primal'][0]:.8f} != dual {out['dual'][0]:.8f}", "unamb-duality")
    if out["primal"] is not None:
        s = np.real(np.array(_ens.to_np(out["primal"][1][0]))).reshape(-1)
        req(s.size == n and np.all(s >= -1e-7), "returned success probabilities are not non-negative", "unamb-vector")
        req(ref.lam_min(gram - np.diag(s)) >= -1e-6, "returned success probabilities are infeasible (Gram - diag(s) not PSD)", "unamb-vector")
        req(abs(float(np.dot(p, s)) - out["primal"][0]) <= 1e-6, "returned success probabilities do not attain the reported value", "unamb-vector")


def check_is_distinguishable(case):
    from toqito.state_props import is_distinguishable

    dms, kets, inputs, p, parg = _setup(case)
    lb, ub = _interval(dms, p)
    got = bool(is_distinguishable(inputs, parg))
    if case["family"] == "orthogonal":
        req(got is True, "is_distinguishable is False on mutually orthogonal states", "isdist:false-on-orthogonal")
    elif ub <= 1 - 1e-3:
        req(got is False, f"is_distinguishable is True although the optimum is <= {ub:.6f}", "isdist:true-below-one")


def _ens_strategy(families, forms=("ket1d", "ketcol", "dm")):
    return lambda: _ens.ensemble_case(families, forms)


SUBCHECKS = [
    SubCheck("value_dual", check_value_dual, _ens_strategy(FAMILIES), _nt, quick=480, thorough=8000, case_timeout=30),
    SubCheck("value_primal", check_value_primal, _ens_strategy(FAMILIES), _nt, quick=320, thorough=6000, case_timeout=30),
    SubCheck("povm_dual", check_povm_dual, _ens_strategy(FAMILIES), _nt, quick=320, thorough=6000, case_timeout=30),
    SubCheck("povm_primal", check_povm_primal, _ens_strategy(FAMILIES), _nt, quick=240, thorough=4000, case_timeout=30),
    SubCheck("closed_forms", check_closed_forms, _closed_case, _nt, quick=320, thorough=6000, case_timeout=60),
    SubCheck("unambiguous", check_unambiguous, _ens_strategy(("generic", "dependent", "two", "gu", "orthogonal"), ("ket1d", "ketcol")), _nt, quick=320, thorough=6000, case_timeout=60),
    SubCheck("is_distinguishable", check_is_distinguishable, _ens_strategy(FAMILIES), _nt, quick=240, thorough=4000, case_timeout=30),
]
