"""C07 — nonlocal games: exact classical value, ordered values, product games, BCS games, untouched object.

Functions under test: NonlocalGame.__init__ (reps), from_bcs_game, classical_value, quantum_value_lower_bound,
commuting_measurement_value_upper_bound (npa_constraints), nonsignaling_value.
Oracles: enumeration of all pairs of deterministic answer functions (numpy), no-signalling LP (scipy highs),
einsum product game, reference loop for BCS games, value-preserving game transformations, the order chain with
an own achieved classical value, and a Hypothesis rule-based machine for call histories.
"""

from __future__ import annotations

import numpy as np
from hypothesis import strategies as st

from tqv import gen
from tqv.core import HarnessError, Inconclusive, SubCheck, Violation, canon, req
from tqv.machine import HistorySpec
from tqv.props import _c07_helpers as H

PROPERTY = "C07"
RULE = (
    "Games are drawn by Hypothesis. classical_bruteforce: shapes (A,B,X,Y) in 1..4 with a drawn 'mode' that forces "
    "A<B, A>B, A^X<B^Y or A^X>B^Y by exchanging the players' (answers, questions) pairs; predicates 0/1 (density "
    "1/4..3/4), k/16, uniform floats or entry-by-entry k/4; probabilities uniform or exact dyadic counts/64 (zeros "
    "allowed).  SDP sub-checks: families xor (random XOR predicate), modk (a+b=xy mod k), unique games, parity BCS "
    "games and random predicates, pushed through drawn value-preserving transformations (always-losing padding "
    "answers, zero-probability questions with arbitrary predicate, per-question answer relabelling independent for "
    "the two players, question permutations, player exchange).  A case is non-trivial when A!=B or X!=Y (label "
    "says which player is enumerated and whether the enumerated player has the larger alphabet); for the order chain "
    "when additionally/alternatively the certified gap (LP no-signalling value minus brute-force classical value) is "
    ">= 0.02; for reps when r>=2 and the base game is asymmetric; for BCS when constraints have different dependent "
    "sets or n>=3; for the history machine when there are >=3 steps with >=2 distinct methods. distinct = distinct "
    "SHA-1 of the canonical case JSON among non-trivial cases."
)
ASSUMPTIONS = [
    "prob_mat sums to 1 (uniform 1/(XY) or counts/64); pred_mat entries lie in [0,1]; both are float64 arrays except in classical_pred_dtype (0/1 predicates stored as int64/bool/float32)",
    "an NPA value can only be refuted by an achieved value (own brute-force classical value, toqito's classical value, the see-saw value) or by exceeding the next looser bound; a relaxation that is too tight by less than the best achieved gap is invisible",
    "SDP values come from cvxpy's default solver (SCS): order relations and equalities between two solver values are asserted to 2e-3, the no-signalling value against the certified LP optimum to 5e-4; a solve that warns 'Solution may be inaccurate', raises SolverError, returns a non-finite value or exceeds 30 s is inconclusive",
    "the see-saw's unseeded randomness is pinned by patching numpy.random.default_rng (None seed -> [s, k]) and np.random.seed(s); classical <= see-saw is not asserted (local optima)",
    "NPA level 2 is only evaluated when (A-1)X+(B-1)Y <= 6 and level '1+ab' when the moment matrix has <= 70 rows; in the history machine a drawn level that is too large for the game is replaced by the next smaller one",
    "classical_value forks a multiprocessing.Pool (one worker per core) when it enumerates more than 1000 functions: every generator keeps that count (repaired and unrepaired formula) <= 1000 by construction, the branch above 1000 is exercised by the small sub-check classical_pool_branch (shapes beyond 1..4, oracle = own best-response enumeration instead of all pairs)",
    "BCS constraints are 0/1 arrays of shape (2,)*n depending on at least one variable (a constant constraint divides by zero in from_bcs_game: outside the domain)",
    "metamorphic invariance is asserted for the classical value, the non-signalling value and NPA level 1 (whose relaxation is invariant under a linear change of operator basis, coarse-graining of a losing answer and copying of a measurement); it is NOT asserted for intermediate/higher NPA levels because toqito's moment matrix for '1+ab' is labelling dependent (a looser but still valid bound)",
    "numpy einsum/Kronecker index algebra (row-major, first repetition most significant) is trusted as the product-game model; scipy highs is trusted after re-checking feasibility of its point to 1e-8",
]

LEVEL2_LIMIT = 6
AB_ROWS_LIMIT = 70


def _Game():
    from toqito.nonlocal_games.nonlocal_game import NonlocalGame

    return NonlocalGame


# ------------------------------------------------------------------------------------------------
# strategies
# ------------------------------------------------------------------------------------------------
@st.composite
def _prob_fields(draw, X, Y, allow_zero=True):
    if draw(st.booleans()) or (not allow_zero and X * Y > 32):
        return {"pk": "uniform"}
    return {"pk": "dyadic", "counts": draw(gen.dyadic_probs(X * Y, m=6, allow_zero=allow_zero))}


@st.composite
def _shape_mode(draw, hi=4):
    """(A,B,X,Y) in 1..hi with deliberate weight on A!=B and on both orders of A^X vs B^Y"""
    a, x = draw(st.integers(1, hi)), draw(st.integers(1, hi))
    b, y = draw(st.integers(1, hi)), draw(st.integers(1, hi))
    mode = draw(st.sampled_from(["any", "A<B", "A>B", "AX<BY", "AX>BY", "enum-larger"]))
    swap = False
    if mode == "A<B":
        swap = a > b
    elif mode == "A>B":
        swap = a < b
    elif mode == "AX<BY":
        swap = a**x > b**y
    elif mode == "AX>BY":
        swap = a**x < b**y
    elif mode == "enum-larger":
        # the player with fewer functions should have the larger alphabet: few questions, many answers
        a, b = max(a, b), min(a, b)
        x, y = min(x, y), max(x, y)
        if draw(st.booleans()):
            swap = True
    if swap:
        a, x, b, y = b, y, a, x
    return [a, b, x, y]


@st.composite
def _pred_fields(draw, shape, kinds=("small", "rand01", "frac16", "float")):
    size = gen.prod(shape)
    ks = [k for k in kinds if not (k == "small" and size > 48)]
    fam = draw(st.sampled_from(ks))
    out = {"fam": fam, "shape": list(shape)}
    if fam == "small":
        out["vals"] = draw(st.lists(st.integers(0, 4), min_size=size, max_size=size))
    else:
        out["seed"] = draw(gen.SEED)
        if fam == "rand01":
            out["dens"] = draw(st.integers(1, 3))
        if fam == "planted":
            pos = st.sampled_from(["first", "last", "last", "lastbut", "lastbut", "random"])
            out["f_pos"], out["g_pos"], out["leak"] = draw(pos), draw(pos), draw(st.sampled_from([0.0, 0.25, 0.5]))
    return out


@st.composite
def _classical_case(draw):
    shape = draw(_shape_mode())
    spec = draw(_pred_fields(shape, kinds=("small", "rand01", "frac16", "float", "planted")))
    spec.update(draw(_prob_fields(shape[2], shape[3], allow_zero=spec["fam"] != "planted")))
    return {"game": spec}


@st.composite
def _tf(draw, shape, max_out=4, max_in=4, max_entries=160):
    A, B, X, Y = shape
    tf = {
        "padA": draw(st.integers(0, max(0, min(2, max_out - A)))),
        "padB": draw(st.integers(0, max(0, min(2, max_out - B)))),
        "zx": draw(st.integers(0, max(0, min(1, max_in - X)))),
        "zy": draw(st.integers(0, max(0, min(1, max_in - Y)))),
        "relabel": draw(st.booleans()),
        "qperm": draw(st.booleans()),
        "swap": draw(st.booleans()),
        "seed": draw(gen.SEED),
    }
    # construction, not rejection: drop enlargements until the size budget is met and classical_value stays in
    # its single-process branch (the multiprocessing branch has its own small sub-check)
    for k in ("zx", "zy", "padA", "padB"):
        fs = (A + tf["padA"], B + tf["padB"], X + tf["zx"], Y + tf["zy"])
        cnt = max(H.toqito_enum_count(fs), H.toqito_enum_count((fs[1], fs[0], fs[3], fs[2])))  # either orientation (swap)
        if gen.prod(fs) > max_entries or cnt > H.POOL_THRESHOLD:
            tf[k] = 0
    return tf


_SEP_FAMS = ("xor", "modk", "unique", "bcs")


@st.composite
def _family_game(draw, fams=("xor", "modk", "unique", "bcs", "rand01", "frac16"), tf=True, max_entries=160, small=False):
    """a base game from a family with (mostly) separated values + a value-preserving transformation"""
    fam = draw(st.sampled_from(list(fams)))
    hi_q = 2 if small else 3
    if fam == "xor":
        X, Y = draw(st.integers(2, hi_q + (0 if small else 1))), draw(st.integers(2, hi_q))
        spec = {"fam": "xor", "X": X, "Y": Y, "f": draw(st.lists(st.integers(0, 1), min_size=X * Y, max_size=X * Y))}
        shape = [2, 2, X, Y]
    elif fam == "modk":
        k = 2 if small else draw(st.integers(2, 3))
        X, Y = draw(st.integers(2, hi_q)), draw(st.integers(2, hi_q))
        spec = {"fam": "modk", "k": k, "X": X, "Y": Y}
        shape = [k, k, X, Y]
    elif fam == "unique":
        k = draw(st.integers(2, 3))
        X, Y = draw(st.integers(2, hi_q)), draw(st.integers(2, 2 if k == 3 else hi_q))
        spec = {"fam": "unique", "k": k, "X": X, "Y": Y, "seed": draw(gen.SEED)}
        shape = [k, k, X, Y]
    elif fam == "bcs":
        n = 2 if small else draw(st.integers(2, 3))
        m = draw(st.integers(2, 3 if n == 2 else 2))
        cons = [{"mask": draw(st.integers(1, 2**n - 1)), "par": draw(st.integers(0, 1))} for _ in range(m)]
        spec = {"fam": "bcs", "n": n, "cons": cons}
        shape = [2**n, 2, m, n]
    else:
        if small:
            shape = draw(_shape_mode(hi=3))
            while gen.prod(shape) > 36:
                i = shape.index(max(shape))
                shape[i] -= 1
        else:
            shape = draw(_shape_mode(hi=4))
            while gen.prod(shape) > 81:
                i = shape.index(max(shape))
                shape[i] -= 1
        spec = draw(_pred_fields(shape, kinds=(fam,)))
    if fam != "bcs":
        spec.update(draw(_prob_fields(shape[2], shape[3], allow_zero=fam not in _SEP_FAMS)))
    if tf:
        spec["tf"] = draw(_tf(shape, max_entries=max_entries, max_out=3 if small else 4, max_in=3 if small else 4))
    return spec


def _asym_label(shape):
    A, B, X, Y = shape
    if A == B and X == Y:
        return None
    enum_bob = not (A**X < B**Y)  # the library enumerates the player with fewer functions (ties: Bob)
    e_out, o_out = (B, A) if enum_bob else (A, B)
    lab = ("A<B" if A < B else "A>B" if A > B else "A=B") + ("," + ("X<Y" if X < Y else "X>Y" if X > Y else "X=Y"))
    lab += ",enum=" + ("bob" if enum_bob else "alice")
    if e_out > o_out:
        lab += ",enum-has-larger-alphabet"
    return lab


# ------------------------------------------------------------------------------------------------
# 1. classical value = brute force over all pairs of deterministic strategies
# ------------------------------------------------------------------------------------------------
def _check_unchanged(game, snaps, where):
    req(H.snapshot(game.prob_mat) == snaps[0], f"prob_mat changed by {where}", "mutated:prob_mat")
    req(H.snapshot(game.pred_mat) == snaps[1], f"pred_mat changed by {where}", "mutated:pred_mat")


def _classical_value(game, allow_pool=False):
    """classical_value() kept out of its multiprocessing branch (one Pool of cpu_count workers per call) except in the
    dedicated sub-check"""
    if not allow_pool and H.toqito_enum_count(np.shape(game.pred_mat)) > H.POOL_THRESHOLD:
        raise Inconclusive("classical-value-pool-branch-outside-budget")
    return float(game.classical_value())


def _classical_vs_oracle(game, prob, pred, what="", allow_pool=False):
    snaps = (H.snapshot(game.prob_mat), H.snapshot(game.pred_mat))
    val = _classical_value(game, allow_pool)
    exp, how = H.classical_oracle(np.asarray(prob, dtype=float), np.asarray(pred, dtype=float))
    val = float(val)
    if not abs(val - exp) <= H.TOL_EXACT:
        raise Violation(
            f"{what}classical_value() = {val!r} but the maximum over deterministic strategies ({how}) is {exp!r} for shape {tuple(pred.shape)}",
            H.classical_signature(np.asarray(prob, dtype=float), np.asarray(pred, dtype=float), val),
        )
    _check_unchanged(game, snaps, "classical_value")
    return val


def check_classical(case):
    prob, pred = H.build_game(case["game"])
    game = _Game()(prob.copy(), pred.copy())
    _classical_vs_oracle(game, prob, pred)


def nt_classical(case):
    g = case["game"]
    return _asym_label(g["shape"] if "shape" in g and not g.get("tf") else H.final_shape(g))


@st.composite
def _pool_case(draw):
    """shapes whose enumerated player has between 1001 and ~4100 answer functions (multiprocessing branch)"""
    b, y = draw(st.sampled_from([(2, 10), (2, 11), (2, 12), (3, 7), (4, 5), (4, 6), (5, 5), (6, 4), (7, 4), (8, 4), (11, 3), (16, 3), (33, 2), (64, 2)]))
    a = draw(st.integers(max(2, b - 1), b + (1 if (b + 1) ** y <= 8200 else 0)))
    x = y + draw(st.integers(0, 1))
    while a**x < b**y:
        x += 1
    shape = [a, b, x, y]
    if draw(st.booleans()):
        shape = [b, a, y, x]
    spec = draw(_pred_fields(shape, kinds=("rand01", "frac16", "float", "planted", "planted", "planted")))
    spec.update(draw(_prob_fields(shape[2], shape[3], allow_zero=spec["fam"] != "planted")))
    return {"game": spec}


def nt_pool(case):
    g = case["game"]
    planted = f",planted:{g['f_pos']}/{g['g_pos']}" if g["fam"] == "planted" else ""
    return "pool," + (_asym_label(g["shape"]) or "A=B,X=Y") + planted


def check_classical_pool(case):
    prob, pred = H.build_game(case["game"])
    game = _Game()(prob.copy(), pred.copy())
    _classical_vs_oracle(game, prob, pred, allow_pool=True)


@st.composite
def _dtype_case(draw):
    # equal alphabets: independent of the enumeration-count finding, so that the two findings do not mask each other
    a = draw(st.integers(1, 3))
    shape = [a, a, draw(st.integers(1, 3)), draw(st.integers(1, 3))]
    spec = draw(_pred_fields(shape, kinds=("rand01",)))
    spec.update(draw(_prob_fields(shape[2], shape[3])))
    return {"game": spec, "dtype": draw(st.sampled_from(["int64", "bool", "float32"]))}


def check_classical_dtype(case):
    """0/1 predicates stored in a non-float64 array are still predicates with values in [0,1]"""
    prob, pred = H.build_game(case["game"])
    predt = pred.astype(case["dtype"])
    game = _Game()(prob.copy(), predt)
    snaps = (H.snapshot(game.prob_mat), H.snapshot(game.pred_mat))
    val = _classical_value(game)
    exp, how = H.classical_oracle(prob, pred)
    if not abs(val - exp) <= 1e-6:
        sig = H.classical_signature(prob, pred, val)
        if sig.endswith("pairs"):
            sig = "classical_value:weighted-predicate-cast-to-pred_mat-dtype"
        raise Violation(f"classical_value() = {val!r} for a 0/1 predicate of dtype {case['dtype']}; enumeration ({how}) gives {exp!r}", sig)
    _check_unchanged(game, snaps, "classical_value")


# ------------------------------------------------------------------------------------------------
# 2. metamorphic invariance under value-preserving transformations
# ------------------------------------------------------------------------------------------------
def _base_and_image(spec):
    base = {k: v for k, v in spec.items() if k != "tf"}
    p0, v0 = H.build_game(base)
    p1, v1 = H.build_game(spec)
    return (p0, v0), (p1, v1)


def check_meta_classical(case):
    (p0, v0), (p1, v1) = _base_and_image(case["game"])
    e0, _ = H.classical_oracle(p0, v0)
    e1, _ = H.classical_oracle(p1, v1)
    if abs(e0 - e1) > 1e-12:
        raise HarnessError(f"transformation is not value preserving: {e0} vs {e1}")
    G = _Game()
    c0 = _classical_value(G(p0.copy(), v0.copy()))
    c1 = _classical_value(G(p1.copy(), v1.copy()))
    if abs(c0 - c1) > H.TOL_EXACT:
        bad = (p1, v1, c1) if abs(c1 - e1) > H.TOL_EXACT else (p0, v0, c0)
        raise Violation(
            f"classical value {c0!r} of the game of shape {v0.shape} became {c1!r} under a value-preserving transformation (shape {v1.shape}); enumeration gives {e0!r}",
            H.classical_signature(*bad),
        )


def nt_meta(case):
    tf = case["game"].get("tf")
    if H.tf_is_identity(tf):
        return None
    lab = [k for k in ("padA", "padB", "zx", "zy", "relabel", "qperm", "swap") if tf.get(k)]
    return "tf:" + "+".join(lab)


def _npa_rows(shape, k):
    A, B, X, Y = shape
    na, nb = (A - 1) * X, (B - 1) * Y
    if k == 1:
        return 1 + na + nb
    if k == "1+ab":
        return 1 + na + nb + na * nb
    return 1 + na + nb + na * na + nb * nb + na * nb


def _levels_for(shape, want):
    A, B, X, Y = shape
    out = []
    for k in want:
        if k == 2 and (A - 1) * X + (B - 1) * Y > LEVEL2_LIMIT:
            continue
        if k == "1+ab" and _npa_rows(shape, k) > AB_ROWS_LIMIT:
            continue
        if k not in out:
            out.append(k)
    return out


@st.composite
def _meta_sdp_case(draw):
    spec = draw(_family_game(max_entries=100))
    return {"game": spec, "which": draw(st.sampled_from(["ns", "npa1", "both"]))}


def check_meta_sdp(case):
    """NS value and NPA level 1 are invariant.  (Intermediate levels are *not* asserted: toqito's '1+ab' moment
    matrix depends on the labelling of answers/questions - 0.8570 vs 0.8542 on a unique game with 3 answers, both
    solved to 1e-6 - which loosens the bound but does not contradict the property.)"""
    (p0, v0), (p1, v1) = _base_and_image(case["game"])
    G = _Game()
    g0, g1 = G(p0, v0), G(p1, v1)
    missing = 0
    pairs = []
    if case["which"] in ("ns", "both"):
        pairs.append(("nonsignaling_value", lambda g: H.call_value(g.nonsignaling_value)))
    if case["which"] in ("npa1", "both"):
        pairs.append(("npa[1]", lambda g: H.call_value(g.commuting_measurement_value_upper_bound, 1)))
    for name, fn in pairs:
        a, b = fn(g0), fn(g1)
        if a is None or b is None:
            missing += 1
            continue
        req(
            abs(a - b) <= H.TOL_SDP,
            f"{name}: {a:.6f} on the base game of shape {v0.shape} but {b:.6f} after a value-preserving transformation (shape {v1.shape})",
            f"metamorphic:{name.split('[')[0]}",
        )
    if missing:
        raise Inconclusive("solver-no-value")


# ------------------------------------------------------------------------------------------------
# 3. order chain
# ------------------------------------------------------------------------------------------------
@st.composite
def _order_case(draw):
    reps = 1
    if draw(st.integers(0, 9)) == 0:
        # a repeated 2x2x2x2 game
        spec = draw(_family_game(fams=("xor", "rand01"), tf=False, small=True))
        if spec["fam"] == "xor":
            spec["X"], spec["Y"], spec["f"] = 2, 2, spec["f"][:4]
        else:
            spec["shape"] = [2, 2, 2, 2]
        if spec.get("pk") == "dyadic":
            spec["pk"] = "uniform"
            spec.pop("counts", None)
        reps = 2
    else:
        spec = draw(_family_game(max_entries=144))
    return {
        "game": spec,
        "reps": reps,
        "levels": draw(st.sampled_from([[1, "1+ab"], [1, 2], [1, "1+ab", 2], [1]])),
        "qlb": {"dim": draw(st.sampled_from([2, 2, 3])), "iters": draw(st.integers(1, 2)), "tol": draw(st.sampled_from([1e-5, 1e-3])), "pin": draw(st.integers(0, 2**31 - 1))},
    }


def _make_game(spec, reps=1):
    """-> (game object, prob, pred of the *played* game); BCS games without transformation go through from_bcs_game"""
    G = _Game()
    if spec["fam"] == "bcs" and H.tf_is_identity(spec.get("tf")):
        game = G.from_bcs_game(H.bcs_constraints(spec), reps)
        prob, pred = H.base_game(spec)
    else:
        prob, pred = H.build_game(spec)
        game = G(prob.copy(), pred.copy(), reps) if reps != 1 else G(prob.copy(), pred.copy())
    if reps != 1:
        prob, pred = H.product_game(prob, pred, reps)
    return game, prob, pred


def check_order(case):
    game, prob, pred = _make_game(case["game"], case.get("reps", 1))
    shape = pred.shape
    tol = H.TOL_SDP
    own_cl, _ = H.classical_oracle(prob, pred)
    cl = _classical_value(game)
    ns = H.call_value(game.nonsignaling_value)
    npa = {}
    for k in _levels_for(shape, case["levels"]):
        npa[k] = H.call_value(game.commuting_measurement_value_upper_bound, k)
    q = case["qlb"]
    with H.pin(q["pin"]):
        qlb = H.call_value(game.quantum_value_lower_bound, dim=q["dim"], iters=q["iters"], tol=q["tol"])
    missing = [n for n, v in [("ns", ns), ("qlb", qlb)] + [(f"npa{k}", v) for k, v in npa.items()] if v is None]
    ctx = f"shape {tuple(shape)} reps={case.get('reps', 1)}: classical={cl:.6f} own-classical={own_cl:.6f} qlb={qlb} npa={npa} ns={ns}"
    for k, v in npa.items():
        if v is None:
            continue
        req(cl <= v + tol, f"classical value exceeds NPA level {k}; {ctx}", "order:classical>npa")
        req(own_cl <= v + tol, f"a deterministic strategy achieves more than NPA level {k}; {ctx}", "order:achieved-classical>npa")
        if qlb is not None:
            req(qlb <= v + tol, f"see-saw lower bound exceeds NPA level {k}; {ctx}", "order:qlb>npa")
        if ns is not None:
            req(v <= ns + tol, f"NPA level {k} exceeds the non-signalling value; {ctx}", "order:npa>ns")
    chain = [k for k in (2, "1+ab", 1) if npa.get(k) is not None]
    for lo, hi in zip(chain, chain[1:]):
        req(npa[lo] <= npa[hi] + tol, f"NPA level {lo} is above the lower level {hi}; {ctx}", "order:npa-not-monotone")
    if ns is not None:
        req(ns <= 1 + tol, f"non-signalling value above 1; {ctx}", "order:ns>1")
        req(cl <= ns + tol and own_cl <= ns + tol, f"classical value exceeds the non-signalling value; {ctx}", "order:classical>ns")
        if qlb is not None:
            req(qlb <= ns + tol, f"see-saw lower bound exceeds the non-signalling value; {ctx}", "order:qlb>ns")
    if qlb is not None:
        req(qlb <= 1 + tol, f"see-saw lower bound above 1; {ctx}", "order:qlb>1")
    if missing:
        raise Inconclusive("solver-no-value:" + ",".join(sorted(missing))[:40])


def nt_order(case):
    spec = case["game"]
    prob, pred = H.build_game(spec)
    if case.get("reps", 1) != 1:
        prob, pred = H.product_game(prob, pred, case["reps"])
    asym = _asym_label(pred.shape) is not None
    try:
        gap = H.ns_lp(prob, pred) - H.classical_oracle(prob, pred)[0]
    except Inconclusive:
        gap = 0.0
    if gap >= 0.02:
        return "gap>=0.02" + (",asym" if asym else "") + (",reps2" if case.get("reps", 1) != 1 else "")
    if asym:
        return "tight,asym"
    return None


# ------------------------------------------------------------------------------------------------
# 4. non-signalling value = LP
# ------------------------------------------------------------------------------------------------
@st.composite
def _ns_case(draw):
    return {"game": draw(_family_game(fams=("xor", "modk", "unique", "bcs", "rand01", "frac16", "float"), max_entries=120))}


def check_ns(case):
    game, prob, pred = _make_game(case["game"])
    exp = H.ns_lp(prob, pred)
    val = H.call_value(game.nonsignaling_value)
    if val is None:
        raise Inconclusive("solver-no-value")
    req(
        abs(val - exp) <= H.TOL_LP,
        f"nonsignaling_value() = {val:.6f} but the LP over the no-signalling polytope gives {exp:.6f} (shape {tuple(pred.shape)})",
        "ns!=lp:" + ("above" if val > exp else "below"),
    )


def nt_ns(case):
    return _asym_label(H.final_shape(case["game"]))


# ------------------------------------------------------------------------------------------------
# 5. reps = r-fold product game
# ------------------------------------------------------------------------------------------------
@st.composite
def _reps_case(draw):
    r = draw(st.sampled_from([1, 2, 2, 2, 2, 3]))
    shape = draw(_shape_mode())
    cap = {1: 256, 2: 256, 3: 16}[r]
    if draw(st.booleans()):
        # small enough for the classical value of the product game
        cap = min(cap, 36)
    while gen.prod(shape) > cap:
        i = shape.index(max(shape))
        shape[i] -= 1
    spec = draw(_pred_fields(shape))
    spec.update(draw(_prob_fields(shape[2], shape[3])))
    return {"game": spec, "reps": r}


def _classical_affordable(shape, r):
    """the enumeration inside toqito stays in the single-process branch for the repaired and the unrepaired count"""
    return H.toqito_enum_count([int(s) ** r for s in shape]) <= H.POOL_THRESHOLD


def check_reps(case):
    r = case["reps"]
    prob, pred = H.build_game(case["game"])
    G = _Game()
    game = G(prob.copy(), pred.copy(), r)
    eprob, epred = H.product_game(prob, pred, r)
    gp, gv = np.asarray(game.prob_mat), np.asarray(game.pred_mat)
    req(gp.shape == eprob.shape, f"prob_mat of the r={r} game has shape {gp.shape}, product game {eprob.shape}", "reps:shape")
    req(gv.shape == epred.shape, f"pred_mat of the r={r} game has shape {gv.shape}, product game {epred.shape}", "reps:shape")
    if H.is_dyadic(case["game"]) or r == 1:
        okp, okv = np.array_equal(gp, eprob), np.array_equal(gv, epred)
    else:
        okp, okv = np.allclose(gp, eprob, rtol=0, atol=1e-14), np.allclose(gv, epred, rtol=0, atol=1e-14)
    req(okp, f"prob_mat of the r={r} game is not the r-fold product distribution (base shape {pred.shape})", "reps:prob_mat")
    req(okv, f"pred_mat of the r={r} game is not the r-fold product predicate (base shape {pred.shape})", "reps:pred_mat")
    req(getattr(game, "reps", None) == r, "reps attribute not stored", "reps:attr")
    if r >= 2 and _classical_affordable(pred.shape, r):
        c1 = _classical_vs_oracle(G(prob.copy(), pred.copy()), prob, pred, what="base game: ")
        cr = _classical_vs_oracle(game, eprob, epred, what=f"{r}-fold game: ")
        req(cr >= c1**r - H.TOL_EXACT, f"classical value of the {r}-fold game {cr!r} is below classical(G)^{r} = {c1**r!r}", "reps:not-supermultiplicative")


def nt_reps(case):
    if case["reps"] < 2:
        return None
    lab = _asym_label(case["game"]["shape"])
    if lab is None:
        return None
    return f"r={case['reps']}," + lab + (",classical" if _classical_affordable(case["game"]["shape"], case["reps"]) else "")


# ------------------------------------------------------------------------------------------------
# 6. from_bcs_game
# ------------------------------------------------------------------------------------------------
@st.composite
def _bcs_case(draw):
    n = draw(st.integers(1, 4))
    m = draw(st.integers(1, 4))
    cons = []
    for _ in range(m):
        if draw(st.booleans()):
            cons.append({"mask": draw(st.integers(1, 2**n - 1)), "par": draw(st.integers(0, 1))})
        else:
            cons.append({"tt": draw(st.lists(st.integers(0, 1), min_size=2**n, max_size=2**n))})
    reps = 2 if (n <= 2 and m <= 2 and draw(st.integers(0, 3)) == 0) else 1
    return {"n": n, "cons": cons, "dtype": draw(st.sampled_from(["float64", "int64"])), "reps": reps}


def check_bcs(case):
    G = _Game()
    spec = {"fam": "bcs", "n": case["n"], "cons": case["cons"]}
    cons = H.bcs_constraints(spec, dtype=case["dtype"])
    keep = [c.copy() for c in cons]
    game = G.from_bcs_game(cons, case["reps"]) if case["reps"] != 1 else G.from_bcs_game(cons)
    req(all(np.array_equal(a, b) for a, b in zip(cons, keep)), "from_bcs_game modified the constraints", "bcs:mutated-input")
    eprob, epred = H.bcs_reference(keep)
    prob1, pred1 = eprob, epred
    if case["reps"] != 1:
        eprob, epred = H.product_game(eprob, epred, case["reps"])
    gp, gv = np.asarray(game.prob_mat), np.asarray(game.pred_mat)
    req(gv.shape == epred.shape and gp.shape == eprob.shape, f"BCS game shapes {gv.shape}/{gp.shape}, expected {epred.shape}/{eprob.shape}", "bcs:shape")
    req(np.array_equal(gv, epred), "pred_mat[a,b,x,y] is not [a satisfies constraint x and b = a[y]]", "bcs:pred_mat")
    req(np.allclose(gp, eprob, rtol=0, atol=1e-15), "prob_mat is not uniform over (constraint, dependent variable)", "bcs:prob_mat")
    n, m = case["n"], len(cons)
    if case["reps"] == 1 and n <= 3 and (2**n) ** m * 2**n <= H.PAIR_CAP:
        val = _classical_vs_oracle(game, prob1, pred1, what="BCS game: ")
        sat = H.bcs_satisfiable(keep)
        req((val >= 1 - 1e-9) == sat, f"classical value {val!r} of a BCS game that is {'satisfiable' if sat else 'unsatisfiable'}", "bcs:classical-vs-satisfiability")


def nt_bcs(case):
    spec = {"fam": "bcs", "n": case["n"], "cons": case["cons"]}
    prob, _ = H.bcs_reference(H.bcs_constraints(spec))
    deps = {tuple(bool(v) for v in row > 0) for row in prob}
    if len(deps) >= 2:
        return "bcs:different-dependent-sets" + (",reps2" if case["reps"] != 1 else "")
    if case["n"] >= 3:
        return "bcs:n>=3"
    return None


# ------------------------------------------------------------------------------------------------
# 7. histories: one object, any order of value methods
# ------------------------------------------------------------------------------------------------
class GameModel:
    TOLS = {"classical": H.TOL_EXACT, "ns": H.TOL_LP, "npa": H.TOL_LP, "qlb": H.TOL_SDP}

    def __init__(self, cfg):
        self.spec = cfg["game"]
        self.reps = cfg.get("reps", 1)
        self.game, _, pred = _make_game(self.spec, self.reps)
        self.shape = pred.shape
        self.snap = (H.snapshot(self.game.prob_mat), H.snapshot(self.game.pred_mat))
        self.fresh = {}

    def _call(self, game, op, args):
        if op == "classical":
            return _classical_value(game)
        if op == "ns":
            return H.call_value(game.nonsignaling_value)
        if op == "npa":
            k = args["k"]
            lv = _levels_for(self.shape, [k]) or _levels_for(self.shape, ["1+ab"]) or [1]
            return H.call_value(game.commuting_measurement_value_upper_bound, lv[0])
        if op == "qlb":
            with H.pin(args["pin"]):
                return H.call_value(game.quantum_value_lower_bound, dim=args["dim"], iters=args["iters"], tol=args["tol"])
        raise HarnessError(f"unknown op {op}")

    def apply(self, op, args):
        val = self._call(self.game, op, args)
        key = canon([op, args])
        if key not in self.fresh:
            self.fresh[key] = self._call(_make_game(self.spec, self.reps)[0], op, args)
        ref = self.fresh[key]
        if val is None or ref is None:
            raise Inconclusive("solver-no-value")
        req(
            abs(val - ref) <= self.TOLS[op],
            f"{op}{args} returned {val!r} on the used object but {ref!r} on a fresh object of the same game (shape {tuple(self.shape)})",
            f"history:{op}-depends-on-earlier-calls",
        )

    def invariant(self):
        req(H.snapshot(self.game.prob_mat) == self.snap[0], "prob_mat is no longer byte-identical to its initial copy", "mutated:prob_mat")
        req(H.snapshot(self.game.pred_mat) == self.snap[1], "pred_mat is no longer byte-identical to its initial copy", "mutated:pred_mat")


@st.composite
def _history_init(draw):
    if draw(st.integers(0, 9)) == 0:
        spec = draw(_family_game(fams=("xor",), tf=False, small=True))
        spec["X"], spec["Y"], spec["f"] = 2, 2, spec["f"][:4]
        return {"game": spec, "reps": 2}
    return {"game": draw(_family_game(max_entries=64, small=True)), "reps": 1}


HISTORY = HistorySpec(
    init=_history_init(),
    ops={
        "classical": st.just({}),
        "ns": st.just({}),
        "npa": st.fixed_dictionaries({"k": st.sampled_from([1, "1+ab", 2])}),
        "qlb": st.fixed_dictionaries({"dim": st.just(2), "iters": st.integers(1, 2), "tol": st.sampled_from([1e-5, 1e-3]), "pin": st.integers(0, 2**31 - 1)}),
    },
    model=GameModel,
    max_steps=6,
    step_timeout=60.0,
)


def nt_history(case):
    steps = case["steps"]
    if len(steps) >= 3 and len({s[0] for s in steps}) >= 2:
        return f"steps>={min(len(steps), 5)},methods={len({s[0] for s in steps})}"
    return None


SUBCHECKS = [
    SubCheck("classical_bruteforce", check_classical, _classical_case, nt_classical, quick=4000, thorough=60000),
    SubCheck("classical_pool_branch", check_classical_pool, _pool_case, nt_pool, quick=64, thorough=600, shards=2, case_timeout=120),
    SubCheck("classical_pred_dtype", check_classical_dtype, _dtype_case, lambda c: "dtype:" + c["dtype"], quick=300, thorough=3000, shards=4),
    SubCheck("metamorphic_classical", check_meta_classical, lambda: st.builds(lambda g: {"game": g}, _family_game(fams=("xor", "modk", "unique", "bcs", "rand01", "frac16", "float"), max_entries=256)), nt_meta, quick=1200, thorough=20000),
    SubCheck("metamorphic_sdp", check_meta_sdp, _meta_sdp_case, nt_meta, quick=48, thorough=700, case_timeout=150),
    SubCheck("order_chain", check_order, _order_case, nt_order, quick=48, thorough=700, case_timeout=200),
    SubCheck("ns_equals_lp", check_ns, _ns_case, nt_ns, quick=96, thorough=1500, case_timeout=30),
    SubCheck("reps_product", check_reps, _reps_case, nt_reps, quick=800, thorough=12000),
    SubCheck("bcs_game", check_bcs, _bcs_case, nt_bcs, quick=1200, thorough=20000),
    SubCheck("history", HISTORY.replay, machine=HISTORY, nontrivial=nt_history, quick=20, thorough=300, case_timeout=400),
]


# ------------------------------------------------------------------------------------------------
# the SDP-valued methods on 0/1 predicates stored as int64 / bool / float32 (added after seeded change C07-u3 - the
# objective weights of the NPA bound allocated with the predicate's dtype - was missed: only classical_value was ever
# given a non-float64 predicate)
# ------------------------------------------------------------------------------------------------
def check_sdp_values_dtype(case):
    prob, pred = H.build_game(case["game"])
    ref_game = _Game()(prob.copy(), pred.astype(float))
    typed = _Game()(prob.copy(), pred.astype(case["dtype"]))
    exp_c, _how = H.classical_oracle(prob, pred)
    for name, call in (
        ("nonsignaling_value", lambda g: H.call_value(g.nonsignaling_value)),
        ("npa[1]", lambda g: H.call_value(g.commuting_measurement_value_upper_bound, 1)),
    ):
        a, b = call(ref_game), call(typed)
        if a is None or b is None:
            raise Inconclusive("solver-no-value:" + name)
        req(abs(a - b) <= 2e-3, f"{name} = {b:.6f} for the predicate stored as {case['dtype']} but {a:.6f} for the same predicate as float64", "sdp-value-depends-on-predicate-dtype")
        req(b >= exp_c - 2e-3, f"{name} = {b:.6f} (predicate dtype {case['dtype']}) is below the classical value {exp_c:.6f}", "upper-bound-below-classical")
        req(b <= 1 + 2e-3, f"{name} = {b:.6f} (predicate dtype {case['dtype']}) exceeds 1", "value>1")


SUBCHECKS.append(SubCheck("sdp_values_pred_dtype", check_sdp_values_dtype, _dtype_case, lambda c: f"dtype={c['dtype']}", quick=48, thorough=600, case_timeout=90))
