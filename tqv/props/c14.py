"""C14 — entanglement / entropy quantities match closed forms and are invariant under local unitaries.

Functions under test: negativity, log_negativity, entanglement_of_formation, concurrence, schmidt_rank,
schmidt_decomposition, sk_vector_norm, l1_norm_coherence, purity, von_neumann_entropy, is_product,
sk_operator_norm, is_block_positive.

Oracles: closed forms in the Schmidt coefficients of a state that is *constructed* from them
(v = sum_i s_i U e_i (x) V e_i with drawn local unitaries U, V), numpy definitions (trace norm of the reference
partial transpose, eigvalsh entropy, Wootters formula), orthonormality / rebuild round trips, metamorphic
relations (local unitaries, tensor products), achieved values <w|X|v> of explicitly built vectors of Schmidt
rank <= k and operators whose S(k) norm is known in closed form.
"""

from __future__ import annotations

import numpy as np
from hypothesis import strategies as st

from tqv import gen, ref
from tqv.core import Inconclusive, SubCheck, Violation, req

# caller-owned arrays handed to the library must come back unchanged (see tqv/purity.py)
from tqv.purity import install as _install_purity  # noqa: E402

_install_purity('toqito.state_props', 'toqito.state_ops', 'toqito.matrix_props', twice=True, skip_twice=('sk_operator_norm', 'is_block_positive', 'positive_semidefinite_rank', 'is_separable', 'has_symmetric_extension'))

PROPERTY = "C14"
RULE = (
    "Cases are drawn by Hypothesis. Pure bipartite states are built from their Schmidt data: local dims d1,d2 in 2..4 "
    "(unequal allowed), Schmidt rank r in 1..min(d1,d2), coefficients s_i ~ w_i*q^i with integer weights w_i in 1..20 "
    "(equal weights = degenerate) and spread q in {1,0.3,0.05}, local bases 'id' / real orthogonal / Haar unitary from "
    "drawn seeds; the input form (1-D, (N,1), density matrix), the dim-argument form (list, numpy array, scalar, "
    "omitted) and k are drawn. Mixed states are sums of 1..3 product states or full-rank / low-rank Wishart matrices; "
    "operators are built from Hilbert-Schmidt-orthonormal local operator bases so that their operator-Schmidt "
    "coefficients are known. S(k)-norm inputs: Wishart PSD matrices and projections of drawn rank, b*I + c*|psi><psi| "
    "(psi a Schmidt-constructed state), locally rotated Werner operators and PSD products (all three with a closed-form "
    "S(k) norm), rank-one |a><b|, Hermitian indefinite and general complex matrices, with k, effort and a seed for "
    "numpy's global RNG drawn; block-positivity inputs: PSD, partial transposes of NPT states (+eps*I), locally "
    "rotated swap + eps*I, and A - (<v|A|v>+t)|v><v| with v of drawn Schmidt rank <= k. A case is non-trivial when the local dims are unequal, the Schmidt rank (or number of "
    "operator-Schmidt terms) is >= 2 and the coefficients are not all equal; for product tests when a non-product "
    "input has >= 3 parties or unequal dims; for S(k) norms / block positivity when k < min(d) and the operator is "
    "neither rank one nor a product (the bounds are not trivially the operator norm). distinct = distinct SHA-1 of "
    "the canonical case JSON among non-trivial cases."
)
ASSUMPTIONS = [
    "entanglement_of_formation takes a column vector (N,1) or a density matrix (it unpacks a 2-D shape; 1-D arrays are not an accepted form)",
    "concurrence takes a 4x4 density matrix only; sk_vector_norm takes vectors only",
    "two-qubit concurrence (square roots of eigenvalues of a singular non-Hermitian product) is compared at 1e-6, all other closed forms at 1e-9",
    "l1-norm of coherence is basis dependent: invariance is asserted under local permutation-and-phase unitaries only",
    "is_product uses a fixed threshold of prod(dim) machine spacings: True is asserted only for Kronecker products whose "
    "second singular value (independent numpy SVD) is below a quarter of that threshold, False only when the second "
    "Schmidt coefficient is >= 1e-3",
    "operators given to the operator-Schmidt functions and to is_product have square local factors",
    "sk_operator_norm bounds that come from the SCS semidefinite programs are compared with tolerance 2e-3*||X||; "
    "an upper bound can only be refuted by an achieved value or by a closed-form S(k) norm, a lower bound only by a "
    "closed-form S(k) norm",
    "is_block_positive verdicts are asserted only by margin: True on PSD input and on operators whose product-vector "
    "expectations are >= 1e-2*||X||, False when some vector of Schmidt rank <= k has expectation <= -2e-2*||X||; the "
    "docstring examples (swap operator d = 2,3,4) are replayed literally",
    "numpy's legacy global RNG (np.random.randn inside the S(k) randomised lower bound) is pinned with np.random.seed(drawn)",
    "numpy SVD / eigvalsh / reshape (row-major) are trusted as reference linear algebra",
]

TOL = 1e-9
TOL_SQRT = 1e-6  # square roots of (numerically) zero eigenvalues
TOL_SDP = 2e-3

DIMS = [(2, 2), (2, 3), (3, 2), (3, 3), (2, 4), (4, 2), (3, 4), (4, 3), (4, 4)]


# ------------------------------------------------------------------------------------------------------
# builders (pure functions of the drawn case)
# ------------------------------------------------------------------------------------------------------
def _basis(kind, seed, d):
    if kind == "id":
        return np.eye(d, dtype=complex)
    return gen.rand_unitary(seed, d, real=(kind == "real")).astype(complex)


def _coefs(w, q):
    s = np.array([float(wi) * float(q) ** i for i, wi in enumerate(w)])
    s = np.sort(s)[::-1]
    return s / np.linalg.norm(s)


def _schmidt_state(sp):
    """-> (v, s) with v = sum_i s_i U e_i (x) V e_i, s sorted decreasingly, ||v|| = 1."""
    d1, d2 = sp["d"]
    s = _coefs(sp["w"], sp["q"])
    U = _basis(sp["ua"][0], sp["ua"][1], d1)
    V = _basis(sp["ub"][0], sp["ub"][1], d2)
    v = np.zeros(d1 * d2, dtype=complex)
    for i, si in enumerate(s):
        v = v + si * np.kron(U[:, i], V[:, i])
    if sp["ua"][0] != "haar" and sp["ub"][0] != "haar":
        v = v.real.astype(float) if sp.get("realdtype", False) else v
    return v, s


_KIND = st.sampled_from(["id", "real", "haar", "haar"])


@st.composite
def _ubasis(draw):
    return [draw(_KIND), draw(gen.SEED)]


@st.composite
def _state_spec(draw, dims=None, rmin=1, q_choices=(1.0, 0.3, 0.05)):
    d1, d2 = draw(st.sampled_from(dims or DIMS))
    m = min(d1, d2)
    r = max(min(rmin, m), min(m, draw(st.integers(1, m + 2))))  # every rank occurs, full rank most often
    w = draw(st.lists(st.integers(1, 20), min_size=r, max_size=r))
    if draw(st.integers(0, 5)) == 0:
        w = [w[0]] * r  # all equal on purpose
    return {"d": [d1, d2], "w": w, "q": draw(st.sampled_from(list(q_choices))), "ua": draw(_ubasis()), "ub": draw(_ubasis()), "realdtype": draw(st.booleans())}


def _form(v, form):
    if form == "1d":
        return v
    if form == "col":
        return v.reshape(-1, 1)
    return np.outer(v, v.conj())


def _dimarg(d, dimform):
    if dimform == "list":
        return [int(d[0]), int(d[1])]
    if dimform == "array":
        return np.array([int(d[0]), int(d[1])])
    if dimform == "scalar":
        return int(d[0])
    return None


def _dimforms(draw, d, allowed=("list", "array", "scalar", "omitted")):
    forms = [f for f in allowed if f != "omitted" or d[0] == d[1]]
    return draw(st.sampled_from(forms))


def _degenerate(w, q):
    s = _coefs(w, q)
    return len(s) >= 2 and np.allclose(s, s[0])


def _nt_state(sp):
    d = sp["d"]
    if d[0] != d[1] and len(sp["w"]) >= 2 and not _degenerate(sp["w"], sp["q"]):
        return True
    return False


def _close(a, b, tol):
    return bool(np.isfinite(a)) and abs(a - b) <= tol


def _scalar(x, what):
    x = np.asarray(x)
    req(x.size == 1, f"{what}: expected a scalar, got shape {x.shape}", "shape")
    x = x.reshape(-1)[0]
    if np.iscomplexobj(x):
        req(abs(x.imag) <= TOL, f"{what}: imaginary part {x.imag}", "value")
        x = x.real
    return float(x)


def _h(p):
    p = np.asarray(p, dtype=float)
    p = p[p > 0]
    return float(-np.sum(p * np.log2(p)))


def _entropy_ref(rho):
    w = np.linalg.eigvalsh((rho + rho.conj().T) / 2)
    return _h(np.clip(w, 0, None))


def _negativity_ref(rho, d):
    return (ref.trace_norm(ref.partial_transpose(rho, [1], list(d))) - 1) / 2


def _concurrence_ref(rho):
    sy = np.array([[0, -1j], [1j, 0]])
    yy = np.kron(sy, sy)
    rt = yy @ rho.conj() @ yy
    sq = ref.psd_sqrt(rho)
    m = sq @ rt @ sq
    lam = np.sqrt(np.clip(np.linalg.eigvalsh((m + m.conj().T) / 2), 0, None))[::-1]
    return max(0.0, float(lam[0] - lam[1] - lam[2] - lam[3]))


def _eof_from_c(c):
    x = (1 + np.sqrt(max(0.0, 1 - c * c))) / 2
    return _h([x, 1 - x])


# ------------------------------------------------------------------------------------------------------
# 1. closed forms on pure states
# ------------------------------------------------------------------------------------------------------
@st.composite
def _pure_case(draw):
    sp = draw(_state_spec())
    d = sp["d"]
    return {
        "st": sp,
        "form": draw(st.sampled_from(["1d", "col", "dm"])),
        "dimform": _dimforms(draw, d, ("list", "scalar", "omitted")),
        "k": draw(st.integers(1, min(d) + 1)),
        "kdimform": _dimforms(draw, d),
        "vform": draw(st.sampled_from(["1d", "col"])),
    }


def check_pure_closed_forms(case):
    from toqito.state_props import (
        concurrence,
        entanglement_of_formation,
        l1_norm_coherence,
        log_negativity,
        negativity,
        sk_vector_norm,
    )

    sp = case["st"]
    d = sp["d"]
    v, s = _schmidt_state(sp)
    x = _form(v, case["form"])
    dim = _dimarg(d, case["dimform"])
    tot = float(np.sum(s))

    out = _scalar(negativity(x, dim), "negativity")
    req(_close(out, (tot**2 - 1) / 2, TOL), f"negativity {out} != ((sum s)^2-1)/2 = {(tot**2 - 1) / 2} (s={s.tolist()}, dims {d})", "negativity")
    out = _scalar(log_negativity(x, dim), "log_negativity")
    req(_close(out, np.log2(tot**2), TOL), f"log_negativity {out} != log2 (sum s)^2 = {np.log2(tot**2)} (s={s.tolist()}, dims {d})", "log_negativity")

    xe = _form(v, "col" if case["form"] == "1d" else case["form"])
    out = _scalar(entanglement_of_formation(xe, dim), "entanglement_of_formation")
    req(_close(out, _h(s**2), TOL), f"entanglement_of_formation {out} != H(s^2) = {_h(s**2)} (s={s.tolist()}, dims {d})", "eof")

    k = case["k"]
    out = _scalar(sk_vector_norm(_form(v, case["vform"]), k, _dimarg(d, case["kdimform"])), "sk_vector_norm")
    exp = float(np.sqrt(np.sum(s[:k] ** 2)))
    req(_close(out, exp, TOL), f"sk_vector_norm(k={k}) {out} != sqrt(sum of the k largest s^2) = {exp} (s={s.tolist()}, dims {d})", "sk_vector_norm")

    rho = np.outer(v, v.conj())
    out = _scalar(l1_norm_coherence(x), "l1_norm_coherence")
    exp = float(np.sum(np.abs(rho)) - np.sum(np.abs(np.diag(rho))))
    req(_close(out, exp, TOL), f"l1_norm_coherence {out} != sum_(i!=j)|rho_ij| = {exp}", "l1_norm_coherence")

    if d == [2, 2]:
        out = _scalar(concurrence(rho), "concurrence")
        exp = 2 * s[0] * s[1] if len(s) > 1 else 0.0
        req(_close(out, exp, TOL_SQRT), f"two-qubit concurrence {out} != 2 s0 s1 = {exp}", "concurrence")


def nt_pure(case):
    return "unequal-dims,rank>=2,nondegenerate" if _nt_state(case["st"]) else None


# ------------------------------------------------------------------------------------------------------
# 2. Schmidt rank (vectors and operators), local-unitary invariance of the operator Schmidt rank
# ------------------------------------------------------------------------------------------------------
def _op_basis(seed, d):
    """d*d Hilbert-Schmidt-orthonormal d x d operators: B[:, :, i]."""
    u = gen.rand_unitary(seed, d * d)
    return u.reshape(d, d, d * d)


def _op_from_spec(op):
    """X = sum_i c_i A_i (x) B_i with HS-orthonormal {A_i}, {B_i}: operator-Schmidt coefficients are exactly c."""
    d1, d2 = op["d"]
    c = _coefs(op["w"], op["q"]) * float(op.get("scale", 1.0))
    A = _op_basis(op["sa"], d1)
    B = _op_basis(op["sb"], d2)
    X = np.zeros((d1 * d2, d1 * d2), dtype=complex)
    for i, ci in enumerate(c):
        X = X + ci * np.kron(A[:, :, i], B[:, :, i])
    return X, c


@st.composite
def _op_spec(draw, dims=None, mmax=None):
    d1, d2 = draw(st.sampled_from(dims or DIMS))
    top = min(d1 * d1, d2 * d2)
    m = draw(st.integers(1, min(top, mmax or top)))
    w = draw(st.lists(st.integers(1, 20), min_size=m, max_size=m))
    if draw(st.integers(0, 3)) == 0:
        w = [w[0]] * m
    return {"d": [d1, d2], "w": w, "q": draw(st.sampled_from([1.0, 0.5])), "sa": draw(gen.SEED), "sb": draw(gen.SEED), "scale": draw(st.sampled_from([1.0, 3.0, 0.25]))}


def _mixed_from_spec(ms):
    """A density matrix of the drawn kind on d1 x d2."""
    d1, d2 = ms["d"]
    n = d1 * d2
    if ms["kind"] == "sep":
        g = gen.rng(ms["seed"])
        p = gen.rand_probs(int(g.integers(0, 2**31)), ms["m"], floor=0.1)
        rho = np.zeros((n, n), dtype=complex)
        for i in range(ms["m"]):
            a = gen.rand_density(int(g.integers(0, 2**62)), d1, rank=int(g.integers(1, d1 + 1)))
            b = gen.rand_density(int(g.integers(0, 2**62)), d2, rank=int(g.integers(1, d2 + 1)))
            rho = rho + p[i] * np.kron(a, b)
    elif ms["kind"] == "wishart":
        rho = gen.rand_density(ms["seed"], n, rank=ms["m"])
    else:  # noisy pure entangled state: (1-p)|psi><psi| + p I/n
        v = gen.rand_ket(ms["seed"], n)
        p = [0.0, 0.1, 0.5, 0.9][ms["m"] % 4]
        rho = (1 - p) * np.outer(v, v.conj()) + p * np.eye(n) / n
    rho = (rho + rho.conj().T) / 2
    return rho / np.trace(rho).real


@st.composite
def _mixed_spec(draw, dims=None):
    d1, d2 = draw(st.sampled_from(dims or DIMS))
    kind = draw(st.sampled_from(["sep", "wishart", "noisy"]))
    if kind == "sep":
        m = draw(st.integers(1, 3))
    elif kind == "wishart":
        m = draw(st.integers(1, d1 * d2))
    else:
        m = draw(st.integers(0, 3))
    return {"d": [d1, d2], "kind": kind, "m": m, "seed": draw(gen.SEED)}


def _lu(d, wa, wb):
    return np.kron(_basis(wa[0], wa[1], d[0]), _basis(wb[0], wb[1], d[1]))


def _op_schmidt_ref(X, d):
    d1, d2 = d
    r = ref.realignment(X, [d1, d2], [d1, d2])
    return np.linalg.svd(r, compute_uv=False)


def _rank_by_gap(sv):
    """number of singular values above 1e-6*s0, or None when the spectrum has no clear gap there."""
    s0 = sv[0]
    big = int(np.sum(sv > 1e-6 * s0))
    if np.any((sv <= 1e-6 * s0) & (sv > 1e-11 * s0)):
        return None
    return big


def _schmidt_rank_case(dims):
    @st.composite
    def strat(draw):
        kind = draw(st.sampled_from(["vec", "vec", "op", "mixed"]))
        case = {"kind": kind}
        if kind == "vec":
            sp = draw(_state_spec(dims=dims))
            case.update(st=sp, form=draw(st.sampled_from(["1d", "col", "dm"])), dimform=_dimforms(draw, sp["d"]))
        elif kind == "op":
            op = draw(_op_spec(dims=dims, mmax=6))
            case.update(op=op, dimform=_dimforms(draw, op["d"]))
        else:
            ms = draw(_mixed_spec(dims=dims))
            case.update(ms=ms, dimform=_dimforms(draw, ms["d"]))
        case["wa"] = draw(_ubasis())
        case["wb"] = draw(_ubasis())
        return case

    return strat()


def _sr_sig(d):
    return "schmidt_rank:unequal-dims" if d[0] != d[1] else "schmidt_rank:value"


def check_schmidt_rank(case):
    from toqito.state_props import schmidt_rank

    kind = case["kind"]
    if kind == "vec":
        sp = case["st"]
        d = sp["d"]
        v, s = _schmidt_state(sp)
        r = len(s)
        W = _lu(d, case["wa"], case["wb"])
        dim = _dimarg(d, case["dimform"])
        for tag, vec in (("", v), (" after a local unitary", W @ v)):
            x = _form(vec, case["form"])
            out = schmidt_rank(x, dim)
            exp = r * r if case["form"] == "dm" else r
            req(int(out) == exp, f"schmidt_rank{tag} = {out}, expected {exp} (dims {d}, Schmidt coefficients {s.tolist()}, form {case['form']}, dim form {case['dimform']})", _sr_sig(d))
        return
    if kind == "op":
        X, c = _op_from_spec(case["op"])
        d = case["op"]["d"]
        exp = len(c)
    else:
        X = _mixed_from_spec(case["ms"])
        d = case["ms"]["d"]
        exp = _rank_by_gap(_op_schmidt_ref(X, d))
        if exp is None:
            raise Inconclusive("no-gap-in-operator-schmidt-spectrum")
    W = _lu(d, case["wa"], case["wb"])
    dim = _dimarg(d, case["dimform"])
    out = schmidt_rank(X, dim)
    req(int(out) == exp, f"operator Schmidt rank = {out}, expected {exp} (dims {d}, {kind})", _sr_sig(d))
    out2 = schmidt_rank(W @ X @ W.conj().T, dim)
    req(int(out2) == exp, f"operator Schmidt rank after a local unitary = {out2}, expected {exp} (dims {d}, {kind})", _sr_sig(d))


def nt_schmidt_rank(case):
    if case["kind"] == "vec":
        return "vec:unequal-dims,rank>=2,nondegenerate" if _nt_state(case["st"]) else None
    if case["kind"] == "op":
        op = case["op"]
        return "op:unequal-dims,terms>=2" if op["d"][0] != op["d"][1] and len(op["w"]) >= 2 else None
    ms = case["ms"]
    return "mixed:unequal-dims" if ms["d"][0] != ms["d"][1] and not (ms["kind"] == "sep" and ms["m"] == 1) else None


def nt_schmidt_rank_eq(case):
    """equal local dims (the sub-check that stays meaningful while the unequal-dims defect is open)"""
    if case["kind"] == "vec":
        return "vec:rank>=2,nondegenerate" if len(case["st"]["w"]) >= 2 and not _degenerate(case["st"]["w"], case["st"]["q"]) else None
    if case["kind"] == "op":
        return "op:terms>=2" if len(case["op"]["w"]) >= 2 else None
    return "mixed" if not (case["ms"]["kind"] == "sep" and case["ms"]["m"] == 1) else None


# ------------------------------------------------------------------------------------------------------
# 3. Schmidt decomposition of vectors
# ------------------------------------------------------------------------------------------------------
@st.composite
def _sd_vec_case(draw):
    sp = draw(_state_spec())
    d = sp["d"]
    return {"st": sp, "form": draw(st.sampled_from(["1d", "col"])), "dimform": _dimforms(draw, d, ("list", "array", "omitted")), "k": draw(st.integers(0, min(d))), "scale": draw(st.sampled_from([1.0, 1.0, 2.5, 0.125]))}


def _check_sd_vector(out, v, s, d, k, sigp=""):
    d1, d2 = d
    req(isinstance(out, tuple) and len(out) == 3, "schmidt_decomposition did not return three arrays", sigp + "shape")
    sv, A, B = (np.asarray(o) for o in out)
    sv = sv.reshape(-1)
    n = sv.size
    scale = max(1.0, float(np.linalg.norm(v)))
    req(A.ndim == 2 and B.ndim == 2 and A.shape == (d1, n) and B.shape == (d2, n), f"factor shapes {A.shape}, {B.shape} for dims {d} and {n} coefficients", sigp + "shape")
    req(np.all(sv >= -TOL) and np.all(np.diff(sv) <= TOL * scale), f"coefficients not non-negative and decreasing: {sv.tolist()}", sigp + "order")
    r = len(s)
    want = min(d1, d2) if k == 0 else k
    if k == 0:
        req(r <= n <= min(d1, d2), f"{n} coefficients returned for a state of Schmidt rank {r}", sigp + "count")
    else:
        req(n == k, f"k_param={k} but {n} coefficients returned", sigp + "count")
    full = np.zeros(max(n, r, want))
    full[:r] = s
    req(np.allclose(sv, full[:n], rtol=0, atol=TOL * scale), f"coefficients {sv.tolist()} != constructed Schmidt coefficients {full[:n].tolist()} (dims {d})", sigp + "coefficients")
    req(np.allclose(A.conj().T @ A, np.eye(n), atol=TOL) and np.allclose(B.conj().T @ B, np.eye(n), atol=TOL), "returned factors are not orthonormal", sigp + "orthonormal")
    rebuilt = np.zeros(d1 * d2, dtype=complex)
    for i in range(n):
        rebuilt = rebuilt + sv[i] * np.kron(A[:, i], B[:, i])
    if n >= r:
        req(np.allclose(rebuilt, v.reshape(-1), rtol=0, atol=TOL * scale), f"sum_i s_i a_i (x) b_i does not rebuild the vector (max err {np.max(np.abs(rebuilt - v.reshape(-1)))}, dims {d})", sigp + "rebuild")
    else:
        # truncated: each returned pair must still be a Schmidt pair of v
        M = v.reshape(d1, d2)
        for i in range(n):
            req(abs(A[:, i].conj() @ M @ B[:, i].conj() - sv[i]) <= TOL * scale, "truncated decomposition: <a_i (x) b_i | v> != s_i", sigp + "rebuild")


def check_sd_vec(case):
    from toqito.state_ops import schmidt_decomposition

    sp = case["st"]
    v, s = _schmidt_state(sp)
    v = v * case["scale"]
    s = s * case["scale"]
    out = schmidt_decomposition(_form(v, case["form"]), _dimarg(sp["d"], case["dimform"]), case["k"])
    _check_sd_vector(out, v, s, sp["d"], case["k"])


def nt_sd_vec(case):
    return "unequal-dims,rank>=2,nondegenerate" if _nt_state(case["st"]) else None


# ------------------------------------------------------------------------------------------------------
# 4. operator Schmidt decomposition
# ------------------------------------------------------------------------------------------------------
@st.composite
def _sd_op_case(draw):
    src = draw(st.sampled_from(["basis", "basis", "mixed", "pure"]))
    case = {"src": src}
    if src == "basis":
        case["op"] = draw(_op_spec())
        d = case["op"]["d"]
    elif src == "mixed":
        case["ms"] = draw(_mixed_spec())
        d = case["ms"]["d"]
    else:
        case["st"] = draw(_state_spec())
        d = case["st"]["d"]
    case["dimform"] = _dimforms(draw, d, ("list", "array", "scalar", "omitted", "rc"))
    case["k"] = draw(st.integers(0, 3))
    return case


def _sd_op_input(case):
    if case["src"] == "basis":
        X, c = _op_from_spec(case["op"])
        return X, case["op"]["d"], c
    if case["src"] == "mixed":
        X = _mixed_from_spec(case["ms"])
        return X, case["ms"]["d"], None
    v, s = _schmidt_state(case["st"])
    return np.outer(v, v.conj()), case["st"]["d"], np.sort(np.outer(s, s).reshape(-1))[::-1]


def check_sd_op(case):
    from toqito.state_ops import schmidt_decomposition

    X, d, c = _sd_op_input(case)
    d1, d2 = d
    dim = [[d1, d2], [d1, d2]] if case["dimform"] == "rc" else _dimarg(d, case["dimform"])
    k = case["k"]
    out = schmidt_decomposition(X, dim, k)
    req(isinstance(out, tuple) and len(out) == 3, "schmidt_decomposition did not return three arrays", "op:shape")
    sv, A, B = (np.asarray(o) for o in out)
    sv = sv.reshape(-1)
    n = sv.size
    sref = _op_schmidt_ref(X, d)
    scale = max(1.0, float(sref[0]))
    req(A.shape == (d1, d1, n) and B.shape == (d2, d2, n), f"operator factor shapes {A.shape}, {B.shape} for dims {d}, {n} coefficients", "op:shape")
    if k > 0:
        req(n == min(k, sref.size), f"k_param={k} but {n} coefficients returned", "op:count")
    req(np.allclose(sv, sref[:n], rtol=0, atol=TOL * scale), f"operator-Schmidt coefficients {sv.tolist()} != singular values of the realigned operator {sref[:n].tolist()}", "op:coefficients")
    if c is not None:
        m = min(n, len(c))
        req(np.allclose(sv[:m], np.asarray(c)[:m], rtol=0, atol=TOL * scale), f"operator-Schmidt coefficients {sv.tolist()} != constructed coefficients {np.asarray(c).tolist()}", "op:coefficients")
    Am = A.reshape(d1 * d1, n)
    Bm = B.reshape(d2 * d2, n)
    req(np.allclose(Am.conj().T @ Am, np.eye(n), atol=TOL) and np.allclose(Bm.conj().T @ Bm, np.eye(n), atol=TOL), "returned operator factors are not Hilbert-Schmidt orthonormal", "op:orthonormal")
    rebuilt = np.zeros_like(X, dtype=complex)
    for i in range(n):
        rebuilt = rebuilt + sv[i] * np.kron(A[:, :, i], B[:, :, i])
    if k == 0:
        req(np.allclose(rebuilt, X, rtol=0, atol=TOL * scale), f"sum_i s_i A_i (x) B_i does not rebuild the operator (max err {np.max(np.abs(rebuilt - X))}, dims {d})", "op:rebuild")
    else:
        # the k-term sum must be a best k-term approximation: the error is the tail of the spectrum
        err = np.linalg.norm(rebuilt - X)
        tail = float(np.sqrt(np.sum(sref[n:] ** 2)))
        req(abs(err - tail) <= 1e-8 * scale, f"k-term operator-Schmidt sum has error {err}, the optimal k-term error is {tail}", "op:rebuild")


def nt_sd_op(case):
    d = (case.get("op") or case.get("ms") or case.get("st"))["d"]
    if d[0] == d[1]:
        return None
    if case["src"] == "basis":
        return "op:unequal-dims,terms>=2" if len(case["op"]["w"]) >= 2 else None
    return "op:unequal-dims," + case["src"]


# ------------------------------------------------------------------------------------------------------
# 5. mixed states: reference values and invariance under local unitaries
# ------------------------------------------------------------------------------------------------------
@st.composite
def _mixed_case(draw):
    ms = draw(_mixed_spec())
    d = ms["d"]
    return {
        "ms": ms,
        "dimform": _dimforms(draw, d, ("list", "scalar", "omitted")),
        "wa": draw(_ubasis()),
        "wb": draw(_ubasis()),
        "pa": list(draw(st.permutations(list(range(d[0]))))),
        "pb": list(draw(st.permutations(list(range(d[1]))))),
        "phseed": draw(gen.SEED),
    }


def check_mixed_lu(case):
    from toqito.state_props import (
        concurrence,
        entanglement_of_formation,
        l1_norm_coherence,
        log_negativity,
        negativity,
        purity,
        von_neumann_entropy,
    )

    ms = case["ms"]
    d = ms["d"]
    rho = _mixed_from_spec(ms)
    W = _lu(d, case["wa"], case["wb"])
    rho2 = W @ rho @ W.conj().T
    rho2 = (rho2 + rho2.conj().T) / 2
    dim = _dimarg(d, case["dimform"])
    exp_neg = _negativity_ref(rho, d)
    exp_pur = float(np.real(np.trace(rho @ rho)))
    exp_ent = _entropy_ref(rho)
    for tag, r_ in (("", rho), (" after a local unitary", rho2)):
        out = _scalar(negativity(r_, dim), "negativity")
        req(_close(out, exp_neg, TOL), f"negativity{tag} {out} != (||rho^Gamma||_1 - 1)/2 = {exp_neg} (dims {d})", "negativity")
        out = _scalar(log_negativity(r_, dim), "log_negativity")
        req(_close(out, np.log2(2 * exp_neg + 1), TOL), f"log_negativity{tag} {out} != log2||rho^Gamma||_1 = {np.log2(2 * exp_neg + 1)} (dims {d})", "log_negativity")
        out = _scalar(purity(r_), "purity")
        req(_close(out, exp_pur, TOL), f"purity{tag} {out} != Tr rho^2 = {exp_pur}", "purity")
        out = _scalar(von_neumann_entropy(r_), "von_neumann_entropy")
        req(_close(out, exp_ent, TOL), f"von_neumann_entropy{tag} {out} != -sum l log2 l = {exp_ent}", "entropy")
        if d == [2, 2]:
            c_ref = _concurrence_ref(rho)
            out = _scalar(concurrence(r_), "concurrence")
            req(_close(out, c_ref, TOL_SQRT), f"concurrence{tag} {out} != Wootters value {c_ref}", "concurrence")
            rank = int(np.sum(np.linalg.eigvalsh(rho) > 1e-9))
            if rank > 1:  # rank one is the pure-state branch (covered by pure_closed_forms)
                out = _scalar(entanglement_of_formation(r_, dim), "entanglement_of_formation")
                req(_close(out, _eof_from_c(c_ref), 10 * TOL_SQRT), f"two-qubit entanglement_of_formation{tag} {out} != h((1+sqrt(1-C^2))/2) = {_eof_from_c(c_ref)}", "eof")
    # l1 coherence: definition, and invariance under local permutation-and-phase unitaries
    g = gen.rng(case["phseed"])
    pa = np.eye(d[0])[:, case["pa"]] * np.exp(1j * g.uniform(0, 2 * np.pi, size=d[0]))
    pb = np.eye(d[1])[:, case["pb"]] * np.exp(1j * g.uniform(0, 2 * np.pi, size=d[1]))
    P = np.kron(pa, pb)
    exp_l1 = float(np.sum(np.abs(rho)) - np.sum(np.abs(np.diag(rho))))
    for tag, r_ in (("", rho), (" after a local permutation-and-phase unitary", P @ rho @ P.conj().T)):
        out = _scalar(l1_norm_coherence(r_), "l1_norm_coherence")
        req(_close(out, exp_l1, TOL), f"l1_norm_coherence{tag} {out} != sum_(i!=j)|rho_ij| = {exp_l1}", "l1_norm_coherence")


def nt_mixed(case):
    ms = case["ms"]
    if ms["d"][0] != ms["d"][1] and not (ms["kind"] == "sep" and ms["m"] == 1):
        return "mixed:unequal-dims," + ms["kind"]
    return None


# ------------------------------------------------------------------------------------------------------
# 6. entropy / purity: products, pure states, maximally mixed states
# ------------------------------------------------------------------------------------------------------
@st.composite
def _entropy_case(draw):
    da = draw(st.integers(2, 4))
    db = draw(st.integers(2, 4))
    return {
        "da": da,
        "db": db,
        "ra": draw(st.integers(1, da)),
        "rb": draw(st.integers(1, db)),
        "sa": draw(gen.SEED),
        "sb": draw(gen.SEED),
        "real": draw(st.booleans()),
        "dmax": draw(st.integers(2, 16)),
        "u": draw(_ubasis()),
    }


def check_entropy(case):
    from toqito.state_props import purity, von_neumann_entropy

    a = gen.rand_density(case["sa"], case["da"], case["ra"], case["real"])
    b = gen.rand_density(case["sb"], case["db"], case["rb"], case["real"])
    ab = np.kron(a, b)
    ha, hb, hab = (_scalar(von_neumann_entropy(m), "von_neumann_entropy") for m in (a, b, ab))
    req(_close(hab, ha + hb, TOL), f"entropy not additive on a product: H(a(x)b)={hab}, H(a)+H(b)={ha + hb}", "entropy:additive")
    req(_close(hab, _entropy_ref(a) + _entropy_ref(b), TOL), f"H(a(x)b)={hab} != reference {_entropy_ref(a) + _entropy_ref(b)}", "entropy")
    pa, pb, pab = (_scalar(purity(m), "purity") for m in (a, b, ab))
    req(_close(pab, pa * pb, TOL), f"purity not multiplicative on a product: {pab} vs {pa * pb}", "purity:product")
    # pure state: entropy 0, purity 1
    n = case["da"] * case["db"]
    v = gen.rand_ket(case["sa"] ^ 0x5A5A, n, case["real"])
    p = np.outer(v, v.conj())
    req(_close(_scalar(von_neumann_entropy(p), "von_neumann_entropy"), 0.0, TOL), "entropy of a pure state is not 0", "entropy:pure")
    req(_close(_scalar(purity(p), "purity"), 1.0, TOL), "purity of a pure state is not 1", "purity:pure")
    # maximally mixed (also in a rotated basis: U (I/d) U* = I/d up to rounding)
    dm = case["dmax"]
    U = _basis(case["u"][0], case["u"][1], dm)
    mm = U @ (np.eye(dm) / dm) @ U.conj().T
    mm = (mm + mm.conj().T) / 2
    req(_close(_scalar(von_neumann_entropy(mm), "von_neumann_entropy"), np.log2(dm), TOL), f"entropy of the maximally mixed state on {dm} levels is not log2 {dm}", "entropy:maxmixed")
    req(_close(_scalar(purity(mm), "purity"), 1.0 / dm, TOL), f"purity of the maximally mixed state on {dm} levels is not 1/{dm}", "purity:maxmixed")


def nt_entropy(case):
    return "mixed(x)mixed" if case["ra"] >= 2 and case["rb"] >= 2 else None


# ------------------------------------------------------------------------------------------------------
# 7. is_product on vectors (2 or 3 parties)
# ------------------------------------------------------------------------------------------------------
def _qetlab_stage(v, d2):
    """One bipartite step of the product test on the same matrix layout the algorithm prescribes (amplitudes reshaped
    column-major to d2[1] x d2[0]); returns (ratio of s1 to the threshold prod(d2)*spacing(s0), left factor)."""
    M = np.asarray(v).reshape([int(d2[1]), int(d2[0])], order="F")
    U, S, Vh = np.linalg.svd(M)
    ratio = 0.0 if S.size < 2 else float(S[1] / (int(d2[0]) * int(d2[1]) * np.spacing(S[0])))
    return ratio, Vh[0, :] * np.sqrt(S[0])


def _product_ratio(v, d):
    """How far inside the product test's own fixed threshold a Kronecker product of len(d) <= 3 factors is (<= 1 means
    'inside').  Independent numpy SVDs that follow the documented recursion (cut (0 1 | 2) first, then the left factor
    (0 | 1)) in the prescribed matrix layout and, in addition, in the row-major layout; the maximum is returned."""
    d = [int(k) for k in d]
    v = np.asarray(v).reshape(-1)
    if len(d) == 2:
        return max(_qetlab_stage(v, d)[0], _spacing_ratio(v.reshape(d)))
    r1, left = _qetlab_stage(v, [d[0] * d[1], d[2]])
    r2, _ = _qetlab_stage(left, [d[0], d[1]])
    M = v.reshape(d[0] * d[1], d[2])
    U, S, _ = np.linalg.svd(M, full_matrices=False)
    r3 = _spacing_ratio((U[:, 0] * np.sqrt(S[0])).reshape(d[0], d[1]))
    return max(r1, r2, r3, _spacing_ratio(M), _spacing_ratio(v.reshape(d[0], d[1] * d[2])))


def _spacing_ratio(M):
    """second singular value of M in units of toqito's threshold prod(shape)*spacing(s0)."""
    sv = np.linalg.svd(M, compute_uv=False)
    if sv.size < 2:
        return 0.0
    return float(sv[1] / (M.shape[0] * M.shape[1] * np.spacing(sv[0])))


def _small_vec(ints, cplx):
    a = np.array(ints[0::2], dtype=float)
    if cplx:
        a = a + 1j * np.array(ints[1::2], dtype=float)
    if not np.any(a):
        a[0] = 1.0
    return a


@st.composite
def _factor(draw, d):
    """a local vector: small Gaussian integers (exact Kronecker products) or a seed."""
    if draw(st.booleans()):
        return {"ints": draw(st.lists(st.integers(-3, 3), min_size=2 * d, max_size=2 * d)), "cplx": draw(st.booleans())}
    return {"seed": draw(gen.SEED), "real": draw(st.booleans())}


def _build_factor(f, d):
    if "ints" in f:
        return _small_vec(f["ints"], f["cplx"])[:d]
    return gen.rand_ket(f["seed"], d, f["real"])


@st.composite
def _isprod_vec_case(draw):
    n = draw(st.sampled_from([2, 2, 3]))
    if n == 2:
        d = list(draw(st.sampled_from(DIMS)))
    else:
        d = draw(gen.dims(n=3, lo=2, hi=4, budget=36))
    kind = draw(st.sampled_from(["product", "product", "entangled"]))
    case = {"d": d, "kind": kind, "form": draw(st.sampled_from(["1d", "col"]))}
    if kind == "product":
        case["f"] = [draw(_factor(k)) for k in d]
    else:
        # which pair carries the entanglement (for n = 3), and the Schmidt data of that pair
        pair = [0, 1] if n == 2 else draw(st.sampled_from([[0, 1], [1, 2], [0, 2], [0, 1, 2]]))
        case["pair"] = pair
        dd = [d[pair[0]], d[pair[1]]]
        r = draw(st.integers(2, min(dd)))
        if draw(st.booleans()):
            case["eps"] = draw(st.sampled_from([1e-3, 1e-2, 0.1, 0.5]))
            w, q = [1] * 2, 1.0
        else:
            w, q = draw(st.lists(st.integers(1, 20), min_size=r, max_size=r)), draw(st.sampled_from([1.0, 0.3]))
        case["st"] = {"d": dd, "w": w, "q": q, "ua": draw(_ubasis()), "ub": draw(_ubasis())}
        case["f"] = [draw(_factor(k)) for k in d]
    allowed = ["list", "array"] + (["omitted"] if n == 2 and d[0] == d[1] else [])
    case["dimform"] = draw(st.sampled_from(allowed))
    return case


def _isprod_vector(case):
    """-> (v, is_product, info)"""
    d = case["d"]
    n = len(d)
    fac = [_build_factor(f, k) for f, k in zip(case["f"], d)]
    if case["kind"] == "product":
        return ref.kron_all([x.reshape(-1, 1) for x in fac])[:, 0], True, fac
    sp = dict(case["st"])
    if "eps" in case:
        e = case["eps"]
        # Schmidt coefficients (sqrt(1-e^2), e)
        U = _basis(sp["ua"][0], sp["ua"][1], sp["d"][0])
        V = _basis(sp["ub"][0], sp["ub"][1], sp["d"][1])
        v2 = np.sqrt(1 - e * e) * np.kron(U[:, 0], V[:, 0]) + e * np.kron(U[:, 1], V[:, 1])
    else:
        v2, _ = _schmidt_state(sp)
    pair = case["pair"]
    if n == 2:
        return v2, False, None
    if len(pair) == 3:
        # GHZ-like: sum_i s_i a_i b_i c_i with the third party's vectors orthonormal too
        s = _coefs(sp["w"], sp["q"]) if "eps" not in case else np.array([np.sqrt(1 - case["eps"] ** 2), case["eps"]])
        r = min(len(s), min(d))
        s = s[:r] / np.linalg.norm(s[:r])
        Us = [_basis("haar", sp["ua"][1] + j, d[j]) for j in range(3)]
        v = sum(s[i] * ref.kron_all([Us[j][:, [i]] for j in range(3)])[:, 0] for i in range(r))
        if r < 2 or s[1] < 1e-3:
            raise Inconclusive("ghz-margin")
        return v, False, None
    other = [i for i in range(3) if i not in pair][0]
    c = fac[other] / np.linalg.norm(fac[other])
    t = np.kron(v2, c).reshape(d[pair[0]], d[pair[1]], d[other])  # axes: pair0, pair1, other
    order = [pair[0], pair[1], other]
    t = np.transpose(t, np.argsort(order))
    return t.reshape(-1), False, None


def check_is_product_vec(case):
    from toqito.state_props import is_product

    d = case["d"]
    v, isprod, fac = _isprod_vector(case)
    dim = {"list": [int(k) for k in d], "array": np.array(d), "omitted": None}[case["dimform"]]
    if isprod:
        # assert only when the input is a product far inside the function's own fixed threshold
        if _product_ratio(v, d) > 0.25:
            raise Inconclusive("product-only-to-rounding")
    out = is_product(_form(v, case["form"]), dim)
    req(isinstance(out, tuple) and len(out) == 2, "is_product did not return (verdict, decomposition)", "is_product:shape")
    verdict = bool(np.all(out[0]))
    if not isprod:
        req(not verdict, f"is_product accepted a vector that is entangled by margin (dims {d}, {case.get('pair')}, eps {case.get('eps')})", "is_product:accepts-entangled")
        return
    req(verdict, f"is_product rejected the Kronecker product of {len(d)} local vectors (dims {d})", "is_product:rejects-product")
    dec = out[1]
    req(dec is not None and len(dec) == len(d), f"decomposition has {None if dec is None else len(dec)} factors for {len(d)} parties", "is_product:decomposition")
    req(all(np.asarray(x).size == k for x, k in zip(dec, d)), f"factor sizes {[np.asarray(x).size for x in dec]} != dims {d}", "is_product:decomposition")
    rb = ref.kron_all([np.asarray(x).reshape(-1, 1) for x in dec])[:, 0]
    req(np.allclose(rb, v, rtol=0, atol=TOL * max(1.0, np.linalg.norm(v))), "the returned factors do not rebuild the product vector", "is_product:decomposition")


def nt_isprod_vec(case):
    d = case["d"]
    if case["kind"] == "entangled" and (len(d) >= 3 or d[0] != d[1]):
        return "entangled:" + ("3-party" if len(d) >= 3 else "unequal-dims")
    if case["kind"] == "product" and len(d) >= 3 and len(set(d)) > 1:
        return "product:3-party,nonuniform"
    return None


# ------------------------------------------------------------------------------------------------------
# 8. is_product on operators
# ------------------------------------------------------------------------------------------------------
@st.composite
def _isprod_op_case(draw):
    n = draw(st.sampled_from([2, 2, 3]))
    if n == 2:
        d = list(draw(st.sampled_from([(2, 2), (2, 3), (3, 2), (3, 3), (2, 4), (4, 2)])))
    else:
        d = draw(gen.dims(n=3, lo=2, hi=3, budget=18))
    kind = draw(st.sampled_from(["product", "nonproduct"]))
    case = {"d": d, "kind": kind, "seeds": [draw(gen.SEED) for _ in d], "herm": draw(st.booleans())}
    if kind == "nonproduct":
        case["pair"] = [0, 1] if n == 2 else draw(st.sampled_from([[0, 1], [1, 2], [0, 2]]))
        dd = [d[case["pair"][0]], d[case["pair"][1]]]
        m = draw(st.integers(2, 4))
        if draw(st.booleans()):
            w, q, case["eps"] = [1, 1], 1.0, draw(st.sampled_from([1e-3, 1e-2, 0.1]))
        else:
            w, q = draw(st.lists(st.integers(1, 20), min_size=m, max_size=m)), 1.0
        case["op"] = {"d": dd, "w": w, "q": q, "sa": draw(gen.SEED), "sb": draw(gen.SEED)}
    allowed = ["list", "array"] + (["omitted"] if n == 2 and d[0] == d[1] else [])
    case["dimform"] = draw(st.sampled_from(allowed))
    return case


def _local_op(seed, d, herm):
    m = gen.rand_matrix(seed, d, d, True)
    return (m + m.conj().T) / 2 if herm else m


def check_is_product_op(case):
    from toqito.state_props import is_product

    d = case["d"]
    n = len(d)
    fac = [_local_op(s, k, case["herm"]) for s, k in zip(case["seeds"], d)]
    dim = {"list": [int(k) for k in d], "array": np.array(d), "omitted": None}[case["dimform"]]
    if case["kind"] == "product":
        X = ref.kron_all(fac)
        # operator-Schmidt view: every cut must be rank one far inside the function's threshold
        t = X.reshape(list(d) + list(d))
        axes = [a for i in range(n) for a in (i, n + i)]
        if _product_ratio(t.transpose(axes).reshape(-1), [k * k for k in d]) > 0.25:
            raise Inconclusive("product-only-to-rounding")
        out = is_product(X, dim)
        req(bool(np.all(out[0])), f"is_product rejected the Kronecker product of {n} local operators (dims {d})", "is_product_op:rejects-product")
        dec = out[1]
        req(dec is not None and len(dec) == n and all(np.asarray(x).size == k * k for x, k in zip(dec, d)), "operator decomposition has the wrong number / sizes of factors", "is_product_op:decomposition")
        rb = ref.kron_all([np.asarray(x).reshape(k, k) for x, k in zip(dec, d)])
        req(np.allclose(rb, X, rtol=0, atol=TOL * max(1.0, np.linalg.norm(X, 2))), "the returned operator factors do not rebuild the product operator", "is_product_op:decomposition")
        return
    op = dict(case["op"])
    X2, c = _op_from_spec(op)
    if "eps" in case:
        e = case["eps"]
        A = _op_basis(op["sa"], op["d"][0])
        B = _op_basis(op["sb"], op["d"][1])
        X2 = np.sqrt(1 - e * e) * np.kron(A[:, :, 0], B[:, :, 0]) + e * np.kron(A[:, :, 1], B[:, :, 1])
    if n == 2:
        X = X2
    else:
        pair = case["pair"]
        other = [i for i in range(3) if i not in pair][0]
        C = fac[other] / np.linalg.norm(fac[other])
        Y = np.kron(X2, C)  # order pair0, pair1, other
        order = [pair[0], pair[1], other]
        X = ref.permute(Y, list(np.argsort(order)), [d[i] for i in order], [d[i] for i in order])
    out = is_product(X, dim)
    req(not bool(np.all(out[0])), f"is_product accepted an operator with second operator-Schmidt coefficient >= 1e-3 across the cut {case['pair']} (dims {d})", "is_product_op:accepts-nonproduct")


def nt_isprod_op(case):
    d = case["d"]
    if case["kind"] == "nonproduct" and (len(d) >= 3 or d[0] != d[1]):
        return "nonproduct:" + ("3-party" if len(d) >= 3 else "unequal-dims")
    if case["kind"] == "product" and len(set(d)) > 1:
        return "product:nonuniform-dims"
    return None


# ------------------------------------------------------------------------------------------------------
# 9. scalar dim argument where the signature documents `int`
# ------------------------------------------------------------------------------------------------------
def _scalar_dim_case(fn):
    @st.composite
    def strat(draw):
        sp = draw(_state_spec())
        return {"st": sp, "fn": fn, "form": draw(st.sampled_from(["1d", "col", "dm"])), "k": draw(st.integers(0, min(sp["d"])))}

    return strat()


def check_scalar_dim(case):
    from toqito.state_ops import schmidt_decomposition
    from toqito.state_props import is_product

    sp = case["st"]
    d = sp["d"]
    v, s = _schmidt_state(sp)
    x = _form(v, case["form"])
    if case["fn"] == "schmidt_decomposition":
        if case["form"] == "dm":
            out = schmidt_decomposition(x, int(d[0]), 0)
            sv = np.asarray(out[0]).reshape(-1)
            exp = np.sort(np.outer(s, s).reshape(-1))[::-1]
            req(sv.size >= exp.size and np.allclose(sv[: exp.size], exp, atol=TOL), "operator-Schmidt coefficients of |v><v| are not the products s_i s_j (scalar dim)", "scalar-dim:coefficients")
            return
        out = schmidt_decomposition(x, int(d[0]), case["k"])
        _check_sd_vector(out, v, s, d, case["k"], "scalar-dim:")
        return
    out = is_product(x, int(d[0]))
    verdict = bool(np.all(out[0]))
    if len(s) == 1:
        if _spacing_ratio(v.reshape(d)) > 0.25:
            raise Inconclusive("product-only-to-rounding")
        req(verdict, "is_product(scalar dim) rejected a product state", "scalar-dim:rejects-product")
    elif s[1] >= 1e-3:
        req(not verdict, "is_product(scalar dim) accepted an entangled state", "scalar-dim:accepts-entangled")


def nt_scalar_dim(case):
    return case["fn"] + ":unequal-dims" if case["st"]["d"][0] != case["st"]["d"][1] else None


# ------------------------------------------------------------------------------------------------------
# 10./11. sk_operator_norm
# ------------------------------------------------------------------------------------------------------
def _trunc_k(x, d, k):
    """closest vector of Schmidt rank <= k (unit norm), or None for the zero vector."""
    M = x.reshape(d[0], d[1])
    U, S, Vh = np.linalg.svd(M, full_matrices=False)
    y = ((U[:, :k] * S[:k]) @ Vh[:k]).reshape(-1)
    nrm = np.linalg.norm(y)
    return None if nrm < 1e-300 else y / nrm


def _achieved(X, d, k, seed, starts=4, iters=25):
    """Largest |<w|X|v>| found over explicitly built unit vectors v, w of Schmidt rank <= k (alternating truncation)."""
    g = gen.rng(seed)
    best = 0.0
    for _ in range(starts):
        a = g.normal(size=(d[0], k)) + 1j * g.normal(size=(d[0], k))
        b = g.normal(size=(d[1], k)) + 1j * g.normal(size=(d[1], k))
        v = (a @ b.T).reshape(-1)
        v = v / np.linalg.norm(v)
        for _ in range(iters):
            w = _trunc_k(X @ v, d, k)
            if w is None:
                break
            val = abs(w.conj() @ X @ v)
            best = max(best, float(val))
            v2 = _trunc_k(X.conj().T @ w, d, k)
            if v2 is None:
                break
            v = v2
            best = max(best, float(abs(w.conj() @ X @ v)))
    return best


def _sk_matrix(case):
    """-> (X, exact S(k) norm or None)"""
    d = case["d"]
    k = case["k"]
    n = d[0] * d[1]
    kind = case["kind"]
    seed = case["seed"]
    g = gen.rng(seed)
    if kind == "psd":
        return gen.rand_density(seed, n, case["rank"]) * case["scale"], None
    if kind == "proj":
        Q = gen.rand_isometry(seed, n, case["rank"])
        return (Q @ Q.conj().T) * case["scale"], None
    if kind == "iso":  # b I + c |psi><psi|, psi with known Schmidt coefficients
        v, s = _schmidt_state(case["st"])
        b, c = case["b"], case["c"]
        X = b * np.eye(n) + c * np.outer(v, v.conj())
        X = (X + X.conj().T) / 2
        exact = b + c * float(np.sum(s[:k] ** 2)) if c >= 0 else b
        return X * case["scale"], exact * case["scale"]
    if kind == "rank1":  # c |a><b| with known Schmidt coefficients on both sides
        va, sa = _schmidt_state(case["st"])
        vb, sb = _schmidt_state(case["st2"])
        X = case["scale"] * np.outer(va, vb.conj())
        return X, case["scale"] * float(np.sqrt(np.sum(sa[:k] ** 2)) * np.sqrt(np.sum(sb[:k] ** 2)))
    if kind == "product":  # A (x) B, PSD factors: the norm is attained on a product vector
        A = gen.rand_density(int(g.integers(0, 2**62)), d[0], int(g.integers(1, d[0] + 1)))
        B = gen.rand_density(int(g.integers(0, 2**62)), d[1], int(g.integers(1, d[1] + 1)))
        X = np.kron(A, B) * case["scale"]
        return X, float(np.linalg.norm(A, 2) * np.linalg.norm(B, 2)) * case["scale"]
    if kind == "werner":
        # (U(x)V) (I - a W)/(n(n-a)) (U(x)V)*: <xy|I - aW|xy> = 1 - a|<x|y>|^2, the eigenvalue 1+a belongs to the
        # antisymmetric space (vectors of Schmidt rank 2), 1-a to the symmetric space (contains product vectors)
        nn, a = d[0], case["a"]
        L = _lu(d, case["wa"], case["wb"])
        X = L @ (np.eye(n) - a * ref.perm_operator([nn, nn], [1, 0])) @ L.conj().T / (nn * (nn - a))
        X = (X + X.conj().T) / 2
        exact = (1 + abs(min(a, 0.0))) if k == 1 else (1 + abs(a))
        return X * case["scale"], exact / (nn * (nn - a)) * case["scale"]
    if kind == "herm":
        m = gen.rand_matrix(seed, n, n, True)
        return (m + m.conj().T) / 2 * case["scale"], None
    m = gen.rand_matrix(seed, n, n, True)  # "general"
    return m * case["scale"], None


def _sk_case(sdp):
    @st.composite
    def strat(draw):
        dims = [(2, 2), (2, 3), (3, 2), (3, 3), (2, 4), (4, 2), (3, 4), (4, 3)] + ([] if sdp else [(4, 4)])
        d = list(draw(st.sampled_from(dims)))
        if sdp:
            kind = draw(st.sampled_from(["psd", "psd", "proj", "iso", "iso", "werner", "product"]))
        else:
            kind = draw(st.sampled_from(["psd", "iso", "rank1", "product", "herm", "general", "proj", "werner"]))
        if kind == "werner":
            d = [d[0], d[0]]
        md = min(d)
        if sdp:
            k = draw(st.integers(1, md - 1))
            # the level-2 symmetric-extension program acts on d0*d1^2 dimensions: keep it to <= 32
            effort = draw(st.sampled_from([1, 2])) if d[0] * d[1] ** 2 <= 32 else 1
        else:
            k = draw(st.integers(1, md + 1))
            effort = 0 if kind in ("psd", "iso", "product", "proj", "werner") and k < md else draw(st.sampled_from([0, 1, 2]))
        n = d[0] * d[1]
        case = {"d": d, "k": k, "kind": kind, "effort": effort, "seed": draw(gen.SEED), "scale": draw(st.sampled_from([1.0, 1.0, 4.0, 0.1])), "npseed": draw(st.integers(0, 2**32 - 1)), "aseed": draw(gen.SEED)}
        if kind in ("psd", "proj"):
            case["rank"] = draw(st.integers(2, n if kind == "psd" else n - 1))
        if kind in ("iso", "rank1"):
            case["st"] = draw(_state_spec(dims=[tuple(d)], q_choices=(1.0, 0.3)))
        if kind == "rank1":
            case["st2"] = draw(_state_spec(dims=[tuple(d)], q_choices=(1.0, 0.3)))
        if kind == "werner":
            case["a"] = draw(st.sampled_from([-1.0, -0.5, 0.3, 0.5, 0.9, 1.0]))
            case["wa"] = draw(_ubasis())
            case["wb"] = draw(_ubasis())
        if kind == "iso":
            case["b"] = draw(st.sampled_from([1.0, 0.2, 0.05]))
            case["c"] = draw(st.sampled_from([2.0, 0.5, -0.05, 10.0]))
            if case["c"] < 0:
                case["c"] = -min(case["b"], 0.05)
        case["dimform"] = _dimforms(draw, d, ("list", "scalar", "omitted"))
        return case

    return strat()


def _check_sk(case, sdp):
    from toqito.matrix_props import sk_operator_norm

    d, k = case["d"], case["k"]
    X, exact = _sk_matrix(case)
    opn = float(np.linalg.norm(X, 2))
    np.random.seed(case["npseed"])
    out = sk_operator_norm(X, k, _dimarg(d, case["dimform"]), None, case["effort"])
    req(isinstance(out, tuple) and len(out) == 2, "sk_operator_norm did not return (lower, upper)", "sk:shape")
    lo, up = (_scalar(o, "sk_operator_norm bound") for o in out)
    tol = (TOL_SDP if sdp else 1e-8) * max(opn, 1e-300)
    tag = f"(dims {d}, k={k}, kind {case['kind']}, effort {case['effort']})"
    req(np.isfinite(lo) and np.isfinite(up), f"non-finite bounds {lo}, {up} {tag}", "sk:nan")
    req(lo <= opn + tol, f"lower bound {lo} exceeds the operator norm {opn} (upper bound {up}) {tag}", "sk:lower>opnorm")
    req(lo <= up + tol, f"lower bound {lo} > upper bound {up} {tag}", "sk:lower>upper")
    req(lo >= -tol, f"negative lower bound {lo} {tag}", "sk:lower<0")
    ach = _achieved(X, d, min(k, min(d)), case["aseed"])
    req(ach <= up + tol, f"upper bound {up} is below the value {ach} achieved by explicit vectors of Schmidt rank <= {k} {tag}", "sk:upper<achieved")
    if k >= min(d):
        req(abs(lo - opn) <= tol and abs(up - opn) <= tol, f"k >= min(d): bounds ({lo}, {up}) != operator norm {opn} {tag}", "sk:k>=min(d)")
    if exact is not None:
        req(up >= exact - tol, f"upper bound {up} is below the exact S({k}) norm {exact} {tag}", "sk:upper<exact")
        req(lo <= exact + tol, f"lower bound {lo} is above the exact S({k}) norm {exact} {tag}", "sk:lower>exact")
        if case["kind"] == "rank1":
            req(abs(lo - exact) <= tol and abs(up - exact) <= tol, f"rank-one operator: bounds ({lo}, {up}) != product of the S(k) vector norms {exact} {tag}", "sk:rank1")


def check_sk_nosdp(case):
    _check_sk(case, False)


def check_sk_sdp(case):
    _check_sk(case, True)


def nt_sk(case):
    if case["k"] < min(case["d"]) and case["kind"] not in ("rank1", "product"):
        return case["kind"] + (":unequal-dims" if case["d"][0] != case["d"][1] else "")
    return None


# ------------------------------------------------------------------------------------------------------
# 12. is_block_positive
# ------------------------------------------------------------------------------------------------------
@st.composite
def _bp_case(draw):
    d = list(draw(st.sampled_from([(2, 2), (2, 3), (3, 2), (3, 3), (2, 4), (4, 2), (3, 4), (4, 3)])))
    kind = draw(st.sampled_from(["psd", "pt_mixed", "pt_pure", "minus_product", "swap_eps"]))
    if kind == "swap_eps":
        d = [d[0], d[0]]
    md = min(d)
    case = {"d": d, "kind": kind, "k": draw(st.integers(1, md)), "seed": draw(gen.SEED), "npseed": draw(st.integers(0, 2**32 - 1)), "scale": draw(st.sampled_from([1.0, 5.0, 0.2]))}
    if kind == "psd":
        case["rank"] = draw(st.integers(1, d[0] * d[1]))
    if kind == "pt_pure":
        case["st"] = draw(_state_spec(dims=[tuple(d)], rmin=2, q_choices=(1.0,)))
        case["st"]["w"] = [min(max(w, 5), 10) for w in case["st"]["w"]]  # s0*s1 bounded away from 0
    if kind == "pt_mixed":
        case["p"] = draw(st.sampled_from([0.2, 0.4]))
    if kind == "minus_product":
        case["rank"] = draw(st.integers(1, d[0] * d[1]))
        case["t"] = draw(st.sampled_from([0.05, 0.3, 1.0]))
        case["vk"] = draw(st.integers(1, case["k"]))
    if kind == "swap_eps":
        case["wa"] = draw(_ubasis())
        case["wb"] = draw(_ubasis())
    case["dimform"] = _dimforms(draw, d, ("list", "scalar", "omitted"))
    return case


def _bp_matrix(case):
    """-> (X, expected verdict) ; the verdict holds by margin (see ASSUMPTIONS)."""
    d, k = case["d"], case["k"]
    n = d[0] * d[1]
    kind = case["kind"]
    seed = case["seed"]
    if kind == "psd":
        return gen.rand_density(seed, n, case["rank"]), True
    if kind == "pt_mixed":
        # rho = (1-p)|psi><psi| + p I/n is full rank: every product expectation of rho^Gamma is >= p/n;
        # rho^Gamma itself has the eigenvalue p/n - (1-p) s0 s1 < 0
        v = gen.rand_ket(seed, n)
        s = np.linalg.svd(v.reshape(d), compute_uv=False)
        p = case["p"]
        lam = p / n - (1 - p) * s[0] * s[1]
        if lam > -2e-2:
            raise Inconclusive("pt-not-negative-by-margin")
        rho = (1 - p) * np.outer(v, v.conj()) + p * np.eye(n) / n
        X = ref.partial_transpose(rho, [1], d)
        return (X + X.conj().T) / 2, (True if k == 1 else (False if k >= min(d) else None))
    if kind == "pt_pure":
        # |psi><psi|^Gamma + eps I : product expectations >= eps; the rank-2 vector (a0 b1* - a1 b0*)/sqrt2 has
        # expectation eps - s0 s1
        v, s = _schmidt_state(case["st"])
        eps = 0.02
        X = ref.partial_transpose(np.outer(v, v.conj()), [1], d) + eps * np.eye(n)
        if s[0] * s[1] - eps < 0.05:
            raise Inconclusive("pt-not-negative-by-margin")
        return (X + X.conj().T) / 2, (k == 1)
    if kind == "minus_product":
        # A - (<v|A|v> + t)|v><v| with v of Schmidt rank vk <= k: <v|X|v> = -t
        g = gen.rng(seed)
        A = gen.rand_density(int(g.integers(0, 2**62)), n, case["rank"])
        a = g.normal(size=(d[0], case["vk"])) + 1j * g.normal(size=(d[0], case["vk"]))
        b = g.normal(size=(d[1], case["vk"])) + 1j * g.normal(size=(d[1], case["vk"]))
        v = (a @ b.T).reshape(-1)
        v = v / np.linalg.norm(v)
        X = A - (float(np.real(v.conj() @ A @ v)) + case["t"]) * np.outer(v, v.conj())
        return (X + X.conj().T) / 2, False
    # swap_eps: (U(x)V)(W + 0.05 I)(U(x)V)* : product expectations |<a|b>|^2 + 0.05 > 0, eigenvalue -0.95;
    # the antisymmetric vector has Schmidt rank 2, so the operator is 1- but not 2-block positive
    dd = d[0]
    W = ref.perm_operator([dd, dd], [1, 0]).astype(complex) + 0.05 * np.eye(n)
    L = _lu(d, case["wa"], case["wb"])
    X = L @ W @ L.conj().T
    return (X + X.conj().T) / 2, (k == 1)


def check_block_positive(case):
    from toqito.matrix_props import is_block_positive

    X, expected = _bp_matrix(case)
    X = X * case["scale"]
    if expected is None:
        return
    np.random.seed(case["npseed"])
    out = is_block_positive(X, case["k"], _dimarg(case["d"], case["dimform"]))
    tag = f"(dims {case['d']}, k={case['k']}, kind {case['kind']})"
    req(not isinstance(out, BaseException), f"is_block_positive returned an exception object instead of raising it: {out!r} {tag}", "block_positive:returned-exception-object")
    req(isinstance(out, (bool, np.bool_)), f"is_block_positive returned {type(out).__name__} {tag}", "block_positive:type")
    if expected:
        req(bool(out), f"is_block_positive = False on an operator that is {case['k']}-block positive by margin {tag}", "block_positive:false-on-block-positive")
    else:
        req(not bool(out), f"is_block_positive = True on an operator with a negative expectation (by margin) on a vector of Schmidt rank <= k {tag}", "block_positive:true-on-negative")


def nt_bp(case):
    if case["kind"] != "psd" and case["k"] < min(case["d"]):
        return case["kind"] + (":unequal-dims" if case["d"][0] != case["d"][1] else "")
    return None


def _bp_doc_cases(tier):
    return [{"dd": dd, "k": k, "npseed": 1} for dd in (2, 3, 4) for k in (1, 2)]


def check_block_positive_doc(case):
    """The docstring examples: the swap operator is block positive but not 2-block positive."""
    from toqito.matrix_props import is_block_positive
    from toqito.perms import swap_operator

    np.random.seed(case["npseed"])
    out = is_block_positive(swap_operator(case["dd"]), k=case["k"])
    req(not isinstance(out, BaseException), "is_block_positive returned an exception object instead of raising it", "block_positive:returned-exception-object")
    req(bool(out) == (case["k"] == 1), f"is_block_positive(swap_operator({case['dd']}), k={case['k']}) = {out}", "block_positive:swap")


# ------------------------------------------------------------------------------------------------------
SUBCHECKS = [
    SubCheck("pure_closed_forms", check_pure_closed_forms, _pure_case, nt_pure, quick=6000, thorough=100000, shards=8),
    SubCheck("schmidt_rank", check_schmidt_rank, lambda: _schmidt_rank_case(None), nt_schmidt_rank, quick=3600, thorough=60000, shards=8, fuzz=6000),
    SubCheck("schmidt_rank_equal_dims", check_schmidt_rank, lambda: _schmidt_rank_case([(2, 2), (3, 3), (4, 4)]), nt_schmidt_rank_eq, quick=1800, thorough=30000, shards=4),
    SubCheck("schmidt_decomposition_vec", check_sd_vec, _sd_vec_case, nt_sd_vec, quick=4000, thorough=70000, shards=6),
    SubCheck("schmidt_decomposition_op", check_sd_op, _sd_op_case, nt_sd_op, quick=3000, thorough=50000, shards=6),
    SubCheck("mixed_local_unitary", check_mixed_lu, _mixed_case, nt_mixed, quick=4000, thorough=70000, shards=8),
    SubCheck("entropy_purity", check_entropy, _entropy_case, nt_entropy, quick=2400, thorough=40000, shards=6),
    SubCheck("is_product_vec", check_is_product_vec, _isprod_vec_case, nt_isprod_vec, quick=4800, thorough=80000, shards=8),
    SubCheck("is_product_op", check_is_product_op, _isprod_op_case, nt_isprod_op, quick=2400, thorough=40000, shards=6, fuzz=6000),
    SubCheck("scalar_dim_schmidt_decomposition", check_scalar_dim, lambda: _scalar_dim_case("schmidt_decomposition"), nt_scalar_dim, quick=600, thorough=10000, shards=2),
    SubCheck("scalar_dim_is_product", check_scalar_dim, lambda: _scalar_dim_case("is_product"), nt_scalar_dim, quick=600, thorough=10000, shards=2),
    SubCheck("sk_norm_no_sdp", check_sk_nosdp, lambda: _sk_case(False), nt_sk, quick=2400, thorough=40000, shards=8, case_timeout=30),
    SubCheck("sk_norm_sdp", check_sk_sdp, lambda: _sk_case(True), nt_sk, quick=128, thorough=2400, case_timeout=30),
    SubCheck("block_positive", check_block_positive, _bp_case, nt_bp, quick=192, thorough=3200, case_timeout=30),
    SubCheck("block_positive_doc", check_block_positive_doc, None, lambda c: "swap" if c["dd"] >= 3 else None, cases=_bp_doc_cases, exhaustive=True, case_timeout=60, shards=3),
]


# ------------------------------------------------------------------------------------------------------
# 13. S(k) norm across a sequence of calls (added after seeded change C14-t1 - matrix-independent operators cached in a
#     module-level dict keyed by (k, d_A*d_B), i.e. without the ordered pair (d_A, d_B) - was missed: it needs two calls
#     in one process on the same total dimension with the factors in different order)
# ------------------------------------------------------------------------------------------------------
@st.composite
def _sk_seq_case(draw):
    d = list(draw(st.sampled_from([(3, 4), (4, 3), (2, 3), (3, 2), (2, 4), (4, 2)])))
    n = d[0] * d[1]
    return {"d": d, "k": draw(st.integers(1, max(1, min(d) - 1))), "rank": draw(st.integers(2, n)), "seed": draw(gen.SEED), "npseed": draw(st.integers(0, 2**32 - 1)), "aseed": draw(gen.SEED)}


def check_sk_sequence(case):
    from toqito.matrix_props import sk_operator_norm

    d, k = case["d"], case["k"]
    n = d[0] * d[1]
    X = gen.rand_density(case["seed"], n, case["rank"])
    Xs = ref.permute(X, [1, 0], d, d)  # the same operator with the two parties exchanged: identical S(k) norm
    ds = [d[1], d[0]]
    opn = float(np.linalg.norm(X, 2))
    tol = 1e-8 * max(opn, 1e-300)

    def call(mat, dims):
        np.random.seed(case["npseed"])
        lo, up = (_scalar(o, "sk_operator_norm bound") for o in sk_operator_norm(mat, k, list(dims), None, 0))
        return lo, up

    first = call(X, d)
    swapped = call(Xs, ds)
    again = call(X, d)
    tag = f"(dims {d}, k={k}, rank {case['rank']})"
    for name, (lo, up), mat, dims in (("first call", first, X, d), ("call on the party-exchanged operator", swapped, Xs, ds), ("repeated first call", again, X, d)):
        req(lo <= up + tol, f"{name}: lower bound {lo} > upper bound {up} {tag}", "sk:lower>upper")
        req(lo <= opn + tol, f"{name}: lower bound {lo} exceeds the operator norm {opn} {tag}", "sk:lower>opnorm")
        ach = _achieved(mat, list(dims), min(k, min(dims)), case["aseed"])
        req(ach <= up + tol, f"{name}: upper bound {up} is below a value {ach} achieved by explicit vectors of Schmidt rank <= {k} {tag}", "sk:upper<achieved")
    req(swapped[0] <= first[1] + tol and first[0] <= swapped[1] + tol, f"exchanging the parties changed the bracket: {first} vs {swapped} {tag} - the S(k) norm does not depend on the order of the parties", "sk:party-exchange")
    req(abs(again[0] - first[0]) <= tol and abs(again[1] - first[1]) <= tol, f"the same call returned {first} and, after a call on other dimensions, {again} {tag}", "sk:history-dependent")


SUBCHECKS.append(SubCheck("sk_norm_sequence", check_sk_sequence, _sk_seq_case, lambda c: f"dims={c['d']},k={c['k']}" if c["k"] >= 2 or c["d"][0] != c["d"][1] else None, quick=600, thorough=10000, shards=8, case_timeout=60))


# ------------------------------------------------------------------------------------------------------
# 14. block positivity of one matrix under two different splits, in one process (added after seeded change C14-u3 - a
#     module-level cache of the S(k) bounds keyed by the matrix bytes, k and effort but not by `dim` - was missed: the
#     stale verdict only appears when the *same* array is examined as a (2,3) and then as a (3,2) operator)
# ------------------------------------------------------------------------------------------------------
@st.composite
def _bp_resplit_case(draw):
    d = list(draw(st.sampled_from([(2, 3), (3, 2), (2, 4), (4, 2)])))
    return {"d": d, "seed": draw(gen.SEED), "c": draw(st.sampled_from([0.05, 0.1])), "npseed": draw(st.integers(0, 2**32 - 1)), "wseed": draw(gen.SEED)}


def _min_product_expectation(x, dims, seed, starts=6, iters=30):
    """smallest <a (x) b| X |a (x) b> found by alternating eigenvector minimisation (an achieved value)"""
    da, db = dims
    t = x.reshape(da, db, da, db)
    g = gen.rng(seed)
    best = np.inf
    for _ in range(starts):
        b = g.normal(size=db) + 1j * g.normal(size=db)
        b /= np.linalg.norm(b)
        for _ in range(iters):
            ma = np.einsum("j,ijkl,l->ik", b.conj(), t, b)
            w, v = np.linalg.eigh((ma + ma.conj().T) / 2)
            a = v[:, 0]
            mb = np.einsum("i,ijkl,k->jl", a.conj(), t, a)
            w, v = np.linalg.eigh((mb + mb.conj().T) / 2)
            b = v[:, 0]
        best = min(best, float(w[0]))
    return best


def check_bp_resplit(case):
    from toqito.matrix_props import is_block_positive

    d = case["d"]
    n = d[0] * d[1]
    psi = gen.rand_ket(case["seed"], n)
    sv = np.linalg.svd(psi.reshape(d), compute_uv=False)
    if sv[0] * sv[1] < 0.3:
        raise Inconclusive("state not entangled enough")
    # rho^(T_B) + c I: every product expectation for the split d is >= c (1-block positive by margin)
    x = ref.partial_transpose(np.outer(psi, psi.conj()), [1], d) + case["c"] * np.eye(n)
    x = (x + x.conj().T) / 2
    ds = [d[1], d[0]]
    low = _min_product_expectation(x, ds, case["wseed"])  # the same matrix read as an operator on d[1] x d[0]
    expect_other = False if low <= -2e-2 else None

    def call(dims):
        np.random.seed(case["npseed"])
        out = is_block_positive(x, 1, list(dims))
        req(isinstance(out, (bool, np.bool_)), f"is_block_positive returned {type(out).__name__}", "block_positive:type")
        return bool(out)

    first = call(d)
    other = call(ds)
    again = call(d)
    tag = f"(matrix rho^T_B + {case['c']} I built on dims {d})"
    req(first, f"is_block_positive(X, 1, {d}) = False although every product expectation is >= {case['c']} {tag}", "block_positive:false-on-block-positive")
    if expect_other is False:
        req(not other, f"is_block_positive(X, 1, {ds}) = True although a product vector for that split attains {low:.3f} {tag}; the call came right after the same matrix was examined with dims {d}", "block_positive:true-on-negative")
    req(again == first, f"is_block_positive(X, 1, {d}) changed from {first} to {again} after a call with dims {ds} {tag}", "block_positive:history-dependent")


SUBCHECKS.append(SubCheck("block_positive_resplit", check_bp_resplit, _bp_resplit_case, lambda c: f"dims={c['d']}", quick=96, thorough=1200, case_timeout=90))
