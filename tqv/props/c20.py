"""C20 — channel distance measures equal their definitions and known closed forms.

Functions under test (toqito.channel_metrics): completely_bounded_trace_norm, diamond_distance,
completely_bounded_spectral_norm, channel_fidelity, fidelity_of_separability (the channel version).

Oracles (none calls the function it judges):
* closed forms: 2 sqrt(1 - delta^2) / delta for two unitary channels (delta = distance from the origin to the convex
  hull of eig(U^dagger V), from the sorted eigen-angles), 1 for channels, ||Phi*(I)||_inf for CP maps, |c| homogeneity,
  0 / 1 on equal channels, symmetry, invariance under composition with one unitary;
* certified bounds: ||J||_1/d <= cb norm <= ||J||_1, cb norm >= ||(id (x) Phi)(psi)||_1 for drawn psi (achieved lower
  bounds), channel fidelity <= F((id (x) Phi)(psi), (id (x) Psi)(psi)) for drawn psi and <= F(J1/d, J2/d) (achieved
  upper bounds: the definition is an infimum over inputs);
* independent programs (cvxpy + CLARABEL, tqv/props/_c20_helpers.py): Watrous' *primal* for the cb trace norm (toqito
  solves the dual with cvxopt) whose optimal marginals are turned into an achieved lower bound, and the channel-fidelity
  program written with the Loewner-order constraint whose dual variable yields an achieved upper bound.

Tolerances (calibrated on seeds 1-3 of the quick tier: unchanged tree for the cb norms, channel_fidelity with the two
candidate repairs applied, because the unrepaired function is wrong on almost every input):
  shortcuts of the cb trace norm (value 1, CP branch): 1e-9 * scale (pure numpy);
  picos/cvxopt SDP values (cb trace norm, diamond distance, cb spectral norm, fidelity of separability):
  1e-5 * max(1, ||J||_1); largest residual seen 2.2e-8 * scale against the independent primal, 1.5e-9 against the
  unitary closed form, 1.4e-9 for the fidelity of separability;
  SCS values (channel_fidelity, default eps, status 'optimal' only): 1e-4 for equalities (closed form delta, value 1,
  symmetry, independent program), 2e-4 for order relations against achieved bounds; largest residual seen 4.3e-7.
"""

from __future__ import annotations

import math
import os
import warnings

import numpy as np
from hypothesis import strategies as st

from tqv import gen, ref
from tqv.core import Inconclusive, SubCheck, Violation, req, unlisted_rejection
from tqv.props import _c20_helpers as H

# caller-owned arrays handed to the library must come back unchanged (see tqv/purity.py)
from tqv.purity import install as _install_purity  # noqa: E402

_install_purity('toqito.channel_metrics')

PROPERTY = "C20"
RULE = (
    "Cases are drawn by Hypothesis: local dimension d in {2,3} (2..4 for the closed-form shortcuts, 2..5 enumerated for "
    "'defined for every local dimension'), channels from specs (named or seeded unitary, dyadic mixture of 2-3 unitaries, "
    "Stinespring CPTP map of drawn Kraus rank), unitary pairs either independent or V = U W diag(exp(i pi a_k/12)) W^dagger "
    "with drawn integer eigen-angles a_k (so that 0 < delta < 1 is frequent), CP maps (positively scaled channels, seeded "
    "Kraus families of drawn size, Choi = identity), Hermiticity-preserving maps (differences and signed combinations of "
    "channels, signed Kraus sums with at least one coefficient of each sign), scalars c of both signs from a grid or a "
    "drawn float, a unitary for pre/post composition, seeds for bipartite pure input states; for the channel-fidelity laws "
    "half of the pairs are full rank ((1-q) Phi + q x completely depolarising, or Stinespring maps with d^2 Kraus "
    "operators), a quarter are unitary pairs with delta >= 0.13 and a quarter unconstrained. All Choi matrices are built "
    "by ref.choi_of_pairs (input system first). A case is non-trivial when: the two channels differ (diamond/fidelity "
    "laws); the unitary pair does not commute and 0 < delta < 1 (closed forms); the composing unitary is not diagonal "
    "(invariance); the map is not a unitary channel (value-1 shortcut); Phi*(I) is not a multiple of a rank-one projector, "
    "i.e. trace norm != operator norm (CP maps); c not in {0, 1} (homogeneity); the Choi matrix has a negative eigenvalue "
    "below -1e-3 ||J||_1 (HP maps); the map is not unital (cb spectral norm); product kets not all basis kets (fidelity of "
    "separability); distinct = distinct SHA-1 of the canonical case JSON among non-trivial cases."
)
ASSUMPTIONS = [
    "Choi matrices are J = sum_ij E_ij (x) Phi(E_ij), input system first (agrees with toqito.channel_ops.kraus_to_choi); input and output dimension are equal (the functions infer d = sqrt(N))",
    "diamond_distance returns the cb trace norm of the difference (range [0,2] on channels), as its code and pinned tests do; the docstring sentence 'half of' is not asserted",
    "channel_fidelity is the root fidelity inf_rho ||sqrt(.)sqrt(.)||_1 (its docstring); reference fidelity ref.fidelity uses the same convention",
    "solver noise bounds the visible defect size: 1e-5*max(1,||J||_1) for the picos/cvxopt values, 1e-4 (equalities) / 2e-4 (order relations) for the SCS-valued channel_fidelity",
    "cvxpy 'Solution may be inaccurate' warnings, solver exceptions and per-case time limits are inconclusive, never violations and never passes",
    "the independent CLARABEL/SCS programs are used as oracles only when they report status 'optimal'; their achieved-state certificates are checked with numpy",
    "channel_fidelity: SCS stops at its iteration cap with status 'inaccurate' when the true value is 0 and for most pairs of rank-deficient Choi matrices with different supports (3 s in d=2, 15 s in d=3, minutes above); such cases are inconclusive, and the generators bias towards full-rank pairs and unitary pairs with delta >= 0.13; d = 4, 5 use unitary pairs with delta > 0 only",
    "cb trace norm of CP maps: the open known finding 6.20 (trace norm of Phi*(I) returned) is recognised by its observable and filtered by signature wherever a CP, non-channel map is evaluated",
    "fidelity_of_separability (channel version): only dims [2,2,2], k in {1,2}; rejection is asserted for states with largest eigenvalue <= 1-1e-3, |trace-1| >= 1e-3, an eigenvalue <= -1e-2, or a non-Hermitian part >= 0.05",
]

KF_SIG = "cbtn=trace_norm_of_dual_identity"

TOL_EXACT = 1e-9
TOL_CVXOPT = 1e-5
TOL_SCS_EQ = 1e-4
TOL_SCS_ORD = 2e-4

_DIM23 = st.sampled_from([2, 2, 3])
_PSI_SEEDS = st.lists(gen.SEED, min_size=3, max_size=3)


def _rec(cls, resid):
    """Calibration aid (development only): with TQV_C20_CALIB=<file> every compared residual is appended to the file."""
    path = os.environ.get("TQV_C20_CALIB")
    if path:
        with open(path, "a") as f:
            f.write(f"{cls} {float(resid):.3e}\n")


# ------------------------------------------------------------------------------------------
# toqito wrappers
# ------------------------------------------------------------------------------------------
def _arr(j):
    """fresh array handed to toqito: real dtype when every entry is real (the library must not care which)"""
    a = np.array(j, dtype=complex)
    if not np.any(a.imag):
        return np.array(a.real, dtype=float)
    return a


def _cbtn(j):
    from toqito.channel_metrics import completely_bounded_trace_norm

    a = _arr(j)
    v = completely_bounded_trace_norm(a)
    _unchanged("completely_bounded_trace_norm", (a, j))
    return _scalar(v, "completely_bounded_trace_norm")


def _dd(j1, j2):
    from toqito.channel_metrics import diamond_distance

    a1, a2 = _arr(j1), _arr(j2)
    v = diamond_distance(a1, a2)
    _unchanged("diamond_distance", (a1, j1), (a2, j2))
    return _scalar(v, "diamond_distance")


def _cbsn(j):
    from toqito.channel_metrics import completely_bounded_spectral_norm

    a = _arr(j)
    v = completely_bounded_spectral_norm(a)
    _unchanged("completely_bounded_spectral_norm", (a, j))
    return _scalar(v, "completely_bounded_spectral_norm")


def _unchanged(what, *pairs):
    """the arrays handed to toqito must come back unmodified (added after seeded change C20-s2 was missed: an in-place
    `choi_1 -= choi_2` is invisible when every call receives a fresh copy and nobody looks at it afterwards)"""
    for passed, original in pairs:
        req(np.array_equal(passed, np.asarray(original, dtype=complex)), f"{what} modified an array owned by the caller", "args-mutated:" + what)


def _scalar(v, what):
    try:
        a = np.asarray(v)
        req(a.size == 1, f"{what} returned a non-scalar of shape {a.shape}", "not_scalar")
        x = complex(a.reshape(-1)[0])
    except (TypeError, ValueError):
        raise Violation(f"{what} returned {v!r}, not a number", "not_scalar") from None
    req(math.isfinite(x.real) and abs(x.imag) <= 1e-9 * max(1.0, abs(x.real)), f"{what} returned {v!r}", "not_finite_real")
    return float(x.real)


def _cf(j1, j2):
    """channel_fidelity with the default eps; an SCS 'inaccurate' status makes the case inconclusive."""
    from toqito.channel_metrics import channel_fidelity

    with warnings.catch_warnings(record=True) as rec:
        warnings.simplefilter("always")
        try:
            a1, a2 = _arr(j1), _arr(j2)
            v = channel_fidelity(a1, a2)
            _unchanged("channel_fidelity", (a1, j1), (a2, j2))
        except ValueError as e:
            if "InvalidDim" not in str(e):
                raise
            d = round(math.sqrt(np.asarray(j1).shape[0]))
            raise Violation(f"channel_fidelity rejects two {d * d}x{d * d} Choi matrices of channels on a {d}-dimensional system: {e}", "cf:rejects_valid_choi") from None
    if any("inaccurate" in str(w.message).lower() for w in rec):
        raise Inconclusive("scs_inaccurate")
    return _scalar(v, "channel_fidelity")


def _cb_signature(value, j, d, default):
    """Known finding 6.20, recognised from observables only: the evaluated map is CP (Choi matrix PSD), the returned
    value equals ||Phi*(I)||_1 to 1e-6 and ||Phi*(I)||_inf differs from it by more than 1e-4."""
    j = np.asarray(j)
    scale = max(1.0, ref.trace_norm(j))
    if ref.lam_min(j) < -1e-6 * scale or not np.allclose(j, j.conj().T, atol=1e-9 * scale):
        return default
    dual_id = ref.partial_trace(j, [1], [d, d]).T  # Phi*(I) = (Tr_out J)^T
    tn, on = ref.trace_norm(dual_id), H.op_norm(dual_id)
    # (no minimum gap between the two norms is required: this function is only consulted after the value failed the
    # comparison with the operator norm, and a fixed gap would mis-file instances with a nearly rank-one Phi*(I))
    if abs(value - tn) <= 1e-6 * max(1.0, tn):
        return KF_SIG
    return default


def _psis(seeds, d):
    return [H.psi_matrix(s, d) for s in seeds] + [np.eye(d) / math.sqrt(d)]


def _cb_oracle(value, j, d, what, psi_seeds=(), default_sig="value"):
    """Everything that can be said about a returned cb trace norm of the map with Choi matrix ``j``:
    theorem bounds, achieved lower bounds from drawn inputs, and the independent primal program."""
    tn = ref.trace_norm(j)
    scale = max(1.0, tn)
    tol = TOL_CVXOPT * scale

    def fail(msg, sig):
        raise Violation(f"{what}: {msg}", _cb_signature(value, j, d, sig))

    if value > tn + tol:
        fail(f"returned {value:.9g} > ||J||_1 = {tn:.9g}", default_sig + ":above_choi_trace_norm")
    if value < tn / d - tol:
        fail(f"returned {value:.9g} < ||J||_1/d = {tn / d:.9g}", default_sig + ":below_normalised_choi_trace_norm")
    lb = H.achieved_diamond(j, d, _psis(psi_seeds, d))
    if value < lb - tol:
        fail(f"returned {value:.9g} < achieved ||(id(x)Phi)(psi)||_1 = {lb:.9g} for a drawn input psi", default_sig + ":below_achieved")
    pr = H.cb_primal(j, d)
    if pr is None:
        return
    pv, r0, r1 = pr
    lbo = max(H.achieved_diamond(j, d, H.psis_from_density(r)) for r in (r0, r1, (r0 + r1) / 2))
    _rec("cb_vs_achieved_rel", (lbo - value) / scale)
    _rec("cb_vs_primal_rel", (value - pv) / scale)
    if value < lbo - tol:
        fail(f"returned {value:.9g} < achieved ||(id(x)Phi)(psi)||_1 = {lbo:.9g} (psi from the independent primal program)", default_sig + ":below_achieved")
    if value > pv + tol:
        fail(f"returned {value:.9g} > {pv:.9g} = optimum of the independent primal program (achieved {lbo:.9g})", default_sig + ":above_independent_optimum")


# ------------------------------------------------------------------------------------------
# map specs (channels / CP / HP) -> list of (A_i, B_i) pairs
# ------------------------------------------------------------------------------------------
_POS = [0.25, 0.5, 2.0, 3.0]


@st.composite
def _pos_scalar(draw):
    if draw(st.booleans()):
        return draw(st.sampled_from(_POS))
    return round(draw(st.floats(0.1, 4.0, allow_nan=False)), 3) or 0.1


@st.composite
def _signed_scalar(draw):
    c = draw(_pos_scalar())
    return -c if draw(st.booleans()) else c


@st.composite
def _cp_spec(draw, d):
    form = draw(st.sampled_from(["scaled", "kraus", "kraus", "choi_identity"]))
    if form == "scaled":
        return {"kind": "cp", "form": "scaled", "c": draw(H.channel_spec(d)), "a": draw(_pos_scalar())}
    if form == "kraus":
        return {"kind": "cp", "form": "kraus", "s": draw(gen.SEED), "n": draw(st.integers(1, d * d))}
    return {"kind": "cp", "form": "choi_identity"}


@st.composite
def _hp_spec(draw, d):
    form = draw(st.sampled_from(["diff", "lincomb", "kraus"]))
    if form == "diff":
        return {"kind": "hp", "form": "diff", "c1": draw(H.channel_spec(d)), "c2": draw(H.channel_spec(d))}
    if form == "lincomb":
        return {
            "kind": "hp",
            "form": "lincomb",
            "c1": draw(H.channel_spec(d)),
            "c2": draw(H.channel_spec(d)),
            "a": draw(_pos_scalar()),
            "b": draw(_pos_scalar()),
        }
    n = draw(st.integers(2, d * d))
    co = [draw(st.sampled_from([1, 2, 3, -1, -2, -3])) for _ in range(n)]
    co[0], co[1] = abs(co[0]), -abs(co[1])  # at least one coefficient of each sign, by construction
    return {"kind": "hp", "form": "kraus", "s": draw(gen.SEED), "co": co}


@st.composite
def _map_spec(draw, d, kinds=("channel", "cp", "hp")):
    kind = draw(st.sampled_from(list(kinds)))
    if kind == "channel":
        return {"kind": "channel", "c": draw(H.channel_spec(d))}
    if kind == "cp":
        return draw(_cp_spec(d))
    return draw(_hp_spec(d))


def _seeded_kraus(seed, n, d):
    g = gen.rng(seed)
    return [(g.normal(size=(d, d)) + 1j * g.normal(size=(d, d))) / math.sqrt(2 * d) for _ in range(n)]


def _build_map(spec, d):
    k = spec["kind"]
    if k == "channel":
        return H.cp_pairs(H.build_kraus(spec["c"], d))
    if k == "cp":
        f = spec["form"]
        if f == "scaled":
            return H.cp_pairs(H.build_kraus(spec["c"], d), float(spec["a"]))
        if f == "kraus":
            return H.cp_pairs(_seeded_kraus(spec["s"], spec["n"], d))
        # Choi matrix = identity: Phi(X) = Tr(X) I, Kraus operators |a><i|
        ks = []
        for a in range(d):
            for i in range(d):
                m = np.zeros((d, d), dtype=complex)
                m[a, i] = 1
                ks.append(m)
        return H.cp_pairs(ks)
    f = spec["form"]
    if f == "diff":
        return H.cp_pairs(H.build_kraus(spec["c1"], d)) + H.cp_pairs(H.build_kraus(spec["c2"], d), -1.0)
    if f == "lincomb":
        return H.cp_pairs(H.build_kraus(spec["c1"], d), float(spec["a"])) + H.cp_pairs(H.build_kraus(spec["c2"], d), -float(spec["b"]))
    ks = _seeded_kraus(spec["s"], len(spec["co"]), d)
    return [(float(c) * m, m) for c, m in zip(spec["co"], ks)]


def _chan_choi(spec, d):
    return H.choi(H.cp_pairs(H.build_kraus(spec, d)), d)


def _chan_label(spec):
    if spec["kind"] in ("unitary", "urel"):
        return "unitary"
    return spec["kind"]


# ------------------------------------------------------------------------------------------
# 1. diamond distance: symmetry, zero, <= 2, Choi-matrix bounds, achieved bounds
# ------------------------------------------------------------------------------------------
@st.composite
def _pair_case(draw):
    d = draw(_DIM23)
    return {"d": d, "c1": draw(H.channel_spec(d)), "c2": draw(H.channel_spec(d)), "psi": draw(_PSI_SEEDS)}


def check_dd_laws(case):
    d = case["d"]
    j1, j2 = _chan_choi(case["c1"], d), _chan_choi(case["c2"], d)
    dj = j1 - j2
    tn = ref.trace_norm(dj)
    tol = TOL_CVXOPT * max(1.0, tn)
    v12 = _dd(j1, j2)
    v21 = _dd(j2, j1)
    _rec("dd_symmetry_rel", abs(v12 - v21) / max(1.0, tn))
    req(abs(v12 - v21) <= 2 * tol, f"diamond_distance not symmetric: {v12:.9g} vs {v21:.9g}", "dd:asymmetric")
    req(v12 <= 2 + tol, f"diamond distance of two channels = {v12:.9g} > 2", "dd:above_2")
    req(v12 >= -tol, f"diamond distance {v12:.9g} < 0", "dd:negative")
    _cb_oracle(v12, dj, d, "diamond_distance(J1,J2)", case["psi"], "dd")
    v11 = _dd(j1, j1.copy())
    req(abs(v11) <= TOL_EXACT, f"diamond distance of a channel to itself = {v11:.3g}", "dd:equal_not_0")


def nt_pair(case):
    d = case["d"]
    j1, j2 = _chan_choi(case["c1"], d), _chan_choi(case["c2"], d)
    if ref.trace_norm(j1 - j2) <= 1e-6:
        return None
    return f"pair:d={d}:{_chan_label(case['c1'])}-{_chan_label(case['c2'])}"


# ------------------------------------------------------------------------------------------
# 2. unitary pairs: closed form
# ------------------------------------------------------------------------------------------
@st.composite
def _unitary_pair_case(draw, dims=(2, 2, 3), half_arc_share=0):
    """half_arc_share = k: k out of 4 cases keep the eigen-angles of U^dagger V inside an arc of 165 degrees
    (delta >= 0.13), the remaining ones are unconstrained (delta = 0 is then frequent)."""
    d = draw(st.sampled_from(list(dims)))
    case = {"d": d, "u": draw(H.unitary_spec(d))}
    half = draw(st.integers(0, 3)) < half_arc_share
    if half or draw(st.integers(0, 3)) > 0:
        case["mode"] = "rel"
        case["w"] = draw(H.unitary_spec(d))
        hi = 11 if half else 23
        case["ang"] = [draw(st.integers(0, hi)) for _ in range(d)]
    else:
        case["mode"] = "indep"
        case["v"] = draw(H.unitary_spec(d))
    return case


def _unitary_pair(case):
    d = case["d"]
    u = H.build_unitary(case["u"], d)
    if case["mode"] == "rel":
        v = u @ H.phase_rotation(case["w"], case["ang"], d)
    else:
        v = H.build_unitary(case["v"], d)
    return u, v


def check_dd_unitary(case):
    d = case["d"]
    u, v = _unitary_pair(case)
    delta = H.unitary_delta(u, v)
    expect = 2 * math.sqrt(max(0.0, 1 - delta * delta))
    ju, jv = H.choi([(u, u)], d), H.choi([(v, v)], d)
    val = _dd(ju, jv)
    tol = TOL_CVXOPT * max(1.0, ref.trace_norm(ju - jv))
    _rec("dd_unitary_rel", abs(val - expect) / max(1.0, ref.trace_norm(ju - jv)))
    if abs(val - expect) > tol:
        raise Violation(
            f"two unitary channels (d={d}): diamond_distance = {val:.9g}, closed form 2 sqrt(1-delta^2) = {expect:.9g} (delta = {delta:.9g})",
            _cb_signature(val, ju - jv, d, "dd:unitary_closed_form"),
        )


def nt_unitary_pair(case):
    u, v = _unitary_pair(case)
    delta = H.unitary_delta(u, v)
    if np.linalg.norm(u @ v - v @ u) > 1e-6 and 1e-6 < delta < 1 - 1e-6:
        return f"unitary:d={case['d']},noncommuting,0<delta<1"
    return None


# ------------------------------------------------------------------------------------------
# 3. invariance under composition with one unitary
# ------------------------------------------------------------------------------------------
@st.composite
def _inv_case(draw):
    d = draw(_DIM23)
    return {
        "d": d,
        "c1": draw(H.channel_spec(d)),
        "c2": draw(H.channel_spec(d)),
        "w": draw(H.unitary_spec(d)),
        "where": draw(st.sampled_from(["pre", "post"])),
    }


def check_dd_invariance(case):
    d = case["d"]
    p1 = H.cp_pairs(H.build_kraus(case["c1"], d))
    p2 = H.cp_pairs(H.build_kraus(case["c2"], d))
    w = H.build_unitary(case["w"], d)
    j1, j2 = H.choi(p1, d), H.choi(p2, d)
    k1, k2 = H.choi(H.compose_pairs(p1, w, case["where"]), d), H.choi(H.compose_pairs(p2, w, case["where"]), d)
    base = _dd(j1, j2)
    moved = _dd(k1, k2)
    tol = 2 * TOL_CVXOPT * max(1.0, ref.trace_norm(j1 - j2))
    _rec("dd_invariance_rel", abs(base - moved) / max(1.0, ref.trace_norm(j1 - j2)))
    req(
        abs(base - moved) <= tol,
        f"diamond distance changed from {base:.9g} to {moved:.9g} when both channels were composed with the same unitary ({case['where']})",
        "dd:unitary_invariance",
    )


def nt_inv(case):
    d = case["d"]
    if nt_pair(case) is None:
        return None
    w = H.build_unitary(case["w"], d)
    if np.linalg.norm(w - np.diag(np.diag(w))) <= 1e-9:
        return None
    return f"inv:{case['where']}:d={d}"


# ------------------------------------------------------------------------------------------
# 4. cb trace norm of a channel is 1
# ------------------------------------------------------------------------------------------
@st.composite
def _chan_case(draw, dims=(2, 3, 4)):
    d = draw(st.sampled_from(list(dims)))
    return {"d": d, "c": draw(H.channel_spec(d))}


def check_cbtn_channel(case):
    d = case["d"]
    j = _chan_choi(case["c"], d)
    val = _cbtn(j)
    # NB: no known-finding signature here.  On the unchanged tree channels never reach the CP branch (the
    # is_quantum_channel shortcut answers 1), so a channel whose norm is not 1 is a different defect.
    req(abs(val - 1) <= TOL_EXACT, f"cb trace norm of a channel (d={d}, {case['c']['kind']}) = {val:.12g}, expected 1", "cbtn:channel_not_1")


def nt_chan(case):
    return None if case["c"]["kind"] == "unitary" else f"channel:d={case['d']}:{case['c']['kind']}"


# ------------------------------------------------------------------------------------------
# 5. cb trace norm of a CP map is the operator norm of Phi*(I)
# ------------------------------------------------------------------------------------------
@st.composite
def _cp_case(draw):
    d = draw(st.sampled_from([2, 3, 4]))
    return {"d": d, "map": draw(_cp_spec(d))}


def check_cbtn_cp(case):
    d = case["d"]
    pairs = _build_map(case["map"], d)
    j = H.choi(pairs, d)
    dual_id = H.dual_of_identity(pairs, d)
    expect = H.op_norm(dual_id)
    val = _cbtn(j)
    if abs(val - expect) > TOL_EXACT * max(1.0, ref.trace_norm(j)):
        raise Violation(
            f"CP map (d={d}, {case['map']['form']}): cb trace norm = {val:.9g}, ||Phi*(I)||_inf = {expect:.9g} (||Phi*(I)||_1 = {ref.trace_norm(dual_id):.9g})",
            _cb_signature(val, j, d, "cbtn:cp_value"),
        )


def nt_cp(case):
    d = case["d"]
    m = H.dual_of_identity(_build_map(case["map"], d), d)
    if abs(ref.trace_norm(m) - H.op_norm(m)) <= 1e-4 * max(1.0, ref.trace_norm(m)):
        return None
    return f"cp:d={d}:{case['map']['form']}"


# ------------------------------------------------------------------------------------------
# 6. absolute homogeneity
# ------------------------------------------------------------------------------------------
@st.composite
def _homog_case(draw):
    d = draw(_DIM23)
    return {"d": d, "map": draw(_map_spec(d)), "c": draw(_signed_scalar())}


def check_cbtn_homogeneity(case):
    d = case["d"]
    c = float(case["c"])
    j = H.choi(_build_map(case["map"], d), d)
    jc = c * j
    v1 = _cbtn(j)
    vc = _cbtn(jc)
    scale = max(1.0, ref.trace_norm(j), ref.trace_norm(jc))
    tol = 2 * TOL_CVXOPT * scale
    _rec("homogeneity_rel", abs(vc - abs(c) * v1) / scale)
    if abs(vc - abs(c) * v1) <= tol:
        return
    # the law fails.  Is it explained by the known CP-branch defect alone?  Replace every evaluation that shows its
    # observable by the correct value ||Phi*(I)||_inf and test the law again.
    fixed = []
    hit = False
    for val, jj in ((v1, j), (vc, jc)):
        if _cb_signature(val, jj, d, "") == KF_SIG:
            hit = True
            fixed.append(H.op_norm(ref.partial_trace(jj, [1], [d, d])))
        else:
            fixed.append(val)
    sig = KF_SIG if hit and abs(fixed[1] - abs(c) * fixed[0]) <= tol else "cbtn:homogeneity"
    raise Violation(
        f"cb trace norm not absolutely homogeneous ({case['map']['kind']} map, d={d}): ||Phi|| = {v1:.9g}, ||({c})Phi|| = {vc:.9g}, |c| ||Phi|| = {abs(c) * v1:.9g}",
        sig,
    )


def nt_homog(case):
    c = float(case["c"])
    if c in (0.0, 1.0):
        return None
    return f"homog:d={case['d']}:{case['map']['kind']}:{'c<0' if c < 0 else 'c>0'}"


# ------------------------------------------------------------------------------------------
# 7. general Hermiticity-preserving maps
# ------------------------------------------------------------------------------------------
@st.composite
def _hp_case(draw):
    d = draw(_DIM23)
    return {"d": d, "map": draw(_hp_spec(d)), "psi": draw(_PSI_SEEDS)}


def check_cbtn_hp(case):
    d = case["d"]
    j = H.choi(_build_map(case["map"], d), d)
    val = _cbtn(j)
    _cb_oracle(val, j, d, f"cb trace norm of a Hermiticity-preserving map (d={d}, {case['map']['form']})", case["psi"], "cbtn:hp")


def nt_hp(case):
    d = case["d"]
    j = H.choi(_build_map(case["map"], d), d)
    tn = ref.trace_norm(j)
    if tn > 1e-9 and ref.lam_min(j) < -1e-3 * tn and ref.lam_max(j) > 1e-3 * tn:
        return f"hp:d={d}:{case['map']['form']}"
    return None


# ------------------------------------------------------------------------------------------
# 8. cb spectral norm = cb trace norm of the dual map
# ------------------------------------------------------------------------------------------
@st.composite
def _cbsn_case(draw):
    d = draw(_DIM23)
    return {"d": d, "map": draw(_map_spec(d)), "psi": draw(_PSI_SEEDS)}


def check_cbsn(case):
    d = case["d"]
    pairs = _build_map(case["map"], d)
    j = H.choi(pairs, d)
    jd = H.choi(H.dual_pairs(pairs), d)  # reference dual: Phi*(Y) = sum A^dagger Y B
    val = _cbsn(j)
    scale = max(1.0, ref.trace_norm(j))
    kind = case["map"]["kind"]
    if kind in ("channel", "cp"):
        phi_id = sum(a @ b.conj().T for a, b in pairs)  # Phi(I) = (Phi*)*(I)
        expect = H.op_norm(phi_id)
        if abs(val - expect) > TOL_EXACT * scale:
            raise Violation(
                f"cb spectral norm of a CP map (d={d}) = {val:.9g}, expected ||Phi(I)||_inf = {expect:.9g} (||Phi(I)||_1 = {ref.trace_norm(phi_id):.9g})",
                _cb_signature(val, jd, d, "cbsn:cp_value"),
            )
        return
    _cb_oracle(val, jd, d, f"cb spectral norm (= cb trace norm of the reference dual) of a Hermiticity-preserving map (d={d})", case["psi"], "cbsn:hp")
    via = _cbtn(jd)
    _rec("cbsn_vs_cbtn_dual_rel", abs(val - via) / scale)
    req(
        abs(val - via) <= 2 * TOL_CVXOPT * scale,
        f"cb spectral norm {val:.9g} != cb trace norm of the reference dual map {via:.9g}",
        "cbsn:not_cbtn_of_dual",
    )


def nt_cbsn(case):
    d = case["d"]
    pairs = _build_map(case["map"], d)
    phi_id = sum(a @ b.conj().T for a, b in pairs)
    if np.linalg.norm(phi_id - np.trace(phi_id) / d * np.eye(d)) <= 1e-6:
        return None
    return f"cbsn:d={d}:{case['map']['kind']}:nonunital"


# ------------------------------------------------------------------------------------------
# 9. channel fidelity: laws on general pairs
# ------------------------------------------------------------------------------------------
def _cf_oracle(val, j1, j2, d, psi_seeds, what):
    req(-TOL_SCS_ORD <= val <= 1 + TOL_SCS_ORD, f"{what}: channel fidelity {val:.6g} outside [0,1]", "cf:range")
    fj = ref.fidelity(j1 / d, j2 / d)
    req(val <= fj + TOL_SCS_ORD, f"{what}: channel fidelity {val:.6g} > fidelity of the normalised Choi states {fj:.6g}", "cf:above_choi_fidelity")
    for k, p in enumerate(_psis(psi_seeds, d)[:-1]):
        ub = H.fidelity_at(j1, j2, p, d)
        req(
            val <= ub + TOL_SCS_ORD,
            f"{what}: channel fidelity {val:.6g} > F((id(x)Phi)(psi),(id(x)Psi)(psi)) = {ub:.6g} for drawn input #{k} (the definition is an infimum over inputs)",
            "cf:above_achieved",
        )
    pr = H.cf_program(j1, j2, d)
    if pr is None:
        return
    pv, rho = pr
    ub = None
    if rho is not None:
        ub = min(H.fidelity_at(j1, j2, p, d) for p in H.psis_from_density(rho))
        req(
            val <= ub + TOL_SCS_ORD,
            f"{what}: channel fidelity {val:.6g} > F((id(x)Phi)(psi),(id(x)Psi)(psi)) = {ub:.6g} at the input found by the independent program",
            "cf:above_achieved",
        )
    _rec("cf_vs_program", abs(val - pv))
    if ub is not None:
        _rec("cf_minus_achieved_ub", val - ub)
        _rec("cf_program_certificate_gap", ub - pv)
    req(
        abs(val - pv) <= TOL_SCS_EQ,
        f"{what}: channel fidelity {val:.6g} != {pv:.6g} = optimum of the independent program with the Loewner-order constraint"
        + (f" (achieved by an explicit input: {ub:.6g})" if ub is not None else ""),
        "cf:differs_from_independent_program",
    )


def check_cf_laws(case):
    d = case["d"]
    j1, j2 = _chan_choi(case["c1"], d), _chan_choi(case["c2"], d)
    f12 = _cf(j1, j2)
    _cf_oracle(f12, j1, j2, d, case["psi"], f"pair d={d} {_chan_label(case['c1'])}/{_chan_label(case['c2'])}")
    f21 = _cf(j2, j1)
    _rec("cf_symmetry", abs(f12 - f21))
    req(abs(f12 - f21) <= TOL_SCS_EQ, f"channel_fidelity not symmetric: {f12:.6g} vs {f21:.6g}", "cf:asymmetric")


# ------------------------------------------------------------------------------------------
# 10. channel fidelity of a channel with itself
# ------------------------------------------------------------------------------------------
def check_cf_equal(case):
    d = case["d"]
    j = _chan_choi(case["c"], d)
    val = _cf(j, j.copy())
    _rec("cf_equal", abs(val - 1))
    req(abs(val - 1) <= TOL_SCS_EQ, f"channel fidelity of a channel (d={d}, {case['c']['kind']}) with itself = {val:.6g}", "cf:equal_not_1")


# ------------------------------------------------------------------------------------------
# 11./12. channel fidelity of two unitary channels = delta; defined for every local dimension
# ------------------------------------------------------------------------------------------
def check_cf_unitary(case):
    d = case["d"]
    u, v = _unitary_pair(case)
    delta = H.unitary_delta(u, v)
    ju, jv = H.choi([(u, u)], d), H.choi([(v, v)], d)
    val = _cf(ju, jv)
    _rec(f"cf_unitary_d{d}", abs(val - delta))
    req(
        abs(val - delta) <= TOL_SCS_EQ,
        f"two unitary channels (d={d}): channel_fidelity = {val:.6g}, closed form delta = dist(0, conv eig(U^dagger V)) = {delta:.6g}",
        "cf:unitary_closed_form",
    )


def _cf_dim_cases(tier):
    """d = 2..5, V = U W diag(e^{i pi a/12}) W^dagger with eigen-angles inside an arc < pi (delta > 0: fast for SCS)."""
    reps = 1 if tier == "quick" else 4
    out = []
    for d in (2, 3, 4, 5):
        for r in range(reps):
            ang = [(3 * k + r * (k % 2)) % 11 for k in range(d)]
            ang[-1] = 8 + (r % 3)
            out.append({"d": d, "u": {"u": "seed", "s": 1000 * d + r}, "mode": "rel", "w": {"u": "seed", "s": 2000 * d + r}, "ang": ang})
    return out


# ------------------------------------------------------------------------------------------
# 13./14. channel fidelity of separability
# ------------------------------------------------------------------------------------------
@st.composite
def _ket_spec(draw):
    if draw(st.integers(0, 2)) == 0:
        return {"k": "basis", "i": draw(st.integers(0, 1))}
    return {"k": "seed", "s": draw(gen.SEED)}


def _ket(spec):
    if spec["k"] == "basis":
        v = np.zeros(2, dtype=complex)
        v[spec["i"]] = 1
        return v
    return gen.rand_ket(spec["s"], 2)


def _product_state(kets):
    v = ref.kron_all([_ket(k).reshape(-1, 1) for k in kets])[:, 0]
    return np.outer(v, v.conj())


@st.composite
def _fos_case(draw):
    return {"kets": [draw(_ket_spec()) for _ in range(3)], "k": draw(st.integers(1, 2))}


def check_fos_product(case):
    from toqito.channel_metrics import fidelity_of_separability

    rho = _product_state(case["kets"])
    val = _scalar(fidelity_of_separability(rho, [2, 2, 2], k=case["k"]), "fidelity_of_separability")
    _rec("fos", abs(val - 1))
    req(abs(val - 1) <= TOL_CVXOPT, f"channel fidelity of separability of a pure tripartite product state (k={case['k']}) = {val:.9g}", "fos:product_not_1")


@st.composite
def _fos_dims_case(draw):
    dims = draw(st.sampled_from([[3, 2, 2], [2, 3, 2], [2, 2, 3], [3, 2, 3]]))
    return {"dims": dims, "seeds": [draw(gen.SEED) for _ in range(3)], "basis": [draw(st.booleans()) for _ in range(3)], "k": 1 if dims == [3, 2, 3] else draw(st.integers(1, 2)), "real": draw(st.booleans())}


def check_fos_product_dims(case):
    """pure product states on unequal local dimensions (added after seeded change C20-t2 - a dimension list reversed at
    the wrong moment, invisible for equal dimensions and for computational-basis factors - was missed)"""
    from toqito.channel_metrics import fidelity_of_separability

    kets = []
    for d, s_, b in zip(case["dims"], case["seeds"], case["basis"]):
        if b:
            v = np.zeros(d, dtype=complex)
            v[s_ % d] = 1
        else:
            v = gen.rand_ket(s_, d, case["real"])
        kets.append(np.asarray(v, dtype=complex).reshape(-1, 1))
    v = ref.kron_all(kets)[:, 0]
    rho = np.outer(v, v.conj())
    val = _scalar(fidelity_of_separability(rho, list(case["dims"]), k=case["k"]), "fidelity_of_separability")
    req(abs(val - 1) <= TOL_CVXOPT, f"channel fidelity of separability of a pure product state on dims {case['dims']} (k={case['k']}) = {val:.9g}", "fos:product_not_1")


def nt_fos(case):
    return f"fos:k={case['k']}" if any(k["k"] == "seed" for k in case["kets"]) else None


@st.composite
def _fos_reject_case(draw):
    mode = draw(st.sampled_from(["mixed_product", "mixed_random", "trace", "negative", "nonhermitian"]))
    case = {"mode": mode, "kets": [draw(_ket_spec()) for _ in range(3)], "k": draw(st.integers(1, 2))}
    if mode == "mixed_product":
        case["kets2"] = [draw(_ket_spec()) for _ in range(3)]
        case["p"] = draw(st.sampled_from([0.125, 0.25, 0.5, 0.75]))
    elif mode == "mixed_random":
        case["s"] = draw(gen.SEED)
        case["rank"] = draw(st.integers(2, 8))
    elif mode == "trace":
        case["t"] = draw(st.sampled_from([0.5, 0.75, 0.9, 1.1, 2.0]))
    elif mode == "negative":
        case["e"] = draw(st.sampled_from([0.01, 0.1, 0.5]))
        case["s"] = draw(gen.SEED)
    else:
        case["e"] = draw(st.sampled_from([0.1, 0.5]))
    return case


def _reject_input(case):
    """(matrix, in_domain_of_the_rejection_claim)"""
    rho = _product_state(case["kets"])
    m = case["mode"]
    if m == "mixed_product":
        rho = case["p"] * rho + (1 - case["p"]) * _product_state(case["kets2"])
        return rho, ref.lam_max(rho) <= 1 - 1e-3
    if m == "mixed_random":
        rho = gen.rand_density(case["s"], 8, case["rank"])
        return rho, ref.lam_max(rho) <= 1 - 1e-3
    if m == "trace":
        return case["t"] * rho, True
    if m == "negative":
        v = gen.rand_ket(case["s"], 8)
        a = np.linalg.eigh(rho)[1][:, -1]
        v = v - a * (a.conj() @ v)
        v = v / np.linalg.norm(v)
        out = (1 + case["e"]) * rho - case["e"] * np.outer(v, v.conj())
        return out, True
    out = rho.copy()
    out[0, 7] += case["e"]
    return out, True


def check_fos_rejects(case):
    from toqito.channel_metrics import fidelity_of_separability

    rho, ok = _reject_input(case)
    if not ok:
        return
    try:
        val = fidelity_of_separability(rho, [2, 2, 2], k=case["k"])
    except ValueError:
        return
    unlisted_rejection(f"fidelity_of_separability accepted a {case['mode']} input (not a pure density matrix) and returned {val!r}", "fos:no_reject")


def nt_fos_reject(case):
    return f"fos_reject:{case['mode']}" if _reject_input(case)[1] else None


# ------------------------------------------------------------------------------------------
@st.composite
def _cf_pair_case(draw):
    """Pairs for the channel-fidelity laws.  Calibration on the repaired function showed that SCS stops at its
    iteration cap with status 'inaccurate' (=> inconclusive) when the true channel fidelity is 0 and for most pairs of
    rank-deficient Choi matrices with different supports, and converges to ~1e-7 otherwise.  Half of the pairs are
    therefore full rank ((1-q) Phi + q * completely depolarising, or Stinespring maps with d^2 Kraus operators), a
    quarter are two unitaries with the eigen-angles of U^dagger V inside an arc of 165 degrees (delta >= 0.13), the
    rest is unconstrained (unitary, mixtures, Stinespring maps of any rank)."""
    d = draw(_DIM23)
    mode = draw(st.sampled_from(["fullrank", "fullrank", "unitary", "any"]))
    if mode == "fullrank":
        cs = []
        for _ in range(2):
            if draw(st.integers(0, 2)) == 0:
                cs.append({"kind": "cptp", "s": draw(gen.SEED), "r": d * d})
            else:
                cs.append({"kind": "noisy", "base": draw(H.channel_spec(d)), "q": draw(st.sampled_from([0.5, 0.25, 0.125]))})
        c1, c2 = cs
    elif mode == "unitary":
        c1 = {"kind": "unitary", "u": draw(H.unitary_spec(d))}
        c2 = {"kind": "urel", "u": c1["u"], "w": draw(H.unitary_spec(d)), "ang": [draw(st.integers(0, 11)) for _ in range(d)]}
    else:
        c1, c2 = draw(H.channel_spec(d)), draw(H.channel_spec(d))
    return {"d": d, "c1": c1, "c2": c2, "psi": draw(st.lists(gen.SEED, min_size=2, max_size=2))}


def _cf_unitary_case():
    return _unitary_pair_case(half_arc_share=3)


SUBCHECKS = [
    SubCheck("dd_laws", check_dd_laws, _pair_case, nt_pair, quick=96, thorough=1200, case_timeout=60),
    SubCheck("dd_unitary_closed_form", check_dd_unitary, _unitary_pair_case, nt_unitary_pair, quick=160, thorough=2000, case_timeout=60),
    SubCheck("dd_unitary_invariance", check_dd_invariance, _inv_case, nt_inv, quick=80, thorough=1000, case_timeout=60),
    SubCheck("cbtn_channel_is_one", check_cbtn_channel, _chan_case, nt_chan, quick=320, thorough=4000, case_timeout=60),
    SubCheck("cbtn_cp_operator_norm", check_cbtn_cp, _cp_case, nt_cp, quick=320, thorough=4000, case_timeout=60),
    SubCheck("cbtn_homogeneity", check_cbtn_homogeneity, _homog_case, nt_homog, quick=192, thorough=2400, case_timeout=60),
    SubCheck("cbtn_hp_bounds", check_cbtn_hp, _hp_case, nt_hp, quick=128, thorough=1600, case_timeout=60),
    SubCheck("cbsn_dual", check_cbsn, _cbsn_case, nt_cbsn, quick=128, thorough=1600, case_timeout=60),
    SubCheck("cf_laws", check_cf_laws, _cf_pair_case, nt_pair, quick=48, thorough=480, case_timeout=90),
    SubCheck("cf_equal_channels", check_cf_equal, lambda: _chan_case(dims=(2, 2, 3)), lambda c: f"cf_equal:d={c['d']}:{c['c']['kind']}", quick=32, thorough=320, case_timeout=90),
    SubCheck("cf_unitary_closed_form", check_cf_unitary, _cf_unitary_case, nt_unitary_pair, quick=64, thorough=640, case_timeout=90),
    SubCheck("cf_every_dimension", check_cf_unitary, None, lambda c: f"cf_dim:d={c['d']}", cases=_cf_dim_cases, case_timeout=90, shards=4),
    SubCheck("fos_pure_product", check_fos_product, _fos_case, nt_fos, quick=64, thorough=640, case_timeout=30, shards=8),
    SubCheck("fos_product_unequal_dims", check_fos_product_dims, _fos_dims_case, lambda c: f"dims={c['dims']},k={c['k']}" if not all(c["basis"]) else None, quick=48, thorough=480, case_timeout=90),
    SubCheck("fos_rejects", check_fos_rejects, _fos_reject_case, nt_fos_reject, quick=200, thorough=2000, case_timeout=60, shards=4),
]
