"""C06 — channel predicates decide by definition; built-in channel constructors are what they claim.

Functions under test: is_completely_positive, is_herm_preserving, is_trace_preserving, is_unital, is_unitary,
is_quantum_channel, is_positive, choi_rank, is_extremal; depolarizing, dephasing, amplitude_damping, phase_damping,
bitflip, pauli_channel, reduction, choi.

Oracles (none of them calls the function under test):
* maps are *constructed* with known structure (Stinespring isometries, unitary conjugations, mixtures of distinct
  unitaries, Gaussian Kraus families, CP minus a certified rank-one part, independent (A_i, B_i) pairs, the same maps
  perturbed by a known margin, transpose / reduction maps); the ground truth of every predicate is then *computed from
  the definition* with plain numpy on the reference pairs (A_i, B_i): J = sum_ij E_ij (x) Phi(E_ij), Hermiticity and
  spectrum of J, sum_i B_i^dagger A_i, Phi(I), rank-one-with-unitary-factor, a PSD input with a negative output
  expectation (non-positivity certificate), linear independence of {A_i^dagger A_j} on a minimal Kraus family of a
  channel.  A verdict is asserted only if the definition holds to 1e-12*scale or fails by >= 1e-3*scale.
* constructors are compared with their closed formulas applied to drawn operators, with the reference Choi matrix of
  the closed formula, with closed-form spectra (CP range), and their Kraus / Choi / direct-application forms with each
  other; the documented ValueErrors are demanded just outside the documented ranges.
"""

from __future__ import annotations

import math

import numpy as np
from hypothesis import strategies as st

from tqv import gen, ref
from tqv.core import HarnessError, Inconclusive, SubCheck, Violation, req

# caller-owned arrays handed to the library must come back unchanged (see tqv/purity.py)
from tqv.purity import install as _install_purity  # noqa: E402

_install_purity('toqito.channel_props', 'toqito.channels', 'toqito.channel_ops', twice=True, skip_twice=('pauli_channel',))  # pauli_channel(<int>) draws a random probability vector

PROPERTY = "C06"
RULE = (
    "Predicate cases are drawn by Hypothesis: a map family (Stinespring channel, adjoint of a Stinespring channel, unitary conjugation, mixture of >= 2 "
    "distinct unitaries, Gaussian CP family, CP minus a certified rank-one part, independent (A,B) pairs, CP minus a "
    "product-vector part with a non-positivity certificate, a single pair (U, B) with B != U, transpose, reduction), d_in, d_out in 2..4, number of Kraus "
    "operators 1..5, real/complex, an optional perturbation of known size (breaking trace preservation, complete "
    "positivity, Hermiticity preservation or unitality) and a PRNG seed for the entries; each map is presented in every "
    "representation the predicate accepts (flat / nested / single-row Kraus lists, unitarily re-mixed Kraus list, "
    "(A,B) pairs, Choi matrix with every accepted sys/dim form).  A predicate case is non-trivial when the family is "
    "not a plain CP family (HP-not-CP, non-HP, non-positive, positive-not-CP), or a perturbation is applied, or "
    "d_in != d_out.  Constructor cases draw the dimension, the parameter (inside the range, at both end points, "
    "1e-6 and 0.3 outside) and the input operator; a constructor case is non-trivial when the parameter is at an end "
    "point or outside the range (for pauli_channel: a probability vector with zero entries, two qubits, or an invalid "
    "vector; for reduction/choi: k >= 2 or non-default a,b,c). distinct = distinct SHA-1 of the canonical case JSON "
    "among non-trivial cases."
)
ASSUMPTIONS = [
    "maps act on square operators: M_{d_in} -> M_{d_out}, both sides of every (A_i, B_i) pair have shape d_out x d_in, d_in, d_out in 2..4 (plus 2->8 and 8->2 for Kraus lists given to is_quantum_channel)",
    "a verdict is asserted only when the definition holds to 1e-12*scale or is violated by >= 1e-3*scale (scale = max(1, |J|_max)); nothing is asserted in between",
    "a bare Choi matrix with d_in != d_out is passed only to predicates with a dim argument (is_trace_preserving, is_unital); the documented default is equal dimensions",
    "is_extremal receives CP representations only (flat, nested, single-row lists, Choi matrix): its nested form is flattened, so the paired form is not an accepted input; it is asked about channels (CP and TP) only",
    "is_unitary / is_extremal are asked about Kraus lists only when the list is minimal (number of operators = Choi rank): both are documented in terms of 'the' Kraus operators; redundant lists such as [U/sqrt2, U/sqrt2] are not generated",
    "choi_rank is asserted only on well-conditioned instances: every singular value of the reference Choi matrix is >= 1e-6*s_max or <= 0.1*(N*eps*s_max), the default cut of numpy.linalg.matrix_rank",
    "is_positive: 'True' is demanded for completely positive maps, 'False' for maps with a verified certificate (a PSD input whose image has a negative expectation <= -1e-2, or whose image is not Hermitian by >= 1e-2); for positive-but-not-CP maps (transpose, reduction) and uncertified maps either verdict is accepted, only its independence of the representation is asserted",
    "numpy eigvalsh / svd / matrix products are trusted for the reference predicates",
    "pauli_channel: probability vectors of length 1 (q = 0) are outside the domain; the scalar form draws from numpy's legacy global RNG, which the check seeds from the case",
    "depolarizing / dephasing / reduction / choi document no parameter range, so no rejection is asserted for them; amplitude_damping, phase_damping, bitflip (gamma, prob in [0,1], 2x2 input) and pauli_channel (non-negative, sums to 1 within numpy.isclose, length 4^q) must raise ValueError outside",
    "choi(a,b,c): the 'documented formula' is the one fixed by the two documented matrices (standard Choi map, reduction map) and the cited paper: Phi(X) = diag(a x00 + b x11 + c x22, c x00 + a x11 + b x22, b x00 + c x11 + a x22) + diag(X) - X",
]

EPS = float(np.finfo(float).eps)
TOL_HOLD = 1e-12
TOL_FAIL = 1e-3


# ==========================================================================================
# ground-truth maps
# ==========================================================================================
CP_BASE = ("stinespring", "unital_dual", "unitary", "mixed_unitary", "cp_generic")
NONCP = ("hp_not_cp", "non_hp", "unitary_pair", "witness_nonpos", "transpose", "reduction")
SQUARE_ONLY = ("unitary", "mixed_unitary", "unitary_pair", "transpose", "reduction")
PERTS = ("tp", "unital", "cp", "hp")


@st.composite
def _map_case(draw, fams=CP_BASE + NONCP, perts=PERTS, dims="any", rmax=5):
    fam = draw(st.sampled_from(list(fams)))
    din = draw(st.integers(2, 4))
    if fam in SQUARE_ONLY or dims == "square":
        dout = din
    elif dims == "rect":
        dout = draw(st.sampled_from([d for d in (2, 3, 4) if d != din]))
        if draw(st.integers(0, 5)) == 0:
            # d_in * d_out a perfect square although d_in != d_out (a guessed "equal dimensions" reading fits the size)
            din, dout = draw(st.sampled_from([[2, 8], [8, 2]]))
    else:
        dout = draw(st.integers(2, 4))
    case = {
        "fam": fam,
        "din": din,
        "dout": dout,
        "r": draw(st.integers(1, rmax)),
        "real": draw(st.booleans()),
        "pert": None,
        "eps": draw(st.sampled_from([0.1, 0.5])),
        "seed": draw(gen.SEED),
    }
    if fam in CP_BASE and perts and draw(st.booleans()):
        case["pert"] = draw(st.sampled_from(list(perts)))
    return case


def _gauss(g, rows, cols, real):
    m = g.normal(size=(rows, cols))
    if not real:
        m = m + 1j * g.normal(size=(rows, cols))
    return m


def _unit(rows, cols, i, j):
    e = np.zeros((rows, cols))
    e[i, j] = 1.0
    return e


class Map:
    """A linear map M_{din} -> M_{dout} with reference pairs (A_i, B_i) and, when it was built CP, its Kraus list."""

    def __init__(self, din, dout, pairs, kraus=None, mixed=None, cert=None):
        self.din, self.dout = din, dout
        self.pairs = pairs
        self.kraus = kraus  # list of d_out x d_in operators, or None when the representation is not CP
        self.mixed = mixed  # unitarily re-mixed Kraus list of the same map
        self.cert = cert  # (P, b): PSD input and output vector for the non-positivity certificate


def build_map(case) -> Map:
    fam, din, dout, r, real = case["fam"], int(case["din"]), int(case["dout"]), int(case["r"]), bool(case["real"])
    eps = float(case["eps"])
    g = gen.rng(case["seed"])

    def sub():
        return int(g.integers(0, 2**62))

    kraus, pairs, cert = None, None, None
    n = din * dout
    if fam == "stinespring":
        r = max(r, -(-din // dout))
        v = gen.rand_isometry(sub(), dout * r, din, real)
        kraus = [v[i * dout : (i + 1) * dout, :].copy() for i in range(r)]
    elif fam == "unital_dual":
        # adjoint of a Stinespring channel M_{dout} -> M_{din}: unital, in general not trace preserving
        r = max(r, -(-dout // din))
        v = gen.rand_isometry(sub(), din * r, dout, real)
        kraus = [v[i * din : (i + 1) * din, :].conj().T.copy() for i in range(r)]
    elif fam == "unitary":
        kraus = [gen.rand_unitary(sub(), din, real)]
    elif fam == "mixed_unitary":
        r = max(2, r)
        p = gen.rand_probs(sub(), r, floor=0.05)
        kraus = [math.sqrt(p[i]) * gen.rand_unitary(sub(), din, real) for i in range(r)]
    elif fam == "cp_generic":
        kraus = [_gauss(g, dout, din, real) / math.sqrt(din) for _ in range(r)]
    elif fam == "hp_not_cp":
        # CP part with r1 <= n-1 operators minus t * (C . C^dagger), C orthogonal to the CP part: eigenvalue -t exactly
        r1 = min(r, n - 1)
        ks = [_gauss(g, dout, din, real) / math.sqrt(din) for _ in range(r1)]
        c = _gauss(g, dout, din, real).reshape(-1)
        q, _ = np.linalg.qr(np.stack([k.reshape(-1) for k in ks], axis=1))
        c = c - q @ (q.conj().T @ c)
        c = (c / np.linalg.norm(c)).reshape(dout, din)
        t = eps
        pairs = [(k, k) for k in ks] + [(math.sqrt(t) * c, -math.sqrt(t) * c)]
    elif fam == "non_hp":
        pairs = [(_gauss(g, dout, din, real) / math.sqrt(din), _gauss(g, dout, din, real) / math.sqrt(din)) for _ in range(r)]
    elif fam == "unitary_pair":
        # one pair (U, B) with B != U: X -> U X B^dagger is not a unitary channel (rank-one Choi matrix, not PSD)
        u = gen.rand_unitary(sub(), din, real)
        variant = r % 3
        if variant == 0:
            pairs = [(u, -u)]
        elif variant == 1:
            pairs = [(u, np.exp(1j * float(g.uniform(0.3, 2.8))) * u)]
        else:
            pairs = [(u, gen.rand_unitary(sub(), din, real))]
    elif fam == "witness_nonpos":
        # Phi(X) = sum K' X K'^dagger - t |b><c| X |c><b| with <b|K'|c> = 0: <b| Phi(|c><c|) |b> = -t
        b = gen.rand_ket(sub(), dout, real)
        c = gen.rand_ket(sub(), din, real)
        ks = []
        for _ in range(r):
            k = _gauss(g, dout, din, real) / math.sqrt(din)
            k = k - (b.conj() @ k @ c) * np.outer(b, c.conj())
            ks.append(k)
        t = eps
        cw = np.outer(b, c.conj())
        pairs = [(k, k) for k in ks] + [(math.sqrt(t) * cw, -math.sqrt(t) * cw)]
        cert = (np.outer(c, c.conj()), b)
    elif fam == "transpose":
        pairs = [(_unit(din, din, i, j), _unit(din, din, j, i)) for i in range(din) for j in range(din)]
    elif fam == "reduction":
        pairs = [(_unit(din, din, i, j), _unit(din, din, i, j)) for i in range(din) for j in range(din)]
        pairs.append((np.eye(din), -np.eye(din)))
    else:  # pragma: no cover
        raise AssertionError(fam)

    pert = case.get("pert")
    if kraus is not None and pert:
        c1 = _gauss(g, dout, din, real)
        c1 = c1 / np.linalg.norm(c1)
        w = gen.rand_unitary(sub(), dout, real)
        if pert == "tp":
            # + eps * C1 X C1^dagger : still CP, trace preservation off by eps * C1^dagger C1
            kraus = kraus + [math.sqrt(eps) * c1]
        elif pert == "unital":
            # (1-eps) Phi + eps * Tr(X)|0><0| : CP, trace preservation unchanged, Phi(I) moved by eps*(d_in|0><0| - Phi(I))
            kraus = [math.sqrt(1 - eps) * k for k in kraus] + [math.sqrt(eps) * _unit(dout, din, 0, i) for i in range(din)]
        elif pert == "cp":
            # + eps*(C1 X C1^dagger - W C1 X C1^dagger W^dagger): Hermiticity and trace functional unchanged, CP broken
            pairs = [(k, k) for k in kraus] + [(math.sqrt(eps) * c1, math.sqrt(eps) * c1), (math.sqrt(eps) * (w @ c1), -math.sqrt(eps) * (w @ c1))]
            kraus = None
        elif pert == "hp":
            # + i*eps*(C1 X C1^dagger - W C1 X C1^dagger W^dagger): trace functional unchanged, Hermiticity broken
            pairs = [(k, k) for k in kraus] + [(1j * eps * c1, c1), (-1j * eps * (w @ c1), w @ c1)]
            kraus = None
    mixed = None
    if kraus is not None:
        pairs = [(k, k) for k in kraus]
        rr = len(kraus)
        vmix = gen.rand_unitary(sub(), rr, real)
        mixed = [sum(vmix[i, j] * kraus[j] for j in range(rr)) for i in range(rr)]
    return Map(din, dout, pairs, kraus, mixed, cert)


# ------------------------------------------------------------------------------------------
# reference predicates (three-valued: True / False / None = inside the tolerance band)
# ------------------------------------------------------------------------------------------
def _tri(dev, scale=1.0):
    if dev <= TOL_HOLD * scale:
        return True
    if dev >= TOL_FAIL * scale:
        return False
    return None


def truth_of(m: Map) -> dict:
    din, dout = m.din, m.dout
    j = ref.choi_of_pairs(m.pairs, din)
    scale = max(1.0, float(np.max(np.abs(j))))
    t = {"J": j, "scale": scale}
    t["hp"] = _tri(float(np.max(np.abs(j - j.conj().T))), scale)
    lam = np.linalg.eigvalsh((j + j.conj().T) / 2)[::-1]  # descending
    t["lam"] = lam
    if t["hp"] is True:
        t["cp"] = True if lam[-1] >= -TOL_HOLD * scale else (False if lam[-1] <= -TOL_FAIL * scale else None)
    else:
        t["cp"] = t["hp"]  # False -> not CP (CP maps preserve Hermiticity); None -> undecided
    s_tp = sum(b.conj().T @ a for a, b in m.pairs)  # Tr Phi(X) = Tr(S X)
    t["tp"] = _tri(float(np.max(np.abs(s_tp - np.eye(din)))))
    phi_id = sum(a @ b.conj().T for a, b in m.pairs)
    t["unital"] = _tri(float(np.max(np.abs(phi_id - np.eye(dout)))))
    if t["cp"] is False or t["tp"] is False:
        t["qc"] = False
    elif t["cp"] is True and t["tp"] is True:
        t["qc"] = True
    else:
        t["qc"] = None
    # singular values / rank
    sv = np.linalg.svd(j, compute_uv=False)
    t["sv"] = sv
    cut = len(sv) * EPS * sv[0]
    big = sv >= 1e-6 * sv[0]
    small = sv <= 0.1 * cut
    t["rank"] = int(big.sum()) if bool(np.all(big | small)) else None
    t["rank_loose"] = int((sv >= 1e-6 * sv[0]).sum()) if bool(np.all((sv >= 1e-6 * sv[0]) | (sv <= 1e-12 * sv[0]))) else None
    # unitary channel: J = vec(U) vec(U)^dagger with U unitary
    if din != dout or t["cp"] is False:
        t["unitary"] = False
    elif t["cp"] is None:
        t["unitary"] = None
    elif lam[1] >= TOL_FAIL * scale:
        t["unitary"] = False
    elif lam[1] <= TOL_HOLD * scale:
        w, v = np.linalg.eigh((j + j.conj().T) / 2)
        k = math.sqrt(max(w[-1], 0.0)) * v[:, -1].reshape(din, dout).T  # vec index (i, a) -> K[a, i]
        dev = max(float(np.max(np.abs(k.conj().T @ k - np.eye(din)))), float(np.max(np.abs(k @ k.conj().T - np.eye(din)))))
        t["unitary"] = _tri(dev)
    else:
        t["unitary"] = None
    # positivity: True for CP maps, False with a verified certificate, else no claim
    t["pos"] = True if t["cp"] is True else None
    if m.cert is not None and t["cp"] is not True:
        p_in, b = m.cert
        ok_in = ref.lam_min(p_in) >= -1e-14
        val = float(np.real(b.conj() @ ref.apply_pairs(m.pairs, p_in) @ b))
        if ok_in and val <= -1e-2:
            t["pos"] = False
    if t["hp"] is False and t["pos"] is None:
        # a positive map preserves Hermiticity: a rank-one PSD input whose image is not Hermitian certifies non-positivity
        worst = 0.0
        for i in range(din):
            for k in range(i, din):
                for ph in (1.0, 1j):
                    vec = np.zeros(din, dtype=complex)
                    vec[i] += 1.0
                    if k != i:
                        vec[k] += ph
                    out = ref.apply_pairs(m.pairs, np.outer(vec, vec.conj()))
                    worst = max(worst, float(np.max(np.abs(out - out.conj().T))))
        if worst >= 1e-2:
            t["pos"] = False
    # extremality (channels only), from a minimal Kraus family of the reference Choi matrix
    t["extremal"] = None
    t["r_min"] = t["rank_loose"]
    if t["qc"] is True and t["rank_loose"] is not None:
        rmin = t["rank_loose"]
        if rmin > din:
            t["extremal"] = False  # r^2 > d_in^2 operators in M_{d_in} are linearly dependent
        else:
            w, v = np.linalg.eigh((j + j.conj().T) / 2)
            ks = [math.sqrt(w[-1 - i]) * v[:, -1 - i].reshape(din, dout).T for i in range(rmin)]
            mm = np.stack([(a.conj().T @ b).reshape(-1) for a in ks for b in ks], axis=1)
            smin = float(np.linalg.svd(mm, compute_uv=False)[-1])
            t["extremal_smin"] = smin
            if smin >= 1e-4:
                t["extremal"] = True
            elif smin <= 1e-12:
                t["extremal"] = False
    return t


# ------------------------------------------------------------------------------------------
# representations
# ------------------------------------------------------------------------------------------
def _maybe_real(x, real):
    x = np.array(x)
    if real and np.iscomplexobj(x) and float(np.max(np.abs(x.imag))) == 0.0:
        return x.real.copy()
    return x


def list_reps(m: Map, case, cp_only=False, with_pairs=True):
    """(name, fresh list object) for every list representation of the map."""
    real = bool(case["real"])
    out = []
    if m.kraus is not None:
        ks = [_maybe_real(k, real) for k in m.kraus]
        out.append(("flat", [k.copy() for k in ks]))
        out.append(("nested", [[k.copy()] for k in ks]))
        if len(ks) > 2:
            out.append(("row", [[k.copy() for k in ks]]))
        out.append(("flat_mixed", [_maybe_real(k, real) for k in m.mixed]))
        if with_pairs and not cp_only:
            out.append(("pairs", [[k.copy(), k.copy()] for k in ks]))
    elif not cp_only and with_pairs:
        out.append(("pairs", [[_maybe_real(a, real), _maybe_real(b, real)] for a, b in m.pairs]))
    return out


def choi_rep(m: Map, case, t):
    return _maybe_real(t["J"], bool(case["real"]))


def _label(case):
    parts = []
    if case["fam"] in NONCP:
        parts.append(case["fam"])
    if case.get("pert"):
        parts.append(case["fam"] + "+" + case["pert"])
    if case["din"] != case["dout"]:
        parts.append("rect")
    return ",".join(parts) or None


def _describe(case, t):
    return (
        f"[{case['fam']}{'+' + case['pert'] if case.get('pert') else ''} {case['din']}->{case['dout']}; definition: "
        f"hp={t['hp']} cp={t['cp']} tp={t['tp']} unital={t['unital']} unitary={t['unitary']} lam_min={t['lam'][-1]:.3g}]"
    )


def _verdict(fname, rep, got, want, case, t, sig=None):
    if want is None:
        return
    req(
        isinstance(got, (bool, np.bool_)) and bool(got) == want,
        f"{fname}({rep}) returned {got!r}, the definition gives {want} {_describe(case, t)}",
        sig or f"{fname}:verdict",
    )


# ==========================================================================================
# P1: completely positive / Hermiticity preserving / positive
# ==========================================================================================
def check_cp_hp_positive(case):
    from toqito.channel_props import is_completely_positive, is_herm_preserving, is_positive

    m = build_map(case)
    t = truth_of(m)
    reps = list_reps(m, case)
    if m.din == m.dout:
        reps.append(("choi", choi_rep(m, case, t)))
    pos_seen = {}
    for name, obj in reps:
        _verdict("is_completely_positive", name, is_completely_positive(obj), t["cp"], case, t)
        _verdict("is_herm_preserving", name, is_herm_preserving(obj), t["hp"], case, t)
        got = is_positive(obj)
        if t["pos"] is True:
            _verdict("is_positive", name, got, True, case, t, "is_positive:rejects-cp")
        elif t["pos"] is False:
            _verdict("is_positive", name, got, False, case, t, "is_positive:accepts-nonpositive")
        pos_seen[name] = bool(got)
    if t["cp"] is False and t["hp"] is True and len(set(pos_seen.values())) > 1:
        raise Violation(f"is_positive depends on the representation of the same map: {pos_seen} {_describe(case, t)}", "is_positive:representation")


# ==========================================================================================
# P2/P3: trace preserving
# ==========================================================================================
def _swap_choi(j, din, dout):
    return ref.permute(j, [1, 0], [din, dout])


def check_tp_pairs_choi(case):
    from toqito.channel_props import is_trace_preserving

    m = build_map(case)
    t = truth_of(m)
    din, dout = m.din, m.dout
    for name, obj in list_reps(m, case):
        if name != "pairs":
            continue
        _verdict("is_trace_preserving", name, is_trace_preserving(obj), t["tp"], case, t)
    j = choi_rep(m, case, t)
    jsw = _swap_choi(j, din, dout)
    calls = [
        ("choi,dim=[din,dout]", lambda: is_trace_preserving(j.copy(), dim=[din, dout])),
        ("choi,dim=array", lambda: is_trace_preserving(j.copy(), dim=np.array([din, dout]))),
        ("choi,sys=2,dim=[din,dout]", lambda: is_trace_preserving(j.copy(), sys=2, dim=[din, dout])),
        ("swapped choi,sys=1,dim=[dout,din]", lambda: is_trace_preserving(jsw.copy(), sys=1, dim=[dout, din])),
    ]
    if din == dout:
        calls += [
            ("choi", lambda: is_trace_preserving(j.copy())),
            ("choi,dim=int", lambda: is_trace_preserving(j.copy(), dim=din)),
            ("swapped choi,sys=1", lambda: is_trace_preserving(jsw.copy(), sys=1)),
        ]
    for name, f in calls:
        _verdict("is_trace_preserving", name, f(), t["tp"], case, t)


def check_tp_cp_lists(case):
    """Flat / nested / single-row Kraus lists: the forms every other channel function accepts for CP maps."""
    from toqito.channel_props import is_trace_preserving

    m = build_map(case)
    t = truth_of(m)
    if t["tp"] is None:
        return
    for name, obj in list_reps(m, case, cp_only=True):
        try:
            got = is_trace_preserving(obj)
        except Exception as exc:  # noqa: BLE001
            raise Violation(
                f"is_trace_preserving({name} Kraus list, {len(m.kraus)} operators {m.dout}x{m.din}) raised {type(exc).__name__}: {exc}; "
                f"the definition gives {t['tp']}",
                "is_trace_preserving:cp-list-form",
            ) from None
        _verdict("is_trace_preserving", name, got, t["tp"], case, t, "is_trace_preserving:cp-list-form")


# ==========================================================================================
# P4: unital
# ==========================================================================================
def check_unital(case):
    from toqito.channel_props import is_unital

    m = build_map(case)
    t = truth_of(m)
    din, dout = m.din, m.dout
    dims = [("", None), ("dim=[din,dout]", [din, dout]), ("dim=array", np.array([din, dout])), ("dim=2x2", [[din, dout], [din, dout]])]
    if din == dout:
        dims.append(("dim=int", din))
    k = int(case["seed"]) % len(dims)
    for name, obj in list_reps(m, case):
        _verdict("is_unital", name, is_unital(obj), t["unital"], case, t)
        dn, dv = dims[k]
        k = (k + 1) % len(dims)
        if dv is not None:
            _verdict("is_unital", f"{name},{dn}", is_unital(obj, dim=dv), t["unital"], case, t)
    j = choi_rep(m, case, t)
    for dn, dv in dims:
        if dv is None and din != dout:
            continue
        got = is_unital(j.copy()) if dv is None else is_unital(j.copy(), dim=dv)
        _verdict("is_unital", f"choi,{dn}", got, t["unital"], case, t)


# ==========================================================================================
# P5: unitary
# ==========================================================================================
def _minimal(m: Map, t):
    return m.kraus is not None and t["rank_loose"] is not None and len(m.kraus) == t["rank_loose"]


def check_unitary(case):
    from toqito.channel_props import is_unitary

    m = build_map(case)
    t = truth_of(m)
    if t["unitary"] is None:
        return
    for name, obj in list_reps(m, case):
        if m.kraus is not None and not _minimal(m, t):
            continue
        if m.kraus is None and t["unitary"] is True:
            continue  # never generated: a unitary channel written with A != B
        _verdict("is_unitary", name, is_unitary(obj), t["unitary"], case, t)
    if m.din == m.dout:
        _verdict("is_unitary", "choi", is_unitary(choi_rep(m, case, t)), t["unitary"], case, t)


# ==========================================================================================
# P6/P7: quantum channel
# ==========================================================================================
def check_channel_square(case):
    from toqito.channel_props import is_quantum_channel

    m = build_map(case)
    t = truth_of(m)
    for name, obj in list_reps(m, case):
        _verdict("is_quantum_channel", name, is_quantum_channel(obj), t["qc"], case, t)
    _verdict("is_quantum_channel", "choi", is_quantum_channel(choi_rep(m, case, t)), t["qc"], case, t)


def check_channel_rect_kraus(case):
    """Kraus lists with d_in != d_out (the dimensions are carried by the operators)."""
    from toqito.channel_props import is_quantum_channel

    m = build_map(case)
    t = truth_of(m)
    if t["qc"] is None:
        return
    for name, obj in list_reps(m, case):
        try:
            got = is_quantum_channel(obj)
        except Exception as exc:  # noqa: BLE001
            raise Violation(
                f"is_quantum_channel({name} Kraus list, operators {m.dout}x{m.din}) raised {type(exc).__name__}: {exc}; "
                f"the definition gives {t['qc']} {_describe(case, t)}",
                "is_quantum_channel:rect-kraus",
            ) from None
        _verdict("is_quantum_channel", name, got, t["qc"], case, t, "is_quantum_channel:rect-kraus")


# ==========================================================================================
# P8: Choi rank
# ==========================================================================================
def check_choi_rank(case):
    from toqito.channel_props import choi_rank

    m = build_map(case)
    t = truth_of(m)
    if t["rank"] is None:
        return
    reps = list_reps(m, case)
    if m.din == m.dout:
        reps.append(("choi", choi_rep(m, case, t)))
    for name, obj in reps:
        got = choi_rank(obj)
        req(
            isinstance(got, (int, np.integer)) and int(got) == t["rank"],
            f"choi_rank({name}) = {got!r}, the reference Choi matrix has rank {t['rank']} (singular values {np.array2string(t['sv'], precision=3)})",
            "choi_rank:value",
        )


# ==========================================================================================
# P9: extremal
# ==========================================================================================
def check_extremal(case):
    from toqito.channel_props import is_extremal

    m = build_map(case)
    t = truth_of(m)
    if t["extremal"] is None or m.kraus is None:
        return
    detail = f"[minimal Kraus number {t['r_min']}, sigma_min of the A_i^dagger A_j system {t.get('extremal_smin', 0.0):.3g}]"
    reps = list_reps(m, case, cp_only=True) if _minimal(m, t) else []
    if m.din == m.dout:
        reps.append(("choi", choi_rep(m, case, t)))
    for name, obj in reps:
        got = is_extremal(obj)
        req(
            isinstance(got, (bool, np.bool_)) and bool(got) == t["extremal"],
            f"is_extremal({name}) returned {got!r}, Theorem 2.31 / convexity gives {t['extremal']} {detail} {_describe(case, t)}",
            "is_extremal:verdict",
        )


def _nt_extremal(case):
    lab = _label(case)
    if lab:
        return lab
    if case["fam"] == "mixed_unitary":
        return "mixed_unitary"
    if case["fam"] == "stinespring" and case["r"] >= 2:
        return "stinespring,r>=2"
    return None


# ==========================================================================================
# P9b: extremal channels whose products A_i^dagger A_j are independent but ill conditioned
# (added after seeded change C06-c1 was missed: the rank test moved to the Gram matrix of the products with the same
# absolute tolerance, which squares the singular values - every generated extremal channel had sigma_min >= 1e-4)
# ==========================================================================================
@st.composite
def _extremal_ill_case(draw):
    return {
        "kind": draw(st.sampled_from(["ampdamp", "ampdamp", "weak"])),
        "d": draw(st.integers(2, 4)),
        "r": draw(st.integers(2, 3)),
        "k": draw(st.sampled_from([2, 3, 4, 5, 6])),  # gamma = 10^-k (ampdamp) / coupling 10^-(k/2) (weak)
        "real": draw(st.booleans()),
        "rot": draw(st.booleans()),
        "seed": draw(gen.SEED),
    }


def _extremal_ill_kraus(case):
    d, real = int(case["d"]), bool(case["real"])
    g = gen.rng(case["seed"])
    if case["kind"] == "ampdamp":
        gamma = 10.0 ** (-int(case["k"]))
        k0 = np.eye(d)
        k0[d - 1, d - 1] = math.sqrt(1 - gamma)
        k1 = np.zeros((d, d))
        k1[0, d - 1] = math.sqrt(gamma)
        ks = [k0, k1]
    else:
        # weakly coupled Stinespring isometry: exp(i eps G) restricted to the environment state |0>
        r = min(int(case["r"]), d)
        eps = 10.0 ** (-int(case["k"]) / 2.0)
        import scipy.linalg

        h = _gauss(g, d * r, d * r, real)
        gen_ = (h - h.T) / 2 if real else 1j * (h + h.conj().T) / 2  # antisymmetric / anti-Hermitian generator
        gen_ = gen_ / np.linalg.norm(gen_, 2)
        u = scipy.linalg.expm(eps * gen_)
        # u acts on environment (x) system, environment index major; the isometry is u on environment state |0>
        iso = u.reshape(r, d, r, d)[:, :, 0, :].reshape(r * d, d)
        ks = [iso[i * d : (i + 1) * d, :].copy() for i in range(r)]
    if case["rot"]:
        ua = gen.rand_unitary(int(g.integers(0, 2**62)), d, real)
        ub = gen.rand_unitary(int(g.integers(0, 2**62)), d, real)
        ks = [ua @ k @ ub for k in ks]
    return ks


def check_extremal_ill(case):
    from toqito.channel_props import is_extremal

    ks = _extremal_ill_kraus(case)
    d = int(case["d"])
    tp_dev = float(np.max(np.abs(sum(k.conj().T @ k for k in ks) - np.eye(d))))
    if tp_dev > 1e-12:
        raise HarnessError(f"ill-conditioned extremal builder is not trace preserving ({tp_dev:.2e})")
    mm = np.stack([(a.conj().T @ b).reshape(-1) for a in ks for b in ks], axis=1)
    sv = np.linalg.svd(mm, compute_uv=False)
    smin = float(sv[-1])
    if smin < 1e-7:  # less than 100 x the rank tolerance (1e-9) of is_extremal: not asserted
        raise Inconclusive("sigma_min within 100x of the rank tolerance")
    real = bool(case["real"])
    reps = [("flat", [_maybe_real(k, real) for k in ks]), ("nested", [[_maybe_real(k, real)] for k in ks])]
    j = ref.choi_of_pairs([(k, k) for k in ks], d)
    if float(np.linalg.eigvalsh((j + j.conj().T) / 2)[-len(ks)]) >= 1e-7:  # every Kraus direction far above choi_to_kraus' 1e-9
        reps.append(("choi", _maybe_real(j, real)))
    for name, obj in reps:
        got = is_extremal(obj)
        req(
            isinstance(got, (bool, np.bool_)) and bool(got) is True,
            f"is_extremal({name}) returned {got!r} for a {case['kind']} channel on M_{d} with {len(ks)} Kraus operators whose products "
            f"A_i^dagger A_j are linearly independent: smallest singular value {smin:.3g} (largest {sv[0]:.3g}), rank tolerance 1e-9",
            "is_extremal:ill-conditioned-independent-family",
        )


def _nt_extremal_ill(case):
    return f"{case['kind']},k={case['k']}" if int(case["k"]) >= 4 else None


# ==========================================================================================
# constructors
# ==========================================================================================
def _param(draw, lo, hi, extra=()):
    """A parameter inside [lo, hi], at an end point, or 1e-6 / 0.3 outside; returns (value, where)."""
    where = draw(st.sampled_from(["in", "in", "in", "lo", "hi", "below_eps", "above_eps", "below", "above"] + list(extra)))
    if where == "in":
        u = draw(st.floats(0.0, 1.0, allow_nan=False, allow_infinity=False))
        return lo + (hi - lo) * u, where
    if where in extra:
        return 0.0, where
    return {"lo": lo, "hi": hi, "below_eps": lo - 1e-6, "above_eps": hi + 1e-6, "below": lo - 0.3, "above": hi + 0.3}[where], where


def _x_of(case, d):
    return gen.build_matrix(case["x"]).astype(complex) if case["x"]["dtype"] != "int" else gen.build_matrix(case["x"])


def _close(a, b, scale, what, sig):
    a = np.asarray(a)
    b = np.asarray(b)
    req(a.shape == b.shape, f"{what}: shape {a.shape} != {b.shape}", sig + ":shape")
    err = float(np.max(np.abs(a - b))) if a.size else 0.0
    req(err <= 1e-9 * max(1.0, scale), f"{what}: max abs difference {err:.3g}", sig)


def _choi_of_fn(fn, d):
    j = np.zeros((d * d, d * d), dtype=complex)
    for i in range(d):
        for k in range(d):
            j[i * d : (i + 1) * d, k * d : (k + 1) * d] = fn(_unit(d, d, i, k))
    return j


def _ref_channel_props(j, d, what, sig, cp_expected=None, unital=True):
    """TP / unital / HP / CP of a d->d Choi matrix with reference predicates."""
    t4 = np.asarray(j).reshape(d, d, d, d)
    tr_out = np.einsum("iaka->ik", t4)
    tr_in = np.einsum("iaib->ab", t4)
    req(np.allclose(tr_out, np.eye(d), atol=1e-9, rtol=0), f"{what}: not trace preserving (Tr_out J != I)", sig + ":tp")
    if unital:
        req(np.allclose(tr_in, np.eye(d), atol=1e-9, rtol=0), f"{what}: not unital (Phi(I) != I)", sig + ":unital")
    req(np.allclose(j, np.asarray(j).conj().T, atol=1e-9, rtol=0), f"{what}: Choi matrix not Hermitian", sig + ":hp")
    if cp_expected is not None:
        lm = ref.lam_min(np.asarray(j))
        if cp_expected:
            req(lm >= -1e-9, f"{what}: expected completely positive, lambda_min(J) = {lm:.3g}", sig + ":cp")
        else:
            req(lm < 0, f"{what}: expected not completely positive, lambda_min(J) = {lm:.3g}", sig + ":cp")


# ---- depolarizing / dephasing -----------------------------------------------------------------
@st.composite
def _dep_case(draw):
    kind = draw(st.sampled_from(["depolarizing", "dephasing"]))
    d = draw(st.integers(2, 5))
    lo = -1.0 / (d * d - 1) if kind == "depolarizing" else -1.0 / (d - 1)
    p, where = _param(draw, lo, 1.0, extra=("default", "zero"))
    return {"kind": kind, "d": d, "p": p, "where": where, "x": draw(gen.matrix_spec(d, d, sources=("small", "prng")))}


def check_dep(case):
    from toqito.channel_ops import apply_channel
    from toqito.channels import dephasing, depolarizing

    kind, d, p = case["kind"], int(case["d"]), float(case["p"])
    f = depolarizing if kind == "depolarizing" else dephasing
    j = f(d) if case["where"] == "default" else f(d, p)
    req(isinstance(j, np.ndarray) and j.shape == (d * d, d * d), f"{kind}({d}) is not a {d * d}x{d * d} array", f"{kind}:shape")
    if kind == "depolarizing":
        formula = lambda x: (1 - p) * np.trace(x) * np.eye(d) / d + p * x  # noqa: E731
        spec = sorted([(1 - p) / d] * (d * d - 1) + [(1 - p) / d + p * d])
    else:
        formula = lambda x: (1 - p) * np.diag(np.diag(x)) + p * x  # noqa: E731
        spec = sorted([0.0] * (d * d - d) + [1 - p] * (d - 1) + [1 + p * (d - 1)])
    x = _x_of(case, d)
    scale = float(np.max(np.abs(x))) * d
    _close(j, _choi_of_fn(formula, d), 1.0, f"{kind}({d}, {p}) vs the Choi matrix of the textbook formula", f"{kind}:choi")
    _close(ref.apply_choi(j, x, d, d), formula(x), scale, f"{kind}({d}, {p}) applied to X (reference application)", f"{kind}:action")
    _close(apply_channel(x, j), formula(x), scale, f"apply_channel(X, {kind}({d}, {p}))", f"{kind}:apply_channel")
    ev = np.linalg.eigvalsh((j + j.conj().T) / 2)
    _close(ev, np.array(spec), 1.0, f"{kind}({d}, {p}) spectrum vs closed form", f"{kind}:spectrum")
    cp = None
    if case["where"] in ("in", "lo", "hi", "default", "zero"):
        cp = True
    elif case["where"] in ("below", "above", "below_eps", "above_eps"):
        cp = False
    if cp is False and case["where"].endswith("_eps"):
        # 1e-6 outside: lambda_min ~ -1e-7; require the sign only through the closed-form spectrum checked above
        req(min(spec) < 0, "closed form: expected a negative eigenvalue", f"{kind}:oracle")
        cp = None
    _ref_channel_props(j, d, f"{kind}({d}, {p})", kind, cp_expected=cp)


def _nt_dep(case):
    return f"{case['kind']}:{case['where']}" if case["where"] not in ("in", "default", "zero") else None


# ---- qubit noise channels ----------------------------------------------------------------------
@st.composite
def _qubit_case(draw):
    kind = draw(st.sampled_from(["amplitude_damping", "amplitude_damping", "phase_damping", "bitflip"]))
    g, gw = _param(draw, 0.0, 1.0, extra=("default",))
    case = {"kind": kind, "gamma": g, "gamma_where": gw, "x": draw(gen.matrix_spec(2, 2, sources=("small", "prng")))}
    if kind == "amplitude_damping":
        pr, pw = _param(draw, 0.0, 1.0, extra=("default",))
        case["prob"], case["prob_where"] = pr, pw
    case["mode"] = draw(st.sampled_from(["apply", "apply", "kraus", "badshape"]))
    case["badshape"] = draw(st.sampled_from([[3, 3], [2, 3], [3, 2], [4, 4], [1, 1], [2]]))
    return case


_OUT = ("below_eps", "above_eps", "below", "above")


def check_qubit(case):
    from toqito.channel_ops import apply_channel
    from toqito.channels import amplitude_damping, bitflip, phase_damping

    kind = case["kind"]
    g = float(case["gamma"])
    kwargs = {}
    pname = "prob" if kind == "bitflip" else "gamma"
    if case["gamma_where"] != "default":
        kwargs[pname] = g
    else:
        g = 0.0
    pr = 1.0
    if kind == "amplitude_damping":
        if case["prob_where"] != "default":
            pr = float(case["prob"])
            kwargs["prob"] = pr
    f = {"amplitude_damping": amplitude_damping, "phase_damping": phase_damping, "bitflip": bitflip}[kind]
    outside = case["gamma_where"] in _OUT or (kind == "amplitude_damping" and case["prob_where"] in _OUT)
    x = _x_of(case, 2)
    mode = case["mode"]
    if mode == "badshape":
        arg = np.ones(tuple(case["badshape"]))
    elif mode == "kraus":
        arg = None
    else:
        arg = x
    if outside or mode == "badshape":
        why = "parameter outside [0, 1]" if outside else f"input of shape {tuple(case['badshape'])}"
        try:
            out = f(arg, **kwargs)
        except ValueError:
            return
        raise Violation(f"{kind}({'None' if arg is None else 'X'}, {kwargs}) accepted {why} and returned {type(out).__name__}", f"{kind}:accepts-invalid")
    sg, s1g = math.sqrt(g), math.sqrt(1 - g)
    if kind == "amplitude_damping":
        def formula(m_):
            a, b, c, d_ = m_[0, 0], m_[0, 1], m_[1, 0], m_[1, 1]
            up = np.array([[a + g * d_, s1g * b], [s1g * c, (1 - g) * d_]])
            dn = np.array([[(1 - g) * a, s1g * b], [s1g * c, d_ + g * a]])
            return pr * up + (1 - pr) * dn
        nk = 4
    elif kind == "phase_damping":
        def formula(m_):
            return np.array([[m_[0, 0], s1g * m_[0, 1]], [s1g * m_[1, 0], m_[1, 1]]])
        nk = 2
    else:
        sx = np.array([[0, 1], [1, 0]])

        def formula(m_):
            return (1 - g) * m_ + g * sx @ m_ @ sx
        nk = 2
    scale = float(np.max(np.abs(x)))
    if mode == "apply":
        _close(f(x, **kwargs), formula(x.astype(complex)), scale, f"{kind}(X, {kwargs}) vs the closed formula", f"{kind}:action")
        return
    ks = f(None, **kwargs)
    req(isinstance(ks, list) and len(ks) == nk and all(isinstance(k, np.ndarray) and k.shape == (2, 2) for k in ks), f"{kind}(None) did not return {nk} 2x2 Kraus operators", f"{kind}:kraus-shape")
    pairs = [(k, k) for k in ks]
    _close(sum(k.conj().T @ k for k in ks), np.eye(2), 1.0, f"{kind} Kraus operators {kwargs}: sum K^dagger K", f"{kind}:kraus-tp")
    _close(ref.choi_of_pairs(pairs, 2), _choi_of_fn(formula, 2), 1.0, f"{kind} Kraus operators {kwargs}: Choi matrix vs closed formula", f"{kind}:kraus-choi")
    _close(ref.apply_pairs(pairs, x), formula(x.astype(complex)), scale, f"{kind} Kraus operators {kwargs} applied to X", f"{kind}:kraus-action")
    _close(apply_channel(x, [k.copy() for k in ks]), f(x, **kwargs), scale, f"apply_channel(X, {kind}(None)) vs {kind}(X)", f"{kind}:kraus-vs-direct")
    if kind == "bitflip":
        _ref_channel_props(ref.choi_of_pairs(pairs, 2), 2, f"{kind}{kwargs}", kind, cp_expected=True, unital=True)
    elif kind == "phase_damping":
        _ref_channel_props(ref.choi_of_pairs(pairs, 2), 2, f"{kind}{kwargs}", kind, cp_expected=True, unital=True)
    else:
        _ref_channel_props(ref.choi_of_pairs(pairs, 2), 2, f"{kind}{kwargs}", kind, cp_expected=True, unital=False)


def _nt_qubit(case):
    ws = [case["gamma_where"]] + ([case["prob_where"]] if case["kind"] == "amplitude_damping" else [])
    if case["mode"] == "badshape":
        return f"{case['kind']}:badshape"
    ws = [w for w in ws if w not in ("in", "default")]
    return f"{case['kind']}:{'+'.join(ws)}" if ws else None


# ---- pauli_channel -----------------------------------------------------------------------------
_PAULIS = [np.eye(2, dtype=complex), np.array([[0, 1], [1, 0]], dtype=complex), np.array([[0, -1j], [1j, 0]]), np.array([[1, 0], [0, -1]], dtype=complex)]


def _pauli_string(j, q):
    digits = [(j // 4 ** (q - 1 - k)) % 4 for k in range(q)]
    return ref.kron_all([_PAULIS[a] for a in digits]).astype(complex)


@st.composite
def _pauli_case(draw):
    q = draw(st.sampled_from([1, 1, 2]))
    kind = draw(st.sampled_from(["dyadic", "dyadic", "dirichlet", "scalar", "negative", "unnormalised", "badlength"]))
    case = {"q": q, "kind": kind, "seed": draw(gen.SEED), "aslist": False}
    n = 4**q
    if kind == "dyadic":
        case["counts"] = draw(gen.dyadic_probs(n, m=6, allow_zero=True))
    elif kind == "negative":
        case["neg"] = draw(st.sampled_from([1e-6, 1e-3, 0.2]))
        case["pos_idx"] = draw(st.integers(0, n - 1))
        case["aslist"] = draw(st.booleans())
    elif kind == "unnormalised":
        case["off"] = draw(st.sampled_from([-0.3, -1e-3, 1e-3, 0.3]))
        case["aslist"] = draw(st.booleans())
    elif kind == "badlength":
        case["len"] = draw(st.sampled_from([2, 3, 5, 8, 15, 17]))
        case["aslist"] = draw(st.booleans())
    case["ret_kraus"] = draw(st.booleans())
    case["with_input"] = draw(st.booleans())
    case["x"] = draw(gen.matrix_spec(2**q, 2**q, sources=("small", "prng")))
    return case


def _dense(a):
    if hasattr(a, "toarray"):
        a = a.toarray()
    return np.asarray(a)


def check_pauli(case):
    from toqito.channels import pauli_channel

    q, kind = int(case["q"]), case["kind"]
    n, d = 4**q, 2**q
    g = gen.rng(case["seed"])
    if kind in ("negative", "unnormalised", "badlength"):
        if kind == "badlength":
            ln = int(case["len"])
            p = np.full(ln, 1.0 / ln)
            why = f"length {ln}"
        else:
            p = gen.rand_probs(int(g.integers(0, 2**62)), n, floor=0.02)
            if kind == "negative":
                i = int(case["pos_idx"])
                k = (i + 1) % n
                p[k] += p[i] + float(case["neg"])
                p[i] = -float(case["neg"])
                why = f"a negative entry {p[i]} (sum {p.sum()})"
            else:
                p = p * (1 + float(case["off"]))
                why = f"sum {p.sum()}"
        arg = p.tolist() if case["aslist"] else p
        try:
            pauli_channel(prob=arg)
        except ValueError:
            return
        raise Violation(f"pauli_channel accepted a probability vector with {why}", "pauli_channel:accepts-invalid")
    x = _x_of(case, d)
    kwargs = {}
    if case["ret_kraus"] or kind == "scalar":
        kwargs["return_kraus_ops"] = True
    if case["with_input"]:
        kwargs["input_mat"] = x
    if kind == "scalar":
        state = np.random.get_state()
        try:
            np.random.seed(int(case["seed"]) % (2**32))
            res = pauli_channel(prob=q, **kwargs)
        finally:
            np.random.set_state(state)
        p = None
    else:
        if kind == "dyadic":
            p = np.array(gen.exact_probs(case["counts"]))
        else:
            p = gen.rand_probs(int(g.integers(0, 2**62)), n, floor=0.0)
        res = pauli_channel(prob=p.copy(), **kwargs)
    want_len = 1 + bool(case["with_input"]) + bool(kwargs.get("return_kraus_ops"))
    if want_len == 1:
        phi, out, ks = res, None, None
    else:
        req(isinstance(res, tuple) and len(res) == want_len, f"pauli_channel({kwargs.keys()}) returned {type(res).__name__} of length {len(res) if isinstance(res, tuple) else '-'}, expected {want_len}", "pauli_channel:return-form")
        phi = res[0]
        out = res[1] if case["with_input"] else None
        ks = res[-1] if kwargs.get("return_kraus_ops") else None
    phi = _dense(phi)
    strings = [_pauli_string(j, q) for j in range(n)]
    if p is None:
        # scalar form: recover the drawn probabilities from the Kraus operators, they must be a probability vector
        req(isinstance(ks, list) and len(ks) == n, "pauli_channel(q) did not return 4^q Kraus operators", "pauli_channel:kraus")
        p = np.array([float(np.real(np.trace(k.conj().T @ k))) / d for k in ks])
        req(bool(np.all(p >= 0)) and abs(p.sum() - 1) <= 1e-9, f"pauli_channel({q}): Kraus weights {p} are not a probability vector", "pauli_channel:scalar-probs")
    jref = sum(p[i] * ref.choi_of_pairs([(strings[i], strings[i])], d) for i in range(n))
    _close(phi, jref, 1.0, f"pauli_channel Choi matrix (q={q}) vs sum p_i vec(P_i)vec(P_i)^dagger in lexicographic order", "pauli_channel:choi")
    if ks is not None:
        req(isinstance(ks, list) and len(ks) == n, "pauli_channel did not return 4^q Kraus operators", "pauli_channel:kraus")
        for i in range(n):
            _close(ks[i], math.sqrt(p[i]) * strings[i], 1.0, f"pauli_channel Kraus operator {i} vs sqrt(p_i) P_i", "pauli_channel:kraus")
        _close(ref.choi_of_pairs([(np.asarray(k), np.asarray(k)) for k in ks], d), phi, 1.0, "pauli_channel: Choi matrix of the returned Kraus operators vs returned Choi matrix", "pauli_channel:kraus-vs-choi")
    scale = float(np.max(np.abs(x)))
    expect = sum(p[i] * strings[i] @ x @ strings[i].conj().T for i in range(n))
    if out is not None:
        _close(_dense(out), expect, scale, "pauli_channel output vs sum p_i P_i X P_i", "pauli_channel:action")
    _close(ref.apply_choi(phi, x, d, d), expect, scale, "pauli_channel Choi matrix applied to X vs sum p_i P_i X P_i", "pauli_channel:choi-action")
    _ref_channel_props(phi, d, f"pauli_channel(q={q})", "pauli_channel", cp_expected=True, unital=True)


def _nt_pauli(case):
    if case["kind"] in ("negative", "unnormalised", "badlength"):
        return "pauli:" + case["kind"]
    if case["kind"] == "dyadic" and 0 in case["counts"]:
        return "pauli:zero-entries"
    if case["q"] == 2:
        return "pauli:q=2"
    return None


# ---- reduction / choi --------------------------------------------------------------------------
@st.composite
def _red_case(draw):
    kind = draw(st.sampled_from(["reduction", "choi"]))
    if kind == "reduction":
        d = draw(st.integers(2, 5))
        k = draw(st.integers(1, d + 2))
        return {"kind": kind, "d": d, "k": k, "default_k": k == 1 and draw(st.booleans()), "x": draw(gen.matrix_spec(d, d, sources=("small", "prng")))}
    abc = draw(st.sampled_from([[1, 1, 0], [0, 1, 1], None]))
    if abc is None:
        abc = [draw(st.integers(0, 3)) for _ in range(3)]
    return {"kind": kind, "abc": abc, "default": abc == [1, 1, 0] and draw(st.booleans()), "x": draw(gen.matrix_spec(3, 3, sources=("small", "prng")))}


def check_reduction_choi(case):
    from toqito.channel_ops import apply_channel
    from toqito.channels import choi, reduction

    if case["kind"] == "reduction":
        d, k = int(case["d"]), int(case["k"])
        j = reduction(d) if case["default_k"] else reduction(d, k)
        j = _dense(j)
        formula = lambda x: k * np.trace(x) * np.eye(d) - x  # noqa: E731
        what = f"reduction({d}, {k})"
        spec = sorted([float(k)] * (d * d - 1) + [float(k - d)])
        cp = k >= d
    else:
        a, b, c = (int(v) for v in case["abc"])
        d = 3
        j = _dense(choi() if case["default"] else choi(a, b, c))

        def formula(x):
            x0, x1, x2 = x[0, 0], x[1, 1], x[2, 2]
            return np.diag([a * x0 + b * x1 + c * x2, c * x0 + a * x1 + b * x2, b * x0 + c * x1 + a * x2]) + np.diag(np.diag(x)) - x

        what = f"choi({a}, {b}, {c})"
        spec, cp = None, None
    req(j.shape == (d * d, d * d), f"{what}: shape {j.shape}", case["kind"] + ":shape")
    x = _x_of(case, d)
    scale = float(np.max(np.abs(x))) * d * 6
    _close(j, _choi_of_fn(formula, d), 1.0, f"{what} vs the Choi matrix of the documented formula", case["kind"] + ":choi")
    _close(ref.apply_choi(j, x, d, d), formula(x), scale, f"{what} applied to X (reference application)", case["kind"] + ":action")
    _close(apply_channel(x, j), formula(x), scale, f"apply_channel(X, {what})", case["kind"] + ":apply_channel")
    req(np.array_equal(j, j.conj().T), f"{what}: Choi matrix not Hermitian", case["kind"] + ":hp")
    if case["kind"] == "reduction":
        _close(np.linalg.eigvalsh(j), np.array(spec), 1.0, f"{what} spectrum vs closed form (k with multiplicity d^2-1, k-d)", "reduction:spectrum")
        lm = ref.lam_min(j)
        req((lm >= -1e-9) == cp, f"{what}: completely positive iff k >= d, lambda_min = {lm:.3g}", "reduction:cp")
    else:
        if [a, b, c] == [0, 1, 1]:
            _close(j, _dense(reduction(3)), 1.0, "choi(0,1,1) vs reduction(3)", "choi:reduction")
        if [a, b, c] == [1, 1, 0]:
            req(abs(ref.lam_min(j) + 1.0) <= 1e-9, f"standard Choi map: lambda_min(J) = {ref.lam_min(j):.6g}, expected -1 (not completely positive)", "choi:standard-not-cp")


def _nt_red(case):
    if case["kind"] == "reduction":
        return f"reduction:k={'>=d' if case['k'] >= case['d'] else '<d'}" if case["k"] >= 2 else None
    return "choi:general" if case["abc"] not in ([1, 1, 0], [0, 1, 1]) else None


# ==========================================================================================
_ALL = CP_BASE + NONCP
_CHANNELISH = ("stinespring", "unitary", "mixed_unitary")

SUBCHECKS = [
    SubCheck("cp_hp_positive", check_cp_hp_positive, lambda: _map_case(), _label, quick=5000, thorough=80000, shards=8, fuzz=6000),
    SubCheck("tp_pairs_choi", check_tp_pairs_choi, lambda: _map_case(), _label, quick=5000, thorough=80000, shards=4),
    SubCheck("tp_cp_lists", check_tp_cp_lists, lambda: _map_case(fams=CP_BASE, perts=("tp", "unital")), _label, quick=2500, thorough=40000, shards=2),
    SubCheck("unital", check_unital, lambda: _map_case(), _label, quick=5000, thorough=80000, shards=4),
    SubCheck("unitary", check_unitary, lambda: _map_case(), _label, quick=5000, thorough=80000, shards=4),
    SubCheck("channel_square", check_channel_square, lambda: _map_case(dims="square"), _label, quick=5000, thorough=80000, shards=6),
    SubCheck("channel_rect_kraus", check_channel_rect_kraus, lambda: _map_case(fams=("stinespring", "unital_dual", "cp_generic", "hp_not_cp", "non_hp"), dims="rect"), _label, quick=2500, thorough=40000, shards=3),
    SubCheck("choi_rank", check_choi_rank, lambda: _map_case(), _label, quick=5000, thorough=80000, shards=4),
    SubCheck("extremal", check_extremal, lambda: _map_case(fams=_CHANNELISH, perts=("unital",)), _nt_extremal, quick=5000, thorough=80000, shards=4, fuzz=4000),
    SubCheck("extremal_ill_conditioned", check_extremal_ill, _extremal_ill_case, _nt_extremal_ill, quick=2000, thorough=30000, shards=4),
    SubCheck("depolarizing_dephasing", check_dep, _dep_case, _nt_dep, quick=5000, thorough=80000, shards=4),
    SubCheck("qubit_noise", check_qubit, _qubit_case, _nt_qubit, quick=6000, thorough=100000, shards=4),
    SubCheck("pauli_channel", check_pauli, _pauli_case, _nt_pauli, quick=3000, thorough=50000, shards=4),
    SubCheck("reduction_choi", check_reduction_choi, _red_case, _nt_red, quick=3000, thorough=50000, shards=4),
]


# ------------------------------------------------------------------------------------------
# tolerance semantics of is_completely_positive (added after seeded change C06-s4 was missed: the margin logic above
# never places an eigenvalue between the two tolerance arguments, so exchanging them went unnoticed)
# ------------------------------------------------------------------------------------------
@st.composite
def _cptol_case(draw):
    return {
        "d": draw(st.integers(2, 3)),
        "seed": draw(gen.SEED),
        "cplx": draw(st.booleans()),
        "atol": draw(st.sampled_from([None, 1e-8, 1e-7, 1e-6, 1e-4])),
        "rtol": draw(st.sampled_from([None, 1e-5, 1e-3, 1e-9])),
        "side": draw(st.sampled_from(["violates", "within"])),
        "factor": draw(st.sampled_from([10.0, 30.0, 100.0])),
    }


def check_cp_tolerance(case):
    from toqito.channel_props import is_completely_positive

    n = case["d"] ** 2
    atol = 1e-8 if case["atol"] is None else case["atol"]
    u = gen.rand_unitary(case["seed"], n, real=not case["cplx"])
    g = gen.rng(case["seed"] // 3 + 11)
    lam = np.sort(g.uniform(0.2, 1.0, size=n))
    lam[0] = -atol * case["factor"] if case["side"] == "violates" else -atol / case["factor"]
    j = (u * lam) @ u.conj().T
    j = (j + j.conj().T) / 2
    got_min = float(np.linalg.eigvalsh(j)[0])
    if abs(got_min - lam[0]) > atol / 1000:
        raise Inconclusive("construction-inexact")
    kw = {}
    if case["atol"] is not None:
        kw["atol"] = case["atol"]
    if case["rtol"] is not None:
        kw["rtol"] = case["rtol"]
    got = bool(is_completely_positive(j, **kw))
    want = case["side"] == "within"
    req(
        got == want,
        f"is_completely_positive(Choi with smallest eigenvalue {lam[0]:.1e}, {kw or 'default tolerances'}) returned {got}; "
        f"the eigenvalue tolerance is atol = {atol:.0e}, so the definition gives {want}",
        "cp:tolerance-semantics",
    )


SUBCHECKS.append(
    SubCheck("cp_tolerance", check_cp_tolerance, _cptol_case, lambda c: f"{c['side']},atol={c['atol']},rtol={c['rtol']}", quick=2000, thorough=30000, shards=4)
)


# ------------------------------------------------------------------------------------------
# tolerance semantics of the trace-preservation verdicts (added after seeded change C06-t2 - is_quantum_channel forwarding
# atol but not rtol to is_trace_preserving - was missed: all generated maps were checked at the default tolerances)
# sum K^dagger K = (1 + delta) I is compared with I by numpy.allclose: the diagonal tolerance is atol + rtol
# ------------------------------------------------------------------------------------------
@st.composite
def _tptol_case(draw):
    return {
        "d": draw(st.integers(2, 3)),
        "r": draw(st.integers(1, 3)),
        "seed": draw(gen.SEED),
        "cplx": draw(st.booleans()),
        "tols": draw(st.sampled_from([None, [1e-9, 1e-9], [1e-1, 1e-8], [1e-3, 1e-6], [1e-7, 1e-5]])),
        "side": draw(st.sampled_from(["violates", "within"])),
        "factor": draw(st.sampled_from([10.0, 30.0])),
        "fn": draw(st.sampled_from(["is_trace_preserving", "is_quantum_channel"])),
        "form": draw(st.sampled_from(["kraus", "choi"])),
        "sign": draw(st.sampled_from([1, -1])),
    }


def check_tp_tolerance(case):
    from toqito.channel_props import is_quantum_channel, is_trace_preserving

    d, r = case["d"], case["r"]
    rtol, atol = case["tols"] if case["tols"] is not None else (1e-5, 1e-8)
    band = rtol + atol
    delta = band * case["factor"] if case["side"] == "violates" else band / case["factor"]
    delta *= case["sign"]
    v = gen.rand_isometry(case["seed"], d * r, d, real=not case["cplx"])
    ks = [np.sqrt(1 + delta) * np.array(v[i * d : (i + 1) * d, :]) for i in range(r)]
    comp = sum(k.conj().T @ k for k in ks)
    if abs(float(np.max(np.abs(comp - (1 + delta) * np.eye(d))))) > band / 1000:
        raise Inconclusive("construction-inexact")
    rep = ks if case["form"] == "kraus" else ref.choi_of_pairs([(k, k) for k in ks], d)
    if case["form"] == "choi":
        rep = (rep + rep.conj().T) / 2
    kw = {} if case["tols"] is None else {"rtol": rtol, "atol": atol}
    fn = is_trace_preserving if case["fn"] == "is_trace_preserving" else is_quantum_channel
    got = bool(fn(rep, **kw))
    want = case["side"] == "within"
    req(
        got == want,
        f"{case['fn']}(<{case['form']}>, {kw or 'default tolerances'}) returned {got} for a completely positive map with sum K^dagger K = (1 {delta:+.1e}) I; "
        f"the diagonal tolerance is rtol + atol = {band:.1e}, so the definition gives {want}",
        "tp:tolerance-semantics",
    )


SUBCHECKS.append(SubCheck("tp_tolerance", check_tp_tolerance, _tptol_case, lambda c: f"{c['fn']},{c['form']},{c['side']},tols={c['tols']}", quick=2000, thorough=30000, shards=4))


# ------------------------------------------------------------------------------------------
# tolerance semantics of is_herm_preserving and is_unital (added after seeded change C06-x3 - is_herm_preserving ignoring
# the caller's rtol / atol - was missed: every generated map was judged at the default tolerances)
# is_herm_preserving: Choi matrix J compared with J^dagger by numpy.allclose; with J[i, j] = delta and J[j, i] = 0 the two
# entry tests are |delta| <= atol and |delta| <= atol + rtol |delta|, so the verdict switches at |delta| = atol.
# is_unital: Phi(I) = (1 + delta) I is compared with I by numpy.allclose, diagonal tolerance atol + rtol.
# ------------------------------------------------------------------------------------------
@st.composite
def _hptol_case(draw):
    return {
        "d": draw(st.integers(2, 3)),
        "seed": draw(gen.SEED),
        "cplx": draw(st.booleans()),
        "tols": draw(st.sampled_from([None, [1e-9, 1e-12], [1e-1, 1e-2], [1e-3, 1e-6], [1e-7, 1e-5], [1e-5, 1e-10]])),
        "only": draw(st.sampled_from(["both", "both", "atol", "rtol"])),
        "side": draw(st.sampled_from(["violates", "within"])),
        "factor": draw(st.sampled_from([10.0, 30.0])),
        "phase": draw(st.sampled_from(["+", "-", "+i", "-i"])),
        "fn": draw(st.sampled_from(["is_herm_preserving", "is_unital"])),
        "form": draw(st.sampled_from(["kraus", "choi"])),
    }


def check_hp_unital_tolerance(case):
    from toqito.channel_props import is_herm_preserving, is_unital

    d = case["d"]
    rtol, atol = case["tols"] if case["tols"] is not None else (1e-5, 1e-8)
    kw = {}
    if case["tols"] is not None:
        if case["only"] in ("both", "rtol"):
            kw["rtol"] = rtol
        else:
            rtol = 1e-5
        if case["only"] in ("both", "atol"):
            kw["atol"] = atol
        else:
            atol = 1e-8
    want = case["side"] == "within"
    if case["fn"] == "is_herm_preserving":
        n = d * d
        g = gen.rng(case["seed"])
        x = g.normal(size=(n, n)) + (1j * g.normal(size=(n, n)) if case["cplx"] else 0)
        j = (x + x.conj().T) / 2
        i0, j0 = (int(v) for v in g.choice(n, size=2, replace=False))
        delta = atol * case["factor"] if case["side"] == "violates" else atol / case["factor"]
        ph = {"+": 1.0, "-": -1.0, "+i": 1j, "-i": -1j}[case["phase"]]
        if not case["cplx"]:
            ph = ph if isinstance(ph, float) else 1.0
        j[i0, j0] = delta * ph
        j[j0, i0] = 0
        got = bool(is_herm_preserving(j, **kw))
        req(
            got == want,
            f"is_herm_preserving(Choi matrix Hermitian except J[{i0},{j0}] = {delta:.1e}, J[{j0},{i0}] = 0; {kw or 'default tolerances'}) returned {got}; "
            f"the entrywise tolerance is atol = {atol:.0e}, so the definition gives {want}",
            "hp:tolerance-semantics",
        )
        return
    band = rtol + atol
    delta = band * case["factor"] if case["side"] == "violates" else band / case["factor"]
    if case["phase"] in ("-", "-i"):
        delta = -delta
    u = gen.rand_unitary(case["seed"], d, real=not case["cplx"])
    k = np.sqrt(1 + delta) * u
    out = k @ k.conj().T
    if float(np.max(np.abs(out - (1 + delta) * np.eye(d)))) > band / 1000:
        raise Inconclusive("construction-inexact")
    rep = [k] if case["form"] == "kraus" else ref.choi_of_pairs([(k, k)], d)
    got = bool(is_unital(rep, **kw))
    req(
        got == want,
        f"is_unital(<{case['form']}>, {kw or 'default tolerances'}) returned {got} for a map with Phi(I) = (1 {delta:+.1e}) I; "
        f"the diagonal tolerance is rtol + atol = {band:.1e}, so the definition gives {want}",
        "unital:tolerance-semantics",
    )


SUBCHECKS.append(SubCheck("hp_unital_tolerance", check_hp_unital_tolerance, _hptol_case, lambda c: f"{c['fn']},{c['side']},tols={c['tols']},{c['only']}", quick=2000, thorough=30000, shards=4))
