"""C13 — state distance and fidelity measures equal their definitions and inequalities.

Functions under test (toqito.state_metrics unless noted): fidelity, trace_distance, hilbert_schmidt,
hilbert_schmidt_inner_product, helstrom_holevo, bures_distance, bures_angle, sub_fidelity, matsumoto_fidelity,
fidelity_of_separability (state version), toqito.matrix_props.trace_norm.

Oracles: the documented defining formulas evaluated with ``numpy.linalg.eigh`` only (no sqrtm, no call of the
function under test), closed forms on constructed pairs (equal, orthogonal supports, commuting, pure-pure,
pure-mixed), metamorphic laws (argument swap, common unitary), the inequalities linking the measures, and the
documented ``ValueError`` on inputs that are not density operators.

One sub-check per function so that one defect does not hide the others; inside a sub-check the laws that a known
defect does not touch are asserted *before* the value comparison so the search continues behind it.
"""

from __future__ import annotations

import numpy as np
from hypothesis import strategies as st

from tqv import gen
from tqv.core import SubCheck, Violation, req

# caller-owned arrays handed to the library must come back unchanged (see tqv/purity.py)
from tqv.purity import install as _install_purity  # noqa: E402

_install_purity('toqito.state_metrics', 'toqito.matrix_props', twice=True, skip_twice=('fidelity_of_separability', 'sk_operator_norm', 'is_block_positive', 'positive_semidefinite_rank'))

PROPERTY = "C13"
RULE = (
    "Cases are drawn by Hypothesis: dimension d in 2..6, real/complex flag, a pair family (generic, equal, equal pure, "
    "orthogonal supports, commuting with drawn support permutations, pure-pure, pure-mixed, nearly equal with "
    "||rho-sigma|| ~ 1e-6), the two ranks (every rank 1..d), the spectrum kind (Wishart, Dirichlet on a Haar basis, flat "
    "= degenerate), an argument-order flag, and 63-bit seeds for the matrices and for the common unitary; triples for the "
    "triangle inequality (generic, midpoint, collinear, commuting, equal ends); rectangular matrices with drawn singular "
    "values for trace_norm; non-density inputs (trace != 1, eigenvalue -1e-2, non-Hermitian by 0.05, shape mismatch, "
    "non-square) for the rejection checks; pure product / mixed / entangled / non-density inputs on 2x2, 2x3, 3x2 with "
    "k in {1,2} (k=3 on 2x2) for fidelity_of_separability.  A pair case is non-trivial when the states are complex, d >= 3, "
    "both ranks >= 2 and the family is non-commuting (generic, nearly equal) or, for the closed-form families, when "
    "d >= 3 and complex; a rejection case is always non-trivial (labelled by function and kind); a trace_norm case when "
    "the matrix has at least two non-zero singular values and is not a density matrix; a fidelity_of_separability case when the dims are unequal or "
    "k >= 2.  distinct = distinct SHA-1 of the canonical case JSON among non-trivial cases."
)
ASSUMPTIONS = [
    "toqito's `fidelity` is the root fidelity F = ||sqrt(rho) sqrt(sigma)||_1 (its documented formula); the inequalities "
    "are read with this F: 1-F <= T <= sqrt(1-F^2), sub-fidelity <= F^2, Matsumoto <= F",
    "bures_angle is compared with its documented formula arccos(sqrt(F)) with F = toqito's (root) fidelity, i.e. the "
    "docstring is taken as the definition even though the textbook Bures angle is arccos(F) for root fidelity",
    "fidelity family (sqrtm on possibly singular input): absolute tolerance 1e-6; Bures distance / angle are compared on "
    "the scale of the fidelity they encode (B^2/2 = 1-F, cos^2(A) = F) because sqrt / arccos amplify the 1e-8 sqrtm error "
    "near F = 1 and F = 0; direct comparison only where the map is well conditioned",
    "trace distance, Hilbert-Schmidt, Helstrom-Holevo, trace norm, inner product: tolerance 1e-9 * scale",
    "Matsumoto fidelity is asserted for full-rank states with lambda_min >= 0.1/d only (the numeric path inverts sqrt(rho))",
    "sub-fidelity = 1 on identical states is asserted only where it is true (pure states, qubits)",
    "non-density inputs violate the definition by a margin (trace off by >= 10%, eigenvalue -1e-2, anti-Hermitian part "
    "0.05) -- nothing is asserted inside is_density's tolerances (rtol 1e-5, atol 1e-8)",
    "any ValueError counts as rejection (a shape mismatch may be reported by numpy's broadcasting inside the function)",
    "hilbert_schmidt_inner_product and trace_norm document no density-matrix contract: only values are asserted",
    "fidelity_of_separability: picos/cvxopt value compared with 1 at 1e-5; solver failures and time-outs are "
    "inconclusive; entangled inputs have second Schmidt coefficient >= 0.1, mixed inputs lambda_max <= 0.95",
    "numpy.linalg.eigh / svd are trusted",
]

TOL_LA = 1e-9  # dense linear algebra
TOL_F = 1e-6  # anything that goes through sqrtm of a possibly singular matrix
EPS_NEAR = 1e-6

PAIR_FAMILIES = [
    "generic",
    "equal",
    "pure_equal",
    "orthogonal",
    "commuting",
    "pure_pure",
    "pure_mixed",
    "nearly_equal",
]
SPECS = ["wishart", "dirichlet", "flat"]


# ------------------------------------------------------------------------------------------
# construction of states (pure functions of the case)
# ------------------------------------------------------------------------------------------
def _herm(m):
    return (m + m.conj().T) / 2


def _subseeds(seed, n=8):
    return [int(x) for x in gen.rng(seed).integers(0, 2**62, size=n)]


def _density(seed, d, r, real, spec, floor=0.02):
    """d x d density matrix of rank r; spec = wishart | dirichlet | flat (flat = maximally mixed on a Haar subspace)."""
    if spec == "wishart":
        return gen.rand_density(seed, d, r, real)
    v = gen.rand_isometry(seed, d, r, real)
    p = np.full(r, 1.0 / r) if spec == "flat" else gen.rand_probs(seed ^ 0x5BD1E995, r, floor=floor)
    rho = _herm((v * p) @ v.conj().T)
    return rho / np.trace(rho).real


def _proj(psi):
    return _herm(np.outer(psi, psi.conj()))


def _rot(u, m):
    return _herm(u @ m @ u.conj().T)


@st.composite
def _pair_case(draw, families=tuple(PAIR_FAMILIES), full_rank=False):
    d = draw(st.integers(2, 6))
    real = draw(st.booleans())
    fam = draw(st.sampled_from(list(families)))
    r1 = draw(st.integers(1, d))
    r2 = draw(st.integers(1, d))
    if full_rank:
        r1 = r2 = d
    elif fam == "equal":
        r2 = r1
    elif fam in ("pure_equal", "pure_pure"):
        r1 = r2 = 1
    elif fam == "pure_mixed":
        r1, r2 = 1, max(2, r2)
    elif fam == "orthogonal":
        r1 = min(r1, d - 1)
        r2 = min(r2, d - r1)
    case = {
        "d": d,
        "real": real,
        "fam": fam,
        "r1": r1,
        "r2": r2,
        "spec1": draw(st.sampled_from(SPECS)),
        "spec2": draw(st.sampled_from(SPECS)),
        "swap": draw(st.booleans()),
        "ureal": draw(st.booleans()),
        "seed": draw(gen.SEED),
        "useed": draw(gen.SEED),
    }
    if fam == "commuting":
        case["perm1"] = list(draw(st.permutations(list(range(d)))))
        case["perm2"] = list(draw(st.permutations(list(range(d)))))
    if full_rank:
        case["full"] = True
    # one argument real-valued with a real dtype, the other complex (a slip keyed on one argument's dtype is invisible
    # when both states always share a dtype; several independently seeded changes elsewhere were of this kind)
    case["mixed_dtype"] = (not real) and fam in ("generic", "pure_mixed", "pure_pure") and draw(st.integers(0, 3)) == 0
    # one argument exactly diagonal in the computational basis ("classical"), the other generic: shortcuts for diagonal /
    # commuting inputs that look at one argument only are invisible when both states are always of the same kind
    # (seeded change C13-a1)
    case["diag1"] = fam == "generic" and draw(st.integers(0, 3)) == 0
    return case


def _mix_full(rho, d):
    """full-rank floor used for the Matsumoto sub-check: lambda_min >= 0.1/d"""
    return _herm(0.9 * rho + 0.1 * np.eye(d) / d)


def _pair(case):
    """-> rho, sigma, info.  info: psi / phi (kets when that argument is pure), p / q (spectra in a common basis)."""
    d, real, fam = case["d"], case["real"], case["fam"]
    r1, r2 = case["r1"], case["r2"]
    s = _subseeds(case["seed"])
    info = {}
    md = bool(case.get("mixed_dtype"))
    if fam in ("generic", "nearly_equal", "equal"):
        rho = _density(s[0], d, r1, real or md, case["spec1"])
        if md:
            rho = np.array(np.real(rho), dtype=float)
        if fam == "equal":
            sigma = rho.copy()
        elif fam == "generic":
            sigma = _density(s[1], d, r2, real, case["spec2"])
            if case.get("diag1"):
                pd_ = np.zeros(d)
                pd_[gen.rng(s[2]).permutation(d)[:r1]] = np.full(r1, 1.0 / r1) if case["spec1"] == "flat" else gen.rand_probs(s[3], r1)
                rho = np.diag(pd_).astype(rho.dtype)
        else:
            tau = _density(s[1], d, r2, real, case["spec2"])
            sigma = _herm((1 - EPS_NEAR) * rho + EPS_NEAR * tau)
    elif fam in ("pure_equal", "pure_pure", "pure_mixed"):
        psi = gen.rand_ket(s[0], d, real or md)
        rho = _proj(psi)
        if md:
            psi = np.real(psi)
            rho = np.array(np.real(rho), dtype=float)
        info["psi"] = psi
        if fam == "pure_equal":
            sigma = rho.copy()
            info["phi"] = psi
        elif fam == "pure_pure":
            phi = gen.rand_ket(s[1], d, real)
            sigma = _proj(phi)
            info["phi"] = phi
        else:
            sigma = _density(s[1], d, r2, real, case["spec2"])
    elif fam == "orthogonal":
        u = gen.rand_unitary(s[0], d, real)
        a = _density(s[1], r1, r1, real, case["spec1"])
        b = _density(s[2], r2, r2, real, case["spec2"])
        v1, v2 = u[:, :r1], u[:, r1 : r1 + r2]
        rho = _herm(v1 @ a @ v1.conj().T)
        sigma = _herm(v2 @ b @ v2.conj().T)
    elif fam == "commuting":
        u = gen.rand_unitary(s[0], d, real)
        p = np.zeros(d)
        q = np.zeros(d)
        pp = np.full(r1, 1.0 / r1) if case["spec1"] == "flat" else gen.rand_probs(s[1], r1)
        qq = np.full(r2, 1.0 / r2) if case["spec2"] == "flat" else gen.rand_probs(s[2], r2)
        p[case["perm1"][:r1]] = pp
        q[case["perm2"][:r2]] = qq
        rho = _herm((u * p) @ u.conj().T)
        sigma = _herm((u * q) @ u.conj().T)
        info["p"], info["q"] = p, q
    else:  # pragma: no cover
        raise ValueError(fam)
    if case.get("full"):
        rho, sigma = _mix_full(rho, d), _mix_full(sigma, d)
        if "p" in info:
            info["p"] = 0.9 * info["p"] + 0.1 / d
            info["q"] = 0.9 * info["q"] + 0.1 / d
        info.pop("psi", None)
        info.pop("phi", None)
    if case["swap"]:
        rho, sigma = sigma, rho
        if "psi" in info or "phi" in info:
            info["psi"], info["phi"] = info.get("phi"), info.get("psi")
            info = {k: v for k, v in info.items() if v is not None}
        if "p" in info:
            info["p"], info["q"] = info["q"], info["p"]
    return rho, sigma, info


def _unitary(case):
    return gen.rand_unitary(case["useed"], case["d"], real=bool(case["real"] and case["ureal"]))


def nt_pair(case):
    fam = case["fam"]
    if case["real"] or case["d"] < 3:
        return None
    if fam in ("generic", "nearly_equal") and case["r1"] >= 2 and case["r2"] >= 2:
        return f"{fam}:noncommuting,complex,d>=3,ranks>=2"
    if fam in ("pure_mixed", "pure_pure", "orthogonal", "commuting", "equal", "pure_equal"):
        return f"{fam}:closed-form,complex,d>=3"
    return None


# ------------------------------------------------------------------------------------------
# reference formulas (eigh only)
# ------------------------------------------------------------------------------------------
def _psd_sqrt(m):
    w, v = np.linalg.eigh(_herm(m))
    return (v * np.sqrt(np.clip(w, 0, None))) @ v.conj().T


def ref_fidelity(rho, sigma):
    """F = Tr sqrt( sqrt(rho) sigma sqrt(rho) ) = || sqrt(rho) sqrt(sigma) ||_1"""
    s = _psd_sqrt(rho)
    w = np.linalg.eigvalsh(_herm(s @ sigma @ s))
    return float(np.sum(np.sqrt(np.clip(w, 0, None))))


def _diff_eigs(rho, sigma):
    return np.linalg.eigvalsh(_herm(rho - sigma))


def ref_trace_distance(rho, sigma):
    return 0.5 * float(np.sum(np.abs(_diff_eigs(rho, sigma))))


def ref_hs(rho, sigma):
    return float(np.sum(_diff_eigs(rho, sigma) ** 2))


def ref_sub_fidelity(rho, sigma):
    rs = rho @ sigma
    t1 = float(np.real(np.trace(rs)))
    t2 = float(np.real(np.trace(rs @ rs)))
    return t1 + float(np.sqrt(max(0.0, 2 * (t1 * t1 - t2))))


def ref_matsumoto(rho, sigma):
    """Tr rho # sigma for invertible rho: rho^{1/2} (rho^{-1/2} sigma rho^{-1/2})^{1/2} rho^{1/2}"""
    w, v = np.linalg.eigh(_herm(rho))
    sq = (v * np.sqrt(w)) @ v.conj().T
    isq = (v / np.sqrt(w)) @ v.conj().T
    mid = _psd_sqrt(isq @ sigma @ isq)
    return float(np.real(np.trace(sq @ mid @ sq)))


# ------------------------------------------------------------------------------------------
# helpers for calling toqito and comparing
# ------------------------------------------------------------------------------------------
def _scalar(x, name):
    """the function must return one finite real number"""
    a = np.asarray(x)
    req(a.size == 1, f"{name}: returned an array of shape {a.shape}, not a number", f"{name}:shape")
    z = complex(a.reshape(-1)[0])
    req(np.isfinite(z.real) and np.isfinite(z.imag), f"{name}: returned {z} (not a finite number)", f"{name}:nan")
    req(abs(z.imag) <= TOL_LA, f"{name}: returned a non-real number {z}", f"{name}:complex")
    return float(z.real)


def _close(a, b, tol):
    return abs(a - b) <= tol


def _overlap(info):
    return float(abs(np.vdot(info["psi"], info["phi"])))


def _fmt(case):
    return f"[d={case['d']} {'real' if case['real'] else 'complex'} {case['fam']} ranks=({case['r1']},{case['r2']})]"


def _metric_laws(name, fn, case, rho, sigma, cmp, what="value"):
    """finite real output, symmetry in the arguments, invariance under a common unitary.  ``cmp(a, b)`` -> bool."""
    v = _scalar(fn(rho, sigma), name)
    vs = _scalar(fn(sigma, rho), name)
    req(cmp(v, vs), f"{name} is not symmetric: f(rho,sigma)={v!r}, f(sigma,rho)={vs!r} {_fmt(case)}", f"{name}:symmetry")
    u = _unitary(case)
    vu = _scalar(fn(_rot(u, rho), _rot(u, sigma)), name)
    req(cmp(v, vu), f"{name} is not invariant under a common unitary: {v!r} vs {vu!r} {_fmt(case)}", f"{name}:unitary")
    return v


# ------------------------------------------------------------------------------------------
# 1. fidelity
# ------------------------------------------------------------------------------------------
def _closed_fidelity(case, rho, sigma, info):
    fam = case["fam"]
    if fam in ("equal", "pure_equal"):
        return 1.0, "identical states"
    if fam == "orthogonal":
        return 0.0, "orthogonal supports"
    if fam == "commuting":
        return float(np.sum(np.sqrt(info["p"] * info["q"]))), "commuting: sum sqrt(p q)"
    if fam == "pure_pure":
        return _overlap(info), "pure states: |<psi|phi>|"
    if fam == "pure_mixed":
        if "psi" in info:
            return float(np.sqrt(max(0.0, np.real(np.vdot(info["psi"], sigma @ info["psi"]))))), "pure/mixed: sqrt<psi|sigma|psi>"
        return float(np.sqrt(max(0.0, np.real(np.vdot(info["phi"], rho @ info["phi"]))))), "mixed/pure: sqrt<phi|rho|phi>"
    return None, ""


def check_fidelity(case):
    from toqito.state_metrics import fidelity

    rho, sigma, info = _pair(case)
    cmp = lambda a, b: _close(a, b, TOL_F)  # noqa: E731
    v = _metric_laws("fidelity", fidelity, case, rho, sigma, cmp)
    req(-TOL_F <= v <= 1 + TOL_F, f"fidelity {v!r} outside [0,1] {_fmt(case)}", "fidelity:range")
    exp, why = _closed_fidelity(case, rho, sigma, info)
    if exp is not None:
        req(cmp(v, exp), f"fidelity {v!r} != {exp!r} ({why}) {_fmt(case)}", "fidelity:closed-form")
    f = ref_fidelity(rho, sigma)
    req(cmp(v, f), f"fidelity {v!r} != ||sqrt(rho)sqrt(sigma)||_1 = {f!r} {_fmt(case)}", "fidelity:value")


# ------------------------------------------------------------------------------------------
# 2. trace distance, 3. Helstrom-Holevo
# ------------------------------------------------------------------------------------------
def _closed_trace_distance(case, info):
    fam = case["fam"]
    if fam in ("equal", "pure_equal"):
        return 0.0, "identical states"
    if fam == "orthogonal":
        return 1.0, "orthogonal supports"
    if fam == "commuting":
        return 0.5 * float(np.sum(np.abs(info["p"] - info["q"]))), "commuting: 1/2 sum|p-q|"
    if fam == "pure_pure":
        return float(np.sqrt(max(0.0, 1 - _overlap(info) ** 2))), "pure states: sqrt(1-|<psi|phi>|^2)"
    return None, ""


def check_trace_distance(case):
    from toqito.state_metrics import trace_distance

    rho, sigma, info = _pair(case)
    cmp = lambda a, b: _close(a, b, TOL_LA)  # noqa: E731
    v = _metric_laws("trace_distance", trace_distance, case, rho, sigma, cmp)
    exp, why = _closed_trace_distance(case, info)
    if exp is not None:
        req(_close(v, exp, 1e-7), f"trace_distance {v!r} != {exp!r} ({why}) {_fmt(case)}", "trace_distance:closed-form")
    t = ref_trace_distance(rho, sigma)
    req(cmp(v, t), f"trace_distance {v!r} != 1/2 sum|eig(rho-sigma)| = {t!r} {_fmt(case)}", "trace_distance:value")


def check_helstrom_holevo(case):
    from toqito.state_metrics import helstrom_holevo

    rho, sigma, info = _pair(case)
    cmp = lambda a, b: _close(a, b, TOL_LA)  # noqa: E731
    v = _metric_laws("helstrom_holevo", helstrom_holevo, case, rho, sigma, cmp)
    exp, why = _closed_trace_distance(case, info)
    if exp is not None:
        req(_close(v, 0.5 + 0.5 * exp, 1e-7), f"helstrom_holevo {v!r} != 1/2 + T/2 with T = {exp!r} ({why}) {_fmt(case)}", "helstrom_holevo:closed-form")
    t = ref_trace_distance(rho, sigma)
    req(cmp(v, 0.5 + 0.5 * t), f"helstrom_holevo {v!r} != 1/2 + 1/4||rho-sigma||_1 = {0.5 + 0.5 * t!r} {_fmt(case)}", "helstrom_holevo:value")


# ------------------------------------------------------------------------------------------
# 4. triangle inequality (trace distance is a metric)
# ------------------------------------------------------------------------------------------
TRIPLE_FAMILIES = ["generic", "midpoint", "collinear", "commuting", "equal_ends", "pure"]


@st.composite
def _triple_case(draw):
    d = draw(st.integers(2, 6))
    return {
        "d": d,
        "real": draw(st.booleans()),
        "fam": draw(st.sampled_from(TRIPLE_FAMILIES)),
        "ranks": [draw(st.integers(1, d)) for _ in range(3)],
        "specs": [draw(st.sampled_from(SPECS)) for _ in range(3)],
        "t": draw(st.integers(1, 15)),  # collinear: b = t/16 a + (1-t/16) c
        "order": list(draw(st.permutations([0, 1, 2]))),
        "seed": draw(gen.SEED),
    }


def _triple(case):
    d, real, fam = case["d"], case["real"], case["fam"]
    s = _subseeds(case["seed"])
    r, sp = case["ranks"], case["specs"]
    if fam == "pure":
        a, b, c = (_proj(gen.rand_ket(s[i], d, real)) for i in range(3))
    elif fam == "commuting":
        u = gen.rand_unitary(s[3], d, real)
        out = []
        for i in range(3):
            p = np.zeros(d)
            idx = gen.rng(s[4 + i]).permutation(d)[: r[i]]
            p[idx] = np.full(r[i], 1.0 / r[i]) if sp[i] == "flat" else gen.rand_probs(s[i], r[i])
            out.append(_herm((u * p) @ u.conj().T))
        a, b, c = out
    else:
        a = _density(s[0], d, r[0], real, sp[0])
        c = _density(s[2], d, r[2], real, sp[2])
        if fam == "midpoint":
            b = _herm((a + c) / 2)
        elif fam == "collinear":
            t = case["t"] / 16.0
            b = _herm(t * a + (1 - t) * c)
        else:
            b = _density(s[1], d, r[1], real, sp[1])
        if fam == "equal_ends":
            c = a.copy()
    trip = [a, b, c]
    return [trip[i] for i in case["order"]]


def check_triangle(case):
    from toqito.state_metrics import trace_distance

    a, b, c = _triple(case)
    tab = _scalar(trace_distance(a, b), "trace_distance")
    tbc = _scalar(trace_distance(b, c), "trace_distance")
    tac = _scalar(trace_distance(a, c), "trace_distance")
    tag = f"[d={case['d']} {'real' if case['real'] else 'complex'} {case['fam']} ranks={case['ranks']}]"
    for v in (tab, tbc, tac):
        req(-TOL_LA <= v <= 1 + TOL_LA, f"trace distance {v!r} outside [0,1] {tag}", "triangle:range")
    req(tac <= tab + tbc + TOL_LA, f"triangle inequality fails: T(a,c)={tac!r} > T(a,b)+T(b,c)={tab + tbc!r} {tag}", "triangle:inequality")
    req(tab <= tac + tbc + TOL_LA and tbc <= tab + tac + TOL_LA, f"triangle inequality fails (other side) T={tab!r},{tbc!r},{tac!r} {tag}", "triangle:inequality")
    # identity of indiscernibles (margin: distinct states here differ by O(1))
    for x, y, t in ((a, b, tab), (b, c, tbc), (a, c, tac)):
        gap = float(np.max(np.abs(x - y)))
        if gap == 0.0:
            req(abs(t) <= TOL_LA, f"T(rho,rho) = {t!r} != 0 {tag}", "triangle:zero")
        elif gap > 1e-3:
            req(t > 1e-6, f"T = {t!r} for states that differ by {gap:.3g} entrywise {tag}", "triangle:positive")


def nt_triple(case):
    if case["real"] or case["d"] < 3:
        return None
    if case["fam"] in ("generic", "midpoint", "collinear", "equal_ends") and min(case["ranks"][0], case["ranks"][2]) >= 2:
        return f"triple:{case['fam']},complex,d>=3,ranks>=2"
    if case["fam"] in ("pure", "commuting"):
        return f"triple:{case['fam']},complex,d>=3"
    return None


# ------------------------------------------------------------------------------------------
# 5. Hilbert-Schmidt distance
# ------------------------------------------------------------------------------------------
def check_hilbert_schmidt(case):
    from toqito.state_metrics import hilbert_schmidt

    rho, sigma, info = _pair(case)
    cmp = lambda a, b: _close(a, b, TOL_LA)  # noqa: E731
    # laws first (they hold for any unitarily invariant norm of rho - sigma), the documented value last
    v = _metric_laws("hilbert_schmidt", hilbert_schmidt, case, rho, sigma, cmp)
    if case["fam"] in ("equal", "pure_equal"):
        req(abs(v) <= TOL_LA, f"hilbert_schmidt {v!r} != 0 on identical states {_fmt(case)}", "hilbert_schmidt:equal")
    lam = _diff_eigs(rho, sigma)
    hs = float(np.sum(lam**2))
    smax2 = float(np.max(np.abs(lam)) ** 2)
    if not _close(v, hs, TOL_LA):
        # (v differs from hs at TOL_LA here; a fixed 1e-6 gap requirement used to mis-file small-magnitude instances of the
        # same known defect - nearly equal states, difference ~1e-7 - under 'hs=other': a false alarm in the thorough tier)
        if _close(v, smax2, TOL_LA):
            raise Violation(
                f"hilbert_schmidt returned {v!r} = sigma_max(rho-sigma)^2 (squared spectral norm); the documented "
                f"Tr(rho-sigma)^2 = ||rho-sigma||_2^2 is {hs!r} {_fmt(case)}",
                "hs=sigma_max^2",
            )
        raise Violation(f"hilbert_schmidt returned {v!r}; Tr(rho-sigma)^2 = {hs!r}, sigma_max^2 = {smax2!r} {_fmt(case)}", "hs=other")
    # closed forms (reached only when the value agrees with the definition)
    if case["fam"] == "pure_pure":
        exp = 2 * (1 - _overlap(info) ** 2)
        req(_close(v, exp, 1e-7), f"hilbert_schmidt {v!r} != 2(1-|<psi|phi>|^2) = {exp!r} {_fmt(case)}", "hs=other")
    if case["fam"] == "commuting":
        exp = float(np.sum((info["p"] - info["q"]) ** 2))
        req(_close(v, exp, 1e-7), f"hilbert_schmidt {v!r} != sum (p-q)^2 = {exp!r} {_fmt(case)}", "hs=other")
    if case["fam"] == "orthogonal":
        exp = float(np.real(np.trace(rho @ rho) + np.trace(sigma @ sigma)))
        req(_close(v, exp, 1e-7), f"hilbert_schmidt {v!r} != Tr rho^2 + Tr sigma^2 = {exp!r} on orthogonal supports {_fmt(case)}", "hs=other")


# ------------------------------------------------------------------------------------------
# 6. Hilbert-Schmidt inner product
# ------------------------------------------------------------------------------------------
@st.composite
def _hsip_case(draw):
    kind = draw(st.sampled_from(["general", "general", "density"]))
    if kind == "density":
        c = draw(_pair_case(families=("generic", "pure_mixed", "commuting")))
        c["kind"] = "density"
        return c
    return {
        "kind": "general",
        "rows": draw(st.integers(1, 6)),
        "cols": draw(st.integers(1, 6)),
        "a": None,
        "dtype_a": draw(st.sampled_from(["int", "float", "complex"])),
        "dtype_b": draw(st.sampled_from(["int", "float", "complex"])),
        "seed": draw(gen.SEED),
    }


def _gen_mat(seed, r, c, dtype):
    g = gen.rng(seed)
    if dtype == "int":
        return g.integers(-5, 6, size=(r, c)).astype(np.int64)
    m = g.normal(size=(r, c))
    if dtype == "complex":
        m = m + 1j * g.normal(size=(r, c))
    return m


def check_hs_inner_product(case):
    from toqito.state_metrics import hilbert_schmidt_inner_product as ip

    if case["kind"] == "density":
        a, b, _ = _pair(case)
    else:
        s = _subseeds(case["seed"])
        a = _gen_mat(s[0], case["rows"], case["cols"], case["dtype_a"])
        b = _gen_mat(s[1], case["rows"], case["cols"], case["dtype_b"])
    exp = complex(np.sum(np.conj(a) * b))
    scale = max(1.0, float(np.linalg.norm(a) * np.linalg.norm(b)))
    out = np.asarray(ip(a, b))
    req(out.size == 1, f"inner product returned shape {out.shape}", "hsip:shape")
    v = complex(out.reshape(-1)[0])
    req(np.isfinite(v.real) and np.isfinite(v.imag), f"inner product returned {v}", "hsip:nan")
    req(abs(v - exp) <= TOL_LA * scale, f"<A,B> = {v!r} != Tr(A^dagger B) = {exp!r}", "hsip:value")
    w = complex(np.asarray(ip(b, a)).reshape(-1)[0])
    req(abs(w - np.conj(v)) <= TOL_LA * scale, f"<B,A> = {w!r} is not the conjugate of <A,B> = {v!r}", "hsip:conjugate-symmetry")
    n = complex(np.asarray(ip(a, a)).reshape(-1)[0])
    req(abs(n - float(np.sum(np.abs(a) ** 2))) <= TOL_LA * scale, f"<A,A> = {n!r} != ||A||_F^2", "hsip:norm")
    if case["kind"] == "density":
        req(abs(v.imag) <= TOL_LA and v.real >= -TOL_LA, f"Tr(rho sigma) = {v!r} is not a non-negative real", "hsip:value")


def nt_hsip(case):
    if case["kind"] == "density":
        return nt_pair(case)
    if case["dtype_a"] == "complex" and case["dtype_b"] == "complex" and case["rows"] != case["cols"] and min(case["rows"], case["cols"]) >= 2:
        return "hsip:complex,rectangular"
    return None


# ------------------------------------------------------------------------------------------
# 7./8. Bures distance and angle
# ------------------------------------------------------------------------------------------
def check_bures_distance(case):
    from toqito.state_metrics import bures_distance

    rho, sigma, info = _pair(case)
    # compare on the scale of 1 - F = B^2 / 2 (sqrt amplifies the 1e-8 sqrtm error near F = 1)
    cmp = lambda a, b: _close(a * a / 2, b * b / 2, 2 * TOL_F)  # noqa: E731
    v = _metric_laws("bures_distance", bures_distance, case, rho, sigma, cmp)
    req(-TOL_F <= v <= np.sqrt(2) + TOL_F, f"bures_distance {v!r} outside [0, sqrt 2] {_fmt(case)}", "bures_distance:range")
    exp, why = _closed_fidelity(case, rho, sigma, info)
    if exp is not None:
        req(_close(v * v / 2, 1 - exp, 2 * TOL_F), f"bures_distance {v!r}: B^2/2 != 1-F with F = {exp!r} ({why}) {_fmt(case)}", "bures_distance:closed-form")
    f = ref_fidelity(rho, sigma)
    req(_close(v * v / 2, 1 - f, 2 * TOL_F), f"bures_distance {v!r} != sqrt(2(1-F)) = {np.sqrt(max(0, 2 - 2 * f))!r} (F = {f!r}) {_fmt(case)}", "bures_distance:value")
    if f <= 1 - 1e-3:
        b = float(np.sqrt(2 - 2 * f))
        req(_close(v, b, 1e-4), f"bures_distance {v!r} != sqrt(2(1-F)) = {b!r} {_fmt(case)}", "bures_distance:value")


def check_bures_angle(case):
    from toqito.state_metrics import bures_angle

    rho, sigma, info = _pair(case)
    # compare on the scale of F = cos^2(A) (arccos(sqrt(.)) amplifies the sqrtm error near F = 0 and F = 1)
    cmp = lambda a, b: _close(np.cos(a) ** 2, np.cos(b) ** 2, 2 * TOL_F)  # noqa: E731
    v = _metric_laws("bures_angle", bures_angle, case, rho, sigma, cmp)
    req(-1e-9 <= v <= np.pi / 2 + 1e-9, f"bures_angle {v!r} outside [0, pi/2] {_fmt(case)}", "bures_angle:range")
    exp, why = _closed_fidelity(case, rho, sigma, info)
    if exp is not None:
        req(_close(np.cos(v) ** 2, exp, 2 * TOL_F), f"bures_angle {v!r}: cos^2 != F = {exp!r} ({why}) {_fmt(case)}", "bures_angle:closed-form")
    f = ref_fidelity(rho, sigma)
    req(_close(np.cos(v) ** 2, f, 2 * TOL_F), f"bures_angle {v!r} != arccos(sqrt(F)) with F = {f!r} {_fmt(case)}", "bures_angle:value")
    if 1e-3 <= f <= 1 - 1e-3:
        a = float(np.arccos(np.sqrt(f)))
        req(_close(v, a, 1e-4), f"bures_angle {v!r} != arccos(sqrt(F)) = {a!r} {_fmt(case)}", "bures_angle:value")


# ------------------------------------------------------------------------------------------
# 9. sub-fidelity
# ------------------------------------------------------------------------------------------
def check_sub_fidelity(case):
    from toqito.state_metrics import sub_fidelity

    rho, sigma, info = _pair(case)
    cmp = lambda a, b: _close(a, b, TOL_F)  # noqa: E731
    v = _metric_laws("sub_fidelity", sub_fidelity, case, rho, sigma, cmp)
    e = ref_sub_fidelity(rho, sigma)
    req(cmp(v, e), f"sub_fidelity {v!r} != Tr(rs) + sqrt(2[(Tr rs)^2 - Tr(rs rs)]) = {e!r} {_fmt(case)}", "sub_fidelity:value")
    f2 = ref_fidelity(rho, sigma) ** 2
    req(v <= f2 + 2 * TOL_F, f"sub_fidelity {v!r} > F^2 = {f2!r} {_fmt(case)}", "sub_fidelity:bound")
    one_pure = case["fam"] in ("pure_equal", "pure_pure", "pure_mixed") or min(case["r1"], case["r2"]) == 1 and case["fam"] in ("generic", "equal")
    if case["d"] == 2 or one_pure:
        req(_close(v, f2, 2 * TOL_F), f"sub_fidelity {v!r} != F^2 = {f2!r} although {'d = 2' if case['d'] == 2 else 'one state is pure'} {_fmt(case)}", "sub_fidelity:equality")
    if case["fam"] == "orthogonal":
        req(abs(v) <= TOL_F, f"sub_fidelity {v!r} != 0 on orthogonal supports {_fmt(case)}", "sub_fidelity:orthogonal")
    if case["fam"] == "pure_equal" or (case["fam"] == "equal" and (case["d"] == 2 or case["r1"] == 1)):
        req(_close(v, 1.0, 2 * TOL_F), f"sub_fidelity {v!r} != 1 on identical states {_fmt(case)}", "sub_fidelity:equal")


# ------------------------------------------------------------------------------------------
# 10. Matsumoto fidelity (full rank)
# ------------------------------------------------------------------------------------------
def _mats_strategy():
    return _pair_case(families=("generic", "generic", "equal", "commuting", "nearly_equal"), full_rank=True)


def check_matsumoto(case):
    from toqito.state_metrics import matsumoto_fidelity

    rho, sigma, info = _pair(case)
    cmp = lambda a, b: _close(a, b, TOL_F)  # noqa: E731
    v = _metric_laws("matsumoto_fidelity", matsumoto_fidelity, case, rho, sigma, cmp)
    m = ref_matsumoto(rho, sigma)
    m2 = ref_matsumoto(sigma, rho)
    if abs(m - m2) > 1e-8:  # the geometric mean is symmetric; if the two reference evaluations disagree say nothing
        return
    f = ref_fidelity(rho, sigma)
    req(v <= f + 2 * TOL_F, f"matsumoto_fidelity {v!r} > fidelity {f!r} {_fmt(case)}", "matsumoto:bound")
    if case["fam"] == "equal":
        req(_close(v, 1.0, TOL_F), f"matsumoto_fidelity {v!r} != 1 on identical states {_fmt(case)}", "matsumoto:equal")
    if case["fam"] == "commuting":
        exp = float(np.sum(np.sqrt(info["p"] * info["q"])))
        req(_close(v, exp, TOL_F), f"matsumoto_fidelity {v!r} != sum sqrt(p q) = {exp!r} on commuting states {_fmt(case)}", "matsumoto:closed-form")
    req(cmp(v, m), f"matsumoto_fidelity {v!r} != Tr(rho # sigma) = {m!r} {_fmt(case)}", "matsumoto:value")


def nt_mats(case):
    if case["real"] or case["d"] < 3:
        return None
    if case["fam"] in ("generic", "nearly_equal"):
        return f"{case['fam']}:noncommuting,complex,d>=3,full-rank"
    return f"{case['fam']}:closed-form,complex,d>=3,full-rank"


# ------------------------------------------------------------------------------------------
# 11. relations between the library's own outputs
# ------------------------------------------------------------------------------------------
@st.composite
def _rel_case(draw):
    full = draw(st.sampled_from([False, False, True]))
    if full:
        return draw(_pair_case(families=("generic", "generic", "equal", "commuting", "nearly_equal"), full_rank=True))
    return draw(_pair_case())


def check_relations(case):
    from toqito.state_metrics import (
        bures_angle,
        bures_distance,
        fidelity,
        helstrom_holevo,
        matsumoto_fidelity,
        sub_fidelity,
        trace_distance,
    )

    rho, sigma, _ = _pair(case)
    f = _scalar(fidelity(rho, sigma), "fidelity")
    t = _scalar(trace_distance(rho, sigma), "trace_distance")
    e = _scalar(sub_fidelity(rho, sigma), "sub_fidelity")
    hh = _scalar(helstrom_holevo(rho, sigma), "helstrom_holevo")
    bd = _scalar(bures_distance(rho, sigma), "bures_distance")
    ba = _scalar(bures_angle(rho, sigma), "bures_angle")
    tag = _fmt(case)
    req(1 - f <= t + 2 * TOL_F, f"1 - F = {1 - f!r} > T = {t!r} {tag}", "relations:1-F<=T")
    req(t * t + f * f <= 1 + 4 * TOL_F, f"T = {t!r} > sqrt(1 - F^2) with F = {f!r} {tag}", "relations:T<=sqrt(1-F^2)")
    req(e <= f * f + 2 * TOL_F, f"sub-fidelity {e!r} > F^2 = {f * f!r} {tag}", "relations:sub<=F^2")
    req(_close(hh, 0.5 + 0.5 * t, TOL_LA), f"helstrom_holevo {hh!r} != 1/2 + trace_distance/2 = {0.5 + 0.5 * t!r} {tag}", "relations:HH=1/2+T/2")
    req(_close(bd * bd / 2, 1 - f, 2 * TOL_F), f"bures_distance {bd!r} inconsistent with fidelity {f!r} {tag}", "relations:bures_distance")
    req(_close(np.cos(ba) ** 2, f, 2 * TOL_F), f"bures_angle {ba!r} inconsistent with fidelity {f!r} {tag}", "relations:bures_angle")
    if case.get("full"):
        m = _scalar(matsumoto_fidelity(rho, sigma), "matsumoto_fidelity")
        req(m <= f + 2 * TOL_F, f"Matsumoto fidelity {m!r} > fidelity {f!r} {tag}", "relations:matsumoto<=F")
        req(m >= -TOL_F, f"Matsumoto fidelity {m!r} < 0 {tag}", "relations:matsumoto<=F")


def nt_rel(case):
    return nt_mats(case) if case.get("full") else nt_pair(case)


# ------------------------------------------------------------------------------------------
# 12. trace norm
# ------------------------------------------------------------------------------------------
@st.composite
def _tn_case(draw):
    rows = draw(st.integers(1, 7))
    cols = draw(st.integers(1, 7))
    k = min(rows, cols)
    rank = draw(st.integers(0, k))
    # singular values as drawn integers / 8 (exact), possibly repeated
    svals = sorted((draw(st.integers(1, 40)) / 8.0 for _ in range(rank)), reverse=True)
    return {
        "rows": rows,
        "cols": cols,
        "svals": svals,
        "real": draw(st.booleans()),
        "kind": draw(st.sampled_from(["svd", "svd", "hermitian", "density", "raw"])),
        "seed": draw(gen.SEED),
    }


def check_trace_norm(case):
    from toqito.matrix_props import trace_norm

    s = _subseeds(case["seed"])
    m, n, real = case["rows"], case["cols"], case["real"]
    sv = np.array(case["svals"], dtype=float)
    r = len(sv)
    kind = case["kind"]
    if kind == "hermitian":
        n = m
        r = min(r, m)
        sv = sv[:r]
        u = gen.rand_unitary(s[0], m, real)
        signs = np.where(gen.rng(s[1]).integers(0, 2, size=r) == 1, 1.0, -1.0)
        lam = np.zeros(m)
        lam[:r] = sv * signs
        a = _herm((u * lam) @ u.conj().T)
        exp = float(np.sum(sv))
    elif kind == "density":
        n = m
        a = _density(s[0], m, max(1, min(r, m)), real, "wishart")
        exp = 1.0
    elif kind == "raw":
        a = gen.rand_matrix(s[0], m, n, not real)
        exp = None
    else:
        u = gen.rand_unitary(s[0], m, real)[:, :r]
        v = gen.rand_unitary(s[1], n, real)[:, :r]
        a = (u * sv) @ v.conj().T if r else np.zeros((m, n))
        exp = float(np.sum(sv))
    scale = max(1.0, float(np.linalg.norm(a)))
    out = _scalar(trace_norm(a), "trace_norm")
    svd_sum = float(np.sum(np.linalg.svd(a, compute_uv=False)))
    tag = f"[{m}x{n} {'real' if real else 'complex'} {kind} rank {r}]"
    if exp is not None:
        req(_close(out, exp, TOL_LA * scale), f"trace_norm {out!r} != sum of the constructed singular values {exp!r} {tag}", "trace_norm:value")
    req(_close(out, svd_sum, TOL_LA * scale), f"trace_norm {out!r} != sum of singular values {svd_sum!r} {tag}", "trace_norm:value")
    # sqrt of the eigenvalues of A^dagger A (the documented description), looser: sqrt amplifies rounding at 0
    ev = np.linalg.eigvalsh(_herm(a.conj().T @ a))
    eig_sum = float(np.sum(np.sqrt(np.clip(ev, 0, None))))
    req(_close(out, eig_sum, 1e-6 * scale), f"trace_norm {out!r} != sum sqrt eig(A^dagger A) = {eig_sum!r} {tag}", "trace_norm:value")
    # invariance under A -> U A V, adjoint, and homogeneity
    uu = gen.rand_unitary(s[2], m, real)
    vv = gen.rand_unitary(s[3], n, real)
    o2 = _scalar(trace_norm(uu @ a @ vv), "trace_norm")
    req(_close(out, o2, TOL_LA * scale), f"trace_norm not unitarily invariant: {out!r} vs {o2!r} {tag}", "trace_norm:unitary")
    o3 = _scalar(trace_norm(a.conj().T), "trace_norm")
    req(_close(out, o3, TOL_LA * scale), f"trace_norm(A^dagger) {o3!r} != trace_norm(A) {out!r} {tag}", "trace_norm:adjoint")
    o4 = _scalar(trace_norm(-2.5 * a), "trace_norm")
    req(_close(o4, 2.5 * out, TOL_LA * scale * 2.5), f"trace_norm(-2.5 A) {o4!r} != 2.5 trace_norm(A) {2.5 * out!r} {tag}", "trace_norm:homogeneity")


def nt_tn(case):
    m, n = case["rows"], case["cols"]
    if case["kind"] == "raw" and min(m, n) >= 2:
        return "trace_norm:raw,rank>=2"
    if case["kind"] == "svd" and len(case["svals"]) >= 2:
        return "trace_norm:svd,rank>=2" + (",rectangular" if m != n else "")
    if case["kind"] == "hermitian" and min(len(case["svals"]), m) >= 2:
        return "trace_norm:hermitian,indefinite,rank>=2"
    return None


# ------------------------------------------------------------------------------------------
# 13. non-density inputs are rejected
# ------------------------------------------------------------------------------------------
REJECTING = [
    "fidelity",
    "trace_distance",
    "hilbert_schmidt",
    "helstrom_holevo",
    "bures_distance",
    "bures_angle",
    "sub_fidelity",
    "matsumoto_fidelity",
]
BAD_KINDS = ["trace", "negative", "nonhermitian", "shape", "nonsquare"]


@st.composite
def _rej_case(draw):
    d = draw(st.integers(2, 6))
    kind = draw(st.sampled_from(BAD_KINDS))
    return {
        "fn": draw(st.sampled_from(REJECTING)),
        "kind": kind,
        "d": d,
        "d2": draw(st.integers(2, 6)),
        "real": draw(st.booleans()),
        "rank": draw(st.integers(1, d)),
        "pos": draw(st.sampled_from([0, 1, 2])),
        "factor": draw(st.sampled_from([0.5, 0.9, 1.1, 2.0])),
        "seed": draw(gen.SEED),
    }


def _bad_matrix(kind, seed, d, rank, real, factor):
    s = _subseeds(seed)
    good = gen.rand_density(s[0], d, rank, real)
    if kind == "trace":
        return good * factor
    if kind == "negative":
        u = gen.rand_unitary(s[1], d, real)
        lam = np.zeros(d)
        lam[0] = -1e-2
        lam[1:] = gen.rand_probs(s[2], d - 1) * 1.01
        return _herm((u * lam) @ u.conj().T)
    if kind == "nonhermitian":
        pert = np.triu(gen.rand_matrix(s[1], d, d, not real), 1)
        pert[0, 1] = 1.0
        return good + 0.05 * pert  # trace stays 1, M - M^dagger has an entry of modulus >= 0.05
    if kind == "nonsquare":
        return np.hstack([good, np.zeros((d, 1))])
    raise ValueError(kind)


def _rej_inputs(case):
    d, real = case["d"], case["real"]
    s = _subseeds(case["seed"])
    kind = case["kind"]
    if kind == "shape":
        d2 = case["d2"] if case["d2"] != d else (d + 1 if d < 6 else 2)
        return gen.rand_density(s[0], d, case["rank"], real), gen.rand_density(s[1], d2, min(case["rank"], d2), real)
    good = gen.rand_density(s[3], d, d, real)
    bad1 = _bad_matrix(kind, s[4], d, case["rank"], real, case["factor"])
    bad2 = _bad_matrix(kind, s[5], d, case["rank"], real, case["factor"])
    if kind == "nonsquare":
        return bad1, bad2  # same (d, d+1) shape for both, as in the repository's tests
    return {0: (bad1, good), 1: (good, bad1), 2: (bad1, bad2)}[case["pos"]]


def check_rejects(case):
    import toqito.state_metrics as sm

    fn = getattr(sm, case["fn"])
    a, b = _rej_inputs(case)
    try:
        out = fn(a, b)
    except ValueError:
        return
    where = {0: "first", 1: "second", 2: "both"}[case["pos"]] if case["kind"] not in ("shape", "nonsquare") else "n/a"
    raise Violation(
        f"{case['fn']} accepted a non-density input (kind={case['kind']}, bad argument: {where}, d={case['d']}) and returned {out!r}",
        f"accepted:{case['fn']}:{case['kind']}",
    )


def nt_rej(case):
    return f"reject:{case['fn']}:{case['kind']}"


# ------------------------------------------------------------------------------------------
# 14./15. fidelity of separability (state SDP)
# ------------------------------------------------------------------------------------------
FOS_SETTINGS = [[2, 2, 1], [2, 2, 2], [3, 2, 1], [2, 3, 1], [3, 2, 2], [2, 3, 2], [2, 2, 3]]


@st.composite
def _fos_case(draw):
    da, db, k = draw(st.sampled_from(FOS_SETTINGS))
    return {"dims": [da, db], "k": k, "real": draw(st.booleans()), "basis": draw(st.booleans()), "seed": draw(gen.SEED)}


def check_fos_product(case):
    from toqito.state_metrics import fidelity_of_separability

    da, db = case["dims"]
    s = _subseeds(case["seed"])
    if case["basis"]:
        a = np.zeros(da)
        b = np.zeros(db)
        a[s[0] % da] = 1
        b[s[1] % db] = 1
    else:
        a = gen.rand_ket(s[0], da, case["real"])
        b = gen.rand_ket(s[1], db, case["real"])
    rho = _proj(np.kron(a, b))
    tag = f"[dims={case['dims']} k={case['k']} {'real' if case['real'] else 'complex'}{' basis' if case['basis'] else ''}]"
    try:
        v = fidelity_of_separability(rho, list(case["dims"]), case["k"])
    except ValueError as e:
        raise Violation(f"fidelity_of_separability rejected a pure product state {tag}: ValueError: {e}", f"fos:rejected-product:{str(e)[:40]}") from None
    v = _scalar(v, "fidelity_of_separability")
    req(_close(v, 1.0, 1e-5), f"fidelity_of_separability of a pure product state = {v!r} != 1 {tag}", "fos:value")


def nt_fos(case):
    if case["dims"][0] != case["dims"][1] or case["k"] >= 2:
        return f"fos:dims={case['dims'][0]}x{case['dims'][1]},k={case['k']}"
    return None


FOS_BAD = ["mixed", "mixed_product", "entangled", "entangled_cross", "trace", "negative", "nonhermitian"]


@st.composite
def _fos_rej_case(draw):
    da, db = draw(st.sampled_from([[2, 2], [2, 3], [3, 2]]))
    kind = draw(st.sampled_from(FOS_BAD))
    if kind == "entangled_cross" and da == db:
        kind = "entangled"  # the cross family needs unequal dimensions
    return {
        "dims": [da, db],
        "k": draw(st.sampled_from([1, 2])),
        "kind": kind,
        "real": draw(st.booleans()),
        "rank": draw(st.integers(2, da * db)),
        "c2": draw(st.integers(2, 7)),  # second Schmidt coefficient = c2/10 (entangled kinds)
        "factor": draw(st.sampled_from([0.5, 0.9, 1.1, 2.0])),
        "seed": draw(gen.SEED),
    }


def _fos_bad_state(case):
    da, db = case["dims"]
    n = da * db
    real = case["real"]
    s = _subseeds(case["seed"])
    kind = case["kind"]
    if kind == "mixed":
        return _density(s[0], n, case["rank"], real, "dirichlet", floor=0.05)
    if kind == "mixed_product":
        a0, a1 = gen.rand_unitary(s[0], da, real)[:, :2].T
        b0, b1 = gen.rand_unitary(s[1], db, real)[:, :2].T
        p = 0.3 + 0.4 * (s[2] % 1000) / 1000.0
        return _herm(p * _proj(np.kron(a0, b0)) + (1 - p) * _proj(np.kron(a1, b1)))
    if kind == "entangled":
        c2 = case["c2"] / 10.0
        ua = gen.rand_unitary(s[0], da, real)
        ub = gen.rand_unitary(s[1], db, real)
        psi = np.sqrt(1 - c2 * c2) * np.kron(ua[:, 0], ub[:, 0]) + c2 * np.kron(ua[:, 1], ub[:, 1])
        return _proj(psi / np.linalg.norm(psi))
    if kind == "entangled_cross":
        # a product vector for the *swapped* dimensions (db x da), read with the stated dimensions (da x db)
        a = gen.rand_ket(s[0], db, real)
        b = gen.rand_ket(s[1], da, real)
        psi = np.kron(a, b)
        sv = np.linalg.svd(psi.reshape(da, db), compute_uv=False)
        if sv[1] < 0.1:
            # construction, not rejection: a fixed vector that is a product for the swapped dimensions and has
            # Schmidt coefficients (0.934, 0.357) for 3x2 resp. (0.816, 0.577) for 2x3 in the stated ones
            if da == 3:
                psi = np.kron(np.array([1.0, 0.0]), np.ones(3) / np.sqrt(3))
            else:
                psi = np.kron(np.ones(3) / np.sqrt(3), np.array([1.0, 0.0]))
        return _proj(psi / np.linalg.norm(psi))
    pure = _proj(np.kron(gen.rand_ket(s[0], da, real), gen.rand_ket(s[1], db, real)))
    if kind == "trace":
        return pure * case["factor"]
    if kind == "negative":
        u = gen.rand_unitary(s[2], n, real)
        lam = np.zeros(n)
        lam[0] = -1e-2
        lam[1] = 1.01
        return _herm((u * lam) @ u.conj().T)
    if kind == "nonhermitian":
        pert = np.triu(gen.rand_matrix(s[2], n, n, not real), 1)
        pert[0, 1] = 1.0
        return pure + 0.05 * pert
    raise ValueError(kind)


def _schmidt2(rho, da, db):
    """second Schmidt coefficient of the dominant eigenvector (margin check of the constructed entangled inputs)"""
    w, v = np.linalg.eigh(_herm(rho))
    return float(np.linalg.svd(v[:, -1].reshape(da, db), compute_uv=False)[1])


def check_fos_rejects(case):
    from toqito.state_metrics import fidelity_of_separability

    da, db = case["dims"]
    rho = _fos_bad_state(case)
    kind = case["kind"]
    if kind in ("entangled", "entangled_cross"):
        assert _schmidt2(rho, da, db) >= 0.099, "generator: entangled input without margin"
    if kind in ("mixed", "mixed_product"):
        assert np.linalg.eigvalsh(rho)[-1] <= 0.951, "generator: mixed input without margin"
    try:
        out = fidelity_of_separability(rho, list(case["dims"]), case["k"])
    except ValueError:
        return
    raise Violation(
        f"fidelity_of_separability accepted a {kind} input on dims={case['dims']} (k={case['k']}) and returned {out!r}",
        f"fos:accepted:{kind}",
    )


def nt_fos_rej(case):
    return f"fos-reject:{case['kind']}:{case['dims'][0]}x{case['dims'][1]}"


# ------------------------------------------------------------------------------------------
SUBCHECKS = [
    SubCheck("fidelity", check_fidelity, _pair_case, nt_pair, quick=5000, thorough=90000, fuzz=6000),
    SubCheck("trace_distance", check_trace_distance, _pair_case, nt_pair, quick=5000, thorough=90000, shards=8),
    SubCheck("trace_triangle", check_triangle, _triple_case, nt_triple, quick=4000, thorough=70000, shards=8),
    SubCheck("hilbert_schmidt", check_hilbert_schmidt, _pair_case, nt_pair, quick=4000, thorough=60000, shards=8),
    SubCheck("hs_inner_product", check_hs_inner_product, _hsip_case, nt_hsip, quick=2000, thorough=30000, shards=4),
    SubCheck("helstrom_holevo", check_helstrom_holevo, _pair_case, nt_pair, quick=4000, thorough=60000, shards=8),
    SubCheck("bures_distance", check_bures_distance, _pair_case, nt_pair, quick=4000, thorough=60000),
    SubCheck("bures_angle", check_bures_angle, _pair_case, nt_pair, quick=4000, thorough=60000),
    SubCheck("sub_fidelity", check_sub_fidelity, _pair_case, nt_pair, quick=5000, thorough=90000),
    SubCheck("matsumoto", check_matsumoto, _mats_strategy, nt_mats, quick=4000, thorough=60000),
    SubCheck("relations", check_relations, _rel_case, nt_rel, quick=4000, thorough=60000),
    SubCheck("trace_norm", check_trace_norm, _tn_case, nt_tn, quick=4000, thorough=60000, shards=8),
    SubCheck("rejects", check_rejects, _rej_case, nt_rej, quick=4000, thorough=40000, shards=8, fuzz=6000),
    SubCheck("fos_product", check_fos_product, _fos_case, nt_fos, quick=40, thorough=600, shards=8, case_timeout=60),
    SubCheck("fos_rejects", check_fos_rejects, _fos_rej_case, nt_fos_rej, quick=160, thorough=2400, shards=8, case_timeout=60),
]
