"""Helpers for C20: channel builders (from JSON specs), closed forms, achieved bounds and two independent
semidefinite programs (cvxpy + CLARABEL) that never call the toqito functions under test.

Conventions (confirmed against toqito's kraus_to_choi / docstrings): a map Phi(X) = sum_i A_i X B_i^dagger on
d x d matrices is represented by its Choi matrix J = sum_ij E_ij (x) Phi(E_ij), *input system first*
(tqv.ref.choi_of_pairs).  A "map" below is a list of (A_i, B_i) pairs; CP maps have B_i = A_i, Hermiticity
preserving maps have A_i = c_i K_i, B_i = K_i with real c_i.
"""

from __future__ import annotations

import math

import numpy as np
from hypothesis import strategies as st

from tqv import gen, ref

# ---------------------------------------------------------------------------------------------
# named unitaries (small, readable witnesses)
# ---------------------------------------------------------------------------------------------
_S2 = 1 / math.sqrt(2)


def _named(d):
    if d == 2:
        return [
            np.eye(2),
            np.array([[0, 1], [1, 0]]),
            np.array([[1, 0], [0, -1]]),
            np.array([[0, -1j], [1j, 0]]),
            _S2 * np.array([[1, 1], [1, -1]]),
            np.diag([1, 1j]),
            np.diag([1, np.exp(1j * np.pi / 4)]),
            _S2 * np.array([[1, 1], [-1, 1]]),
        ]
    w = np.exp(2j * np.pi / d)
    shift = np.roll(np.eye(d), 1, axis=0)
    clock = np.diag([w**k for k in range(d)])
    four = np.array([[w ** (j * k) for k in range(d)] for j in range(d)]) / math.sqrt(d)
    return [np.eye(d), shift, clock, four, shift @ clock, np.diag([1] * (d - 1) + [1j])]


N_NAMED = {2: 8, 3: 6, 4: 6, 5: 6}


@st.composite
def unitary_spec(draw, d):
    """{'u':'named','i':k} | {'u':'seed','s':seed}; named first so that the shrinker moves towards it."""
    if draw(st.integers(0, 3)) == 0:
        return {"u": "named", "i": draw(st.integers(0, N_NAMED[d] - 1))}
    return {"u": "seed", "s": draw(gen.SEED)}


def build_unitary(spec, d):
    if spec["u"] == "named":
        return np.asarray(_named(d)[spec["i"] % N_NAMED[d]], dtype=complex)
    return gen.rand_unitary(spec["s"], d)


def phase_rotation(wspec, ang, d):
    """R = W diag(exp(i*pi*a_k/12)) W^dagger: a unitary whose eigen-angles are the drawn integers a_k (units of 15 degrees)."""
    w = build_unitary(wspec, d)
    ph = np.exp(1j * np.pi * np.array(ang[:d], dtype=float) / 12.0)
    return (w * ph) @ w.conj().T


# ---------------------------------------------------------------------------------------------
# channel specs -> Kraus operators
# ---------------------------------------------------------------------------------------------
@st.composite
def channel_spec(draw, d, kinds=("unitary", "mixed", "cptp")):
    kind = draw(st.sampled_from(list(kinds)))
    if kind == "unitary":
        return {"kind": "unitary", "u": draw(unitary_spec(d))}
    if kind == "mixed":
        n = draw(st.integers(2, 3))
        return {
            "kind": "mixed",
            "us": [draw(unitary_spec(d)) for _ in range(n)],
            "p": draw(gen.dyadic_probs(n, m=4, allow_zero=False)),
        }
    return {"kind": "cptp", "s": draw(gen.SEED), "r": draw(st.integers(2, d * d))}


@st.composite
def channel_of_rank(draw, d, r):
    """A channel spec whose Choi matrix has rank r for generic draws (1: unitary; 2, 3: mixture of r unitaries or
    Stinespring map with r Kraus operators; above: Stinespring map)."""
    if r == 1:
        return {"kind": "unitary", "u": draw(unitary_spec(d))}
    if r <= 3 and draw(st.booleans()):
        return {"kind": "mixed", "us": [draw(unitary_spec(d)) for _ in range(r)], "p": draw(gen.dyadic_probs(r, m=4, allow_zero=False))}
    return {"kind": "cptp", "s": draw(gen.SEED), "r": r}


def build_kraus(spec, d):
    """Kraus operators (list of d x d arrays) of a channel spec."""
    k = spec["kind"]
    if k == "unitary":
        return [build_unitary(spec["u"], d)]
    if k == "noisy":
        # (1 - q) Phi + q * (completely depolarising channel): full-rank Choi matrix
        q = float(spec["q"])
        ks = [math.sqrt(1 - q) * m for m in build_kraus(spec["base"], d)]
        for a in range(d):
            for i in range(d):
                m = np.zeros((d, d), dtype=complex)
                m[a, i] = math.sqrt(q / d)
                ks.append(m)
        return ks
    if k == "urel":
        return [build_unitary(spec["u"], d) @ phase_rotation(spec["w"], spec["ang"], d)]
    if k == "mixed":
        tot = float(sum(spec["p"]))
        return [math.sqrt(p / tot) * build_unitary(u, d) for u, p in zip(spec["us"], spec["p"])]
    if k == "cptp":
        r = int(spec["r"])
        v = gen.rand_isometry(spec["s"], d * r, d)
        return [v[i * d : (i + 1) * d, :] for i in range(r)]
    raise ValueError(k)


def cp_pairs(kraus, c=1.0):
    """pairs of c * sum K . K^dagger (c real of either sign)."""
    return [(c * k, k) for k in kraus]


def compose_pairs(pairs, w, where):
    """Phi o Ad_W ('pre': the unitary acts first) or Ad_W o Phi ('post')."""
    if where == "pre":
        return [(a @ w, b @ w) for a, b in pairs]
    return [(w @ a, w @ b) for a, b in pairs]


def dual_pairs(pairs):
    """Phi*(Y) = sum A_i^dagger Y B_i  (Hilbert-Schmidt adjoint)."""
    return [(a.conj().T, b.conj().T) for a, b in pairs]


def choi(pairs, d):
    return ref.choi_of_pairs(pairs, d)


def dual_of_identity(pairs, d):
    """Phi*(I) = sum A_i^dagger B_i."""
    return sum(a.conj().T @ b for a, b in pairs)


def op_norm(m):
    return float(np.linalg.norm(m, 2))


# ---------------------------------------------------------------------------------------------
# closed form for unitary pairs
# ---------------------------------------------------------------------------------------------
def hull_distance(eigs):
    """Distance from the origin to the convex hull of unit-modulus points: with g the largest gap between
    cyclically consecutive arguments, 0 when g <= pi and cos((2 pi - g)/2) otherwise."""
    ang = np.sort(np.angle(np.asarray(eigs)))
    gaps = np.diff(np.concatenate([ang, [ang[0] + 2 * np.pi]]))
    g = float(gaps.max())
    if g <= np.pi:
        return 0.0
    return float(math.cos((2 * np.pi - g) / 2))


def unitary_delta(u, v):
    return hull_distance(np.linalg.eigvals(u.conj().T @ v))


# ---------------------------------------------------------------------------------------------
# achieved (certified) bounds from input states
# ---------------------------------------------------------------------------------------------
def psi_matrix(seed, d):
    """A bipartite pure state on reference (x) input as a d x d coefficient matrix (rows: reference)."""
    g = gen.rng(seed)
    m = g.normal(size=(d, d)) + 1j * g.normal(size=(d, d))
    return m / np.linalg.norm(m)


def extend(j, psi, d):
    """(id (x) Phi)(|psi><psi|) = (psi (x) I) J (psi^dagger (x) I) for the Choi matrix J (input first)."""
    a = np.kron(psi, np.eye(d))
    out = a @ j @ a.conj().T
    return out


def herm_trace_norm(m):
    return float(np.abs(np.linalg.eigvalsh((m + m.conj().T) / 2)).sum())


def achieved_diamond(j, d, psis):
    """max over the given inputs of ||(id (x) Phi)(psi)||_1: a lower bound on the cb trace norm that is attained."""
    return max(ref.trace_norm(extend(j, p, d)) for p in psis)


def fidelity_at(j1, j2, psi, d):
    """F((id (x) Phi)(psi), (id (x) Psi)(psi)) with the reference (root) fidelity: an upper bound on the channel fidelity."""
    return ref.fidelity(extend(j1, psi, d), extend(j2, psi, d))


# ---------------------------------------------------------------------------------------------
# independent programs (cvxpy + CLARABEL)
# ---------------------------------------------------------------------------------------------
def _solve(prob):
    """Oracle-side solve: CLARABEL, then CVXOPT, then SCS with a tight eps; True only for status 'optimal'."""
    # max_threads=1: CLARABEL otherwise starts a thread pool in the calling process; the runner executes the replay
    # tier in the parent and then forks the shards, and a forked child deadlocks on the pool it did not inherit.
    for solver, kw in (("CLARABEL", {"max_threads": 1}), ("CVXOPT", {}), ("SCS", {"eps": 1e-8, "max_iters": 20000})):
        try:
            prob.solve(solver=solver, **kw)
        except Exception:  # noqa: BLE001  (oracle-side solver failure: no oracle value)
            continue
        if prob.status == "optimal" and prob.value is not None:
            return True
    return False


def cb_primal(j, d):
    """Watrous' *primal* for the cb trace norm (toqito solves the dual with cvxopt):
    max Re<J, X>  s.t.  [[rho0 (x) I, X], [X^dagger, rho1 (x) I]] >= 0, rho0, rho1 densities.
    Returns (value, rho0, rho1) or None when the solver does not report 'optimal'."""
    import cvxpy

    n = d * d
    scale = ref.trace_norm(j)  # the program is solved for J / ||J||_1 (well scaled), the value is scaled back
    if scale < 1e-300:
        return 0.0, np.eye(d) / d, np.eye(d) / d
    j = j / scale
    x = cvxpy.Variable((n, n), complex=True)
    r0 = cvxpy.Variable((d, d), hermitian=True)
    r1 = cvxpy.Variable((d, d), hermitian=True)
    eye = np.eye(d)
    cons = [
        cvxpy.bmat([[cvxpy.kron(r0, eye), x], [x.H, cvxpy.kron(r1, eye)]]) >> 0,
        r0 >> 0,
        r1 >> 0,
        cvxpy.real(cvxpy.trace(r0)) == 1,
        cvxpy.real(cvxpy.trace(r1)) == 1,
    ]
    prob = cvxpy.Problem(cvxpy.Maximize(cvxpy.real(cvxpy.trace(j.conj().T @ x))), cons)
    if not _solve(prob):
        return None
    return float(prob.value) * scale, np.asarray(r0.value), np.asarray(r1.value)


def _tr_out(q, d):
    """Tr_out of a cvxpy expression on in (x) out: T[i,k] = sum_a Q[(i,a),(k,a)]."""
    t = 0
    for a in range(d):
        s = np.kron(np.eye(d), np.eye(d)[a : a + 1, :])  # d x d^2 : I (x) <a|
        t = t + s @ q @ s.T
    return t


def cf_program(j1, j2, d):
    """Channel (root) fidelity, Katariya-Wilde Prop. 50, written independently with the Loewner order:
    max lam  s.t.  [[J1, Q^dagger], [Q, J2]] >= 0,  (T + T^dagger)/2 - lam I >= 0,  T = Tr_out Q.
    Returns (value, rho) where rho is the dual variable of the second constraint (an optimal input marginal),
    or None when the solver does not report 'optimal'."""
    import cvxpy

    n = d * d
    lam = cvxpy.Variable()
    q = cvxpy.Variable((n, n), complex=True)
    t = _tr_out(q, d)
    c2 = (t + t.H) / 2 - lam * np.eye(d) >> 0
    cons = [cvxpy.bmat([[j1, q.H], [q, j2]]) >> 0, c2]
    prob = cvxpy.Problem(cvxpy.Maximize(lam), cons)
    if not _solve(prob):
        return None
    rho = None
    try:
        dv = np.asarray(c2.dual_value)
        if dv.shape == (d, d):
            dv = (dv + dv.conj().T) / 2
            tr = np.trace(dv).real
            if tr > 1e-9:
                rho = dv / tr
    except Exception:  # noqa: BLE001
        rho = None
    return float(prob.value), rho


def psis_from_density(rho):
    """Purifications (coefficient matrices) of an input marginal; both transposition conventions are returned,
    the caller keeps whichever gives the better certified bound."""
    s = ref.psd_sqrt(rho)
    out = []
    for m in (s, s.T, s.conj()):
        nrm = np.linalg.norm(m)
        if nrm > 1e-12:
            out.append(m / nrm)
    return out
