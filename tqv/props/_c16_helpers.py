"""Helpers for C16: exact (rational) linear algebra, margin logic, deterministic builders.

Nothing here calls toqito.  All randomness comes from a numpy Generator built from a Hypothesis-drawn seed.
"""

from __future__ import annotations

import itertools
from fractions import Fraction

import numpy as np

from tqv import gen

# ---------------------------------------------------------------------------------------------
# margins (DESIGN 1.3): a predicate is asserted True only when the defining residual is <= 1e-12*scale and
# False only when it is >= 1e-3*scale; nothing is asserted in between (None).
# ---------------------------------------------------------------------------------------------
TRUE_TOL = 1e-12
FALSE_MARGIN = 1e-3 * (1 - 1e-6)
MARGINS = [1e-3, 1e-3, 1e-2, 0.1, 1.0]


def S(*ms) -> float:
    """scale = max(1, largest absolute entry of the operands)."""
    s = 1.0
    for m in ms:
        m = np.asarray(m)
        if m.size:
            s = max(s, float(np.max(np.abs(m))))
    return s


def tri(res: float, scale: float):
    if res <= TRUE_TOL * scale:
        return True
    if res >= FALSE_MARGIN * scale:
        return False
    return None


def mx(a) -> float:
    a = np.asarray(a)
    return float(np.max(np.abs(a))) if a.size else 0.0


def dag(m):
    return np.asarray(m).conj().T


def and3(*vals):
    """three-valued AND."""
    if any(v is False for v in vals):
        return False
    if any(v is None for v in vals):
        return None
    return True


# ---------------------------------------------------------------------------------------------
# exact arithmetic on integer matrices (complex integers are embedded as real 2x2 blocks)
# ---------------------------------------------------------------------------------------------
def _to_fraction_rows(m):
    m = np.asarray(m)
    if np.iscomplexobj(m):
        re, im = np.real(m), np.imag(m)
        m = np.block([[re, -im], [im, re]])
    return [[Fraction(int(x)) for x in row] for row in np.asarray(m).tolist()]


def exact_rank(m) -> int:
    """Rank over Q (or Q(i)) of a matrix with integer (Gaussian integer) entries."""
    m = np.asarray(m)
    cplx = np.iscomplexobj(m)
    rows = _to_fraction_rows(m)
    rank = 0
    ncols = len(rows[0]) if rows else 0
    r = 0
    for c in range(ncols):
        piv = None
        for i in range(r, len(rows)):
            if rows[i][c] != 0:
                piv = i
                break
        if piv is None:
            continue
        rows[r], rows[piv] = rows[piv], rows[r]
        pv = rows[r][c]
        for i in range(r + 1, len(rows)):
            if rows[i][c] != 0:
                f = rows[i][c] / pv
                rows[i] = [a - f * b for a, b in zip(rows[i], rows[r])]
        r += 1
        rank += 1
        if r == len(rows):
            break
    return rank // 2 if cplx else rank


def exact_det(m) -> Fraction:
    """Determinant of a real integer square matrix, exactly."""
    rows = [[Fraction(int(x)) for x in row] for row in np.asarray(m).tolist()]
    n = len(rows)
    det = Fraction(1)
    for c in range(n):
        piv = None
        for i in range(c, n):
            if rows[i][c] != 0:
                piv = i
                break
        if piv is None:
            return Fraction(0)
        if piv != c:
            rows[c], rows[piv] = rows[piv], rows[c]
            det = -det
        pv = rows[c][c]
        det *= pv
        for i in range(c + 1, n):
            if rows[i][c] != 0:
                f = rows[i][c] / pv
                rows[i] = [a - f * b for a, b in zip(rows[i], rows[c])]
    return det


def exact_min_minor(m, sizes=None):
    """(smallest minor, its size) over all square submatrices of the given sizes of an integer matrix."""
    m = np.asarray(m)
    r, c = m.shape
    best = None
    for k in sizes if sizes is not None else range(1, min(r, c) + 1):
        for rows in itertools.combinations(range(r), k):
            for cols in itertools.combinations(range(c), k):
                d = exact_det(m[np.ix_(rows, cols)])
                if best is None or d < best[0]:
                    best = (d, k)
    return best


def exact_spark(m) -> int:
    """Smallest number of linearly dependent columns (brute force, exact); #columns + 1 when independent."""
    m = np.asarray(m)
    rows, cols = m.shape
    for k in range(1, cols + 1):
        if k > rows:
            return k
        for sub in itertools.combinations(range(cols), k):
            if exact_rank(m[:, sub]) < k:
                return k
    return cols + 1


# ---------------------------------------------------------------------------------------------
# deterministic random content
# ---------------------------------------------------------------------------------------------
def ent(g, r, c, cplx, src, lo=-3, hi=3):
    """r x c matrix: small (Gaussian) integers for src == 'int', normal deviates otherwise."""
    if src == "int":
        m = g.integers(lo, hi + 1, size=(r, c)).astype(np.int64)
        if cplx:
            m = m + 1j * g.integers(lo, hi + 1, size=(r, c))
        return m
    m = g.normal(size=(r, c))
    if cplx:
        m = m + 1j * g.normal(size=(r, c))
    return m


def unitary(g, n, cplx):
    return gen.rand_unitary(int(g.integers(0, 2**62)), n, real=not cplx)


def perm_matrix(g, n, dtype=np.int64):
    p = g.permutation(n)
    m = np.zeros((n, n), dtype=dtype)
    m[np.arange(n), p] = 1
    return m


def unit_vec(g, n, cplx):
    return gen.rand_ket(int(g.integers(0, 2**62)), n, real=not cplx)


def herm_part(x):
    return (x + dag(x)) / 2


def unimodular(g, n, steps=None):
    """Integer matrix with determinant 1 and its exact integer inverse (product of elementary shears)."""
    s = np.eye(n, dtype=np.int64)
    si = np.eye(n, dtype=np.int64)
    if n == 1:
        return s, si
    for _ in range(steps if steps is not None else n + 1):
        i, j = g.choice(n, size=2, replace=False)
        k = int(g.integers(-2, 3))
        e = np.eye(n, dtype=np.int64)
        e[i, j] = k
        ei = np.eye(n, dtype=np.int64)
        ei[i, j] = -k
        s = s @ e
        si = ei @ si
    return s, si


def nonsquare_shape(g, n):
    extra = int(g.integers(1, 3))
    return (n, n + extra) if g.integers(0, 2) else (n + extra, n)


def dyadic_row(g, n, m=6, allow_zero=True):
    """n non-negative multiples of 2^-m that sum to exactly 1."""
    tot = 2**m
    if n == 1:
        return np.array([1.0])
    lo = 0 if allow_zero else 1
    cuts = np.sort(g.integers(0, tot - lo * n + 1, size=n - 1))
    parts = np.diff(np.concatenate([[0], cuts, [tot - lo * n]])) + lo
    return parts / tot


def push(base, direction, define, margin, extra=(), start_scale=None):
    """Smallest t on a geometric grid (starting at 1.002*margin*scale) such that define(base + t*direction) is False.

    Returns the perturbed matrix, or None when the direction never breaks the definition."""
    t = 1.002 * margin * (start_scale if start_scale is not None else S(base))
    for _ in range(70):
        x = base + t * direction
        if define(x, *extra) is False:
            return x
        t *= 1.5
    return None
