"""C11 — state exclusion values are certified optima and decide antidistinguishability.

Functions under test: state_exclusion (min_error primal/dual, unambiguous primal/dual), is_antidistinguishable,
common_quantum_overlap, and the trine / BB84 / Pusey-Barrett-Rudolph constructors as antidistinguishable sets.
"""

from __future__ import annotations

import numpy as np
from hypothesis import strategies as st

from tqv import gen, ref, sdp_ref
from tqv.core import Inconclusive, SubCheck, Violation, req
from tqv.props import _ens

# caller-owned arrays handed to the library must come back unchanged (see tqv/purity.py)
from tqv.purity import install as _install_purity  # noqa: E402

_install_purity('toqito.state_opt', 'toqito.state_props')

PROPERTY = "C11"
RULE = (
    "Ensembles drawn as in C10 (generic / orthogonal / dependent / two-state / geometrically uniform kets, mixed states; "
    "d 2..4; 2..5 states; real/complex; kets or density matrices; priors omitted/uniform/dyadic) plus sets that are "
    "antidistinguishable by construction (trine, the four BB84 states, PBR states for n=1 at theta=pi/2 and n=2 at "
    "theta >= pi/4+0.05, each under a drawn common unitary) and sets that are not (two distinct kets, PBR n=2 below "
    "pi/4-0.05).  Non-trivial = complex with non-uniform priors and >=3 states, or mixed, or a constructed "
    "(anti)distinguishable family.  distinct = distinct SHA-1 of the case JSON."
)
ASSUMPTIONS = [
    "cvxopt (through picos) is the only SDP-capable solver available, so 'every supported solver' = cvxopt",
    "solver-internal failures and time-outs are inconclusive; certified intervals wider than 1e-6 are inconclusive",
    "value tolerance 1e-5; the boolean test is asserted True only when toqito's own dual value (priors all 1) is <= 1e-9 "
    "and False only when the certified lower bound is >= 1e-4 (np.isclose(x, 0) switches at 1e-8, inside solver noise)",
]
TOL = 1e-5
FAMILIES = ("generic", "orthogonal", "dependent", "two", "gu", "mixed")


def _nt(case):
    if case.get("named"):
        return "named:" + case["named"]
    if case.get("real_first"):
        return "mixed-dtype-ensemble"
    if case["family"] == "mixed":
        return "mixed"
    if case["cplx"] and case["probs"] == "dyadic" and case["n"] >= 3:
        return "complex,nonuniform,n>=3"
    return None


def _setup(case):
    dms, kets = _ens.build_kets_or_dms(case)
    return dms, kets, _ens.as_inputs(case, dms, kets), _ens.priors(case), _ens.probs_arg(case)


def _interval(dms, p):
    lb, ub, _ = sdp_ref.exclusion_interval(dms, p)
    if ub - lb > 1e-6:
        raise Inconclusive("oracle_gap")
    return lb, ub


def _call(vectors, probs, **kw):
    from toqito.state_opt import state_exclusion

    before = [np.array(v, copy=True) for v in vectors]
    pb = None if probs is None else list(probs)
    val, meas = state_exclusion(vectors=vectors, probs=probs, **kw)
    req(all(a.shape == b.shape and np.array_equal(a, b) for a, b in zip(before, vectors)) and (probs is None or list(probs) == pb), "state_exclusion modified the caller's states or priors", "args-mutated")
    if val is None or not np.isfinite(val):
        raise Inconclusive("solver_no_value")
    return float(np.real(val)), meas


def _check_value(case, pd):
    dms, kets, inputs, p, parg = _setup(case)
    lb, ub = _interval(dms, p)
    val, _ = _call(inputs, parg, primal_dual=pd)
    req(lb - TOL <= val <= ub + TOL, f"exclusion value ({pd}) {val:.8f} outside the certified interval [{lb:.8f}, {ub:.8f}]", "value")
    req(val >= -TOL, f"exclusion value {val} is negative", "negative")
    req(val <= min(p) + TOL, f"exclusion value {val:.8f} exceeds the smallest prior {min(p):.8f}", "above-min-prior")


def check_value_dual(case):
    _check_value(case, "dual")


def check_value_primal(case):
    _check_value(case, "primal")


def _check_povm(case, pd):
    dms, kets, inputs, p, parg = _setup(case)
    val, meas = _call(inputs, parg, primal_dual=pd)
    ms = [_ens.to_np(m) for m in meas]
    d = case["d"]
    req(len(ms) == case["n"], f"{len(ms)} measurement operators for {case['n']} states", "povm:count")
    for m in ms:
        req(m.shape == (d, d), f"measurement operator of shape {m.shape}", "povm:shape")
        req(np.allclose(m, m.conj().T, atol=1e-6), "returned measurement operator is not Hermitian", "povm:herm")
        req(ref.lam_min(m) >= -1e-6, f"returned measurement operator has eigenvalue {ref.lam_min(m):.2e}", "povm:psd")
    req(np.allclose(sum(ms), np.eye(d), atol=1e-5), "returned measurement operators do not sum to the identity", "povm:sum")
    got = float(sum(pi * np.real(np.trace(r @ m)) for pi, r, m in zip(p, dms, ms)))
    if abs(got - val) > 1e-4:
        got_t = float(sum(pi * np.real(np.trace(r @ m.T)) for pi, r, m in zip(p, dms, ms)))
        sig = "povm:attains-only-after-transpose" if abs(got_t - val) <= 1e-4 else "povm:not-attaining"
        raise Violation(f"returned POVM ({pd}) gives {got:.6f}, reported value {val:.6f} (transposed operators give {got_t:.6f})", sig)


def check_povm_dual(case):
    _check_povm(case, "dual")


def check_povm_primal(case):
    _check_povm(case, "primal")


@st.composite
def _laws_case(draw):
    c = draw(_ens.ensemble_case(FAMILIES))
    c["useed"] = draw(gen.SEED)
    c["perm"] = list(draw(st.permutations(list(range(5)))))
    return c


def check_laws(case):
    dms, kets, inputs, p, parg = _setup(case)
    n, d = case["n"], case["d"]
    val, _ = _call(inputs, parg)
    u = gen.rand_unitary(case["useed"], d, real=not case["cplx"])
    if kets is not None:
        k2 = [u @ v for v in kets]
        d2 = [np.outer(v, v.conj()) for v in k2]
    else:
        k2 = None
        d2 = [u @ r @ u.conj().T for r in dms]
        d2 = [(r + r.conj().T) / 2 for r in d2]
    v2, _ = _call(_ens.as_inputs(case, d2, k2), parg)
    req(abs(v2 - val) <= 2 * TOL, f"exclusion value changed under a common unitary: {val:.8f} -> {v2:.8f}", "unitary")
    perm = [i for i in case["perm"] if i < n]
    v3, _ = _call([inputs[i] for i in perm], [p[i] for i in perm])
    req(abs(v3 - val) <= 2 * TOL, f"exclusion value changed under relabelling: {val:.8f} -> {v3:.8f}", "relabel")
    if n == 2:
        cf = 0.5 - 0.5 * ref.trace_norm(p[0] * dms[0] - p[1] * dms[1])
        req(abs(val - cf) <= TOL, f"two states: exclusion value {val:.8f} != 1/2 - 1/2||p rho - q sigma||_1 = {cf:.8f}", "two-state")
    if case["family"] == "orthogonal" and n >= 2:
        req(abs(val) <= TOL, f"orthogonal states: exclusion value {val:.8f} != 0", "orthogonal")


# ------------------------------------------------------------------------------------------
# named (anti)distinguishable sets and the boolean / overlap functions
# ------------------------------------------------------------------------------------------
@st.composite
def _named_case(draw):
    named = draw(st.sampled_from(["trine", "bb84", "pbr1", "pbr2", "pbr2_below", "two_kets", "generic3", "generic4", "mixed"]))
    c = {"named": named, "useed": draw(gen.SEED), "seed": draw(gen.SEED), "cplx": draw(st.booleans()), "form": draw(st.sampled_from(["ket1d", "ketcol", "dm"]))}
    if named == "pbr2":
        c["theta"] = draw(st.floats(np.pi / 4 + 0.05, np.pi / 2))
    elif named == "pbr2_below":
        c["theta"] = draw(st.floats(0.15, np.pi / 4 - 0.05))
    if named == "mixed":
        c["form"] = "dm"
    return c


def _named_states(case):
    from toqito.states import bb84, pusey_barrett_rudolph, trine

    named = case["named"]
    positive = None
    if named == "trine":
        kets, positive = [np.asarray(v).reshape(-1) for v in trine()], True
        # the set the property names: three unit vectors of a qubit with pairwise overlaps of modulus 1/2 (a different
        # triple may happen to be antidistinguishable as well - mutant m7 is, by a margin of 2e-4 - but is not the trine)
        gram = np.abs(np.array([[np.vdot(a, b) for b in kets] for a in kets]))
        req(len(kets) == 3 and np.allclose(gram, 0.5 + 0.5 * np.eye(3), atol=1e-12), f"trine() is not the trine: |Gram| = {np.round(gram, 6).tolist()}", "trine-structure")
    elif named == "bb84":
        b = bb84()
        kets, positive = [np.asarray(v).reshape(-1) for v in (b[0][0], b[0][1], b[1][0], b[1][1])], True
    elif named == "pbr1":
        kets, positive = [np.asarray(v).reshape(-1) for v in pusey_barrett_rudolph(1, np.pi / 2)], True
    elif named == "pbr2":
        kets, positive = [np.asarray(v).reshape(-1) for v in pusey_barrett_rudolph(2, case["theta"])], True
    elif named == "pbr2_below":
        kets, positive = [np.asarray(v).reshape(-1) for v in pusey_barrett_rudolph(2, case["theta"])], False
    elif named == "two_kets":
        g = gen.rng(case["seed"])
        d = int(g.integers(2, 5))
        a = gen.rand_ket(case["seed"], d, not case["cplx"])
        b = gen.rand_ket(case["seed"] // 3 + 7, d, not case["cplx"])
        kets, positive = [a, b], (False if abs(np.vdot(a, b)) > 0.05 else None)
    elif named in ("generic3", "generic4"):
        g = gen.rng(case["seed"])
        d = int(g.integers(2, 5))
        kets = [gen.rand_ket(int(g.integers(0, 2**62)), d, not case["cplx"]) for _ in range(int(named[-1]))]
    else:
        g = gen.rng(case["seed"])
        d = int(g.integers(2, 4))
        dms = [gen.rand_density(int(g.integers(0, 2**62)), d, int(g.integers(1, d + 1)), not case["cplx"]) for _ in range(int(g.integers(2, 5)))]
        return dms, None, None
    d = len(kets[0])
    u = gen.rand_unitary(case["useed"], d, real=not case["cplx"])
    kets = [u @ np.asarray(v, dtype=complex if case["cplx"] else float) for v in kets]
    return [np.outer(v, v.conj()) for v in kets], kets, positive


def check_named(case):
    from toqito.state_props import common_quantum_overlap, is_antidistinguishable

    dms, kets, positive = _named_states(case)
    n = len(dms)
    inputs = _ens.as_inputs({"form": case["form"]}, dms, kets)
    ones = [1] * n
    lb1, ub1, _ = sdp_ref.exclusion_interval(dms, ones)
    if ub1 - lb1 > 1e-6:
        raise Inconclusive("oracle_gap")
    v1, _ = _call(inputs, ones, primal_dual="dual")
    req(lb1 - TOL <= v1 <= ub1 + TOL, f"exclusion value with unit weights {v1:.8f} outside certified [{lb1:.8f}, {ub1:.8f}]", "value")
    vu, _ = _call(inputs, None)
    if positive is True:
        req(ub1 <= 1e-6, f"constructed antidistinguishable set ({case['named']}) has certified exclusion value {ub1:.2e} > 0", "constructed-set-not-antidistinguishable")
        req(abs(vu) <= 1e-6, f"antidistinguishable set ({case['named']}): exclusion value {vu:.2e} != 0", "positive-not-zero")
    req(lb1 / n - TOL <= vu <= ub1 / n + TOL, f"exclusion value with omitted priors {vu:.8f} outside certified [{lb1 / n:.8f}, {ub1 / n:.8f}]", "value")
    if positive is False and lb1 / n >= 1e-4:
        req(vu >= 5e-5, f"non-antidistinguishable set ({case['named']}): exclusion value {vu:.2e} is not positive", "negative-zero")
    got = bool(is_antidistinguishable(inputs))
    cqo = float(np.real(common_quantum_overlap(inputs)))
    req(abs(cqo - v1) <= 2 * TOL, f"common_quantum_overlap {cqo:.8f} disagrees with the exclusion value {v1:.8f}", "cqo")
    if lb1 >= 1e-4:
        req(got is False, f"is_antidistinguishable is True although the exclusion optimum is >= {lb1:.6f}", "isanti:true-on-negative")
    if positive is True and v1 <= 1e-9:
        req(got is True, f"is_antidistinguishable is False on a constructed antidistinguishable set (value {v1:.2e})", "isanti:false-on-positive")
    if positive is True and got is False:
        raise Inconclusive("boolean_at_isclose_edge")


# ------------------------------------------------------------------------------------------
def check_unambiguous(case):
    dms, kets, inputs, p, parg = _setup(case)
    out = {}
    for pd in ("primal", "dual"):
        out[pd] = None
        # cvxopt's default KKT solver fails (ZeroDivisionError) on about half of these programs; the library's docstring
        # recommends cvxopt_kktsolver="ldl" for that case, so it is tried second (seeded change C11-w2 - the dual ignoring
        # the priors - slipped through while so few non-uniform cases had both forms solved)
        for extra in ({}, {"cvxopt_kktsolver": "ldl"}):
            try:
                out[pd] = _call(inputs, parg, strategy="unambiguous", primal_dual=pd, **extra)[0]
                break
            except Inconclusive:
                continue
            except Exception as e:  # noqa: BLE001
                from tqv.core import classify_exception

                if classify_exception(e)[0] != "inconclusive":
                    raise
    if out["primal"] is None or out["dual"] is None:
        raise Inconclusive("solver_no_value")
    req(abs(out["primal"] - out["dual"]) <= 5 * TOL, f"unambiguous exclusion: primal {out['primal']:.8f} != dual {out['dual']:.8f}", "unamb-duality")


def _ens_strategy(families, forms=("ket1d", "ketcol", "dm")):
    return lambda: _ens.ensemble_case(families, forms)


SUBCHECKS = [
    SubCheck("value_dual", check_value_dual, _ens_strategy(FAMILIES), _nt, quick=480, thorough=8000, case_timeout=30),
    SubCheck("value_primal", check_value_primal, _ens_strategy(FAMILIES), _nt, quick=320, thorough=6000, case_timeout=30),
    SubCheck("povm_dual", check_povm_dual, _ens_strategy(FAMILIES), _nt, quick=320, thorough=6000, case_timeout=30),
    SubCheck("povm_primal", check_povm_primal, _ens_strategy(FAMILIES), _nt, quick=240, thorough=4000, case_timeout=30),
    SubCheck("laws", check_laws, _laws_case, _nt, quick=320, thorough=6000, case_timeout=60),
    SubCheck("named_sets", check_named, _named_case, _nt, quick=320, thorough=6000, case_timeout=60),
    SubCheck("unambiguous", check_unambiguous, _ens_strategy(("generic", "two", "gu", "mixed", "orthogonal")), _nt, quick=288, thorough=5000, case_timeout=60),
]
