"""Helpers for C15: state builders (pure functions of the drawn case), reference quantities, return-site tracing.

Nothing here calls the functions under test, except :class:`SiteTracer`, which only *observes* which ``return``
statement of a toqito function produced a value (no source hook: ``sys.monitoring`` local events on the function's
code object, ``sys.settrace`` as a fallback).
"""

from __future__ import annotations

import ast
import importlib
import sys

import numpy as np

from tqv import gen, ref

# ----------------------------------------------------------------------------------------------
# return-site tracing
# ----------------------------------------------------------------------------------------------
_TOOL_NAME = "tqv-c15"


def _norm(s: str) -> str:
    return " ".join(s.split())


def _site_table(src: str, funcname: str) -> dict:
    """line number -> site text for every ``return`` statement of the module-level function ``funcname``.

    The site text is built from source *text* only (never a line number): the return statement itself and the
    innermost enclosing ``if``/``for``/``while`` header, or, for a return that is a direct child of the function
    body, the header of the statement just before it.
    """
    tree = ast.parse(src)
    fn = next(n for n in tree.body if isinstance(n, (ast.FunctionDef, ast.AsyncFunctionDef)) and n.name == funcname)
    table = {}

    def head(node):
        if isinstance(node, ast.If):
            return "if " + _norm(ast.get_source_segment(src, node.test))
        if isinstance(node, ast.While):
            return "while " + _norm(ast.get_source_segment(src, node.test))
        if isinstance(node, ast.For):
            return "for " + _norm(ast.get_source_segment(src, node.target)) + " in " + _norm(ast.get_source_segment(src, node.iter))
        return _norm((ast.get_source_segment(src, node) or "").splitlines()[0])

    def visit(body, ctx):
        prev = None
        for st in body:
            if isinstance(st, ast.Return):
                c = ctx if ctx is not None else ("after " + head(prev) if prev is not None else "top")
                text = _norm(ast.get_source_segment(src, st))[:70] + " <- " + c[:100]
                for ln in range(st.lineno, (st.end_lineno or st.lineno) + 1):
                    table[ln] = text
            elif isinstance(st, (ast.If, ast.For, ast.While)):
                visit(st.body, head(st))
                if st.orelse:
                    # an ``elif`` is an If nested alone in orelse: it gets its own header
                    if len(st.orelse) == 1 and isinstance(st.orelse[0], ast.If):
                        visit(st.orelse, None if ctx is None else ctx)
                    else:
                        visit(st.orelse, "else of " + head(st))
            elif isinstance(st, (ast.With, ast.Try)):
                for sub in [st.body] + [h.body for h in getattr(st, "handlers", [])] + [getattr(st, "orelse", []), getattr(st, "finalbody", [])]:
                    if sub:
                        visit(sub, ctx)
            prev = st

    visit(fn.body, None)
    return table


class SiteTracer:
    """Observe which ``return`` statement of ``<module>.<func>`` produced the value of a call."""

    def __init__(self, modname: str, funcname: str):
        self.modname, self.funcname = modname, funcname
        self._ready = False
        self.active = False
        self.last_line = None

    # -- set-up (lazy: toqito must be imported from the tree selected by the runner)
    def _setup(self):
        mod = importlib.import_module(self.modname)  # sys.modules entry: the *module*, not the re-exported function
        self.func = getattr(mod, self.funcname)
        self.code = self.func.__code__
        with open(mod.__file__, encoding="utf-8") as fh:
            self.table = _site_table(fh.read(), self.funcname)
        self._positions = [p[0] for p in self.code.co_positions()]
        self._mode = "settrace"
        mon = getattr(sys, "monitoring", None)
        if mon is not None:
            tool = None
            for t in (4, 3):
                name = mon.get_tool(t)
                if name is None:
                    mon.use_tool_id(t, _TOOL_NAME)
                    _REG[t] = {}
                    mon.register_callback(t, mon.events.PY_RETURN, lambda code, off, rv, _t=t: _dispatch(_t, code, off))
                    tool = t
                    break
                if name == _TOOL_NAME:
                    tool = t
                    break
            if tool is not None:
                _REG[tool][self.code] = self
                mon.set_local_events(tool, self.code, mon.events.PY_RETURN)
                self._mode = "monitoring"
        self._ready = True

    def _on_return_offset(self, off):
        if self.active:
            i = off // 2
            self.last_line = self._positions[i] if 0 <= i < len(self._positions) else None

    def call(self, *args, **kwargs):
        """-> (value, site text).  Exceptions of the traced function propagate unchanged."""
        if not self._ready:
            self._setup()
        self.last_line = None
        self.active = True
        try:
            if self._mode == "monitoring":
                val = self.func(*args, **kwargs)
            else:
                val = self._call_settrace(*args, **kwargs)
        finally:
            self.active = False
        return val, self.table.get(self.last_line, "return-site-unknown")

    def _call_settrace(self, *args, **kwargs):
        code = self.code

        def local(frame, event, arg):
            if event == "return":
                self.last_line = frame.f_lineno
            return local

        def glob(frame, event, arg):
            return local if frame.f_code is code else None

        old = sys.gettrace()
        sys.settrace(glob)
        try:
            return self.func(*args, **kwargs)
        finally:
            sys.settrace(old)


_REG: dict = {}


def _dispatch(tool, code, off):
    tr = _REG.get(tool, {}).get(code)
    if tr is not None:
        tr._on_return_offset(off)


SEP_TRACER = SiteTracer("toqito.state_props.is_separable", "is_separable")
SYMEXT_TRACER = SiteTracer("toqito.state_props.has_symmetric_extension", "has_symmetric_extension")


# ----------------------------------------------------------------------------------------------
# reference quantities
# ----------------------------------------------------------------------------------------------
def herm(m):
    return (m + m.conj().T) / 2


def lam_min_pt(rho, dims, party=1):
    """Smallest eigenvalue of the partial transpose on 0-indexed ``party`` (plain numpy index model)."""
    return ref.lam_min(ref.partial_transpose(rho, [party], list(dims)))


def local_unitary_orbit(rho, dims, seed, real=False):
    d1, d2 = dims
    u = np.kron(gen.rand_unitary(seed, d1, real), gen.rand_unitary(seed ^ 0x5DEECE66D, d2, real))
    return herm(u @ rho @ u.conj().T)


def exchange_parties(rho, dims):
    return ref.permute(rho, [1, 0], list(dims), list(dims))


# ----------------------------------------------------------------------------------------------
# state families (every builder is a pure function of its spec)
# ----------------------------------------------------------------------------------------------
def _ket(g, d, cplx):
    v = g.normal(size=d)
    if cplx:
        v = v + 1j * g.normal(size=d)
    return v / np.linalg.norm(v)


def _local_density(g, d, cplx):
    r = int(g.integers(1, d + 1))
    a = g.normal(size=(d, r))
    if cplx:
        a = a + 1j * g.normal(size=(d, r))
    m = a @ a.conj().T
    return m / np.trace(m).real


def sep_state(spec):
    """Convex mixture of ``k`` product states on d1 x d2, optionally mixed with eps * I/n (full rank).

    spec: {"d": [d1, d2], "k", "cplx", "local": "pure"|"mixed"|"basis", "w": "dirichlet"|"equal", "eps", "seed"}
    """
    d1, d2 = spec["d"]
    n = d1 * d2
    k = int(spec["k"])
    g = gen.rng(spec["seed"])
    cplx = bool(spec["cplx"])
    if spec.get("w", "dirichlet") == "equal":
        p = np.ones(k) / k
    else:
        p = g.dirichlet(np.ones(k)) * (1 - 0.01 * k) + 0.01
        p = p / p.sum()
    rho = np.zeros((n, n), dtype=complex if cplx else float)
    for i in range(k):
        loc = spec.get("local", "pure")
        if loc == "basis":
            a = np.zeros(d1)
            a[int(g.integers(d1))] = 1
            b = np.zeros(d2)
            b[int(g.integers(d2))] = 1
            v = np.kron(a, b)
            term = np.outer(v, v.conj())
        elif loc == "mixed":
            term = np.kron(_local_density(g, d1, cplx), _local_density(g, d2, cplx))
        else:
            v = np.kron(_ket(g, d1, cplx), _ket(g, d2, cplx))
            term = np.outer(v, v.conj())
        rho = rho + p[i] * term
    eps = float(spec.get("eps", 0.0))
    if eps:
        rho = (1 - eps) * rho + eps * np.eye(n) / n
    rho = herm(rho)
    return rho / np.trace(rho).real


def _entangled_core(g, d1, d2, core, cplx):
    n = d1 * d2
    r = min(d1, d2)
    if core == "antisym" and d1 == d2:
        sw = ref.perm_operator([d1, d2], [1, 0])
        return (np.eye(n) - sw) / (d1 * (d1 - 1))
    if core == "maxent":
        s = np.ones(r) / r
    elif core.startswith("weak"):
        # cos t |00> + sin t |11> in drawn local bases, t = 0.002 ... 0.02: lambda_min(PT) = -sin t cos t is far outside
        # every tolerance, while det(PT) ~ -t^4 and the purity-type quantities are within 1e-8 of a product state's
        t = float(core.split(":")[1])
        s = np.zeros(r)
        s[0], s[1] = np.cos(t) ** 2, np.sin(t) ** 2
    else:
        sr = int(g.integers(2, r + 1))
        s = np.zeros(r)
        s[:sr] = g.dirichlet(np.ones(sr)) * (1 - 0.1 * sr) + 0.1
        s = s / s.sum()
    u = gen.rand_unitary(int(g.integers(0, 2**62)), d1, not cplx)
    v = gen.rand_unitary(int(g.integers(0, 2**62)), d2, not cplx)
    psi = sum(np.sqrt(s[i]) * np.kron(u[:, i], v[:, i]) for i in range(r))
    psi = psi / np.linalg.norm(psi)
    return np.outer(psi, psi.conj())


def mix_to_target(rho0, sigma, dims, target, party=1):
    """(1-t) rho0 + t sigma with lambda_min of the partial transpose equal to ``target`` (bisection on t in [0, 1]).

    Requires lambda_min(PT rho0) < target <= lambda_min(PT sigma); returns the mixture at the lower bracket end, so
    that lambda_min <= target (up to 1e-15).
    """
    f = lambda t: lam_min_pt((1 - t) * rho0 + t * sigma, dims, party) - target  # noqa: E731
    lo, hi = 0.0, 1.0
    for _ in range(70):
        mid = (lo + hi) / 2
        if f(mid) <= 0:
            lo = mid
        else:
            hi = mid
    rho = herm((1 - lo) * rho0 + lo * sigma)
    return rho / np.trace(rho).real


def npt_state(spec):
    """Entangled core (random Schmidt coefficients >= 0.1 / maximally entangled / antisymmetric Werner) mixed with
    PPT noise (identity or a full-rank separable mixture) until lambda_min(PT) = -m  (m = 0: no noise).

    spec: {"d", "core": "pure"|"maxent"|"antisym", "noise": "id"|"sep", "m", "cplx", "seed"}
    """
    d1, d2 = spec["d"]
    n = d1 * d2
    g = gen.rng(spec["seed"])
    cplx = bool(spec["cplx"])
    rho0 = _entangled_core(g, d1, d2, spec.get("core", "pure"), cplx)
    m = float(spec.get("m", 0.0))
    if m <= 0:
        return herm(rho0)
    if spec.get("noise", "id") == "sep":
        sigma = sep_state({"d": [d1, d2], "k": 2 * n, "cplx": cplx, "local": "pure", "w": "dirichlet", "eps": 0.2, "seed": int(g.integers(0, 2**62))})
    else:
        sigma = np.eye(n) / n
    return mix_to_target(rho0, sigma, [d1, d2], -m)


def ppt_state(spec):
    """Random density matrix of the given rank mixed with the identity (if necessary) so that lambda_min(PT) >= m.

    spec: {"d", "rank", "m", "cplx", "seed"}; separability is unknown above 6 dimensions.
    """
    d1, d2 = spec["d"]
    n = d1 * d2
    rank = max(1, min(n, int(spec.get("rank", n))))
    rho0 = gen.rand_density(spec["seed"], n, rank, not spec["cplx"])
    m = float(spec["m"])
    l0 = lam_min_pt(rho0, [d1, d2])
    if l0 < m:
        t = (m - l0) / (1.0 / n - l0)
        t = min(1.0, t * (1 + 1e-12) + 1e-15)
        rho0 = (1 - t) * rho0 + t * np.eye(n) / n
    rho0 = herm(rho0)
    return rho0 / np.trace(rho0).real


def tiles_state():
    e = np.eye(3)
    s = 1 / np.sqrt(2)
    ps = [
        np.kron(e[0], s * (e[0] - e[1])),
        np.kron(e[2], s * (e[1] - e[2])),
        np.kron(s * (e[0] - e[1]), e[2]),
        np.kron(s * (e[1] - e[2]), e[0]),
        np.kron(e[0] + e[1] + e[2], e[0] + e[1] + e[2]) / 3,
    ]
    rho = np.eye(9)
    for p in ps:
        rho = rho - np.outer(p, p)
    return rho / 4


def horodecki33(a):
    m = np.zeros((9, 9))
    for i in range(9):
        m[i, i] = a
    for i, j in ((0, 4), (0, 8), (4, 8)):
        m[i, j] = m[j, i] = a
    m[6, 6] = m[8, 8] = (1 + a) / 2
    m[6, 8] = m[8, 6] = np.sqrt(1 - a * a) / 2
    return m / (8 * a + 1)


def bound_state(spec):
    """PPT entangled 3x3 states (tiles UPB state, Horodecki family) with white noise p: verdict is recorded only."""
    base = tiles_state() if spec.get("which", "tiles") == "tiles" else horodecki33(float(spec.get("a", 0.5)))
    p = float(spec.get("p", 0.0))
    rho = (1 - p) * base + p * np.eye(9) / 9
    return herm(rho)


def build_state(spec):
    fam = spec["fam"]
    if fam == "sep":
        return sep_state(spec)
    if fam == "npt":
        return npt_state(spec)
    if fam == "ppt":
        return ppt_state(spec)
    if fam == "bound":
        return bound_state(spec)
    if fam == "hs":
        # Hilbert-Schmidt random full-rank state: no structure at all (about half of them NPT on 2x3, a few per cent with
        # two negative partial-transpose eigenvalues - the region seeded change C15-w3 needed)
        from tqv import gen as _gen

        n = spec["d"][0] * spec["d"][1]
        return herm(_gen.rand_density(spec["seed"], n, n, real=not spec["cplx"]))
    raise ValueError(fam)


def dim_argument(d, form):
    if form == "list":
        return [int(d[0]), int(d[1])]
    if form == "scalar":
        return int(d[0])
    if form == "omitted":
        return None
    raise ValueError(form)
