"""Helpers of C09 (extended nonlocal games, hedging, cloning): deterministic builders, numpy oracles,
value-preserving game transformations, harness-side certified SDP intervals.  Nothing here calls the toqito
functions under test (only ``toqito``-free numpy / cvxpy code)."""

from __future__ import annotations

import contextlib
import itertools

import numpy as np
from hypothesis import strategies as st

from tqv import gen, ref
from tqv.core import Inconclusive

# tolerances (DESIGN 1.3): toqito solves with the cvxpy default (SCS, eps 1e-4)
TOL_SDP = 2e-3  # order relations and SCS-vs-SCS equalities
TOL_EXACT = 1e-8  # numpy-vs-numpy


# ---------------------------------------------------------------------------------------------
# determinism: the see-saw draws OS entropy through numpy.random.default_rng(None)
# ---------------------------------------------------------------------------------------------
@contextlib.contextmanager
def pinned_rng(s: int):
    """np.random.seed(s) and numpy.random.default_rng(None) -> default_rng([s, k]) for the k-th unseeded call."""
    import numpy.random as npr

    orig = npr.default_rng
    state = npr.get_state()
    counter = itertools.count()

    def wrapped(seed=None, *a, **k):
        if seed is None:
            seed = [int(s) % (2**63), next(counter)]
        return orig(seed, *a, **k)

    npr.seed(int(s) % (2**32))
    npr.default_rng = wrapped
    try:
        yield
    finally:
        npr.default_rng = orig
        npr.set_state(state)


# ---------------------------------------------------------------------------------------------
# games
# ---------------------------------------------------------------------------------------------
def _rpsd(g, r, cplx, proj=False):
    """random PSD r x r operator of random rank with lambda_max drawn in [0.25, 1] (proj: a rank-one projector)."""
    rank = 1 if proj else int(g.integers(1, r + 1))
    a = g.normal(size=(r, rank))
    if cplx:
        a = a + 1j * g.normal(size=(r, rank))
    p = a @ a.conj().T
    p = (p + p.conj().T) / 2
    lam = float(np.linalg.eigvalsh(p)[-1])
    scale = float(g.uniform(0.25, 1.0))
    return p / lam * (1.0 if proj else scale)


def bb84():
    e0, e1 = np.array([[1.0], [0.0]]), np.array([[0.0], [1.0]])
    ep, em = (e0 + e1) / np.sqrt(2), (e0 - e1) / np.sqrt(2)
    pred = np.zeros((2, 2, 2, 2, 2, 2))
    pred[:, :, 0, 0, 0, 0] = e0 @ e0.T
    pred[:, :, 1, 1, 0, 0] = e1 @ e1.T
    pred[:, :, 0, 0, 1, 1] = ep @ ep.T
    pred[:, :, 1, 1, 1, 1] = em @ em.T
    return np.eye(2) / 2, pred


def chsh_ext():
    pred = np.zeros((2, 2, 2, 2, 2, 2))
    for x, y in ((0, 0), (0, 1), (1, 0)):
        pred[:, :, 0, 0, x, y] = np.array([[1, 0], [0, 0]])
        pred[:, :, 1, 1, x, y] = np.array([[0, 0], [0, 1]])
    pred[:, :, 0, 1, 1, 1] = 0.5 * np.array([[1, 1], [1, 1]])
    pred[:, :, 1, 0, 1, 1] = 0.5 * np.array([[1, -1], [-1, 1]])
    return np.full((2, 2), 0.25), pred


def mub43():
    d = 3
    e = np.eye(d)
    eta = np.exp(2j * np.pi / d)
    s3 = np.sqrt(3)
    mubs = [
        [e[:, 0], e[:, 1], e[:, 2]],
        [(e[:, 0] + e[:, 1] + e[:, 2]) / s3, (e[:, 0] + eta**2 * e[:, 1] + eta * e[:, 2]) / s3, (e[:, 0] + eta * e[:, 1] + eta**2 * e[:, 2]) / s3],
        [(e[:, 0] + e[:, 1] + eta * e[:, 2]) / s3, (e[:, 0] + eta**2 * e[:, 1] + eta**2 * e[:, 2]) / s3, (e[:, 0] + eta * e[:, 1] + e[:, 2]) / s3],
        [(e[:, 0] + e[:, 1] + eta**2 * e[:, 2]) / s3, (e[:, 0] + eta**2 * e[:, 1] + e[:, 2]) / s3, (e[:, 0] + eta * e[:, 1] + eta * e[:, 2]) / s3],
    ]
    pred = np.zeros((3, 3, 3, 3, 4, 4), dtype=complex)
    for x in range(4):
        for a in range(3):
            v = mubs[x][a].reshape(-1, 1)
            pred[:, :, a, a, x, x] = v @ v.conj().T
    return np.eye(4) / 4, pred


def nl_chsh(r):
    """The ordinary CHSH game as an extended game: V(a,b|x,y) = [a xor b == x and y] * I_r (referee system idle)."""

    def build():
        pred = np.zeros((r, r, 2, 2, 2, 2))
        for a, b, x, y in itertools.product(range(2), repeat=4):
            if (a ^ b) == (x & y):
                pred[:, :, a, b, x, y] = np.eye(r)
        return np.full((2, 2), 0.25), pred

    return build


_C8 = float(np.cos(np.pi / 8) ** 2)
NAMED = {
    # name: (builder, {value name: closed form})   npa1 = level-1 NPA value, ns = non-signalling value
    "bb84": (bb84, {"unent": _C8, "npa1": _C8, "ns": _C8}),
    "chsh": (chsh_ext, {"unent": 0.75, "npa1": 0.75, "ns": 0.75}),
    "mub": (mub43, {"unent": float((3 + np.sqrt(5)) / 8)}),
    "nlchsh1": (nl_chsh(1), {"unent": 0.75, "npa1": _C8, "ns": 1.0}),
    "nlchsh2": (nl_chsh(2), {"unent": 0.75, "npa1": _C8, "ns": 1.0}),
}


def base_game(case):
    """(prob, pred) of the un-transformed game of a case."""
    fam = case["family"]
    if fam != "random":
        prob, pred = NAMED[fam][0]()
        return prob.copy(), pred.copy()
    r, na, nb, nx, ny = case["r"], case["A"], case["B"], case["X"], case["Y"]
    g = gen.rng(case["seed"])
    prob = np.array(gen.exact_probs(case["counts"]), dtype=float).reshape(nx, ny)
    cplx = bool(case["cplx"])
    pred = np.zeros((r, r, na, nb, nx, ny), dtype=complex if cplx else float)
    zero_p = {0: 0.0, 1: 0.35, 2: 0.65}[int(case.get("zero", 0))]
    proj = case.get("kind", "psd") == "proj"
    for x in range(nx):
        for y in range(ny):
            for a in range(na):
                for b in range(nb):
                    v = _rpsd(g, r, cplx, proj)
                    if g.uniform() < zero_p:
                        continue
                    pred[:, :, a, b, x, y] = v
    par = case.get("parity")
    if par is not None:
        # XOR-like structure (two answers each): the operator of (a, b | x, y) is kept when a xor b = par[x][y] and scaled
        # by `leak` otherwise; with `common` every kept operator is one and the same W.  Games of this kind (CHSH-type
        # parities) have an unentangled value that is NOT multiplicative under parallel repetition.
        common = _rpsd(gen.rng(case["seed"] + 1), r, cplx, proj) if case.get("common") else None
        for x in range(nx):
            for y in range(ny):
                for a in range(na):
                    for b in range(nb):
                        if common is not None:
                            pred[:, :, a, b, x, y] = common
                        if (a ^ b) != int(par[x][y]):
                            pred[:, :, a, b, x, y] *= float(case.get("leak", 0.0))
    return prob, pred


def identity_tf(pred_shape):
    _, _, na, nb, nx, ny = pred_shape
    return {"pa": 0, "pb": 0, "sa": [list(range(na))] * nx, "sb": [list(range(nb))] * ny, "qx": list(range(nx)), "qy": list(range(ny)), "basis": "none", "conj": False, "swap": False, "tseed": 0}


def transform(prob, pred, tf):
    """Apply a value-preserving transformation (all four game values are invariant under every step):

    1. padding with pa / pb extra answers whose predicate operators are zero;
    2. per-question answer relabelling  V'(sa[x][a], sb[y][b] | x, y) = V(a, b | x, y);
    3. question permutations  V'(.|i, j) = V(.|qx[i], qy[j]),  pi'(i, j) = pi(qx[i], qy[j]);
    4. referee basis change  V -> U V U^dagger;
    5. entry-wise complex conjugation of every V (anti-unitary symmetry);
    6. exchange of the players  V'(b, a | y, x) = V(a, b | x, y),  pi' = pi^T (the r x r blocks are NOT transposed:
       the referee's operator is the same, only the roles of the two players are exchanged).
    """
    if tf is None:
        return prob, pred
    r, _, na, nb, nx, ny = pred.shape
    pa, pb = int(tf["pa"]), int(tf["pb"])
    dtype = complex if (np.iscomplexobj(pred) or tf["basis"] == "complex") else float
    new = np.zeros((r, r, na + pa, nb + pb, nx, ny), dtype=dtype)
    for x in range(nx):
        for y in range(ny):
            for a in range(na + pa):
                for b in range(nb + pb):
                    if a < na and b < nb:
                        new[:, :, tf["sa"][x][a], tf["sb"][y][b], x, y] = pred[:, :, a, b, x, y]
    qx, qy = list(tf["qx"]), list(tf["qy"])
    new = new[:, :, :, :, qx, :][:, :, :, :, :, qy]
    prob2 = np.asarray(prob)[qx, :][:, qy]
    if tf["basis"] != "none":
        u = gen.rand_unitary(tf["tseed"], r, real=(tf["basis"] == "real"))
        new = np.einsum("ij,jkabxy,lk->ilabxy", u, new, u.conj())
        if dtype is float:
            new = new.real
    if tf["conj"]:
        new = new.conj()
    if tf["swap"]:
        new = np.ascontiguousarray(new.transpose(0, 1, 3, 2, 5, 4))
        prob2 = prob2.T
    # exact hermitian symmetrisation of every block (the basis change leaves 1e-17 asymmetries)
    new = (new + new.conj().transpose(1, 0, 2, 3, 4, 5)) / 2
    return np.ascontiguousarray(prob2), np.ascontiguousarray(new)


def build_game(case):
    prob, pred = base_game(case)
    return transform(prob, pred, case.get("tf"))


@st.composite
def tf_strategy(draw, shape, max_pad=1, allow_swap=True, equal_pad=False, relabel=True):
    """Transformation spec for a game whose pred has ``shape``; drawn explicitly so that it shrinks to the identity.
    relabel=False: no answer padding and no answer relabelling (questions, players, referee basis only)."""
    r, _, na, nb, nx, ny = shape
    if relabel:
        pa = draw(st.integers(0, max_pad))
        pb = pa if equal_pad else draw(st.integers(0, max_pad))
        sa = [list(draw(st.permutations(list(range(na + pa))))) for _ in range(nx)]
        sb = [list(draw(st.permutations(list(range(nb + pb))))) for _ in range(ny)]
    else:
        pa = pb = 0
        sa = [list(range(na)) for _ in range(nx)]
        sb = [list(range(nb)) for _ in range(ny)]
    qx = list(draw(st.permutations(list(range(nx)))))
    qy = list(draw(st.permutations(list(range(ny)))))
    basis = draw(st.sampled_from(["none", "real", "complex"])) if r > 1 else "none"
    return {
        "pa": pa,
        "pb": pb,
        "sa": sa,
        "sb": sb,
        "qx": qx,
        "qy": qy,
        "basis": basis,
        "conj": draw(st.booleans()),
        "swap": draw(st.booleans()) if allow_swap else False,
        "tseed": draw(gen.SEED),
    }


def tf_is_identity(tf):
    if tf is None:
        return True
    return (
        tf["pa"] == 0
        and tf["pb"] == 0
        and all(list(s) == sorted(s) for s in tf["sa"])
        and all(list(s) == sorted(s) for s in tf["sb"])
        and list(tf["qx"]) == sorted(tf["qx"])
        and list(tf["qy"]) == sorted(tf["qy"])
        and tf["basis"] == "none"
        and not tf["conj"]
        and not tf["swap"]
    )


def tf_breaks_answer_symmetry(tf):
    """True when some answer alphabet is relabelled per question or padded (the transformed named game is no longer
    won by constant equal answers and in general no longer symmetric under exchanging the players)."""
    if tf is None:
        return False
    return tf["pa"] != tf["pb"] or any(list(s) != sorted(s) for s in tf["sa"]) or any(list(s) != sorted(s) for s in tf["sb"])


# ---------------------------------------------------------------------------------------------
# oracles for games
# ---------------------------------------------------------------------------------------------
def brute_unentangled(prob, pred):
    """max over deterministic answer functions f, g of lambda_max(sum_xy pi(x,y) V(f(x), g(y)|x,y)).

    Returns (value, best constant-answer value, (f, g))."""
    r, _, na, nb, nx, ny = pred.shape
    w = pred * np.asarray(prob)[None, None, None, None, :, :]
    best, arg = -np.inf, None
    const = -np.inf
    for f in itertools.product(range(na), repeat=nx):
        # partial sums over x for every (b, y)
        part = np.zeros((r, r, nb, ny), dtype=complex)
        for x in range(nx):
            part += w[:, :, f[x], :, x, :]
        for g in itertools.product(range(nb), repeat=ny):
            m = np.zeros((r, r), dtype=complex)
            for y in range(ny):
                m += part[:, :, g[y], y]
            v = float(np.linalg.eigvalsh((m + m.conj().T) / 2)[-1])
            if v > best:
                best, arg = v, (f, g)
            if len(set(f)) == 1 and len(set(g)) == 1 and v > const:
                const = v
    return best, const, arg


def product_game(prob, pred, reps=2):
    """Independent construction of the reps-fold parallel repetition (kron over every index pair)."""
    p, v = prob, pred
    for _ in range(reps - 1):
        p = np.kron(p, prob)
        r1, _, a1, b1, x1, y1 = v.shape
        r2, _, a2, b2, x2, y2 = pred.shape
        v = np.einsum("ijabxy,klcdzw->ikjlacbdxzyw", v, pred).reshape(r1 * r2, r1 * r2, a1 * a2, b1 * b2, x1 * x2, y1 * y2)
    return p, v


def ns_value_r1(prob, pred):
    """Exact non-signalling value of an r = 1 game by linear programming (GLPK simplex)."""
    _, _, na, nb, nx, ny = pred.shape
    n = na * nb * nx * ny

    def idx(a, b, x, y):
        return ((a * nb + b) * nx + x) * ny + y

    c = np.zeros(n)
    for a, b, x, y in itertools.product(range(na), range(nb), range(nx), range(ny)):
        c[idx(a, b, x, y)] = -prob[x, y] * float(np.real(pred[0, 0, a, b, x, y]))
    rows, rhs = [], []
    for x, y in itertools.product(range(nx), range(ny)):
        row = np.zeros(n)
        for a, b in itertools.product(range(na), range(nb)):
            row[idx(a, b, x, y)] = 1
        rows.append(row)
        rhs.append(1.0)
    for a, x in itertools.product(range(na), range(nx)):
        for y in range(1, ny):
            row = np.zeros(n)
            for b in range(nb):
                row[idx(a, b, x, y)] += 1
                row[idx(a, b, x, 0)] -= 1
            rows.append(row)
            rhs.append(0.0)
    for b, y in itertools.product(range(nb), range(ny)):
        for x in range(1, nx):
            row = np.zeros(n)
            for a in range(na):
                row[idx(a, b, x, y)] += 1
                row[idx(a, b, 0, y)] -= 1
            rows.append(row)
            rhs.append(0.0)
    # GLPK (exact simplex, single-threaded).  scipy's HiGHS is avoided on purpose: it starts a thread pool in the calling
    # process, which deadlocks forked shard processes if the parent has used it (replay tier).
    import cvxpy

    p = cvxpy.Variable(n, nonneg=True)
    problem = cvxpy.Problem(cvxpy.Minimize(c @ p), [np.array(rows) @ p == np.array(rhs)])
    try:
        problem.solve(solver=cvxpy.GLPK)
    except Exception as e:  # noqa: BLE001
        raise Inconclusive("oracle_lp_failed") from e
    if problem.status != "optimal":
        raise Inconclusive("oracle_lp_failed")
    return -float(problem.value)


def _solve(problem, strict=False):
    """Solve with CLARABEL.  strict (used where the optimum is not re-certified in numpy): a CLARABEL result that is only
    'optimal_inaccurate' must be confirmed to 1e-5 by SCS run to eps 1e-9, otherwise the case is inconclusive."""
    import cvxpy

    first = None
    try:
        problem.solve(solver=cvxpy.CLARABEL, max_threads=1)  # single thread: no rayon pool, fork-safe
        if problem.status == "optimal" or (problem.status == "optimal_inaccurate" and not strict):
            return float(problem.value)
        if problem.status == "optimal_inaccurate":
            first = float(problem.value)
        elif problem.status not in ("optimal", "optimal_inaccurate"):
            raise Inconclusive(f"oracle_status_{problem.status}")
    except Inconclusive:
        raise
    except Exception:  # noqa: BLE001
        pass
    try:
        problem.solve(solver=cvxpy.SCS, eps=1e-9, max_iters=200000)
    except Exception as e:  # noqa: BLE001
        raise Inconclusive("oracle_solver_failed") from e
    if problem.status != "optimal" and not (problem.status == "optimal_inaccurate" and not strict):
        raise Inconclusive(f"oracle_status_{problem.status}")
    if first is not None and abs(first - float(problem.value)) > 1e-5:
        raise Inconclusive("oracle_imprecise")
    return float(problem.value)


def ns_value_sdp(prob, pred):
    """Harness-side non-signalling value (the docstring's definition, written independently; CLARABEL)."""
    import cvxpy

    r, _, na, nb, nx, ny = pred.shape
    k = {}
    cons = []
    for a, b, x, y in itertools.product(range(na), range(nb), range(nx), range(ny)):
        k[a, b, x, y] = cvxpy.Variable((r, r), hermitian=True)
        cons.append(k[a, b, x, y] >> 0)
    tau = cvxpy.Variable((r, r), hermitian=True)
    cons += [cvxpy.real(cvxpy.trace(tau)) == 1]
    # Alice's marginal operators do not depend on y, Bob's not on x, both sum to tau
    for x in range(nx):
        for a in range(na):
            m0 = sum(k[a, b, x, 0] for b in range(nb))
            for y in range(1, ny):
                cons.append(sum(k[a, b, x, y] for b in range(nb)) == m0)
    for y in range(ny):
        for b in range(nb):
            m0 = sum(k[a, b, 0, y] for a in range(na))
            for x in range(1, nx):
                cons.append(sum(k[a, b, x, y] for a in range(na)) == m0)
    for x in range(nx):
        for y in range(ny):
            cons.append(sum(k[a, b, x, y] for a in range(na) for b in range(nb)) == tau)
    obj = 0
    for a, b, x, y in itertools.product(range(na), range(nb), range(nx), range(ny)):
        if prob[x, y] != 0 and np.any(pred[:, :, a, b, x, y] != 0):
            obj += float(prob[x, y]) * cvxpy.real(cvxpy.trace(np.asarray(pred[:, :, a, b, x, y]).conj().T @ k[a, b, x, y]))
    if isinstance(obj, int):
        return 0.0
    return _solve(cvxpy.Problem(cvxpy.Maximize(obj), cons), strict=True)


# ---------------------------------------------------------------------------------------------
# certified interval for  max <Q, X>  s.t.  Tr_{not keep}(X) = I_keep,  X >= 0   (hedging and cloning share it)
# ---------------------------------------------------------------------------------------------
def _herm(m):
    m = np.asarray(m, dtype=complex)
    return (m + m.conj().T) / 2


def _embed_perm(n, keep):
    """axes order putting the non-kept systems first and the kept systems last"""
    rest = [i for i in range(n) if i not in keep]
    return rest + list(keep)


def embed_keep(y, n, keep, d=2):
    """I_rest (x) Y  moved so that Y acts on the systems ``keep`` (n systems of dimension d)."""
    order = _embed_perm(n, keep)
    nk = len(keep)
    big = np.kron(np.eye(d ** (n - nk)), y)  # systems ordered as `order`
    # big is written in the order `order`; bring system order[i] (position i) to position order[i]
    inv = ref.inverse_perm(order)
    return ref.permute(big, inv, [d] * n, [d] * n)


def ptrace_keep(x, n, keep, d=2):
    sys = [i for i in range(n) if i not in keep]
    return ref.partial_trace(x, sys, [d] * n)


def sdp_interval(q, n, keep, d=2):
    """Certified [lb, ub] containing  max{ <Q, X> : Tr_rest X = I_keep, X >= 0 }.

    lb: the solver's X is projected to exact feasibility (PSD part, then X <- (I (x) T^-1/2) X (I (x) T^-1/2) with
    T = Tr_rest X) and re-evaluated in numpy.  ub: the solver's dual Y is shifted by the smallest multiple of the
    identity that makes  I (x) Y - Q  PSD in numpy; Tr of the shifted Y is a proven upper bound."""
    import cvxpy

    q = _herm(q)
    dim = d**n
    nk = len(keep)
    dk = d**nk
    order = _embed_perm(n, keep)
    # work in the order (rest, keep):  Q' = P Q P^T
    qp = ref.permute(q, order, [d] * n, [d] * n)
    dr = dim // dk
    x = cvxpy.Variable((dim, dim), hermitian=True)
    blocks = [x[i * dk : (i + 1) * dk, i * dk : (i + 1) * dk] for i in range(dr)]
    prim = cvxpy.Problem(cvxpy.Maximize(cvxpy.real(cvxpy.trace(qp @ x))), [sum(blocks) == np.eye(dk), x >> 0])
    _solve(prim)
    xv = _herm(x.value)
    w, v = np.linalg.eigh(xv)
    xv = (v * np.clip(w, 0, None)) @ v.conj().T
    t = sum(xv[i * dk : (i + 1) * dk, i * dk : (i + 1) * dk] for i in range(dr))
    wt, vt = np.linalg.eigh(_herm(t))
    if wt[0] < 1e-6:
        raise Inconclusive("oracle_projection_singular")
    tis = (vt / np.sqrt(wt)) @ vt.conj().T
    s = np.kron(np.eye(dr), tis)
    xf = _herm(s @ xv @ s)
    lb = float(np.real(np.trace(qp @ xf)))
    y = cvxpy.Variable((dk, dk), hermitian=True)
    dual = cvxpy.Problem(cvxpy.Minimize(cvxpy.real(cvxpy.trace(y))), [cvxpy.kron(np.eye(dr), y) - qp >> 0])
    _solve(dual)
    yv = _herm(y.value)
    slack = float(np.linalg.eigvalsh(_herm(np.kron(np.eye(dr), yv) - qp))[0])
    shift = max(0.0, -slack)
    ub = float(np.real(np.trace(yv))) + shift * dk
    if ub < lb - 1e-7 or ub - lb > 1e-4 * max(1.0, abs(ub)):
        raise Inconclusive("oracle_interval_wide")
    return lb, ub


def hedging_q(alpha, theta):
    """The documented Molina-Watrous family: (Q_0, Q_1) for parameters alpha, theta (quantum_hedging.py docstring)."""
    e = np.eye(4)
    e00, e01, e10, e11 = (e[:, [i]] for i in range(4))
    s = np.sqrt(1 - alpha**2)
    w = alpha * np.cos(theta) * e00 + s * np.sin(theta) * e11
    l1 = -alpha * np.sin(theta) * e00 + s * np.cos(theta) * e11
    l2 = alpha * np.sin(theta) * e10
    l3 = s * np.cos(theta) * e01
    q1 = w @ w.T
    q0 = l1 @ l1.T + l2 @ l2.T + l3 @ l3.T
    return q0, q1


def clone_q(states, probs):
    """Q = sum_k p_k |psi psi conj(psi)><psi psi conj(psi)|  on Y (x) Z (x) X."""
    dim = 8
    q = np.zeros((dim, dim), dtype=complex)
    for p, s in zip(probs, states):
        s = np.asarray(s, dtype=complex).reshape(-1)
        v = np.kron(np.kron(s, s), s.conj()).reshape(-1, 1)
        q += p * (v @ v.conj().T)
    return q
