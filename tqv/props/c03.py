"""C03 — partial transpose and realignment exchange exactly the stated indices.

Functions under test: toqito.channels.partial_transpose (numeric and cvxpy-Variable path), toqito.channels.realignment.
Oracles: axis-swap index models on the (row dims ++ column dims) tensor (tqv.ref.partial_transpose / realignment,
row-major numpy, written from the property statement), involution, full S == ordinary transpose,
PT_S(X)^T == PT_{S^c}(X), closed form on product operators, R(A (x) B) == vec_r(A) vec_r(B)^T and its linear extension,
Frobenius norm, explicit vs short dimension forms, value of the returned cvxpy expression.
"""

from __future__ import annotations

import numpy as np
from hypothesis import strategies as st

from tqv import gen, ref
from tqv.core import SubCheck, req
from tqv.props.c02 import FLAVOURS, _ordered_subset, check_expression, make_variable, var_value

# caller-owned arrays handed to the library must come back unchanged (see tqv/purity.py)
from tqv.purity import install as _install_purity  # noqa: E402

_install_purity('toqito.channels')

PROPERTY = "C03"
RULE = (
    "Partial transpose: Hypothesis draws square cases (n in 1..5 subsystems, local dims 1..4/8, size <= 64) or rectangular "
    "cases (n in 2..4, independent row and column local dims >= 2, both totals <= 64), S = non-empty prefix of a drawn "
    "permutation passed as list / ndarray / bare int / omitted (S=[1]), dims passed as list, ndarray, [[rows],[cols]] "
    "(list or ndarray), one-element list (scalar form) or omitted; entries labelled r*C+c, small integers or PRNG seed, "
    "dtypes int64/float64/complex128.  Realignment: local dims a,b (rows) and c,d (columns) in 2..5, dim forms "
    "[[a,b],[c,d]] (list/ndarray), [a,b] (list/ndarray), scalar a; omitted dims are enumerated for every pair of "
    "perfect-square row/column counts 4..49.  A partial-transpose case is non-trivial when it is rectangular with row dims != "
    "column dims and |S| < n, or has n >= 3 with non-uniform dims, or the input is a Variable; a realignment case when "
    "(a,c) != (b,d); an omitted-dims realignment case always.  distinct = distinct SHA-1 of the canonical case JSON among "
    "non-trivial cases."
)
ASSUMPTIONS = [
    "numpy reshape/transpose (row-major) is trusted as the index model",
    "sys is 0-indexed, non-empty and duplicate-free; given as list of Python ints, integer ndarray or Python int (an empty *list* raises IndexError in the library: degenerate form, recorded only)",
    "rectangular inputs have every local row and column dimension >= 2 and at least two subsystems (a side of length 1 means 'vector' to permute_systems)",
    "a single subsystem is only expressible as the 1-D one-element dim [N] (== scalar form [N, 1]); [[r],[c]] with one column is read as a flat two-subsystem list by the library",
    "a fresh dim object is passed to every call: partial_transpose overwrites a caller-supplied 2-row ndarray dim in place (observed, outside the property text)",
    "realignment is defined for ndarray input only (no cvxpy branch exists or is documented); cvxpy equality is asserted for partial_transpose",
    "hermitian / symmetric Variables are square by construction, so rectangular cvxpy cases use the real and complex flavours",
    "realignment scalar dim a means [[a, R/a],[a, R/a]] and is generated only when row and column local dims agree",
    "omitted dims mean two subsystems of equal dimension on the row side and on the column side separately (docstrings of both functions: 'rows and columns both perfect squares')",
    "index shuffles are compared exactly for every dtype; product / linear-extension / norm laws up to 1e-9*scale",
]


# ------------------------------------------------------------------------------------------
# helpers
# ------------------------------------------------------------------------------------------
def _same(out, exp, what, sig="value"):
    req(isinstance(out, np.ndarray), f"{what}: returned {type(out).__name__}, not an ndarray", "type")
    req(out.shape == exp.shape, f"{what}: shape {out.shape} != expected {exp.shape}", "shape")
    req(np.array_equal(out, exp), f"{what}: entries differ (max abs diff {np.max(np.abs(out - exp))})", sig)


def _close(out, exp, what, sig, scale):
    req(isinstance(out, np.ndarray), f"{what}: returned {type(out).__name__}, not an ndarray", "type")
    req(out.shape == exp.shape, f"{what}: shape {out.shape} != expected {exp.shape}", "shape")
    req(np.allclose(out, exp, rtol=0, atol=1e-9 * scale), f"{what}: entries differ (max abs diff {np.max(np.abs(out - exp))})", sig)


def _dtype_same(out, x):
    req(out.dtype == x.dtype, f"dtype {x.dtype} became {out.dtype}", "dtype")


@st.composite
def _pt_dims(draw, nmax_sq=5, nmax_rect=4, budget=64):
    """-> (kind, dr, dc)"""
    kind = draw(st.sampled_from(["square", "rect"]))
    if kind == "square":
        n = draw(st.integers(1, nmax_sq))
        hi = draw(st.sampled_from([3, 4, 8]))
        dr = draw(gen.dims(n=n, lo=1, hi=hi, budget=budget))
        return kind, dr, list(dr)
    n = draw(st.integers(2, nmax_rect))
    hi = draw(st.sampled_from([3, 4, 6]))
    dr = draw(gen.dims(n=n, lo=2, hi=hi, budget=budget))
    dc = draw(gen.dims(n=n, lo=2, hi=hi, budget=budget))
    return kind, dr, dc


def _dimforms(dr, dc):
    n = len(dr)
    if n == 1:
        return ["list", "array"]
    if dr == dc:
        forms = ["list", "array", "rc", "rc_arr"]
        if n == 2:
            forms.append("one_elem")
    else:
        forms = ["rc", "rc_arr", "rc", "rc_arr"]
    if n == 2 and dr[0] == dr[1] and dc[0] == dc[1]:
        forms.append("omitted")
    return forms


def _sysforms(S, n):
    forms = ["list", "array"]
    if len(S) == 1:
        forms.append("int")
    if list(S) == [1] and n >= 2:
        forms.append("omitted")
    return forms


def _dim_arg(dr, dc, form):
    """A *fresh* dim argument (the library may write into a 2-row ndarray)."""
    if form == "list":
        return [int(k) for k in dr]
    if form == "array":
        return np.array([int(k) for k in dr])
    if form == "rc":
        return [[int(k) for k in dr], [int(k) for k in dc]]
    if form == "rc_arr":
        return np.array([[int(k) for k in dr], [int(k) for k in dc]])
    if form == "one_elem":
        return [int(dr[0])]
    return None


def _sys_arg(S, form):
    if form == "int":
        return int(S[0])
    if form == "array":
        return np.array([int(s) for s in S])
    if form == "omitted":
        return None
    return [int(s) for s in S]


def _call_pt(x, S, sysform, dr, dc, dimform):
    from toqito.channels import partial_transpose

    s = _sys_arg(S, sysform)
    d = _dim_arg(dr, dc, dimform)
    if s is None and d is None:
        return partial_transpose(x)
    if s is None:
        return partial_transpose(x, dim=d)
    if d is None:
        return partial_transpose(x, s)
    return partial_transpose(x, s, d)


def _nt_pt(dr, dc, S, prefix=""):
    n = len(dr)
    if dr != dc and len(S) < n:
        return prefix + "rect,dr!=dc,|S|<n" + (",n>=3" if n >= 3 else "")
    if n >= 3 and (len(set(dr)) > 1 or len(set(dc)) > 1):
        return prefix + "n>=3,nonuniform"
    return None


# ------------------------------------------------------------------------------------------
# 1. partial transpose: index model, output shape, dtype
# ------------------------------------------------------------------------------------------
@st.composite
def _pt_case(draw, nmax_sq=5, nmax_rect=4, budget=64, shuffle=False):
    kind, dr, dc = draw(_pt_dims(nmax_sq=nmax_sq, nmax_rect=nmax_rect, budget=budget))
    n = len(dr)
    if shuffle:
        # the size budget pushes the non-trivial factors to the front; put them at drawn positions
        order = list(draw(st.permutations(list(range(n)))))
        dr, dc = [dr[i] for i in order], [dc[i] for i in order]
    S, _ = draw(_ordered_subset(n))
    return {
        "kind": kind,
        "dr": dr,
        "dc": dc,
        "S": S,
        "sysform": draw(st.sampled_from(_sysforms(S, n))),
        "dimform": draw(st.sampled_from(_dimforms(dr, dc))),
        "x": draw(gen.matrix_spec(gen.prod(dr), gen.prod(dc))),
    }


def check_pt_index(case):
    dr, dc, S = case["dr"], case["dc"], case["S"]
    x = gen.build_matrix(case["x"])
    exp = ref.partial_transpose(x, S, dr, dc)
    out = _call_pt(x, S, case["sysform"], dr, dc, case["dimform"])
    _same(out, exp, f"partial_transpose(S={S} as {case['sysform']}, dims {dr}/{dc} as {case['dimform']})")
    _dtype_same(out, x)


def nt_pt(case):
    return _nt_pt(case["dr"], case["dc"], case["S"])


# ------------------------------------------------------------------------------------------
# 2. involution, full transpose, complement
# ------------------------------------------------------------------------------------------
@st.composite
def _pt_law_case(draw):
    kind, dr, dc = draw(_pt_dims())
    n = len(dr)
    S, _ = draw(_ordered_subset(n))
    return {"kind": kind, "dr": dr, "dc": dc, "S": S, "x": draw(gen.matrix_spec(gen.prod(dr), gen.prod(dc))), "arr": draw(st.booleans())}


def check_pt_laws(case):
    dr, dc = case["dr"], case["dc"]
    S = [int(s) for s in case["S"]]
    n = len(dr)
    x = gen.build_matrix(case["x"])
    sf = "array" if case["arr"] else "list"

    def form(rows, cols, flip):
        if n == 1:
            return "list"
        arr = case["arr"] != flip
        if rows == cols:
            return ("array" if arr else "list") if not flip else ("rc" if arr else "rc_arr")
        return "rc_arr" if arr else "rc"

    df = form(dr, dc, False)
    y = _call_pt(x, S, sf, dr, dc, df)
    # involution: the second call sees the exchanged local dims on S
    dr2 = [dc[i] if i in S else dr[i] for i in range(n)]
    dc2 = [dr[i] if i in S else dc[i] for i in range(n)]
    req(y.shape == (gen.prod(dr2), gen.prod(dc2)), f"PT_S output shape {y.shape} != {(gen.prod(dr2), gen.prod(dc2))}", "shape")
    back = _call_pt(y, S[::-1], sf, dr2, dc2, form(dr2, dc2, True))
    _same(back, x, f"PT_S(PT_S(X)) with S={S}, dims {dr}/{dc}", "involution")
    # full S is the ordinary transpose
    full = _call_pt(x, list(range(n)), sf, dr, dc, df)
    _same(full, x.T, f"PT over all subsystems, dims {dr}/{dc}", "full-transpose")
    # complement
    comp = [i for i in range(n) if i not in S]
    if comp:
        z = _call_pt(x, comp, sf, dr, dc, form(dr, dc, True))
        _same(y.T, z, f"PT_S(X)^T vs PT_(S^c)(X), S={S}, dims {dr}/{dc}", "complement")


def nt_pt_laws(case):
    return _nt_pt(case["dr"], case["dc"], case["S"], "law:")


# ------------------------------------------------------------------------------------------
# 3. product operators
# ------------------------------------------------------------------------------------------
@st.composite
def _pt_prod_case(draw):
    kind, dr, dc = draw(_pt_dims(nmax_sq=4))
    n = len(dr)
    S, _ = draw(_ordered_subset(n))
    return {
        "kind": kind,
        "dr": dr,
        "dc": dc,
        "S": S,
        "seeds": [draw(gen.SEED) for _ in range(n)],
        "cplx": draw(st.booleans()),
        "sysform": draw(st.sampled_from(_sysforms(S, n))),
    }


def check_pt_product(case):
    dr, dc, S = case["dr"], case["dc"], [int(s) for s in case["S"]]
    n = len(dr)
    fac = [gen.rand_matrix(s, r, c, case["cplx"]) for s, r, c in zip(case["seeds"], dr, dc)]
    x = ref.kron_all(fac)
    exp = ref.kron_all([fac[i].T if i in S else fac[i] for i in range(n)])
    df = "list" if dr == dc else "rc"
    out = _call_pt(x, S, case["sysform"], dr, dc, df)
    _close(out, exp, f"PT_{S} of a product operator, dims {dr}/{dc}", "product", max(1.0, float(np.max(np.abs(x)))))


def nt_pt_prod(case):
    return _nt_pt(case["dr"], case["dc"], case["S"], "prod:")


# ------------------------------------------------------------------------------------------
# 4. cvxpy Variables
# ------------------------------------------------------------------------------------------
@st.composite
def _pt_cvx_case(draw):
    kind, dr, dc = draw(_pt_dims(nmax_sq=4, nmax_rect=3, budget=16))
    n = len(dr)
    R, C = gen.prod(dr), gen.prod(dc)
    S, _ = draw(_ordered_subset(n))
    flavours = FLAVOURS if R == C else ("real", "complex")
    return {
        "kind": kind,
        "dr": dr,
        "dc": dc,
        "S": S,
        "flavour": draw(st.sampled_from(flavours)),
        "sysform": draw(st.sampled_from(_sysforms(S, n))),
        "dimform": draw(st.sampled_from(_dimforms(dr, dc))),
        "seed": draw(gen.SEED),
        "seed2": draw(gen.SEED),
    }


def check_pt_cvxpy(case):
    dr, dc, S, fl = case["dr"], case["dc"], case["S"], case["flavour"]
    R, C = gen.prod(dr), gen.prod(dc)
    X = make_variable(R, C, fl)
    v1 = var_value(case["seed"], R, C, fl)
    X.value = v1
    expr = _call_pt(X, S, case["sysform"], dr, dc, case["dimform"])
    what = f"partial_transpose(Variable[{fl}] {R}x{C}, S={S} as {case['sysform']}, dims {dr}/{dc} as {case['dimform']})"
    check_expression(expr, X, ref.partial_transpose(v1, S, dr, dc), what)
    num = _call_pt(v1, S, case["sysform"], dr, dc, case["dimform"])
    val = np.asarray(expr.value)
    req(val.shape == num.shape and np.allclose(val, num, rtol=0, atol=1e-9), f"{what}: value differs from the ndarray call", "cvx:value-vs-ndarray")
    v2 = var_value(case["seed2"], R, C, fl)
    X.value = v2
    check_expression(expr, X, ref.partial_transpose(v2, S, dr, dc), what + " after re-assigning the value")


def nt_pt_cvx(case):
    return "variable:" + case["flavour"] + (",rect" if case["dr"] != case["dc"] else "")


# ------------------------------------------------------------------------------------------
# 5. realignment: index model, shape, dtype, dim forms
# ------------------------------------------------------------------------------------------
_LOC = st.integers(2, 5)


@st.composite
def _re_dims(draw):
    a, b = draw(_LOC), draw(_LOC)
    if draw(st.booleans()):
        return a, b, a, b
    return a, b, draw(_LOC), draw(_LOC)


def _re_forms(a, b, c, d):
    forms = ["rc", "rc_arr"]
    if (a, b) == (c, d):
        forms += ["flat", "flat_arr", "scalar"]
    return forms


def _re_dim_arg(a, b, c, d, form):
    if form == "rc":
        return [[a, b], [c, d]]
    if form == "rc_arr":
        return np.array([[a, b], [c, d]])
    if form == "flat":
        return [a, b]
    if form == "flat_arr":
        return np.array([a, b])
    if form == "scalar":
        return int(a)
    return None


@st.composite
def _re_case(draw):
    a, b, c, d = draw(_re_dims())
    return {"abcd": [a, b, c, d], "dimform": draw(st.sampled_from(_re_forms(a, b, c, d))), "x": draw(gen.matrix_spec(a * b, c * d))}


def check_re_index(case):
    from toqito.channels import realignment

    a, b, c, d = case["abcd"]
    x = gen.build_matrix(case["x"])
    exp = ref.realignment(x, [a, b], [c, d])
    out = realignment(x, _re_dim_arg(a, b, c, d, case["dimform"]))
    _same(out, exp, f"realignment(rows {a}x{b}, cols {c}x{d}, dim as {case['dimform']})")
    _dtype_same(out, x)


def nt_re(case):
    a, b, c, d = case["abcd"]
    return "realign:(a,c)!=(b,d)" if (a, c) != (b, d) else None


# ------------------------------------------------------------------------------------------
# 6. realignment: R(A (x) B) = vec_r(A) vec_r(B)^T, linear extension, Frobenius norm
# ------------------------------------------------------------------------------------------
@st.composite
def _re_prod_case(draw):
    a, b, c, d = draw(_re_dims())
    terms = draw(st.integers(1, 3))
    return {
        "abcd": [a, b, c, d],
        "dimform": draw(st.sampled_from(_re_forms(a, b, c, d))),
        "seeds": [[draw(gen.SEED), draw(gen.SEED)] for _ in range(terms)],
        "cplx": draw(st.booleans()),
    }


def check_re_product(case):
    from toqito.channels import realignment

    a, b, c, d = case["abcd"]
    x = 0
    exp = 0
    for sa, sb in case["seeds"]:
        A = gen.rand_matrix(sa, a, c, case["cplx"])
        B = gen.rand_matrix(sb, b, d, case["cplx"])
        x = x + np.kron(A, B)
        exp = exp + np.outer(ref.vec_r(A), ref.vec_r(B))
    out = realignment(x, _re_dim_arg(a, b, c, d, case["dimform"]))
    sc = max(1.0, float(np.max(np.abs(x))))
    k = len(case["seeds"])
    _close(out, exp, f"R(sum of {k} products), rows {a}x{b}, cols {c}x{d}", "product" if k == 1 else "linear-extension", sc)
    n0, n1 = np.linalg.norm(x), np.linalg.norm(out)
    req(abs(n0 - n1) <= 1e-9 * max(1.0, n0), f"Frobenius norm {n0} became {n1}", "frobenius")


# ------------------------------------------------------------------------------------------
# 7. realignment with omitted dims: rows and columns perfect squares, equal local dims on each side (enumerated)
# ------------------------------------------------------------------------------------------
def _re_omitted_cases(tier):
    out = []
    for r in range(2, 8):
        for c in range(2, 8):
            for dt in ("int", "float", "complex"):
                out.append({"r": r, "c": c, "dtype": dt})
    return out


def check_re_omitted(case):
    from toqito.channels import realignment

    r, c = case["r"], case["c"]
    x = gen.build_matrix({"src": "label", "dtype": case["dtype"], "rows": r * r, "cols": c * c})
    exp = ref.realignment(x, [r, r], [c, c])
    try:
        out = realignment(x)
    except ValueError as e:
        if r != c and "InvalidDim" in str(e):
            req(False, f"realignment(X[{r * r}x{c * c}]) with omitted dims raised {e}", "realign-omitted-rect:InvalidDim")
        raise
    _same(out, exp, f"realignment(X[{r * r}x{c * c}]) with omitted dims", "realign-omitted")
    _dtype_same(out, x)


def nt_re_omitted(case):
    return "realign-omitted:" + ("square" if case["r"] == case["c"] else "rect")


SUBCHECKS = [
    SubCheck("pt_index", check_pt_index, _pt_case, nt_pt, quick=24000, thorough=400000, fuzz=20000),
    # larger systems (up to 9 / 7 subsystems, totals up to 512): the property is not bounded in size
    SubCheck("pt_index_large", check_pt_index, lambda: _pt_case(nmax_sq=12, nmax_rect=8, budget=256, shuffle=True), nt_pt, quick=900, thorough=18000),
    SubCheck("pt_laws", check_pt_laws, _pt_law_case, nt_pt_laws, quick=6000, thorough=100000),
    SubCheck("pt_product", check_pt_product, _pt_prod_case, nt_pt_prod, quick=6000, thorough=100000),
    SubCheck("pt_cvxpy", check_pt_cvxpy, _pt_cvx_case, nt_pt_cvx, quick=4000, thorough=70000),
    SubCheck("realign_index", check_re_index, _re_case, nt_re, quick=8000, thorough=140000, fuzz=10000),
    SubCheck("realign_product", check_re_product, _re_prod_case, nt_re, quick=5000, thorough=90000),
    SubCheck("realign_omitted_enum", check_re_omitted, None, nt_re_omitted, cases=_re_omitted_cases, exhaustive=True),
]
