"""C15 — PPT and separability verdicts are sound.

Functions under test: is_ppt, is_npt, is_separable, in_separable_ball, has_symmetric_extension.
Oracles: plain-numpy partial transpose + eigvalsh (PPT definition, by margin); separability by construction
(convex mixtures of product states); entanglement by the Peres criterion with margin 1e-3; Horodecki's theorem for
d1*d2 <= 6; local-unitary / party-exchange metamorphic relation; Gurvits-Barnum radius computed from the spectrum.
Every verdict of is_separable / has_symmetric_extension is attributed to the `return` statement (source text) that
produced it; wrong verdicts carry that text in their signature.
"""

from __future__ import annotations

import contextlib
import signal

import numpy as np
from hypothesis import strategies as st

from tqv import gen, ref
from tqv.core import HarnessError, Inconclusive, SubCheck, Violation, canon, classify_exception, req
from tqv.props import _c15_helpers as H

# caller-owned arrays handed to the library must come back unchanged (see tqv/purity.py)
from tqv.purity import install as _install_purity  # noqa: E402

_install_purity('toqito.state_props')

PROPERTY = "C15"
RULE = (
    "Cases are drawn by Hypothesis as structure + a 63-bit seed: local dimensions, state family (sep = convex mixture "
    "of 1..20 product states with pure / mixed / basis-aligned local factors, Dirichlet or equal weights, real or "
    "complex, optionally mixed with eps*I to full rank; npt = entangled core (random Schmidt coefficients >= 0.1, "
    "maximally entangled, antisymmetric Werner) mixed with identity or separable noise by bisection until "
    "lambda_min(PT) = -m, m >= 1.5e-3; ppt = random density matrix of drawn rank mixed with I until lambda_min(PT) "
    ">= m; bound = tiles / Horodecki 3x3 PPT-entangled states with white noise), the dim-argument form (list / "
    "scalar / omitted), tolerance and target eigenvalue relative to it (is_ppt), local unitaries and party exchange "
    "(invariance), radius factor and input form (separable ball), level and ppt flag (symmetric extension).  "
    "is_separable / has_symmetric_extension calls are traced and the case is labelled with the return statement "
    "that produced the verdict (or the raising source line).  A case is non-trivial when: is_separable sub-checks: "
    "d1*d2 > 6 and the verdict came from a return site beyond the PPT test (or an exception was raised beyond it); "
    "ppt_definition: unequal or three local dimensions, or a tolerance was passed and the target eigenvalue sits "
    "within a factor 10..1000 of it; separable_ball: radius factor within [0.9, 1.1]; symmetric extension: level 2. "
    "distinct = distinct SHA-1 of the canonical case JSON among non-trivial cases."
)
ASSUMPTIONS = [
    "density matrices are exactly Hermitian ((M+M^dagger)/2) with unit trace; has_symmetric_extension is only given unit-trace input",
    "predicates are asserted by margin only: lambda_min(PT) >= -1e-12 counts as PPT, <= -1e-3 as NPT; is_ppt with tolerance tol is asserted when lambda_min >= -tol/10 or <= -10*tol",
    "PPT-entangled states (tiles, Horodecki) and random PPT states above 6 dimensions are never asserted separable or entangled; only the invariance of their verdict under local unitaries / party exchange is asserted (a changed verdict means one of two equivalent states got a wrong answer)",
    "wrong verdicts are keyed by the source text of the return statement that produced them plus a domain tag (d<=6 / d>6; ppt-shortcut / closed-form / sdp domain); exceptions raised where d1*d2 <= 6 or in the ppt-shortcut domain get the tag as a prefix, so that the open findings about larger dimensions cannot absorb them",
    "dim omitted is used only for equal local dimensions; the scalar form d means [d, N/d]",
    "in_separable_ball is given a Hermitian PSD matrix or a 1-D vector of eigenvalues; (n,1) / (1,n) 2-D vectors are not generated (np.diag of a 2-D column extracts one entry and the call raises)",
    "has_symmetric_extension level 2 is generated for 2x2, 2x3, 3x2, 3x3, 2x4, 4x2 only (3x4 and 4x4 need one SDP of 20-40 s CPU each)",
    "numpy reshape/transpose is trusted as the partial-transpose index model and eigvalsh as the spectrum oracle",
    "timeouts (60 s per case) and solver failures are inconclusive",
]

CASE_TIMEOUT = 60.0
SQRT_EPS = float(np.sqrt(np.finfo(float).eps))


def _event(text):
    try:
        import hypothesis

        hypothesis.event(text)
    except Exception:  # noqa: BLE001  (outside a Hypothesis test: replay mode)
        pass


# ------------------------------------------------------------------------------------------
# observe once, label and judge: the traced call runs inside nontrivial() (which the runner calls first) and its
# result is handed to check() through a one-slot memo, so that the evidence can list cases per return site.
# ------------------------------------------------------------------------------------------
class _Expired(BaseException):
    pass


@contextlib.contextmanager
def _limit(seconds):
    """Per-case time limit for everything that may enter an SDP solver.  Unlike a one-shot alarm the timer repeats
    every 5 s: an exception raised by the handler inside a callback whose errors Python ignores (gc callbacks,
    __del__) is swallowed, and a one-shot limit would then be lost for the rest of the case."""
    armed = [True]

    def handler(signum, frame):
        if armed[0]:
            raise _Expired()

    old = signal.signal(signal.SIGALRM, handler)
    signal.setitimer(signal.ITIMER_REAL, seconds, 5.0)
    try:
        yield
    finally:
        armed[0] = False
        signal.setitimer(signal.ITIMER_REAL, 0)
        signal.signal(signal.SIGALRM, old)


class Traced:
    def __init__(self, name, observe, judge, label, exc_domain=None):
        self.name, self.observe, self.judge, self.label = name, observe, judge, label
        # exc_domain(case) -> "" where an exception keeps its automatic signature, or a tag naming a part of the
        # domain in which no exception is known on the unchanged tree (the tag is prefixed to the signature, so an
        # open known finding about another part of the domain cannot absorb it)
        self.exc_domain = exc_domain or (lambda case: "")
        self._memo = None

    def _run(self, case):
        try:
            with _limit(CASE_TIMEOUT):
                return ("ok", self.observe(case))
        except _Expired:
            return ("exc", Inconclusive("timeout"))
        except Exception as exc:  # noqa: BLE001
            return ("exc", exc)

    def nontrivial(self, case):
        key = canon(case)
        out = self._run(case)
        self._memo = (key, out)
        if out[0] == "ok":
            return self.label(case, out[1])
        exc = out[1]
        if isinstance(exc, (Inconclusive, Violation, HarnessError)):
            return None
        cls = classify_exception(exc)
        if cls[0] == "violation":
            return ("exc@" + cls[1].split(":", 4)[-1])[:120]
        return None

    def check(self, case):
        key = canon(case)
        memo, self._memo = self._memo, None
        out = memo[1] if memo is not None and memo[0] == key else self._run(case)
        if out[0] == "exc":
            exc = out[1]
            tag = "" if isinstance(exc, (Inconclusive, Violation, HarnessError)) else self.exc_domain(case)
            if tag:
                cls = classify_exception(exc)
                if cls[0] == "violation":
                    raise Violation(f"[{tag}] {cls[2]}", f"{tag}:{cls[1]}") from exc
            raise exc
        self.judge(case, out[1])


def _small(d):
    return d[0] * d[1] <= 6


def _dom(d):
    return "d<=6" if _small(d) else "d>6"


def _sep_exc_domain(case):
    return "d<=6" if _small(case["state"]["d"]) else ""


def _beyond_ppt(site):
    return not (site.startswith("return False <- if not is_ppt_state") or site.startswith("return is_ppt_state") or "min_dim == 1" in site)


# ------------------------------------------------------------------------------------------
# state specs
# ------------------------------------------------------------------------------------------
EPS_ALL = [0.0, 0.0, 0.0, 1e-6, 1e-3, 0.05, 0.3, 0.7, 0.95]


@st.composite
def _sep_spec(draw, d, depth="any"):
    """depth (3x3 only matters): 'shallow' = parameters for which is_separable answers before the SDP,
    'deep' = generic mixtures that fall through to the symmetric-extension search."""
    if depth == "deep":
        k = draw(st.sampled_from([3, 5, 6, 7, 8, 9, 10, 12, 15, 20]))
        local = draw(st.sampled_from(["pure", "pure", "pure", "mixed"]))
        eps = draw(st.sampled_from([0.0, 0.0, 1e-6, 1e-3, 0.05, 0.3]))
    elif depth == "shallow":
        mode = draw(st.sampled_from(["k<=2", "k<=2", "rank4", "ball"]))
        if mode == "k<=2":
            k = draw(st.integers(1, 2))
            local = draw(st.sampled_from(["pure", "mixed", "basis"]))
            eps = draw(st.sampled_from([0.0, 0.0, 0.95]))
        elif mode == "rank4":
            k, local, eps = 4, "pure", 0.0
        else:
            k = draw(st.integers(1, 20))
            local = draw(st.sampled_from(["pure", "mixed", "basis"]))
            eps = 0.95
    else:
        k = draw(st.integers(1, 20))
        local = draw(st.sampled_from(["pure", "pure", "pure", "mixed", "basis"]))
        eps = draw(st.sampled_from(EPS_ALL))
    return {
        "fam": "sep",
        "d": list(d),
        "k": k,
        "cplx": draw(st.booleans()),
        "local": local,
        "w": draw(st.sampled_from(["dirichlet", "dirichlet", "equal"])),
        "eps": eps,
        "seed": draw(gen.SEED),
    }


@st.composite
def _npt_spec(draw, d):
    # weak:t = weakly entangled pure core (seeded change C15-c1 - a two-qubit shortcut testing det(PT) >= -tol - was missed
    # while every entangled core had Schmidt coefficients >= 0.1: det(PT) ~ -t^4 is inside the tolerance for t <= 0.01)
    cores = ["pure", "pure", "maxent", "weak:0.002", "weak:0.005", "weak:0.01", "weak:0.02"] + (["antisym"] if d[0] == d[1] else [])
    core = draw(st.sampled_from(cores))
    if core.startswith("weak"):
        # lambda_min(PT) = -sin t cos t >= -0.02: only noise levels that keep the margin of 1e-3 are meaningful
        return {"fam": "npt", "d": list(d), "core": core, "noise": draw(st.sampled_from(["id", "sep"])),
                "m": draw(st.sampled_from([0.0, 0.0, 1.5e-3])), "cplx": draw(st.booleans()), "seed": draw(gen.SEED)}
    return {
        "fam": "npt",
        "d": list(d),
        "core": core,
        "noise": draw(st.sampled_from(["id", "sep"])),
        "m": draw(st.sampled_from([0.0, 1.5e-3, 5e-3, 0.02, 0.08])),
        "cplx": draw(st.booleans()),
        "seed": draw(gen.SEED),
    }


@st.composite
def _ppt_spec(draw, d):
    n = d[0] * d[1]
    return {
        "fam": "ppt",
        "d": list(d),
        "rank": draw(st.integers(1, n)),
        "m": draw(st.sampled_from([1e-3, 1e-2, 0.03])),
        "cplx": draw(st.booleans()),
        "seed": draw(gen.SEED),
    }


@st.composite
def _bound_spec(draw):
    which = draw(st.sampled_from(["tiles", "horodecki"]))
    return {
        "fam": "bound",
        "d": [3, 3],
        "which": which,
        "a": draw(st.sampled_from([0.1, 0.25, 0.5, 0.75, 0.9])),
        "p": draw(st.sampled_from([0.0, 0.0, 0.01, 0.05, 0.2, 0.6])),
    }


def _dimform(draw, d):
    forms = ["list", "list", "scalar"] + (["omitted"] if d[0] == d[1] else [])
    return draw(st.sampled_from(forms))


# ------------------------------------------------------------------------------------------
# 1. is_ppt / is_npt against the definition
# ------------------------------------------------------------------------------------------
REL = ["pos:1e-2", "pos:1e-3", "zero", "in:1000", "in:30", "in:10", "out:10", "out:30", "out:1000", "neg:1e-3", "neg:5e-2"]


@st.composite
def _pptdef_case(draw):
    nparty = draw(st.sampled_from([2, 2, 2, 3]))
    if nparty == 2:
        d = [draw(st.integers(2, 5)), draw(st.integers(2, 5))]
        forms = ["list", "list", "array", "scalar_list", "scalar_float", "scalar_int"] + (["omitted"] if d[0] == d[1] else [])
    else:
        d = draw(gen.dims(n=3, lo=2, hi=3, budget=18))
        forms = ["list", "array"]
    return {
        "d": d,
        "sys": draw(st.integers(1, nparty)),
        # 0.0: an explicit zero tolerance must stay zero (seeded change C15-t1, `tol = tol or sqrt(eps)`, was missed)
        "tol": draw(st.sampled_from([None, None, 1e-12, 1e-10, 1e-8, 1e-6, 1e-4, 1e-2, 0.0])),
        "rel": draw(st.sampled_from(REL)),
        "core": draw(st.sampled_from(["pure", "maxent"])),
        "noise": draw(st.sampled_from(["id", "id", "sep"])),
        "cplx": draw(st.booleans()),
        "dimform": draw(st.sampled_from(forms)),
        "seed": draw(gen.SEED),
    }


def _pptdef_state(case):
    d = case["d"]
    n = gen.prod(d)
    party = case["sys"] - 1
    g = gen.rng(case["seed"])
    cplx = case["cplx"]
    tol_eff = case["tol"] if case["tol"] is not None else SQRT_EPS
    if tol_eff == 0:
        tol_eff = 1e-10  # targets for an explicit zero tolerance: -1e-9 ... -1e-7 ("out"), unasserted noise-level values ("in")
    kind, _, val = case["rel"].partition(":")
    if kind == "zero":
        # a product vector: lambda_min of every partial transpose is 0 up to rounding
        v = ref.kron_all([H._ket(g, k, cplx).reshape(-1, 1) for k in d])[:, 0]
        return H.herm(np.outer(v, v.conj()))
    if len(d) == 2:
        rho0 = H._entangled_core(g, d[0], d[1], case["core"], cplx)
    else:
        v = H._ket(g, n, cplx)
        rho0 = np.outer(v, v.conj())
    target = {"pos": float(val or 0), "neg": -float(val or 0), "in": -tol_eff / float(val or 1), "out": -tol_eff * float(val or 1)}[kind]
    target = max(target, -0.08)
    dims = list(d)
    l0 = ref.lam_min(ref.partial_transpose(rho0, [party], dims))
    if l0 >= target:
        return H.herm(rho0)
    if case["noise"] == "sep" and len(d) == 2 and target < 0:
        sigma = H.sep_state({"d": dims, "k": 2 * n, "cplx": cplx, "local": "pure", "w": "dirichlet", "eps": 0.2, "seed": int(g.integers(0, 2**62))})
        return H.mix_to_target(rho0, sigma, dims, target, party)
    t = min(1.0, max(0.0, (target - l0) / (1.0 / n - l0)))
    rho = H.herm((1 - t) * rho0 + t * np.eye(n) / n)
    return rho / np.trace(rho).real


def _ppt_dim_arg(case):
    d, f = case["d"], case["dimform"]
    return {
        "list": lambda: [int(k) for k in d],
        "array": lambda: np.array(d),
        "scalar_list": lambda: [int(d[0])],
        "scalar_float": lambda: float(d[0]),
        "scalar_int": lambda: int(d[0]),
        "omitted": lambda: None,
    }[f]()


def check_ppt_definition(case):
    from toqito.state_props import is_npt, is_ppt

    rho = _pptdef_state(case)
    d = list(case["d"])
    lam = ref.lam_min(ref.partial_transpose(rho, [case["sys"] - 1], d))
    tol = case["tol"]
    tol_eff = tol if tol is not None else SQRT_EPS
    got = bool(is_ppt(rho, case["sys"], _ppt_dim_arg(case), tol))
    got_npt = bool(is_npt(rho, case["sys"], _ppt_dim_arg(case), tol))
    if got_npt == got:
        raise Violation(f"is_npt = {got_npt} and is_ppt = {got} on the same arguments", "is_npt!=not is_ppt")
    if tol_eff == 0:
        # exact threshold: asserted only clear of eigenvalue rounding noise
        if lam >= 1e-10:
            exp = True
        elif lam <= -5e-10:
            exp = False
        else:
            return
    elif lam >= -tol_eff / 10:
        exp = True
    elif lam <= -10 * tol_eff:
        exp = False
    else:
        return
    if got != exp:
        fixed = lam >= -1e-8
        sig = "is_ppt:tol-ignored(threshold fixed at 1e-8)" if (tol is not None and got == fixed and abs(abs(lam) / 1e-8 - 1) > 0.5) else f"is_ppt={got}"
        raise Violation(
            f"is_ppt(rho, sys={case['sys']}, dim={case['dimform']}:{d}, tol={tol}) = {got} but lambda_min of the partial transpose is {lam:.3e} "
            f"(tolerance {tol_eff:.3e}: expected {exp})",
            sig,
        )


def nt_pptdef(case):
    d = case["d"]
    shape = "tri" if len(d) == 3 else ("rect" if d[0] != d[1] else "square")
    kind = case["rel"].split(":")[0]
    near = kind in ("in", "out")
    if shape == "square" and not (case["tol"] is not None and near):
        return None
    return f"ppt:{shape}:{'tol' if case['tol'] is not None else 'default'}:{kind}"


# ------------------------------------------------------------------------------------------
# 2.-4. is_separable soundness
# ------------------------------------------------------------------------------------------
def _call_sep(rho, d, form, level=None):
    # level (1 or 2, "extension levels 1..2" of the quantifier): with level=1 the closing symmetric-extension search is
    # empty, so the cascade of criteria before it is exercised without the 1-40 s SDP; None = the default (2)
    kw = {} if level is None else {"level": level}
    if form == "omitted":
        return H.SEP_TRACER.call(rho, **kw)
    return H.SEP_TRACER.call(rho, H.dim_argument(d, form), **kw)


def _observe_sound(case):
    spec = case["state"]
    rho = H.build_state(spec)
    d = spec["d"]
    lam = H.lam_min_pt(rho, d)
    v, site = _call_sep(rho, d, case["dimform"], case.get("level"))
    return {"lam": lam, "verdict": bool(v), "site": site}


def _judge_sound(case, obs):
    spec = case["state"]
    fam, d = spec["fam"], spec["d"]
    lam, v, site = obs["lam"], obs["verdict"], obs["site"]
    _event(f"{d[0]}x{d[1]}:{fam}:{v}@{site}")
    what = f"is_separable(rho, dim={case['dimform']}:{d}{'' if case.get('level') is None else ', level=%d' % case['level']}) = {v} from `{site}`"
    if fam == "sep":
        if lam < -1e-12:
            raise HarnessError(f"separable builder produced lambda_min(PT) = {lam}")
        if not v:
            raise Violation(f"{what} on a convex mixture of {spec['k']} product states (eps={spec['eps']}, {spec['local']})", f"sep=False[{_dom(d)}]@{site}")
    elif fam == "npt":
        if lam > -1e-3:
            raise HarnessError(f"NPT builder produced lambda_min(PT) = {lam}")
        if v:
            raise Violation(f"{what} on a state with lambda_min(PT) = {lam:.3e}", f"sep=True[{_dom(d)}]@{site}")
    elif fam == "ppt" and d[0] * d[1] <= 6:
        if lam < -1e-12:
            raise HarnessError(f"PPT builder produced lambda_min(PT) = {lam}")
        if not v:
            raise Violation(f"{what} on a {d[0]}x{d[1]} state with lambda_min(PT) = {lam:.3e} (PPT is decisive here)", f"sep=False[d<=6,ppt]@{site}")
    elif fam == "hs" and d[0] * d[1] <= 6:
        # unstructured full-rank state: the verdict must be the PPT criterion (asserted by margin only)
        if lam <= -1e-3 and v:
            raise Violation(f"{what} on a random full-rank state with lambda_min(PT) = {lam:.3e}", f"sep=True[{_dom(d)}]@{site}")
        if lam >= 1e-3 and not v:
            raise Violation(f"{what} on a random full-rank {d[0]}x{d[1]} state with lambda_min(PT) = {lam:.3e} (PPT is decisive here)", f"sep=False[d<=6,ppt]@{site}")


def _label_sound(case, obs):
    d = case["state"]["d"]
    if d[0] * d[1] <= 6 or not _beyond_ppt(obs["site"]):
        return None
    return f"{obs['verdict']}@{obs['site']}"[:120]


@st.composite
def _sound_main_case(draw):
    d = draw(st.sampled_from([[2, 2], [2, 3], [3, 2], [3, 3], [3, 3]]))
    if d == [3, 3]:
        fam = draw(st.sampled_from(["sep", "sep", "npt"]))
        spec = draw(_sep_spec(d, "shallow")) if fam == "sep" else draw(_npt_spec(d))
    else:
        fam = draw(st.sampled_from(["sep", "sep", "npt", "ppt", "hs", "hs"]))
        if fam == "hs":
            spec = {"fam": "hs", "d": list(d), "cplx": draw(st.booleans()), "seed": draw(gen.SEED)}
        else:
            spec = draw({"sep": _sep_spec, "npt": _npt_spec, "ppt": _ppt_spec}[fam](d))
    return {"state": spec, "dimform": _dimform(draw, d)}


@st.composite
def _sound_deep_case(draw):
    d = [3, 3]
    return {"state": draw(_sep_spec(d, "deep")), "dimform": _dimform(draw, d)}


@st.composite
def _sound_big_case(draw):
    # since the repairs of the realignment-strengthening, 2 x n block and Breuer-Hall tests most of these states reach
    # the symmetric-extension SDP (about 1 s on 4x2, 6 s on 2x4, 20-40 s on 3x4 / 4x4): the cheap splits are drawn more often
    d = draw(st.sampled_from([[2, 4], [2, 4], [2, 4], [4, 2], [4, 2], [4, 2], [4, 2], [3, 4], [4, 3], [4, 4]]))
    fam = draw(st.sampled_from(["sep", "sep", "sep", "npt"]))
    spec = draw(_sep_spec(d) if fam == "sep" else _npt_spec(d))
    return {"state": spec, "dimform": _dimform(draw, d), "level": draw(st.sampled_from([1, 1, 1, 2, None]))}


SOUND_MAIN = Traced("sep_sound_main", _observe_sound, _judge_sound, _label_sound, _sep_exc_domain)
SOUND_DEEP = Traced("sep_sound_3x3_deep", _observe_sound, _judge_sound, _label_sound)
SOUND_BIG = Traced("sep_sound_big", _observe_sound, _judge_sound, _label_sound)


# ------------------------------------------------------------------------------------------
# 5. invariance under local unitaries and party exchange
# ------------------------------------------------------------------------------------------
@st.composite
def _inv_case(draw):
    d = draw(st.sampled_from([[2, 2], [2, 3], [3, 2], [3, 3], [3, 3], [2, 4], [2, 4], [4, 2], [4, 2], [4, 2], [3, 4], [4, 3], [4, 4]]))
    fams = ["sep", "npt", "npt", "ppt", "ppt"] + (["bound", "bound"] if d == [3, 3] else [])
    fam = draw(st.sampled_from(fams))
    if fam == "sep":
        # on 3x3 mostly the quickly decided mixtures: three SDP calls per deep case
        depth = draw(st.sampled_from(["shallow"] * 5 + ["deep"])) if d == [3, 3] else "any"
        spec = draw(_sep_spec(d, depth))
    elif fam == "npt":
        spec = draw(_npt_spec(d))
    elif fam == "ppt":
        spec = draw(_ppt_spec(d))
        if d == [3, 3]:
            spec["m"] = draw(st.sampled_from([0.03, 0.08, 0.1, 0.1]))
    else:
        spec = draw(_bound_spec())
    level = draw(st.sampled_from([1, 1, 1, 2, None])) if d[0] * d[1] > 6 else draw(st.sampled_from([None, None, 1, 2]))
    return {"state": spec, "useed": draw(gen.SEED), "ureal": draw(st.booleans()), "both": draw(st.booleans()), "level": level}


def _observe_inv(case):
    spec = case["state"]
    d = list(spec["d"])
    rho = H.build_state(spec)
    lam = H.lam_min_pt(rho, d)
    calls = []
    kw = {} if case.get("level") is None else {"level": case["level"]}
    v, s = H.SEP_TRACER.call(rho, d, **kw)
    calls.append(("original", bool(v), s))
    rot = H.local_unitary_orbit(rho, d, case["useed"], case["ureal"] and not np.iscomplexobj(rho))
    v, s = H.SEP_TRACER.call(rot, d, **kw)
    calls.append(("local-unitary", bool(v), s))
    src = rot if case["both"] else rho
    v, s = H.SEP_TRACER.call(H.exchange_parties(src, d), d[::-1], **kw)
    calls.append(("exchange+lu" if case["both"] else "exchange", bool(v), s))
    return {"calls": calls, "lam": lam}


def _judge_inv(case, obs):
    spec = case["state"]
    d, fam = spec["d"], spec["fam"]
    # where the construction fixes the answer, each of the three verdicts is judged on its own first (so that a
    # wrong verdict on a transformed copy is reported as what it is, under the same signature as in the soundness
    # sub-checks); the comparison below then only matters for states of unknown separability
    for tag, v, s in obs["calls"]:
        _judge_sound({"state": spec, "dimform": f"list,{tag}", "level": case.get("level")}, {"lam": obs["lam"], "verdict": v, "site": s})
    (t0, v0, s0) = obs["calls"][0]
    for tag, v, s in obs["calls"][1:]:
        if v != v0:
            s_true, s_false = (s0, s) if v0 else (s, s0)
            raise Violation(
                f"is_separable changes its verdict under {tag}: {v0} from `{s0}` on the original {d[0]}x{d[1]} {fam} state "
                f"(lambda_min(PT) = {obs['lam']:.3e}), {v} from `{s}` after the transformation",
                f"variant[{_dom(d)}]:True@{s_true}|False@{s_false}",
            )


def _label_inv(case, obs):
    d = case["state"]["d"]
    (_, v0, s0) = obs["calls"][0]
    if d[0] * d[1] <= 6 or not _beyond_ppt(s0):
        return None
    return f"inv:{v0}@{s0}"[:120]


INVARIANCE = Traced("sep_invariance", _observe_inv, _judge_inv, _label_inv, _sep_exc_domain)


# ------------------------------------------------------------------------------------------
# 6. Gurvits-Barnum ball
# ------------------------------------------------------------------------------------------
FACTORS = [0.0, 0.3, 0.9, 0.99, 0.999, 1.001, 1.01, 1.1, 1.5, 3.0]


@st.composite
def _ball_case(draw):
    return {
        "n": draw(st.sampled_from([2, 3, 4, 4, 6, 6, 8, 9, 9, 12, 16])),
        "factor": draw(st.sampled_from(FACTORS)),
        "form": draw(st.sampled_from(["matrix", "matrix", "eigvec"])),
        "cplx": draw(st.booleans()),
        # negative scales: minus a state is not in the ball, whatever its shape (seeded change C15-w1 normalised by the
        # signed trace and so accepted -I and the negatives of nearly maximally mixed states)
        "scale": draw(st.sampled_from([1.0, 1.0, 0.5, 7.0, -1.0, -3.0])),
        "sparse_dir": draw(st.booleans()),
        "seed": draw(gen.SEED),
    }


def check_ball(case):
    from toqito.state_props import in_separable_ball

    n = case["n"]
    g = gen.rng(case["seed"])
    radius = 1.0 / np.sqrt(n * (n - 1))
    if case["sparse_dir"]:
        # one eigenvalue lowered, the others raised equally: the direction in which the ball touches the PSD boundary
        u = np.ones(n)
        u[int(g.integers(n))] = -(n - 1)
    else:
        u = g.normal(size=n)
        u = u - u.mean()
    u = u / np.linalg.norm(u)
    r = case["factor"] * radius
    rmax = min((1.0 / n) / (-x) for x in u if x < 0)
    r = min(r, rmax)
    lam = np.clip(1.0 / n + r * u, 0.0, None)
    lam = lam / lam.sum()
    dist = float(np.linalg.norm(lam - 1.0 / n))
    if case["form"] == "eigvec":
        arg = case["scale"] * g.permutation(lam)
    else:
        q = gen.rand_unitary(int(g.integers(0, 2**62)), n, not case["cplx"])
        arg = case["scale"] * H.herm((q * lam) @ q.conj().T)
    got = bool(in_separable_ball(arg))
    if case["scale"] < 0:
        req(not got, f"in_separable_ball accepts a {case['form']} with negative trace ({case['scale']} x a state at distance {dist:.4g} from I/{n})", "ball:accepts-negative-trace")
        return
    if dist >= radius * (1 + 1e-3) and got:
        raise Violation(f"in_separable_ball accepts a {case['form']} at Frobenius distance {dist:.6g} from I/{n}; the ball radius is {radius:.6g}", "ball:accepts-outside")
    if dist <= radius * (1 - 1e-6) and not got:
        raise Violation(f"in_separable_ball rejects a {case['form']} at Frobenius distance {dist:.6g} from I/{n}; the ball radius is {radius:.6g}", "ball:rejects-inside")


def nt_ball(case):
    if 0.9 <= case["factor"] <= 1.1:
        return f"ball:{case['form']}:{'in' if case['factor'] < 1 else 'out'}"
    return None


# ------------------------------------------------------------------------------------------
# 7. has_symmetric_extension accepts separable states
# ------------------------------------------------------------------------------------------
def _observe_symext(case):
    spec = case["state"]
    rho = H.build_state(spec)
    d = spec["d"]
    lam = H.lam_min_pt(rho, d)
    if lam < -1e-12:
        raise HarnessError(f"separable builder produced lambda_min(PT) = {lam}")
    kw = {}
    if case["dimform"] != "omitted":
        kw["dim"] = H.dim_argument(d, case["dimform"])
    if not case["ppt"]:
        kw["ppt"] = False
    v, site = H.SYMEXT_TRACER.call(rho, case["level"], **kw)
    return {"verdict": bool(v), "site": site}


def _symext_domain(case):
    """Which documented decision rule of has_symmetric_extension applies to the case (from the arguments only)."""
    d = case["state"]["d"]
    if case["level"] == 1 or (d[0] * d[1] <= 6 and case["ppt"]):
        return "ppt-shortcut domain"
    if case["level"] == 2 and not case["ppt"] and d == [2, 2]:
        return "2-qubit closed-form domain"
    return "sdp domain"


def _symext_exc_domain(case):
    dom = _symext_domain(case)
    return "" if dom == "sdp domain" else dom


def _judge_symext(case, obs):
    spec = case["state"]
    d = spec["d"]
    _event(f"symext:{d[0]}x{d[1]}:L{case['level']}:{obs['verdict']}@{obs['site']}")
    if not obs["verdict"]:
        raise Violation(
            f"has_symmetric_extension(rho, level={case['level']}, dim={case['dimform']}:{d}, ppt={case['ppt']}) = False from `{obs['site']}` "
            f"on a convex mixture of {spec['k']} product states (eps={spec['eps']}, {spec['local']})",
            f"symext=False[{_symext_domain(case)}]@{obs['site']}",
        )


def _label_symext(case, obs):
    if case["level"] < 2:
        return None
    return f"L2:{obs['verdict']}@{obs['site']}"[:120]


@st.composite
def _symext_case(draw):
    level = draw(st.integers(1, 2))
    if level == 1:
        d = draw(st.sampled_from([[2, 2], [2, 3], [3, 2], [3, 3], [2, 4], [4, 2], [3, 4], [4, 3], [4, 4]]))
    else:
        # level 2 without an SDP: PPT shortcut up to 6 dimensions; 8 dimensions (2x4, 4x2) are answered - or
        # refused - before any solver is entered.  12 dimensions would start a 3x4x4 SDP (> 60 s under load).
        d = draw(st.sampled_from([[2, 2], [2, 3], [3, 2], [2, 4], [4, 2]]))
    return {"state": draw(_sep_spec(d)), "level": level, "ppt": True, "dimform": _dimform(draw, d)}


@st.composite
def _symext_sdp_case(draw):
    d = draw(st.sampled_from([[3, 3], [3, 3], [2, 3], [3, 2]]))
    ppt = draw(st.booleans()) if d == [3, 3] else False
    return {"state": draw(_sep_spec(d)), "level": 2, "ppt": ppt, "dimform": _dimform(draw, d)}


@st.composite
def _symext_nonppt_case(draw):
    level = draw(st.sampled_from([1, 2, 2]))
    d = [2, 2] if level == 2 else draw(st.sampled_from([[2, 2], [2, 3], [3, 3], [2, 4], [4, 4]]))
    return {"state": draw(_sep_spec(d)), "level": level, "ppt": False, "dimform": _dimform(draw, d)}


SYMEXT = Traced("symext_separable", _observe_symext, _judge_symext, _label_symext, _symext_exc_domain)
SYMEXT_SDP = Traced("symext_separable_sdp", _observe_symext, _judge_symext, _label_symext, _symext_exc_domain)
SYMEXT_NONPPT = Traced("symext_nonppt", _observe_symext, _judge_symext, _label_symext, _symext_exc_domain)


SUBCHECKS = [
    SubCheck("ppt_definition", check_ppt_definition, _pptdef_case, nt_pptdef, quick=3000, thorough=60000, fuzz=4000),
    SubCheck("sep_sound_main", SOUND_MAIN.check, _sound_main_case, SOUND_MAIN.nontrivial, quick=1600, thorough=24000, case_timeout=CASE_TIMEOUT + 30, fuzz=4000),
    SubCheck("sep_sound_3x3_deep", SOUND_DEEP.check, _sound_deep_case, SOUND_DEEP.nontrivial, quick=32, thorough=480, case_timeout=CASE_TIMEOUT + 30),
    SubCheck("sep_sound_big", SOUND_BIG.check, _sound_big_case, SOUND_BIG.nontrivial, quick=480, thorough=8000, case_timeout=CASE_TIMEOUT + 30, fuzz=3000),
    SubCheck("sep_invariance", INVARIANCE.check, _inv_case, INVARIANCE.nontrivial, quick=240, thorough=3600, case_timeout=CASE_TIMEOUT + 30),
    SubCheck("separable_ball", check_ball, _ball_case, nt_ball, quick=2000, thorough=40000),
    SubCheck("symext_separable", SYMEXT.check, _symext_case, SYMEXT.nontrivial, quick=800, thorough=12000, case_timeout=CASE_TIMEOUT + 30),
    SubCheck("symext_separable_sdp", SYMEXT_SDP.check, _symext_sdp_case, SYMEXT_SDP.nontrivial, quick=24, thorough=360, case_timeout=CASE_TIMEOUT + 30),
    SubCheck("symext_nonppt", SYMEXT_NONPPT.check, _symext_nonppt_case, SYMEXT_NONPPT.nontrivial, quick=400, thorough=6000, case_timeout=CASE_TIMEOUT + 30),
]
