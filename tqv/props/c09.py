"""C09 — extended nonlocal games, quantum hedging, optimal cloning: closed forms, ordering, strong duality.

Functions under test: ExtendedNonlocalGame.{unentangled_value, nonsignaling_value, quantum_value_lower_bound,
commuting_measurement_value_upper_bound} (+ helper/npa_hierarchy.npa_constraints with referee_dim),
QuantumHedging.{max,min}_prob_outcome_a_{primal,dual}, optimal_clone.

Oracles (none calls the function under test):
* brute force over pairs of deterministic answer FUNCTIONS of lambda_max(sum_xy pi(x,y) V(f(x),g(y)|x,y)) (numpy);
* closed forms of the BB84 / CHSH / MUB extended games and of the CHSH game lifted to an idle referee system, after
  value-preserving transformations that destroy the Alice/Bob symmetry;
* an independently written non-signalling SDP (CLARABEL) and, for r = 1, the exact non-signalling LP (GLPK);
* the chain  unentangled <= achieved (see-saw) <= NPA_k <= non-signalling;
* for hedging and cloning a *certified interval* [lb, ub] around the optimum of  max <Q,X>, Tr_rest X = I, X >= 0:
  lb from a solver point projected to exact feasibility in numpy, ub from a dual point shifted to exact feasibility
  in numpy (tqv/props/_c09_helpers.sdp_interval); multiplicativity under Q -> Q (x) Q for the two-repetition values.

Sub-checks are split so that one defect does not hide another.  Defects of the unrepaired tree and where they show
(signature; candidate repair under notes/fixes/):
* unentangled_value maximises over constant answer pairs only -> unentangled_bruteforce, reps2_unentangled
  ("unentangled=max_over_constant_answer_pairs"; C09-unentangled-answer-functions.diff)
* NPA assemblage blocks declared hermitian=True (K(a,b) = K(b,a)^dagger forced; raises for A != B) -> npa_sound_square
  ("npa<unentangled" / "npa!=closed_form"), npa_sound_rect (exc:ValueError...cvxpy.Variable), npa_invariance,
  seesaw_le_npa ("qlb>npa"), r1_nonlocal_game ("r1_npa")  (C09-npa-assemblage-not-hermitian.diff)
* see-saw sizes Bob's POVMs by the referee dimension -> seesaw_r_ne_B (exc:ValueError...__optimize_bob)
  (C09-seesaw-bob-povm-dim.diff)
* hedging duals take cvxpy.real of the constraint -> hedging_complex ("hedging_max_dual_value" / "..primal!=dual")
  (C09-hedging-dual-complex.diff)
* optimal_clone allocates a real Q and takes cvxpy.real in the dual -> clone_complex, clone_complex_reps2
  (exc:UFuncTypeError; C09-clone-complex-states.diff); behind it: the primal with num_reps = 2 traces out the wrong
  subsystems (invisible for real states) -> clone_complex_reps2 ("clone_primal!=dual";
  C09-clone-primal-reps-partial-trace.diff)
* the constructor with reps = 2 builds the repeated predicate operators in real buffers: for complex predicates the game
  it represents is Re V (x) Re V, so its unentangled value is not that of the two-fold repetition -> reps2_complex
  ("reps2_pred_mat_keeps_real_parts_only"; C09-reps-complex-predicates.diff).  Borderline scope (constructor, not a value
  method): kept in its own sub-check.
ns_value, seesaw_r_eq_B, hedging_real, clone_real and clone_real_reps2 are quiet on the unrepaired tree.

Observation outside the property (not asserted): for referee dimension > 1 `npa_constraints` ties sum_ab K(a,b|x,y) to
the moment matrix only through its trace, not as the operator equation sum_ab K(a,b|x,y) = R[eps,eps]; the value is
therefore looser than the canonical NPA level k and changes under relabelling of answers (e.g. 0.78620 / 0.78503 /
0.78927 on one r = 3 game, 0.78345 in every labelling once the equation is added).  Every order relation still holds.

Harness-side solvers are run single-threaded (CLARABEL max_threads=1, GLPK instead of HiGHS): a thread pool started in
the runner's parent process (replay tier) deadlocks the forked shard processes.
"""

from __future__ import annotations

import itertools

import numpy as np
from hypothesis import strategies as st

from tqv import gen
from tqv.core import HarnessError, Inconclusive, SubCheck, Violation, req
from tqv.props import _c09_helpers as H

# caller-owned arrays handed to the library must come back unchanged (see tqv/purity.py)
from tqv.purity import install as _install_purity  # noqa: E402

_install_purity('toqito.state_opt')

PROPERTY = "C09"
RULE = (
    "Games: referee dimension r in 1..3 and (A, B, X, Y) in 1..3 drawn independently (unequal allowed), question "
    "distribution = exact dyadic counts/64, every predicate operator V(a,b|x,y) an independently drawn PSD r x r "
    "matrix (random rank, lambda_max in [0.25,1], or rank-one projectors, a drawn fraction set to zero), real or "
    "complex, hence asymmetric between the players; plus the BB84 / CHSH / MUB extended games and CHSH with an idle "
    "referee system under drawn value-preserving transformations (independent per-question answer permutations for "
    "Alice and Bob, question permutations, player exchange, referee basis change, conjugation, zero-operator answer "
    "padding).  A game case is non-trivial when the best pair of answer functions beats every constant answer pair by "
    "> 1e-3, or A != B, or it is a named game whose transformation relabels answers per question or pads them (so that it is no longer won by constant equal answers).  "
    "Hedging: Q PSD 4^n x 4^n of drawn rank (real / complex), the documented Q(alpha,theta) family (optionally "
    "rotated by local unitaries) and Q (x) Q for n = 2; non-trivial when rank >= 2.  Cloning: 1..4 qubit kets as (2,1) "
    "arrays (or pure density matrices), exact dyadic priors, reps 1..2, single state / orthogonal pair / Wiesner / "
    "six-state ensembles under a common unitary; non-trivial when >= 2 non-orthogonal states.  distinct = distinct "
    "SHA-1 of the canonical case JSON among non-trivial cases."
)
ASSUMPTIONS = [
    "predicate operators are PSD with lambda_max <= 1 and the question distribution sums to 1 exactly (dyadic)",
    "toqito solves with the cvxpy default solver (SCS): SDP values are compared with atol 2e-3 (x max(1,|value|))",
    "quantum_value_lower_bound is a randomised local search: only 'achieved value <= every upper bound' is asserted, "
    "not invariance and not optimality; its unseeded randomness is pinned by patching numpy.random.default_rng",
    "hedging values are not assumed <= 1 (they are not, for generic Q): only primal = dual, max >= min, the certified "
    "interval and multiplicativity of the maximum under Q (x) Q are asserted",
    "cloning states are qubit kets given as (2,1) arrays or pure-state density matrices (1-D kets are not an accepted form)",
    "NPA soundness can only be refuted by an achieved value or a known optimum (DESIGN section 7)",
    "harness-side oracle SDPs are solved with CLARABEL and their optimum is bracketed by numpy-verified certificates",
]

TOL = H.TOL_SDP
C8 = float(np.cos(np.pi / 8) ** 2)


def _tol(*vals):
    return TOL * max(1.0, *[abs(float(v)) for v in vals])


def _f(fn, what):
    """call a toqito value method -> float.  A cvxpy 'Solution may be inaccurate' warning, or None / nan / inf from a
    solve that did not reach an optimum, is inconclusive (DESIGN 1.2), never a pass and never a violation."""
    import warnings

    with warnings.catch_warnings(record=True) as caught:
        warnings.simplefilter("always")
        v = fn()
    for w in caught:
        if "inaccurate" in str(w.message).lower():
            raise Inconclusive(f"{what}:solution_may_be_inaccurate")
    if v is None:
        raise Inconclusive(f"{what}:solver_returned_None")
    v = float(np.real(v))
    if not np.isfinite(v):
        raise Inconclusive(f"{what}:solver_returned_{v}")
    return v


# ==========================================================================================
# game cases
# ==========================================================================================
@st.composite
def _random_game(draw, r=None, na=None, nb=None, square=None, r_eq_b=None):
    r = draw(st.integers(1, 3)) if r is None else r
    na = draw(st.integers(1, 3)) if na is None else na
    if nb is None:
        if r_eq_b is True:
            nb = r
        elif r_eq_b is False:
            nb = draw(st.sampled_from([b for b in (1, 2, 3) if b != r]))
        elif square is True:
            nb = na
        elif square is False:
            nb = draw(st.sampled_from([b for b in (1, 2, 3) if b != na]))
        else:
            nb = draw(st.integers(1, 3))
    if r_eq_b is not None and square is True:
        na = nb
    nx = draw(st.integers(1, 3))
    ny = draw(st.integers(1, 3))
    return {
        "family": "random",
        "r": r,
        "A": na,
        "B": nb,
        "X": nx,
        "Y": ny,
        "cplx": draw(st.booleans()),
        "kind": draw(st.sampled_from(["psd", "proj"])),
        "zero": draw(st.integers(0, 2)),
        "counts": draw(gen.dyadic_probs(nx * ny, m=6)),
        "seed": draw(gen.SEED),
        "tf": None,
    }


_NAMED_SHAPE = {"bb84": (2, 2, 2, 2, 2, 2), "chsh": (2, 2, 2, 2, 2, 2), "mub": (3, 3, 3, 3, 4, 4), "nlchsh1": (1, 1, 2, 2, 2, 2), "nlchsh2": (2, 2, 2, 2, 2, 2)}


@st.composite
def _named_game(draw, names, pad="any", swap=True):
    fam = draw(st.sampled_from(list(names)))
    shape = _NAMED_SHAPE[fam]
    max_pad = 0 if fam == "mub" else 1
    tf = draw(H.tf_strategy(shape, max_pad=max_pad, allow_swap=swap, equal_pad=(pad == "equal")))
    if pad == "unequal" and tf["pa"] == tf["pb"]:
        # construction, not rejection: pad exactly one of the players
        which = draw(st.booleans())
        _, _, na, nb, nx, ny = shape
        tf["pa"], tf["pb"] = (1, 0) if which else (0, 1)
        tf["sa"] = [list(draw(st.permutations(list(range(na + tf["pa"]))))) for _ in range(nx)]
        tf["sb"] = [list(draw(st.permutations(list(range(nb + tf["pb"]))))) for _ in range(ny)]
    if pad == "none_b":
        _, _, na, nb, nx, ny = shape
        tf["pb"] = 0
        tf["sb"] = [list(draw(st.permutations(list(range(nb))))) for _ in range(ny)]
    if pad == "one_b":
        _, _, na, nb, nx, ny = shape
        tf["pb"] = 1
        tf["sb"] = [list(draw(st.permutations(list(range(nb + 1))))) for _ in range(ny)]
    return {"family": fam, "tf": tf}


def _mix(named, random, named_weight=1, random_weight=2):
    return st.one_of(*([random] * random_weight + [named] * named_weight))


def _final_shape(case):
    if case["family"] == "random":
        shape = (case["r"], case["r"], case["A"], case["B"], case["X"], case["Y"])
    else:
        shape = _NAMED_SHAPE[case["family"]]
    tf = case.get("tf")
    r, _, na, nb, nx, ny = shape
    if tf is not None:
        na, nb = na + tf["pa"], nb + tf["pb"]
        if tf["swap"]:
            na, nb, nx, ny = nb, na, ny, nx
    return r, na, nb, nx, ny


def _closed(case, key):
    if case["family"] == "random":
        return None
    return H.NAMED[case["family"]][1].get(key)


def _brute(case, prob, pred):
    """true unentangled value (brute force), cross-checked against the closed form for named games"""
    val, const, _ = H.brute_unentangled(prob, pred)
    cf = _closed(case, "unent")
    if cf is not None and abs(val - cf) > 1e-9:
        raise HarnessError(f"brute force {val} disagrees with the closed form {cf} of {case['family']}: oracle or transformation is wrong")
    return val, const


def nt_game(case):
    r, na, nb, nx, ny = _final_shape(case)
    labels = []
    if case["family"] == "random":
        prob, pred = H.build_game(case)
        val, const, _ = H.brute_unentangled(prob, pred)
        if val > const + 1e-3:
            labels.append("fn>const")
    else:
        if H.tf_breaks_answer_symmetry(case["tf"]):
            labels.append("answers-relabelled-or-padded")
    if na != nb:
        labels.append("A!=B")
    if not labels:
        return None
    return f"{case['family']}:r={r}:" + ",".join(labels)


_LIVE_GAMES = []  # (game, copy of prob_mat, copy of pred_mat) of the case being checked


def _game(case):
    from toqito.nonlocal_games.extended_nonlocal_game import ExtendedNonlocalGame

    prob, pred = H.build_game(case)
    game = ExtendedNonlocalGame(prob, pred)
    _LIVE_GAMES.append((game, np.array(game.prob_mat, copy=True), np.array(game.pred_mat, copy=True), prob, np.array(prob, copy=True), pred, np.array(pred, copy=True)))
    return prob, pred, game


def _games_unchanged(check):
    """after the check: every game object built for the case still holds the tensors it was built with, and the arrays
    handed to the constructor are unchanged (a value method that rescales or reorders them in place makes every later
    value wrong; seen in seeded changes against the NonlocalGame and QuantumHedging classes)"""
    import functools

    @functools.wraps(check)
    def wrapped(case):
        del _LIVE_GAMES[:]
        try:
            check(case)
            for game, p0, v0, prob, prob0, pred, pred0 in _LIVE_GAMES:
                same = np.array_equal(np.asarray(game.prob_mat), p0) and np.array_equal(np.asarray(game.pred_mat), v0)
                req(same, "a value method changed prob_mat / pred_mat stored on the ExtendedNonlocalGame object", "game_object_mutated")
                req(np.array_equal(prob, prob0) and np.array_equal(pred, pred0), "the arrays passed to ExtendedNonlocalGame were modified", "game_inputs_mutated")
        finally:
            del _LIVE_GAMES[:]

    return wrapped


# ------------------------------------------------------------------------------------------
# 1. unentangled value = brute force over answer-function pairs
# ------------------------------------------------------------------------------------------
@_games_unchanged
def check_unentangled(case):
    prob, pred, game = _game(case)
    val, const = _brute(case, prob, pred)
    got = _f(lambda: game.unentangled_value(), "unentangled")
    tol = 5e-4
    if abs(got - val) <= tol:
        # "non-symmetric positive-semidefinite predicate operators" are not bounded by the identity: the same game with
        # every operator multiplied by s has s times the value.  s puts the optimum at 2.5, so several answer-function
        # pairs exceed 1 (seeded change C09-c2 - enumeration stopped as soon as the running maximum reached 1 - was
        # missed while every generated predicate was <= I)
        if val > 1e-3:
            from toqito.nonlocal_games.extended_nonlocal_game import ExtendedNonlocalGame

            fac = 2.5 / val
            big = ExtendedNonlocalGame(np.array(prob, copy=True), np.array(pred, copy=True) * fac)
            got_big = _f(lambda: big.unentangled_value(), "unentangled")
            req(
                abs(got_big - 2.5) <= 5 * tol,
                f"unentangled_value = {got_big:.6f} for the game with every predicate operator multiplied by {fac:.4f}, whose brute-force value is "
                f"{fac:.4f} x {val:.6f} = 2.5 (pred_mat shape {pred.shape}); the unscaled game was answered correctly",
                "unentangled_value:not-homogeneous",
            )
        return
    shape = pred.shape
    if got < val and abs(got - const) <= tol:
        raise Violation(
            f"unentangled_value = {got:.6f} equals the best CONSTANT answer pair ({const:.6f}) but answer functions reach {val:.6f} (pred_mat shape {shape})",
            "unentangled=max_over_constant_answer_pairs",
        )
    raise Violation(f"unentangled_value = {got:.6f} but brute force over answer functions gives {val:.6f} (pred_mat shape {shape})", "unentangled_value")


# ------------------------------------------------------------------------------------------
# 2. two parallel repetitions built by the constructor
# ------------------------------------------------------------------------------------------
@st.composite
def _reps2_case(draw, cplx):
    r = draw(st.integers(1, 2))
    # (A^2)^(X^2) * (B^2)^(Y^2) answer-function pairs of the repeated game: keep <= 4096
    shapes = [s for s in itertools.product((1, 2), repeat=4) if (s[0] ** 2) ** (s[2] ** 2) * (s[1] ** 2) ** (s[3] ** 2) <= 4096]
    na, nb, nx, ny = draw(st.sampled_from(shapes))
    c = draw(_random_game(r=r, na=na, nb=nb))
    # real and complex predicates are separate sub-checks: for complex predicates the constructor keeps only the real
    # parts of the operators (real work buffers), which would otherwise hide everything else this sub-check looks at
    c["cplx"] = cplx
    if cplx:
        c["r"] = 2  # a 1 x 1 PSD operator is real
    c["X"], c["Y"] = nx, ny
    c["counts"] = draw(gen.dyadic_probs(nx * ny, m=6))
    return c


@st.composite
def _reps2_parity_case(draw):
    """2 x 2 questions, 2 x 2 answers, XOR-like predicates: the family on which the value of the repeated game exceeds the
    square of the single-round value (65 536 answer-function pairs in the repeated game: a few seconds per case)."""
    r = draw(st.integers(1, 2))
    c = draw(_random_game(r=r, na=2, nb=2))
    c["cplx"] = draw(st.booleans()) if r == 2 else False
    c["X"], c["Y"] = 2, 2
    c["zero"] = 0
    c["counts"] = draw(st.sampled_from([[16, 16, 16, 16], [16, 16, 16, 16], [20, 12, 16, 16], [12, 20, 20, 12], [24, 8, 16, 16]]))
    flip = [draw(st.integers(0, 1)) for _ in range(3)]
    # odd-parity (CHSH-type) tables: x & y up to relabelling of questions and of the answer bit
    c["parity"] = [[(((x ^ flip[0]) & (y ^ flip[1])) ^ flip[2]) for y in range(2)] for x in range(2)]
    c["leak"] = draw(st.sampled_from([0.0, 0.0, 0.25]))
    c["common"] = draw(st.booleans())
    return c


def check_reps2(case):
    from toqito.nonlocal_games.extended_nonlocal_game import ExtendedNonlocalGame

    prob, pred = H.build_game(case)
    game2 = ExtendedNonlocalGame(prob, pred, 2)
    p2, v2 = H.product_game(prob, pred, 2)
    got_pred = np.asarray(game2.pred_mat)
    req(got_pred.shape == v2.shape, f"two-repetition pred_mat has shape {got_pred.shape}, expected {v2.shape}", "reps2_shape")
    if not np.allclose(got_pred, v2, atol=1e-9):
        real_only = H.product_game(prob, np.real(pred), 2)[1]
        sig = "reps2_pred_mat_keeps_real_parts_only" if np.iscomplexobj(pred) and np.allclose(got_pred, real_only, atol=1e-9) else "reps2_pred_mat"
        raise Violation(
            f"ExtendedNonlocalGame(prob, pred, reps=2): predicate operators of the repeated game differ from V (x) V (max abs diff {np.max(np.abs(got_pred - v2)):.3g}"
            + ("; they equal Re V (x) Re V: imaginary parts dropped)" if sig != "reps2_pred_mat" else ")"),
            sig,
        )
    req(np.allclose(np.asarray(game2.prob_mat), p2, atol=1e-12), "two-repetition question distribution is not pi (x) pi", "reps2_prob_mat")
    val, const, _ = H.brute_unentangled(p2, v2)
    one, _, _ = H.brute_unentangled(prob, pred)
    if val < one * one - 1e-9:
        raise HarnessError("product-game oracle below the squared single-shot value")
    got = _f(lambda: game2.unentangled_value(), "unentangled")
    if abs(got - val) > 5e-4:
        sig = "unentangled=max_over_constant_answer_pairs" if (got < val and abs(got - const) <= 5e-4) else "reps2_unentangled_value"
        raise Violation(f"two repetitions: unentangled_value = {got:.6f}, brute force on V (x) V gives {val:.6f} (single shot {one:.6f})", sig)


def nt_reps2(case):
    return f"reps2:r={case['r']}:{'complex' if case['cplx'] else 'real'}" if case["X"] * case["Y"] > 1 or case["r"] > 1 else None


# ------------------------------------------------------------------------------------------
# 3. non-signalling value
# ------------------------------------------------------------------------------------------
@_games_unchanged
def check_ns(case):
    prob, pred, game = _game(case)
    got = _f(lambda: game.nonsignaling_value(), "ns")
    ref_ns = H.ns_value_sdp(prob, pred)
    # the oracle itself is cross-checked: closed forms of the named games, exact LP for r = 1
    exact = [(_closed(case, "ns"), "closed form")]
    if pred.shape[0] == 1:
        exact.append((H.ns_value_r1(prob, pred), "exact LP"))
    for ex, what in exact:
        if ex is None:
            continue
        if abs(ref_ns - ex) > 1e-4:
            raise HarnessError(f"oracle NS SDP {ref_ns} disagrees with the {what} {ex} ({case['family']})")
        if abs(ref_ns - ex) > 1e-5:
            raise Inconclusive("oracle_imprecise")
    req(abs(got - ref_ns) <= TOL, f"nonsignaling_value = {got:.6f}, independent non-signalling program gives {ref_ns:.6f} (pred_mat shape {pred.shape})", "ns_value")
    val, _ = _brute(case, prob, pred)
    req(got >= val - TOL, f"nonsignaling_value = {got:.6f} is below the unentangled value {val:.6f}", "ns<unentangled")
    req(got <= 1 + TOL, f"nonsignaling_value = {got:.6f} exceeds 1 although every predicate operator is <= I", "ns>1")


# ------------------------------------------------------------------------------------------
# 4./5. NPA upper bound is sound (>= unentangled) and below the non-signalling value; closed forms
# ------------------------------------------------------------------------------------------
def _npa_levels(case):
    r, na, nb, nx, ny = _final_shape(case)
    words1 = 1 + nx * (na - 1) + ny * (nb - 1)
    lev = [1]
    extra = case.get("level")
    if extra and r * words1 <= 12:
        lev.append(extra)
    return lev


@_games_unchanged
def check_npa_sound(case):
    prob, pred, game = _game(case)
    val, _ = _brute(case, prob, pred)
    ns = H.ns_value_sdp(prob, pred)
    got = {}
    for k in _npa_levels(case):
        v = _f(lambda: game.commuting_measurement_value_upper_bound(k), f"npa{k}")
        got[k] = v
        req(
            v >= val - TOL,
            f"NPA level {k} value {v:.6f} is below the unentangled value {val:.6f} (achieved by deterministic answers): not an upper bound (pred_mat shape {pred.shape})",
            "npa<unentangled",
        )
        req(v <= ns + TOL, f"NPA level {k} value {v:.6f} exceeds the non-signalling value {ns:.6f} (pred_mat shape {pred.shape})", "npa>ns")
    cf = _closed(case, "npa1")
    if cf is not None:
        req(abs(got[1] - cf) <= TOL, f"{case['family']} (transformed, shape {pred.shape}): NPA level 1 = {got[1]:.6f}, known value {cf:.6f}", "npa!=closed_form")
    for k, v in got.items():
        if k != 1:
            req(v <= got[1] + TOL, f"NPA level {k} value {v:.6f} exceeds the level-1 value {got[1]:.6f}", "npa_not_monotone")
            if cf is not None and case["family"] != "mub":
                # level 1 is already tight for these games, higher levels cannot go below the quantum value
                req(v >= cf - TOL, f"{case['family']}: NPA level {k} = {v:.6f} below the known quantum value {cf:.6f}", "npa!=closed_form")


def _with_level(strategy):
    return st.tuples(strategy, st.sampled_from([None, None, 2, "1+ab"])).map(lambda t: {**t[0], "level": t[1]})


_NPA_NAMED = ["bb84", "chsh", "nlchsh1", "nlchsh2"]
_npa_square = _with_level(_mix(_named_game(_NPA_NAMED, pad="equal"), _random_game(square=True)))
_npa_rect = _with_level(_mix(_named_game(_NPA_NAMED, pad="unequal"), _random_game(square=False)))


# ------------------------------------------------------------------------------------------
# 6. NPA value is invariant under the value-preserving transformations
# ------------------------------------------------------------------------------------------
@st.composite
def _inv_case(draw):
    """r = 1: every transformation.  r > 1: question permutations, player exchange, referee basis change and
    conjugation only.  Reason (found while building this check, see the final note in the module docstring): for r > 1
    toqito's program normalises sum_ab K(a,b|x,y) by its trace only instead of equating it with the referee state of
    the moment matrix, so its level-k value is a valid upper bound (all order relations of the property hold) but not the
    canonical level-k value, and it depends on which answer is enumerated last.  The property text does not promise
    invariance of a relaxation value, so answer relabelling / padding is only asserted where the program is canonical."""
    c = draw(_random_game())
    shape = (c["r"], c["r"], c["A"], c["B"], c["X"], c["Y"])
    c["tf"] = draw(H.tf_strategy(shape, max_pad=1 if max(c["A"], c["B"]) < 3 else 0, relabel=(c["r"] == 1)))
    return c


def check_npa_invariance(case):
    from toqito.nonlocal_games.extended_nonlocal_game import ExtendedNonlocalGame

    prob0, pred0 = H.base_game(case)
    prob1, pred1 = H.transform(prob0, pred0, case["tf"])
    b0 = H.brute_unentangled(prob0, pred0)[0]
    b1 = H.brute_unentangled(prob1, pred1)[0]
    if abs(b0 - b1) > 1e-9:
        raise HarnessError(f"transformation changed the brute-force unentangled value {b0} -> {b1}")
    v0 = _f(lambda: ExtendedNonlocalGame(prob0, pred0).commuting_measurement_value_upper_bound(1), "npa1")
    v1 = _f(lambda: ExtendedNonlocalGame(prob1, pred1).commuting_measurement_value_upper_bound(1), "npa1")
    req(
        abs(v0 - v1) <= TOL,
        f"NPA level 1: {v0:.6f} on the game, {v1:.6f} after a value-preserving transformation (shapes {pred0.shape} -> {pred1.shape})",
        "npa_not_invariant",
    )


def nt_inv(case):
    if H.tf_is_identity(case["tf"]):
        return None
    return nt_game(case) or f"random:r={case['r']}:transformed"


# ------------------------------------------------------------------------------------------
# 7./8./9. see-saw lower bound: an achieved value
# ------------------------------------------------------------------------------------------
def _qlb(game, case):
    with H.pinned_rng(case["rseed"]):
        return _f(lambda: game.quantum_value_lower_bound(iters=1), "qlb")


def _with_rseed(strategy):
    return st.tuples(strategy, st.integers(0, 2**31 - 1)).map(lambda t: {**t[0], "rseed": t[1]})


@_games_unchanged
def check_seesaw(case):
    prob, pred, game = _game(case)
    got = _qlb(game, case)
    ns = H.ns_value_sdp(prob, pred)
    req(got <= ns + TOL, f"quantum_value_lower_bound = {got:.6f} exceeds the non-signalling value {ns:.6f}: not an achieved value (pred_mat shape {pred.shape})", "qlb>ns")
    req(got >= -TOL, f"quantum_value_lower_bound = {got:.6f} is negative", "qlb<0")


@_games_unchanged
def check_seesaw_le_npa(case):
    prob, pred, game = _game(case)
    got = _qlb(game, case)
    npa = _f(lambda: game.commuting_measurement_value_upper_bound(1), "npa1")
    req(
        got <= npa + TOL,
        f"quantum_value_lower_bound (an achieved value) = {got:.6f} exceeds the NPA level-1 'upper bound' {npa:.6f} (pred_mat shape {pred.shape})",
        "qlb>npa",
    )


_SEESAW_NAMED = ["bb84", "chsh", "nlchsh2"]
_seesaw_rb = _with_rseed(_mix(_named_game(_SEESAW_NAMED, pad="none_b", swap=False), _random_game(r_eq_b=True)))
_seesaw_rneb = _with_rseed(_mix(_named_game(_SEESAW_NAMED + ["nlchsh1"], pad="one_b", swap=False), _random_game(r_eq_b=False), 1, 3))
_seesaw_npa = _with_rseed(_mix(_named_game(_SEESAW_NAMED, pad="none_b", swap=False), _random_game(r_eq_b=True)))


# ------------------------------------------------------------------------------------------
# 10. r = 1: same values as NonlocalGame
# ------------------------------------------------------------------------------------------
def check_r1(case):
    from toqito.nonlocal_games.nonlocal_game import NonlocalGame

    prob, pred, game = _game(case)
    flat = np.ascontiguousarray(np.real(pred[0, 0]))
    nl = NonlocalGame(prob, flat)
    e_ns, n_ns = _f(lambda: game.nonsignaling_value(), "ns"), _f(lambda: nl.nonsignaling_value(), "nl_ns")
    req(abs(e_ns - n_ns) <= TOL, f"r = 1: extended non-signalling value {e_ns:.6f} != NonlocalGame value {n_ns:.6f}", "r1_ns")
    e_npa = _f(lambda: game.commuting_measurement_value_upper_bound(1), "npa1")
    n_npa = _f(lambda: nl.commuting_measurement_value_upper_bound(1), "nl_npa1")
    req(abs(e_npa - n_npa) <= TOL, f"r = 1: extended NPA level 1 {e_npa:.6f} != NonlocalGame NPA level 1 {n_npa:.6f} (pred_mat shape {pred.shape})", "r1_npa")
    # (the unentangled value of r = 1 games is compared with the brute force in `unentangled_bruteforce`; NonlocalGame's
    #  classical_value belongs to C07)


_r1 = _mix(_named_game(["nlchsh1"], pad="any"), _random_game(r=1), 1, 4)


# ==========================================================================================
# hedging
# ==========================================================================================
_GRID = [i / 16 for i in range(1, 16)]


@st.composite
def _hedge_case(draw, cplx):
    fam = draw(st.sampled_from(["random", "random", "doc", "doc_exact", "product", "random2"]))
    c = {"fam": fam, "cplx": cplx, "seed": draw(gen.SEED)}
    if fam in ("random", "product"):
        c["rank"] = draw(st.integers(1, 4))
    elif fam == "random2":
        c["rank"] = draw(st.integers(1, 6))
    else:
        c["alpha"] = draw(st.sampled_from(_GRID)) if fam == "doc" else None
        c["theta"] = draw(st.sampled_from(_GRID)) if fam == "doc" else None
        c["which"] = draw(st.sampled_from(["q0", "q1"]))
        c["rot"] = cplx or draw(st.booleans())
        c["n"] = draw(st.sampled_from([1, 1, 1, 2]))
    if fam == "product":
        c["sub"] = draw(st.sampled_from(["random", "doc"]))
        if c["sub"] == "doc":
            c["alpha"], c["theta"] = draw(st.sampled_from(_GRID)), draw(st.sampled_from(_GRID))
            c["which"] = draw(st.sampled_from(["q0", "q1"]))
            c["rot"] = cplx or draw(st.booleans())
    return c


def _rand_q(seed, d, rank, cplx):
    g = gen.rng(seed)
    a = g.normal(size=(d, rank))
    if cplx:
        a = a + 1j * g.normal(size=(d, rank))
    q = a @ a.conj().T
    q = (q + q.conj().T) / 2
    return q / float(np.linalg.eigvalsh(q)[-1])


def _doc_q(c):
    if c.get("alpha") is None:
        alpha, theta = 1 / np.sqrt(2), np.pi / 8
    else:
        alpha, theta = float(c["alpha"]), float(c["theta"]) * np.pi / 2
    q0, q1 = H.hedging_q(alpha, theta)
    q = q0 if c["which"] == "q0" else q1
    if c.get("rot"):
        real = not c["cplx"]
        u = np.kron(gen.rand_unitary(c["seed"], 2, real=real), gen.rand_unitary(c["seed"] // 2 + 1, 2, real=real))
        q = u @ q @ u.conj().T
        q = (q + q.conj().T) / 2
        if real:
            q = q.real
    return q


def _hedge_build(c):
    """returns (Q, n, q1) where q1 is the single-repetition operator when Q = q1 (x) q1, else None"""
    fam = c["fam"]
    if fam == "random":
        return _rand_q(c["seed"], 4, c["rank"], c["cplx"]), 1, None
    if fam == "random2":
        return _rand_q(c["seed"], 16, c["rank"], c["cplx"]), 2, None
    if fam in ("doc", "doc_exact"):
        q = _doc_q(c)
        if c["n"] == 2:
            return np.kron(q, q), 2, q
        return q, 1, None
    q = _rand_q(c["seed"], 4, c["rank"], c["cplx"]) if c["sub"] == "random" else _doc_q(c)
    return np.kron(q, q), 2, q


def check_hedging(case):
    from toqito.nonlocal_games.quantum_hedging import QuantumHedging

    q, n, q1 = _hedge_build(case)
    keep = [2 * i + 1 for i in range(n)]  # systems are ordered Y_1 X_1 ... Y_n X_n; the constraint is Tr_Y X = I_X
    lo_max, hi_max = H.sdp_interval(q, 2 * n, keep)
    nhi, nlo = H.sdp_interval(-q, 2 * n, keep)
    lo_min, hi_min = -nlo, -nhi
    if q1 is not None:
        # maximum is multiplicative for PSD Q (product strategies / product dual certificates)
        l1, h1 = H.sdp_interval(q1, 2, [1])
        if not (l1 * l1 - 1e-6 <= hi_max and lo_max <= h1 * h1 + 1e-6):
            raise HarnessError(f"oracle: max value of Q(x)Q [{lo_max},{hi_max}] is not the square of the single-shot value [{l1},{h1}]")
        m1lo, m1hi = H.sdp_interval(-q1, 2, [1])
        if lo_min > (-m1lo) ** 2 + 1e-6:
            raise HarnessError("oracle: min value of Q(x)Q exceeds the squared single-shot minimum")
    if case["fam"] == "doc_exact" and case["which"] == "q0":
        if not (lo_max - 1e-6 <= C8**n <= hi_max + 1e-6):
            raise HarnessError(f"oracle: certified interval [{lo_max}, {hi_max}] misses the documented value cos^2(pi/8)^n")
    h = QuantumHedging(q, n)
    methods = {
        "max_primal": lambda: h.max_prob_outcome_a_primal(),
        "max_dual": lambda: h.max_prob_outcome_a_dual(),
        "min_primal": lambda: h.min_prob_outcome_a_primal(),
        "min_dual": lambda: h.min_prob_outcome_a_dual(),
    }
    # the four methods are called on ONE object in an order derived from the case, and the first two are then called
    # again: a method that leaves the object changed (seeded change C09-t2: min_dual negating the stored operator and
    # not restoring it) was invisible while min_dual happened to be called last
    from tqv.core import case_hash

    order = [list(methods)[i] for i in np.random.Generator(np.random.PCG64(int(case_hash(case)[:12], 16))).permutation(4)]
    vals = {name: _f(methods[name], name) for name in order}
    for name in order[:2]:
        again = _f(methods[name], name + " (second call on the same object)")
        req(
            abs(again - vals[name]) <= 1e-5 * max(1.0, abs(vals[name])),
            f"{name} returned {vals[name]:.6f} and, after calls of {order}, {again:.6f} on the same QuantumHedging object",
            "hedging_history_dependent",
        )
    tol = _tol(hi_max)
    kind = "complex" if np.iscomplexobj(q) else "real"
    for name in ("max_primal", "max_dual"):
        v = vals[name]
        req(
            lo_max - tol <= v <= hi_max + tol,
            f"{name} = {v:.6f} outside the certified optimum [{lo_max:.6f}, {hi_max:.6f}] ({kind} Q, n = {n}); all values {vals}",
            f"hedging_{name}_value",
        )
    for name in ("min_primal", "min_dual"):
        v = vals[name]
        req(
            lo_min - tol <= v <= hi_min + tol,
            f"{name} = {v:.6f} outside the certified optimum [{lo_min:.6f}, {hi_min:.6f}] ({kind} Q, n = {n}); all values {vals}",
            f"hedging_{name}_value",
        )
    req(abs(vals["max_primal"] - vals["max_dual"]) <= tol, f"max primal {vals['max_primal']:.6f} != max dual {vals['max_dual']:.6f}", "hedging_max_primal!=dual")
    req(abs(vals["min_primal"] - vals["min_dual"]) <= tol, f"min primal {vals['min_primal']:.6f} != min dual {vals['min_dual']:.6f}", "hedging_min_primal!=dual")
    req(vals["max_primal"] >= vals["min_primal"] - tol and vals["max_dual"] >= vals["min_dual"] - tol, f"maximal probability below the minimal one: {vals}", "hedging_max<min")


def nt_hedge(case):
    rank = case.get("rank", 3 if case.get("which") == "q0" else 1)
    n = 1 if case["fam"] == "random" else (case.get("n", 2))
    if rank < 2:
        return None
    return f"hedging:{case['fam']}:n={n}:{'complex' if case['cplx'] else 'real'}"


# ==========================================================================================
# cloning
# ==========================================================================================
@st.composite
def _clone_case(draw, cplx, reps):
    fams = ["random", "random", "random", "single", "orth", "wiesner"] + (["sixstate"] if cplx else [])
    fam = draw(st.sampled_from(fams))
    k = {"single": 1, "orth": 2, "wiesner": 4, "sixstate": 6}.get(fam) or draw(st.integers(2, 4))
    c = {
        "fam": fam,
        "cplx": cplx,
        "k": k,
        "seeds": [draw(gen.SEED) for _ in range(k if fam == "random" else 1)],
        "useed": draw(gen.SEED),
        "reps": reps,
        "form": draw(st.sampled_from(["ket", "ket", "dm"])),
        "primal": draw(st.booleans()),
    }
    if fam in ("wiesner", "sixstate"):
        c["counts"] = [64 // k] * k if 64 % k == 0 else None
    else:
        c["counts"] = draw(gen.dyadic_probs(k, m=6, allow_zero=False))
    c["urot"] = fam == "random" and draw(st.booleans())
    # native dtypes: real kets stored as float arrays next to complex ones, no common rotation (seeded change C09-t3
    # decides from the first state's dtype whether to conjugate; every generated ensemble had a single dtype)
    c["native"] = cplx and fam in ("sixstate", "random") and draw(st.booleans())
    return c


def _clone_states(c):
    real = not c["cplx"]
    u = gen.rand_unitary(c["useed"], 2, real=real)
    fam = c["fam"]
    s2 = 1 / np.sqrt(2)
    native = bool(c.get("native"))
    if native:
        u = np.eye(2)
    if fam == "random":
        base = [gen.rand_ket(s, 2, real=real or (native and i == 0)) for i, s in enumerate(c["seeds"])]
        if native:
            base[0] = np.real(base[0])
        kets = base
    elif fam == "single":
        kets = [u @ np.array([1.0, 0.0])]
    elif fam == "orth":
        kets = [u @ np.array([1.0, 0.0]), u @ np.array([0.0, 1.0])]
    elif fam == "wiesner":
        kets = [u @ np.array(v) for v in ([1.0, 0.0], [0.0, 1.0], [s2, s2], [s2, -s2])]
    else:
        kets = [u @ np.array(v) for v in ([1.0, 0.0], [0.0, 1.0], [s2, s2], [s2, -s2], [s2, 1j * s2], [s2, -1j * s2])]
    kets = [np.asarray(k).reshape(2, 1) for k in kets]
    if native:
        kets = [np.real(k) if not np.any(np.imag(k)) else k for k in kets]
    if c["counts"] is None:
        probs = [1 / c["k"]] * c["k"]
    else:
        probs = gen.exact_probs(c["counts"])
    return kets, probs, u


def _clone_inputs(kets, form):
    if form == "dm":
        return [k @ k.conj().T for k in kets]
    return kets


def check_clone(case):
    from toqito.state_opt import optimal_clone

    kets, probs, u = _clone_states(case)
    reps = case["reps"]
    lo, hi = H.sdp_interval(H.clone_q(kets, probs), 3, [2])
    closed = {"single": 1.0, "orth": 1.0, "wiesner": 0.75, "sixstate": 2 / 3}.get(case["fam"])
    if closed is not None and not (lo - 1e-5 <= closed <= hi + 1e-5):
        raise HarnessError(f"oracle interval [{lo},{hi}] misses the closed form {closed} of {case['fam']}")
    if closed is not None:
        lo = hi = closed
    lo, hi = lo**reps, hi**reps  # the counterfeiting SDP is multiplicative (product attack / product dual certificate)
    states = _clone_inputs(kets, case["form"])
    kind = "complex" if case["cplx"] else "real"
    dual = _f(lambda: optimal_clone(states, list(probs), reps, False), "clone_dual")
    req(lo - TOL <= dual <= hi + TOL, f"optimal_clone dual value {dual:.6f} outside the certified optimum [{lo:.6f}, {hi:.6f}] ({kind} {case['fam']} ensemble, k = {case['k']}, reps = {reps})", "clone_dual_value")
    req(0 < dual <= 1 + TOL, f"optimal_clone = {dual:.6f} is not in (0, 1]", "clone_range")
    if case["primal"]:
        primal = _f(lambda: optimal_clone(states, list(probs), reps, True), "clone_primal")
        req(abs(primal - dual) <= TOL, f"optimal_clone primal {primal:.6f} != dual {dual:.6f} ({kind} {case['fam']} ensemble, k = {case['k']}, reps = {reps}; certified [{lo:.6f}, {hi:.6f}])", "clone_primal!=dual")
    if case["urot"]:
        rot = _clone_inputs([u @ k for k in kets], case["form"])
        dual_rot = _f(lambda: optimal_clone(rot, list(probs), reps, False), "clone_dual")
        req(abs(dual_rot - dual) <= TOL, f"optimal_clone changes under a common unitary: {dual:.6f} -> {dual_rot:.6f}", "clone_not_unitarily_invariant")


def nt_clone(case):
    if case["fam"] in ("single", "orth"):
        return None
    return f"clone:{case['fam']}:k={case['k']}:reps={case['reps']}:{'complex' if case['cplx'] else 'real'}"


# ==========================================================================================
_ALL_NAMED = ["bb84", "chsh", "mub", "nlchsh1", "nlchsh2"]
_T = 60.0

SUBCHECKS = [
    SubCheck("unentangled_bruteforce", check_unentangled, _mix(_named_game(_ALL_NAMED), _random_game()), nt_game, quick=400, thorough=4000, shards=8, case_timeout=_T),
    SubCheck("reps2_unentangled", check_reps2, lambda: _reps2_case(False), nt_reps2, quick=32, thorough=320, shards=4, case_timeout=_T),
    SubCheck("reps2_parity", check_reps2, _reps2_parity_case, lambda c: f"parity:r={c['r']},leak={c['leak']},common={c['common']}", quick=16, thorough=160, shards=8, case_timeout=_T),
    SubCheck("reps2_complex", check_reps2, lambda: _reps2_case(True), nt_reps2, quick=12, thorough=120, shards=2, case_timeout=_T),
    SubCheck("ns_value", check_ns, _mix(_named_game(_ALL_NAMED), _random_game(), 1, 3), nt_game, quick=128, thorough=1300, case_timeout=_T),
    SubCheck("npa_sound_square", check_npa_sound, _npa_square, nt_game, quick=96, thorough=1000, case_timeout=_T),
    SubCheck("npa_sound_rect", check_npa_sound, _npa_rect, nt_game, quick=96, thorough=1000, case_timeout=_T),
    SubCheck("npa_invariance", check_npa_invariance, _inv_case, nt_inv, quick=48, thorough=480, shards=8, case_timeout=_T),
    SubCheck("seesaw_r_eq_B", check_seesaw, _seesaw_rb, nt_game, quick=64, thorough=640, case_timeout=_T),
    SubCheck("seesaw_r_ne_B", check_seesaw, _seesaw_rneb, nt_game, quick=32, thorough=320, shards=8, case_timeout=_T),
    SubCheck("seesaw_le_npa", check_seesaw_le_npa, _seesaw_npa, nt_game, quick=48, thorough=480, shards=8, case_timeout=_T),
    SubCheck("r1_nonlocal_game", check_r1, _r1, nt_game, quick=48, thorough=480, shards=8, case_timeout=_T),
    SubCheck("hedging_real", check_hedging, lambda: _hedge_case(False), nt_hedge, quick=128, thorough=1500, shards=8, case_timeout=_T),
    SubCheck("hedging_complex", check_hedging, lambda: _hedge_case(True), nt_hedge, quick=128, thorough=1500, shards=8, case_timeout=_T),
    SubCheck("clone_real", check_clone, lambda: _clone_case(False, 1), nt_clone, quick=96, thorough=1000, shards=4, case_timeout=_T),
    SubCheck("clone_real_reps2", check_clone, lambda: _clone_case(False, 2), nt_clone, quick=16, thorough=160, shards=8, case_timeout=_T),
    SubCheck("clone_complex", check_clone, lambda: _clone_case(True, 1), nt_clone, quick=96, thorough=1000, shards=4, case_timeout=_T),
    SubCheck("clone_complex_reps2", check_clone, lambda: _clone_case(True, 2), nt_clone, quick=24, thorough=240, shards=8, case_timeout=_T),
]
