"""C04 — one linear map, many representations: all of them act identically.

Functions under test: apply_channel, kraus_to_choi, choi_to_kraus, partial_channel, natural_representation,
channel_dim.
Oracles (plain numpy, none of them calls toqito): Phi(X) = sum_i A_i X B_i^dagger, J = sum_ij E_ij (x) Phi(E_ij),
the Choi action Phi(X)[a,b] = sum_ik X[i,k] J[(i,a),(k,b)], explicit Kronecker-extended Kraus operators for
id (x) Phi (x) id, row-major vec.

A *map spec* is {"kind","i1","i2","o1","o2","r","signs","cplx","src","seed"}: r pairs (A_k, B_k) with A_k of shape
o1 x i1 and B_k of shape o2 x i2, so that Phi: M_{i1,i2} -> M_{o1,o2}.  kind "cp": B_k = A_k; kind "herm":
B_k = signs[k] * A_k with at least one minus sign (Hermiticity preserving, Choi matrix Hermitian, generically
indefinite); kind "gen": independent A_k, B_k (possibly of different shapes).  The helpers of this module are also used
by c05.py.
"""

from __future__ import annotations

import numpy as np
from hypothesis import strategies as st

from tqv import gen, ref
from tqv.core import SubCheck, Violation, req, unlisted_rejection

# ------------------------------------------------------------------------------------------
# caller-owned arguments must come back unchanged and a repeated call must give the same answer (added after seeded
# change C04-s4 - partial_channel writing the extended operators into the caller's Kraus list - was missed)
# ------------------------------------------------------------------------------------------
def _snap(o):
    if isinstance(o, np.ndarray):
        return ("a", o.shape, str(o.dtype), o.copy())
    if isinstance(o, (list, tuple)):
        return ("l", type(o).__name__, [_snap(x) for x in o])
    return ("v", repr(o))


def _same(s, o):
    if s[0] == "a":
        return isinstance(o, np.ndarray) and o.shape == s[1] and str(o.dtype) == s[2] and np.array_equal(o, s[3])
    if s[0] == "l":
        return isinstance(o, (list, tuple)) and type(o).__name__ == s[1] and len(o) == len(s[2]) and all(_same(a, b) for a, b in zip(s[2], o))
    return repr(o) == s[1]


def _flat_out(o):
    if isinstance(o, (list, tuple)):
        return [y for x in o for y in _flat_out(x)]
    return [np.asarray(o)]


def _pure(fn):
    name = getattr(fn, "__name__", "function")

    def wrapped(*args, **kwargs):
        snaps = [_snap(a) for a in args], {k: _snap(v) for k, v in kwargs.items()}
        out = fn(*args, **kwargs)
        ok = all(_same(sa, a) for sa, a in zip(snaps[0], args)) and all(_same(snaps[1][k], v) for k, v in kwargs.items())
        req(ok, f"{name} modified an argument owned by the caller", "args-mutated:" + name)
        again = fn(*args, **kwargs)
        a1, a2 = _flat_out(out), _flat_out(again)
        req(len(a1) == len(a2) and all(x.shape == y.shape and np.allclose(x, y, rtol=0, atol=1e-12 * max(1.0, float(np.max(np.abs(x))) if x.size else 1.0)) for x, y in zip(a1, a2)), f"a second identical call of {name} returned a different result", "history-dependent:" + name)
        return out

    wrapped.__name__ = name
    return wrapped


# caller-owned arrays handed to the library must come back unchanged (see tqv/purity.py)
from tqv.purity import install as _install_purity  # noqa: E402

_install_purity('toqito.channel_ops', 'toqito.helper', twice=True)

PROPERTY = "C04"
RULE = (
    "Cases are drawn by Hypothesis: a linear map given by r in 1..5 pairs (A_k, B_k) with input/output dimensions "
    "1..4 drawn independently for the left and the right side (kind cp: B=A, herm: B=+-A with a minus sign, gen: "
    "independent, possibly different shapes), real or complex, entries small integers (exact arithmetic, degenerate "
    "spectra, integer dtype) or Gaussian from a drawn 63-bit seed; an input operator X; the representation forms flat "
    "list, nested [[K]], single row [[K1..Kr]] (r>2), pairs [[A,B]] and the reference Choi matrix; for partial_channel "
    "1..3 subsystems, every 1-indexed target position, surrounding row/column dims 1..3, the dim-argument form; for the "
    "chains a drawn length 1..4 of alternating kraus_to_choi / choi_to_kraus calls from a drawn start form.  A case is "
    "non-trivial when (input dim != output dim and complex entries) or (non-CP pairs whose A and B have different "
    "shapes) or (conversion chain of length >= 3) or, for partial_channel, (>= 2 subsystems and one of the former or "
    "rectangular surroundings).  distinct = distinct SHA-1 of the canonical case JSON among non-trivial cases."
)
ASSUMPTIONS = [
    "whenever a Choi matrix is passed to toqito both input dimensions are >= 2 (so neither the input operator nor "
    "the Choi matrix has a side of length 1: such arrays are treated as vectors by permute_systems / swap)",
    "single-row form [[K1..Kr]] is only a CP form for r > 2 (r = 2 is read as one (A, B) pair: that is how the library "
    "disambiguates)",
    "choi_to_kraus is judged by a validity predicate (returned family reproduces the map), never by one expected "
    "family; 'flat list iff PSD' is asserted only when the Choi matrix is PSD to 1e-12*scale or has an eigenvalue "
    "below -1e-3*scale; Choi matrices are exactly Hermitian or non-Hermitian by an O(1) margin (is_hermitian uses "
    "rtol 1e-5)",
    "natural_representation accepts a flat list of Kraus operators only (its signature)",
    "kraus_to_choi: sys omitted or 2 gives J = sum E_ij (x) Phi(E_ij) (the property text); sys=1 is held to the same entries with the tensor factors exchanged",
    "channel_dim's environment dimension of a Choi matrix is compared with r only when the r pairs are linearly "
    "independent by a margin (smallest of the r leading singular values > 1e-6 * largest)",
    "partial_channel with a CP list form (flat / nested / single row) is drawn with square surroundings in the main "
    "sub-check; CP list forms with different surrounding row and column dims are the separate sub-check "
    "partial_channel_cp_list_rect (one root cause, own signature), likewise Hermitian Choi matrices of maps between "
    "rectangular operator spaces (choi_to_kraus_hermitian_rect)",
    "numpy matmul / kron / einsum are trusted as the reference arithmetic",
]

DMAX = 4
RMAX = 5


# ------------------------------------------------------------------------------------------
# map specs and builders (shared with c05)
# ------------------------------------------------------------------------------------------
@st.composite
def map_spec(draw, kinds=("cp", "herm", "gen", "gen"), imin=1, omin=1, dmax=DMAX, rmax=RMAX, square=False):
    kind = draw(st.sampled_from(list(kinds)))
    i1 = draw(st.integers(imin, dmax))
    o1 = i1 if square else draw(st.integers(omin, dmax))
    i2, o2 = i1, o1
    if kind == "gen" and not square and draw(st.integers(0, 2)) > 0:
        i2 = draw(st.integers(imin, dmax))
        o2 = draw(st.integers(omin, dmax))
    r = draw(st.integers(1, rmax))
    signs = [1] * r
    if kind == "herm":
        signs = [draw(st.sampled_from([1, -1])) for _ in range(r)]
        if all(s == 1 for s in signs):
            signs[draw(st.integers(0, r - 1))] = -1
    return {
        "kind": kind,
        "i1": i1,
        "i2": i2,
        "o1": o1,
        "o2": o2,
        "r": r,
        "signs": signs,
        "cplx": draw(st.booleans()),
        "src": draw(st.sampled_from(["int", "prng"])),
        "seed": draw(gen.SEED),
        # mixed dtypes inside one operator list: the first pair is real-valued with a real dtype, the later ones complex
        # (added after seeded change C04-t1, which decides a "real fast path" from the first operator alone, was missed)
        "real_first": draw(st.integers(0, 3)) == 0,
        # general (paired) maps whose LEFT operators are all real-dtype while the right ones are complex (seeded change
        # C04-w1 decided a conjugation-free shortcut from the dtype of the left operators only)
        "left_real": draw(st.integers(0, 3)) == 0,
    }


def _entries(g, rows, cols, src, cplx):
    if src == "int":
        a = g.integers(-2, 3, size=(rows, cols))
        if cplx:
            a = a + 1j * g.integers(-2, 3, size=(rows, cols))
        return a
    a = g.normal(size=(rows, cols))
    if cplx:
        a = a + 1j * g.normal(size=(rows, cols))
    return a


def build_pairs(m):
    """list of [A_k, B_k] (numpy arrays; integer dtype for src=int, real)."""
    g = gen.rng(m["seed"])
    out = []
    for k in range(m["r"]):
        cplx = m["cplx"] and not (k == 0 and m.get("real_first") and m["r"] >= 2)
        a = _entries(g, m["o1"], m["i1"], m["src"], cplx and not (m["kind"] == "gen" and m.get("left_real")))
        if m["kind"] == "gen":
            b = _entries(g, m["o2"], m["i2"], m["src"], cplx)
        else:
            b = m["signs"][k] * a
        out.append([a, b])
    return out


def build_x(seed, rows, cols, src, cplx):
    return _entries(gen.rng(seed), rows, cols, src, cplx)


def is_cp(m):
    return m["kind"] == "cp"


def choi_ok(m):
    """the reference Choi matrix of this map is inside the accepted domain of the Choi-taking functions"""
    return m["i1"] >= 2 and m["i2"] >= 2


def kraus_forms(m, pairs):
    """every accepted Kraus-type representation of the same map: {form name: object}"""
    forms = {"pairs": [[a, b] for a, b in pairs]}
    if is_cp(m):
        ks = [a for a, _ in pairs]
        forms["flat"] = list(ks)
        forms["nested"] = [[k] for k in ks]
        if len(ks) > 2:
            forms["row"] = [list(ks)]
    return forms


def dim_matrix(m):
    return [[m["i1"], m["o1"]], [m["i2"], m["o2"]]]


def apply_ref(pairs, x, out_shape):
    """sum_k A_k X B_k^dagger (zero map for an empty family)."""
    acc = np.zeros(out_shape, dtype=complex)
    for a, b in pairs:
        acc = acc + np.asarray(a) @ x @ np.asarray(b).conj().T
    return acc


def choi_ref(pairs, i1, i2):
    return ref.choi_of_pairs([(np.asarray(a), np.asarray(b)) for a, b in pairs], i1, i2)


def choi_input(m, pairs):
    """the Choi matrix handed to toqito: the reference formula, exactly Hermitian for the kinds built Hermitian"""
    j = choi_ref(pairs, m["i1"], m["i2"])
    if m["kind"] in ("cp", "herm"):
        j = (j + j.conj().T) / 2
    return j


def apply_choi_ref(j, x, i1, o1, i2, o2):
    """Phi(X)[a,b] = sum_{ik} X[i,k] J[(i,a),(k,b)]."""
    t = np.asarray(j).reshape(i1, o1, i2, o2)
    return np.einsum("ik,iakb->ab", x, t)


def fro(a):
    return float(np.linalg.norm(np.asarray(a)))


def map_scale(pairs):
    return max(1.0, sum(fro(a) * fro(b) for a, b in pairs))


def close(out, exp, tol, what, sig="value"):
    out = np.asarray(out)
    req(out.shape == exp.shape, f"{what}: shape {out.shape} != expected {exp.shape}", "shape:" + sig)
    err = float(np.max(np.abs(out - exp))) if exp.size else 0.0
    req(err <= tol, f"{what}: max abs deviation {err:.3e} > {tol:.1e}", sig)


def as_pairs(family, what):
    """normalise a Kraus-type family returned by toqito to a list of (A, B); checks the structure."""
    req(isinstance(family, list), f"{what}: expected a list, got {type(family).__name__}", "structure")
    if not family:
        return [], True
    if isinstance(family[0], np.ndarray):
        req(all(isinstance(k, np.ndarray) for k in family), f"{what}: mixed flat list", "structure")
        return [(k, k) for k in family], True
    out = []
    for kp in family:
        req(isinstance(kp, (list, tuple)) and len(kp) == 2, f"{what}: entries are neither arrays nor (A, B) pairs", "structure")
        out.append((np.asarray(kp[0]), np.asarray(kp[1])))
    return out, False


def nt_map(m):
    if (m["i1"] != m["o1"] or m["i2"] != m["o2"]) and m["cplx"]:
        return "din!=dout,complex"
    if m["kind"] == "gen" and (m["i1"], m["o1"]) != (m["i2"], m["o2"]):
        return "noncp,A!=B shapes"
    return None


# ------------------------------------------------------------------------------------------
# 1. apply_channel: every representation of the same map gives sum A X B^dagger
# ------------------------------------------------------------------------------------------
@st.composite
def _apply_case(draw):
    m = draw(map_spec())
    return {
        "map": m,
        "xseed": draw(gen.SEED),
        "xsrc": draw(st.sampled_from(["int", "prng"])),
        "xcplx": draw(st.booleans()),
    }


def check_apply(case):
    from toqito.channel_ops import apply_channel

    apply_channel = _pure(apply_channel)

    m = case["map"]
    pairs = build_pairs(m)
    x = build_x(case["xseed"], m["i1"], m["i2"], case["xsrc"], case["xcplx"])
    exp = apply_ref(pairs, x, (m["o1"], m["o2"]))
    tol = 1e-9 * map_scale(pairs) * max(1.0, fro(x))
    forms = kraus_forms(m, pairs)
    if choi_ok(m):
        forms["choi"] = choi_ref(pairs, m["i1"], m["i2"])
    for name, rep in forms.items():
        out = apply_channel(x, rep)
        close(out, exp, tol, f"apply_channel(X, <{name}>) vs sum A X B^dagger", "apply:" + name)


# ------------------------------------------------------------------------------------------
# 2. kraus_to_choi = sum_ij E_ij (x) Phi(E_ij)
# ------------------------------------------------------------------------------------------
def check_k2c(case):
    from toqito.channel_ops import kraus_to_choi

    kraus_to_choi = _pure(kraus_to_choi)

    m = case["map"]
    pairs = build_pairs(m)
    jref = choi_ref(pairs, m["i1"], m["i2"])
    tol = 1e-9 * map_scale(pairs)
    for name, rep in kraus_forms(m, pairs).items():
        out = kraus_to_choi(rep)
        close(out, jref, tol, f"kraus_to_choi(<{name}>) vs sum E_ij (x) Phi(E_ij)", "k2c:" + name)
    # the optional second argument names the half of the maximally entangled operator the map acts on: 2 is the default
    # convention above, 1 gives sum_ij Phi(E_ij) (x) E_ij - the same entries with the two tensor factors exchanged
    # (kraus_to_choi is partial_channel on that half, so this is the "id (x) Phi (x) id" clause at its smallest)
    i1, i2 = m["i1"], m["i2"]
    o1, o2 = jref.shape[0] // i1, jref.shape[1] // i2
    jswap = jref.reshape(i1, o1, i2, o2).transpose(1, 0, 3, 2).reshape(o1 * i1, o2 * i2)
    for name, rep in kraus_forms(m, pairs).items():
        out = kraus_to_choi(rep, 2)
        close(out, jref, tol, f"kraus_to_choi(<{name}>, 2) vs sum E_ij (x) Phi(E_ij)", "k2c:sys2:" + name)
        out = kraus_to_choi(rep, 1)
        close(out, jswap, tol, f"kraus_to_choi(<{name}>, 1) vs sum Phi(E_ij) (x) E_ij", "k2c:sys1:" + name)


# ------------------------------------------------------------------------------------------
# 3. choi_to_kraus: validity predicate
# ------------------------------------------------------------------------------------------
@st.composite
def _c2k_case(draw):
    m = draw(map_spec(imin=2))
    forms = ["matrix", "matrix_array"]
    if (m["i1"], m["o1"]) == (m["i2"], m["o2"]):
        forms.append("vector")
        if m["i1"] == m["o1"]:
            forms += ["omitted", "scalar"]
    return {"map": m, "dimform": draw(st.sampled_from(forms)), "xseeds": [draw(gen.SEED) for _ in range(3)]}


def _c2k_dim(m, form):
    if form == "matrix":
        return dim_matrix(m)
    if form == "matrix_array":
        return np.array(dim_matrix(m))
    if form == "vector":
        return [m["i1"], m["o1"]]
    if form == "scalar":
        return int(m["i1"])
    return None


def _check_family(fam, m, jref, scale, xseeds, what, hermitian_rule=True):
    """the family returned by choi_to_kraus for the Choi matrix jref of map spec m is a valid Kraus family of it"""
    i1, i2, o1, o2 = m["i1"], m["i2"], m["o1"], m["o2"]
    fp, flat = as_pairs(fam, what)
    for a, b in fp:
        req(a.shape == (o1, i1) and b.shape == (o2, i2), f"{what}: operator shapes {a.shape}, {b.shape} != {(o1, i1)}, {(o2, i2)}", "c2k:opshape")
    sv = np.linalg.svd(jref, compute_uv=False)
    req(len(fp) <= int(np.sum(sv > 1e-10)), f"{what}: {len(fp)} operators returned for a Choi matrix of rank {int(np.sum(sv > 1e-10))}", "c2k:count")
    if hermitian_rule and fp:
        square = jref.shape[0] == jref.shape[1]
        asym = float(np.max(np.abs(jref - jref.conj().T))) if square else np.inf
        if asym == 0.0 and (i1, o1) == (i2, o2):
            lmin = float(np.linalg.eigvalsh(jref)[0])
            if lmin >= -1e-12 * scale:
                req(flat, f"{what}: PSD Choi matrix (CP map) did not give a flat list", "c2k:flat")
            elif lmin <= -1e-3 * scale:
                req(not flat, f"{what}: indefinite Choi matrix gave a flat (CP) list", "c2k:flat")
        elif asym >= 1e-3 * scale:
            req(not flat, f"{what}: non-Hermitian Choi matrix gave a flat (CP) list", "c2k:flat")
    tol = 1e-7 * scale
    jback = choi_ref(fp, i1, i2) if fp else np.zeros_like(jref)
    close(jback, jref, tol, f"{what}: Choi matrix rebuilt from the returned family", "c2k:choi")
    for s in xseeds:
        x = build_x(s, i1, i2, "prng", True)
        exp = apply_choi_ref(jref, x, i1, o1, i2, o2)
        got = apply_ref(fp, x, (o1, o2))
        close(got, exp, tol * max(1.0, fro(x)), f"{what}: action of the returned family on X", "c2k:action")


def check_c2k(case):
    from toqito.channel_ops import choi_to_kraus

    choi_to_kraus = _pure(choi_to_kraus)

    m = case["map"]
    pairs = build_pairs(m)
    jref = choi_input(m, pairs)
    if m["src"] == "int" and not m["cplx"]:
        jref = np.real(jref).astype(np.int64) if case["xseeds"][0] % 2 else np.real(jref)
    dim = _c2k_dim(m, case["dimform"])
    fam = choi_to_kraus(jref, dim=dim) if case["dimform"] != "omitted" else choi_to_kraus(jref)
    _check_family(fam, m, np.asarray(jref, dtype=complex), map_scale(pairs), case["xseeds"], f"choi_to_kraus(J, dim=<{case['dimform']}>)")


# ------------------------------------------------------------------------------------------
# 3b. choi_to_kraus on a Hermitian Choi matrix of a map between *rectangular* operator spaces
#     (rows: i1 -> o1, columns: i2 -> o2 with i1*o1 == i2*o2 but (i1,o1) != (i2,o2))
# ------------------------------------------------------------------------------------------
_HRECT = [(2, 3, 3, 2), (3, 2, 2, 3), (2, 2, 4, 1), (4, 1, 2, 2), (2, 4, 4, 2), (4, 2, 2, 4), (3, 4, 4, 3), (4, 3, 3, 4)]


@st.composite
def _c2k_hrect_case(draw):
    i1, o1, i2, o2 = draw(st.sampled_from(_HRECT))
    return {
        "i1": i1,
        "o1": o1,
        "i2": i2,
        "o2": o2,
        "psd": draw(st.booleans()),
        "rank": draw(st.integers(1, i1 * o1)),
        "cplx": draw(st.booleans()),
        "seed": draw(gen.SEED),
        "xseeds": [draw(gen.SEED) for _ in range(3)],
    }


def check_c2k_hrect(case):
    from toqito.channel_ops import choi_to_kraus

    choi_to_kraus = _pure(choi_to_kraus)

    i1, o1, i2, o2 = case["i1"], case["o1"], case["i2"], case["o2"]
    n = i1 * o1
    g = gen.rng(case["seed"])
    v = g.normal(size=(n, case["rank"]))
    if case["cplx"]:
        v = v + 1j * g.normal(size=(n, case["rank"]))
    s = np.ones(case["rank"]) if case["psd"] else g.choice([-1.0, 1.0], size=case["rank"])
    j = (v * s) @ v.conj().T
    j = (j + j.conj().T) / 2
    m = {"i1": i1, "o1": o1, "i2": i2, "o2": o2}
    fam = choi_to_kraus(j, dim=[[i1, o1], [i2, o2]])
    try:
        _check_family(fam, m, np.asarray(j, dtype=complex), max(1.0, fro(j)), case["xseeds"], "choi_to_kraus(Hermitian J, dim=[[i1,o1],[i2,o2]] rectangular)", hermitian_rule=False)
    except Violation as v_:
        raise Violation(v_.message, "c2k:hermitian-J-rect-spaces") from None


# ------------------------------------------------------------------------------------------
# 3c. choi_to_kraus: the `tol` argument (added after seeded change C04-y2 - signs of a Hermitian indefinite Choi matrix
#     selected with a fixed 1e-8 while the operators are selected with `tol` - was missed: no generated Choi matrix had
#     an eigenvalue anywhere near the threshold).  "Eigenvalues / singular values above tol are kept, the others may be
#     dropped": the family returned must rebuild J up to the part that may be dropped.
# ------------------------------------------------------------------------------------------
@st.composite
def _c2k_tol_case(draw):
    return {
        "d": draw(st.integers(2, 3)),
        "form": draw(st.sampled_from(["herm_indef", "herm_indef", "general"])),
        "cplx": draw(st.booleans()),
        "tol": draw(st.sampled_from([None, 1e-6, 1e-12, 1e-10, 1e-4, 1e-8])),
        "factor": draw(st.sampled_from([3.0, 30.0, 300.0, 1 / 3.0, 1 / 30.0])),
        "sign": draw(st.sampled_from([1, -1])),
        "nsmall": draw(st.integers(1, 2)),
        "seed": draw(gen.SEED),
    }


def check_c2k_tol(case):
    from toqito.channel_ops import choi_to_kraus

    choi_to_kraus = _pure(choi_to_kraus)

    d = case["d"]
    n = d * d
    tol = 1e-9 if case["tol"] is None else case["tol"]
    g = gen.rng(case["seed"])
    lam = g.uniform(0.3, 1.5, size=n) * g.choice([-1.0, 1.0], size=n)
    lam[0], lam[1] = abs(lam[0]), -abs(lam[1])  # clearly indefinite
    small = tol * case["factor"]
    for k in range(case["nsmall"]):
        lam[n - 1 - k] = small * case["sign"] * (1 if k == 0 else -1)
    u = gen.rand_unitary(case["seed"] // 5 + 3, n, real=not case["cplx"])
    if case["form"] == "herm_indef":
        j = (u * lam) @ u.conj().T
        j = (j + j.conj().T) / 2
    else:
        w = gen.rand_unitary(case["seed"] // 7 + 1, n, real=not case["cplx"])
        j = (u * np.abs(lam)) @ w.conj().T
    kw = {} if case["tol"] is None else {"tol": case["tol"]}
    fam = choi_to_kraus(j, **kw)
    what = f"choi_to_kraus(<{case['form']} Choi matrix with {case['nsmall']} eigen/singular value(s) of size {small:.1e}>, {kw or 'default tol = 1e-9'})"
    fp, _flat = as_pairs(fam, what)
    for a, b in fp:
        req(a.shape == (d, d) and b.shape == (d, d), f"{what}: operator shapes {a.shape}, {b.shape}", "c2k:opshape")
    jback = choi_ref(fp, d, d) if fp else np.zeros_like(j)
    droppable = small if case["factor"] < 1 else 0.0
    err = float(np.linalg.norm(jback - j, 2))
    req(
        err <= 1.5 * droppable + 1e-11,
        f"{what}: the returned family rebuilds J with spectral-norm error {err:.2e}; values above tol must be kept, so at most {droppable:.1e} may be lost",
        "c2k:tol-band",
    )
    if case["factor"] > 1:
        req(len(fp) == n, f"{what}: {len(fp)} operators returned, all {n} eigen/singular values exceed tol", "c2k:tol-band-count")


# ------------------------------------------------------------------------------------------
# 4. conversion chains
# ------------------------------------------------------------------------------------------
@st.composite
def _chain_case(draw):
    m = draw(map_spec(imin=2))
    starts = ["pairs", "choi"]
    if is_cp(m):
        starts += ["flat", "nested"] + (["row"] if m["r"] > 2 else [])
    return {
        "map": m,
        "start": draw(st.sampled_from(starts)),
        "length": draw(st.integers(1, 4)),
        "xseeds": [draw(gen.SEED) for _ in range(2)],
    }


def check_chain(case):
    from toqito.channel_ops import apply_channel, choi_to_kraus, kraus_to_choi

    apply_channel, choi_to_kraus, kraus_to_choi = _pure(apply_channel), _pure(choi_to_kraus), _pure(kraus_to_choi)

    m = case["map"]
    pairs = build_pairs(m)
    i1, i2, o1, o2 = m["i1"], m["i2"], m["o1"], m["o2"]
    jref = choi_input(m, pairs)
    scale = map_scale(pairs)
    tol = 1e-7 * scale
    cur = jref if case["start"] == "choi" else kraus_forms(m, pairs)[case["start"]]
    is_choi = case["start"] == "choi"
    trail = case["start"]
    for _ in range(case["length"]):
        if is_choi:
            cur = choi_to_kraus(cur, dim=dim_matrix(m))
            trail += "->K"
            if isinstance(cur, list) and not cur:
                # the zero map: nothing left to convert
                close(np.zeros_like(jref), jref, tol, f"chain {trail}: empty Kraus family for a non-zero map", "chain:empty")
                return
        else:
            cur = kraus_to_choi(cur)
            trail += "->J"
        is_choi = not is_choi
    if is_choi:
        close(cur, jref, tol, f"chain {trail}: final Choi matrix", "chain:choi")
    else:
        fp, _ = as_pairs(cur, f"chain {trail}")
        # operators of the wrong shape must be reported as such, not crash the reference computation
        bad = [(np.shape(a), np.shape(b)) for a, b in fp if np.shape(a) != (o1, i1) or np.shape(b) != (o2, i2)]
        req(not bad, f"chain {trail}: returned operators have shapes {bad[:3]}, expected {(o1, i1)} / {(o2, i2)}", "chain:operator-shapes")
        close(choi_ref(fp, i1, i2), jref, tol, f"chain {trail}: Choi matrix of the final Kraus family", "chain:choi")
    for s in case["xseeds"]:
        x = build_x(s, i1, i2, "prng", True)
        exp = apply_ref(pairs, x, (o1, o2))
        close(apply_channel(x, cur), exp, tol * max(1.0, fro(x)), f"chain {trail}: action of the final representation", "chain:action")


def nt_chain(case):
    if case["length"] >= 3:
        return "chain>=3"
    return nt_map(case["map"])


# ------------------------------------------------------------------------------------------
# 5. partial_channel = id (x) Phi (x) id
# ------------------------------------------------------------------------------------------
def _surround(draw, n, budget=6):
    out, p = [], 1
    for _ in range(n):
        d = draw(st.integers(1, max(1, min(3, budget // p))))
        out.append(d)
        p *= d
    return out


@st.composite
def _partial_case(draw, cp_list_rect=False):
    m = draw(map_spec(kinds=("cp",), imin=2) if cp_list_rect else map_spec())
    n = draw(st.integers(2, 3) if cp_list_rect else st.integers(1, 3))
    pos = draw(st.integers(0, n - 1))
    sr = _surround(draw, n - 1)
    if cp_list_rect:
        sc = _surround(draw, n - 1)
        if sc == sr:
            k = draw(st.integers(0, n - 2))
            sc[k] = sr[k] % 3 + 1
    else:
        sc = _surround(draw, n - 1) if draw(st.booleans()) else list(sr)
    dr = sr[:pos] + [m["i1"]] + sr[pos:]
    dc = sc[:pos] + [m["i2"]] + sc[pos:]
    forms = ["pairs"]
    if is_cp(m) and (sr == sc or cp_list_rect):
        cpf = ["flat", "nested"] + (["row"] if m["r"] > 2 else [])
        forms = cpf if cp_list_rect else forms + cpf
    if choi_ok(m) and not cp_list_rect:
        forms.append("choi")
    dimforms = ["rc", "rc_array"]
    if dr == dc:
        dimforms += ["list", "array"]
        if n == 2 and dr[0] == dr[1]:
            dimforms.append("omitted")
    return {
        "map": m,
        "dr": dr,
        "dc": dc,
        "pos": pos,
        "form": draw(st.sampled_from(forms)),
        "dimform": draw(st.sampled_from(dimforms)),
        "xseed": draw(gen.SEED),
        "xsrc": draw(st.sampled_from(["int", "prng"])),
        "xcplx": draw(st.booleans()),
    }


def _partial_expected(m, pairs, dr, dc, pos, x):
    ext = []
    for a, b in pairs:
        ea = ref.kron_all([np.eye(gen.prod(dr[:pos]), dtype=int), a, np.eye(gen.prod(dr[pos + 1 :]), dtype=int)])
        eb = ref.kron_all([np.eye(gen.prod(dc[:pos]), dtype=int), b, np.eye(gen.prod(dc[pos + 1 :]), dtype=int)])
        ext.append((ea, eb))
    ro = gen.prod(dr) // m["i1"] * m["o1"]
    co = gen.prod(dc) // m["i2"] * m["o2"]
    return apply_ref(ext, x, (ro, co))


def _partial_call(case, rep):
    from toqito.channel_ops import partial_channel

    partial_channel = _pure(partial_channel)

    dr, dc, pos = case["dr"], case["dc"], case["pos"]
    x = build_x(case["xseed"], gen.prod(dr), gen.prod(dc), case["xsrc"], case["xcplx"])
    f = case["dimform"]
    if f == "omitted":
        out = partial_channel(x, rep) if pos == 1 and case["xseed"] % 2 else partial_channel(x, rep, pos + 1)
    else:
        dim = {"rc": [list(dr), list(dc)], "rc_array": np.array([dr, dc]), "list": list(dr), "array": np.array(dr)}[f]
        out = partial_channel(x, rep, pos + 1, dim)
    return x, out


def check_partial(case):
    m = case["map"]
    pairs = build_pairs(m)
    rep = choi_ref(pairs, m["i1"], m["i2"]) if case["form"] == "choi" else kraus_forms(m, pairs)[case["form"]]
    x, out = _partial_call(case, rep)
    exp = _partial_expected(m, pairs, case["dr"], case["dc"], case["pos"], x)
    tol = 1e-9 * map_scale(pairs) * max(1.0, fro(x))
    close(out, exp, tol, f"partial_channel(X, <{case['form']}>, sys={case['pos'] + 1}, dim=<{case['dimform']}>) vs (id (x) Phi (x) id)(X)", "partial:" + case["form"])


def check_partial_cp_rect(case):
    """CP list forms with rectangular surroundings: same statement, own signature (one root cause)."""
    m = case["map"]
    pairs = build_pairs(m)
    rep = kraus_forms(m, pairs)[case["form"]]
    sig = "partial:cp-list-form,rect-surroundings"
    try:
        x, out = _partial_call(case, rep)
    except ValueError as e:
        if "matmul" in str(e) or "shapes" in str(e):
            raise Violation(f"partial_channel(X, <{case['form']}>, sys={case['pos'] + 1}, dim=[[rows],[cols]]) raised {e!s:.160}", sig) from None
        raise
    exp = _partial_expected(m, pairs, case["dr"], case["dc"], case["pos"], x)
    tol = 1e-9 * map_scale(pairs) * max(1.0, fro(x))
    try:
        close(out, exp, tol, f"partial_channel(X, <{case['form']}>, sys={case['pos'] + 1}, rectangular surroundings) vs (id (x) Phi (x) id)(X)")
    except Violation as v:
        raise Violation(v.message, sig) from None


def nt_partial(case):
    if len(case["dr"]) < 2:
        return None
    lab = nt_map(case["map"])
    if lab:
        return "partial:" + lab
    if case["dr"] != case["dc"]:
        return "partial:rect surroundings"
    return None


# ------------------------------------------------------------------------------------------
# 6. natural representation
# ------------------------------------------------------------------------------------------
def check_natural(case):
    from toqito.channel_ops import natural_representation

    natural_representation = _pure(natural_representation)

    m = case["map"]
    pairs = build_pairs(m)
    ks = [a for a, _ in pairs]
    x = build_x(case["xseed"], m["i1"], m["i1"], case["xsrc"], case["xcplx"])
    nat = np.asarray(natural_representation(ks))
    req(nat.shape == (m["o1"] ** 2, m["i1"] ** 2), f"natural_representation shape {nat.shape} != {(m['o1'] ** 2, m['i1'] ** 2)}", "natural:shape")
    exp = apply_ref(pairs, x, (m["o1"], m["o1"]))
    tol = 1e-9 * map_scale(pairs) * max(1.0, fro(x))
    close(nat @ ref.vec_r(x), ref.vec_r(exp), tol, "natural_representation(K) @ vec_r(X) vs vec_r(Phi(X))", "natural:value")


@st.composite
def _natural_case(draw):
    return {
        "map": draw(map_spec(kinds=("cp",))),
        "xseed": draw(gen.SEED),
        "xsrc": draw(st.sampled_from(["int", "prng"])),
        "xcplx": draw(st.booleans()),
    }


# ------------------------------------------------------------------------------------------
# 7. channel_dim
# ------------------------------------------------------------------------------------------
@st.composite
def _cdim_case(draw):
    m = draw(map_spec())
    forms = ["pairs"]
    if is_cp(m):
        forms += ["flat", "nested"] + (["row"] if m["r"] > 2 else [])
    if choi_ok(m):
        forms.append("choi")
    form = draw(st.sampled_from(forms))
    sq = (m["i1"], m["o1"]) == (m["i2"], m["o2"])
    dimforms = ["matrix", "matrix_array", "bad_matrix"]
    if form != "choi" or (m["i1"] == m["o1"] and m["i2"] == m["o2"]):
        dimforms.append("none")
    if sq:
        dimforms += ["vector", "bad_vector"]
        if m["i1"] == m["o1"]:
            dimforms.append("scalar")
    modes = ["plain", "plain", "no_rect"]
    if form == "choi":
        modes.append("no_env")
    elif m["r"] >= 2:
        modes.append("mixed_shapes")
    return {"map": m, "form": form, "dimform": draw(st.sampled_from(dimforms)), "mode": draw(st.sampled_from(modes)), "which": draw(st.integers(0, 3))}


def check_cdim(case):
    from toqito.helper import channel_dim

    m = case["map"]
    pairs = build_pairs(m)
    i1, i2, o1, o2, r = m["i1"], m["i2"], m["o1"], m["o2"], m["r"]
    form, df, mode = case["form"], case["dimform"], case["mode"]
    rep = choi_ref(pairs, i1, i2) if form == "choi" else kraus_forms(m, pairs)[form]
    dm = dim_matrix(m)
    bad = df.startswith("bad")
    if df == "none":
        dim = None
    elif df == "matrix":
        dim = dm
    elif df == "matrix_array":
        dim = np.array(dm)
    elif df == "vector":
        dim = [i1, o1]
    elif df == "scalar":
        dim = int(i1)
    elif df == "bad_matrix":
        w = case["which"]
        dim = [list(dm[0]), list(dm[1])]
        dim[w // 2][w % 2] += 1
    else:
        dim = [i1 + 1, o1] if case["which"] % 2 else [i1, o1 + 1]
    kwargs = {}
    if dim is not None:
        kwargs["dim"] = dim
    if mode == "no_rect":
        kwargs["allow_rect"] = False
    if mode == "no_env":
        kwargs["compute_env_dim"] = False
    mixed = mode == "mixed_shapes"
    if mixed:
        # second operator of a different shape: not one map
        z = np.zeros((o1 + 1, i1))
        if form == "pairs":
            rep[1] = [z, rep[1][1]]
        elif form == "flat":
            rep[1] = z
        elif form == "nested":
            rep[1] = [z]
        else:
            rep[0][1] = z
    square_spaces = i1 == i2 and o1 == o2
    must_raise = bad or mixed or (mode == "no_rect" and not square_spaces)
    what = f"channel_dim(<{form}>, dim=<{df}>, mode={mode})"
    if must_raise:
        try:
            got = channel_dim(rep, **kwargs)
        except ValueError:
            return
        unlisted_rejection(f"{what}: inconsistent input accepted, returned {got}", "cdim:accepts-inconsistent")
    d_in, d_out, d_e = channel_dim(rep, **kwargs)
    if mode == "no_rect":
        ok = np.ndim(d_in) == 0 and np.ndim(d_out) == 0 and int(d_in) == i1 and int(d_out) == o1
        req(ok, f"{what}: returned ({d_in}, {d_out}), expected scalars ({i1}, {o1})", "cdim:dims")
    else:
        ok = np.shape(d_in) == (2,) and np.shape(d_out) == (2,) and [int(v) for v in d_in] == [i1, i2] and [int(v) for v in d_out] == [o1, o2]
        req(ok, f"{what}: returned ({d_in}, {d_out}), expected ([{i1}, {i2}], [{o1}, {o2}])", "cdim:dims")
    if form != "choi":
        req(d_e is not None and int(d_e) == r, f"{what}: environment dimension {d_e} != number of Kraus operators {r}", "cdim:env")
    elif mode == "no_env":
        req(d_e is None, f"{what}: environment dimension {d_e} computed although compute_env_dim=False", "cdim:env")
    else:
        sv = np.linalg.svd(np.asarray(rep, dtype=complex), compute_uv=False)
        if r <= len(sv) and sv[r - 1] > 1e-6 * sv[0] and (r == len(sv) or sv[r] < 1e-12 * sv[0]):
            req(int(d_e) == r, f"{what}: environment dimension {d_e} != rank {r} of the Choi matrix", "cdim:env")


def nt_cdim(case):
    return nt_map(case["map"])


SUBCHECKS = [
    SubCheck("apply_reps", check_apply, _apply_case, lambda c: nt_map(c["map"]), quick=15000, thorough=240000, fuzz=10000),
    SubCheck("kraus_to_choi", check_k2c, _apply_case, lambda c: nt_map(c["map"]), quick=10000, thorough=160000),
    SubCheck("choi_to_kraus", check_c2k, _c2k_case, lambda c: nt_map(c["map"]), quick=15000, thorough=240000, fuzz=10000),
    SubCheck("choi_to_kraus_hermitian_rect", check_c2k_hrect, _c2k_hrect_case, lambda c: "hermitian J, rectangular spaces" + (",complex" if c["cplx"] else ""), quick=1500, thorough=24000, shards=4),
    SubCheck("choi_to_kraus_tol", check_c2k_tol, _c2k_tol_case, lambda c: f"{c['form']},tol={c['tol']},x{c['factor']:.3g}", quick=3000, thorough=40000),
    SubCheck("chains", check_chain, _chain_case, nt_chain, quick=12000, thorough=192000),
    SubCheck("partial_channel", check_partial, _partial_case, nt_partial, quick=18000, thorough=288000, fuzz=10000),
    SubCheck("partial_channel_cp_list_rect", check_partial_cp_rect, lambda: _partial_case(cp_list_rect=True), nt_partial, quick=1500, thorough=24000, shards=4),
    SubCheck("natural_representation", check_natural, _natural_case, lambda c: nt_map(c["map"]), quick=5000, thorough=80000),
    SubCheck("channel_dim", check_cdim, _cdim_case, nt_cdim, quick=10000, thorough=160000),
]
