"""Oracles for C08 (plain numpy / cvxpy; nothing here imports toqito).

* :func:`tsirelson_interval` -- certified interval [lb, ub] for the optimal quantum bias
  ``max sum_xy D_xy <u_x, v_y>`` over unit vectors (lb = bias *achieved* by explicit re-normalised unit
  vectors evaluated in numpy, ub = value of an explicit dual-feasible point whose feasibility is enforced with
  ``eigvalsh``).  The solver is only used to *propose* the certificates.
* :func:`classical_bias` -- brute force over +/-1 assignments.
* :func:`bell_m2_interval` -- certified interval for the quantum maximum of a two-setting / two-outcome Bell
  expression (Jordan's lemma: qubits with real projective observables are exhaustive), from a two-level grid with a
  rigorous second-order remainder; :func:`bell_m2_search` is an un-gauged multi-start Nelder-Mead search used as an
  independent lower bound and as a self-check of the grid certificate.
* :func:`product_game` -- reference r-fold parallel repetition of a general game.
"""

from __future__ import annotations

import itertools
import warnings

import numpy as np

K_G = 1.7823  # > Krivine's bound pi / (2 ln(1 + sqrt 2)) = 1.78221... on the real Grothendieck constant

I2 = np.eye(2)
PZ = np.diag([1.0, -1.0])
PX = np.array([[0.0, 1.0], [1.0, 0.0]])


class OracleFailure(Exception):
    """The oracle could not produce a certificate (solver failure); the case is inconclusive."""


# ----------------------------------------------------------------------------------------------
# XOR games
# ----------------------------------------------------------------------------------------------
def d_matrix(prob, pred):
    return np.asarray(prob, dtype=float) * (-1.0) ** np.asarray(pred)


def classical_bias(D):
    """max over s in {+-1}^m, t in {+-1}^n of sum D_xy s_x t_y  (exact up to float summation)."""
    D = np.asarray(D, dtype=float)
    m, n = D.shape
    if m > n:
        D = D.T
        m, n = n, m
    best = -np.inf
    for s in itertools.product((1.0, -1.0), repeat=m):
        val = np.sum(np.abs(np.asarray(s) @ D))
        best = max(best, val)
    return float(best)


def _solve(problem, solver):
    import cvxpy

    with warnings.catch_warnings():
        warnings.simplefilter("ignore")
        try:
            if solver == "CLARABEL":
                problem.solve(solver="CLARABEL")
            else:
                problem.solve(solver="SCS", eps=1e-9, max_iters=200000)
        except (cvxpy.SolverError, ArithmeticError, ValueError) as e:  # solver-internal
            raise OracleFailure(f"oracle solver: {type(e).__name__}") from None
    if problem.status not in ("optimal", "optimal_inaccurate"):
        raise OracleFailure(f"oracle solver status {problem.status}")


def _solver_name():
    import cvxpy

    return "CLARABEL" if "CLARABEL" in cvxpy.installed_solvers() else "SCS"


def tsirelson_interval(D):
    """Certified [lb, ub] for max sum D_xy <u_x, v_y> over unit vectors u_x, v_y."""
    import cvxpy

    D = np.asarray(D, dtype=float)
    m, n = D.shape
    solver = _solver_name()
    # ---- primal, Gram form: max <W, G>, G >= 0, diag G = 1
    G = cvxpy.Variable((m + n, m + n), symmetric=True)
    W = np.block([[np.zeros((m, m)), D], [D.T, np.zeros((n, n))]]) / 2
    _solve(cvxpy.Problem(cvxpy.Maximize(cvxpy.trace(W @ G)), [G >> 0, cvxpy.diag(G) == 1]), solver)
    if G.value is None:
        raise OracleFailure("oracle primal has no value")
    Gv = (G.value + G.value.T) / 2
    if not np.all(np.isfinite(Gv)):
        raise OracleFailure("oracle primal returned non-finite entries")
    w, V = np.linalg.eigh(Gv)
    vec = V * np.sqrt(np.clip(w, 0, None))  # rows are the vectors
    nrm = np.linalg.norm(vec, axis=1)
    if np.any(nrm < 1e-6):
        raise OracleFailure("oracle primal returned a zero vector")
    vec = vec / nrm[:, None]
    # every row now has unit norm to 1 ulp: the bias below is *achieved* by an explicit family of unit vectors
    lb = float(np.sum(D * (vec[:m] @ vec[m:].T)))
    # ---- dual: min (sum u + sum v)/2,  [[diag u, -D], [-D^T, diag v]] >= 0
    u = cvxpy.Variable(m)
    v = cvxpy.Variable(n)
    _solve(
        cvxpy.Problem(
            cvxpy.Minimize((cvxpy.sum(u) + cvxpy.sum(v)) / 2),
            [cvxpy.bmat([[cvxpy.diag(u), -D], [-D.T, cvxpy.diag(v)]]) >> 0],
        ),
        solver,
    )
    if u.value is None or v.value is None:
        raise OracleFailure("oracle dual has no value")
    uu, vv = np.asarray(u.value, dtype=float).reshape(-1), np.asarray(v.value, dtype=float).reshape(-1)
    if not (np.all(np.isfinite(uu)) and np.all(np.isfinite(vv))):
        raise OracleFailure("oracle dual returned non-finite entries")
    M = np.block([[np.diag(uu), -D], [-D.T, np.diag(vv)]])
    lam = float(np.linalg.eigvalsh(M)[0])
    shift = max(0.0, -lam) + 1e-12  # (u + shift, v + shift) is dual feasible
    ub = float((np.sum(uu) + np.sum(vv)) / 2 + shift * (m + n) / 2)
    # the classical bias is achieved by one-dimensional unit vectors: it may sharpen lb, never invalidates it
    return lb, ub


def rank_lower_bound(D, dim=4, sweeps=60):
    """A cheap *achieved* quantum bias (alternating maximisation over unit vectors in R^dim, fixed start):
    used only by the non-triviality rule."""
    D = np.asarray(D, dtype=float)
    m, n = D.shape
    g = np.random.Generator(np.random.PCG64(12345))
    b = g.normal(size=(n, dim))
    b /= np.linalg.norm(b, axis=1)[:, None]
    a = np.zeros((m, dim))
    for _ in range(sweeps):
        a = D @ b
        na = np.linalg.norm(a, axis=1)
        a = np.where(na[:, None] > 1e-15, a / np.where(na > 1e-15, na, 1)[:, None], np.eye(dim)[0][None, :])
        b = D.T @ a
        nb = np.linalg.norm(b, axis=1)
        b = np.where(nb[:, None] > 1e-15, b / np.where(nb > 1e-15, nb, 1)[:, None], np.eye(dim)[0][None, :])
    return float(np.sum(D * (a @ b.T)))


# ----------------------------------------------------------------------------------------------
# general games (conversion / repetition references)
# ----------------------------------------------------------------------------------------------
def xor_pred(pred):
    """V[a, b, x, y] = [f(x, y) == a xor b]."""
    f = np.asarray(pred)
    q0, q1 = f.shape
    out = np.zeros((2, 2, q0, q1))
    for a in range(2):
        for b in range(2):
            out[a, b] = (f == (a ^ b)).astype(float)
    return out


def product_game(prob, pred4, reps):
    """r-fold parallel repetition: questions/answers are tuples, indexed with the first copy most significant."""
    P, V = np.asarray(prob, dtype=float), np.asarray(pred4, dtype=float)
    Pr, Vr = P, V
    for _ in range(reps - 1):
        Pr = np.kron(Pr, P)
        A1, B1, X1, Y1 = Vr.shape
        A2, B2, X2, Y2 = V.shape
        Vr = np.einsum("abxy,cdzw->acbdxzyw", Vr, V).reshape(A1 * A2, B1 * B2, X1 * X2, Y1 * Y2)
    return Pr, Vr


def general_classical_value(prob, pred4):
    """Brute force over the deterministic strategies of the player who has fewer of them, the other one best-responding (exact)."""
    P, V = np.asarray(prob, dtype=float), np.asarray(pred4, dtype=float)
    A, B, X, Y = V.shape
    if A**X < B**Y:  # enumerate Alice instead: exchange the roles
        P, V = P.T, V.transpose(1, 0, 3, 2)
        A, B, X, Y = V.shape
    Wt = V * P[None, None, :, :]
    best = -np.inf
    for fb in itertools.product(range(B), repeat=Y):
        # payoff[a, x] = sum_y Wt[a, fb[y], x, y]
        pay = np.zeros((A, X))
        for y, b in enumerate(fb):
            pay += Wt[:, b, :, y]
        best = max(best, float(np.sum(np.max(pay, axis=0))))
    return best


# ----------------------------------------------------------------------------------------------
# Bell expressions with two settings and two outcomes per party
# ----------------------------------------------------------------------------------------------
def _obs(theta):
    return np.cos(theta) * PZ + np.sin(theta) * PX


def _valued(O, val):
    """val[0] * P0 + val[1] * P1 with P0 = (I + O)/2, P1 = (I - O)/2 for a +/-1 observable O."""
    return val[0] * (I2 + O) / 2 + val[1] * (I2 - O) / 2


def bell_operator(J, ac, bc, As, Bs):
    m = len(As)
    B = np.zeros((4, 4))
    for x in range(m):
        B += ac[x] * np.kron(As[x], I2)
        for y in range(m):
            B += J[x, y] * np.kron(As[x], Bs[y])
    for y in range(m):
        B += bc[y] * np.kron(I2, Bs[y])
    return B


def bell_classical(J, ac, bc, av, bv):
    """Best deterministic assignment (exact enumeration of the 2^(2m) assignments)."""
    J, ac, bc = np.asarray(J, dtype=float), np.asarray(ac, dtype=float), np.asarray(bc, dtype=float)
    m = J.shape[0]
    best = -np.inf
    for ia in itertools.product(range(2), repeat=m):
        a = np.array([av[i] for i in ia], dtype=float)
        for ib in itertools.product(range(2), repeat=m):
            b = np.array([bv[i] for i in ib], dtype=float)
            best = max(best, float(a @ J @ b + ac @ a + bc @ b))
    return best


def _lam_max_grid(J, ac, bc, av, bv, tA, tB):
    """lambda_max of the Bell operator for A_0 = B_0 = Z-type, A_1 = O(tA), B_1 = O(tB); tA, tB broadcastable."""
    tA, tB = np.broadcast_arrays(np.asarray(tA, dtype=float), np.asarray(tB, dtype=float))
    shp = tA.shape
    mA, sA = (av[0] + av[1]) / 2, (av[0] - av[1]) / 2
    mB, sB = (bv[0] + bv[1]) / 2, (bv[0] - bv[1]) / 2
    A0 = mA * I2 + sA * PZ
    B0 = mB * I2 + sB * PZ
    A1 = mA * I2 + sA * (np.cos(tA)[..., None, None] * PZ + np.sin(tA)[..., None, None] * PX)
    B1 = mB * I2 + sB * (np.cos(tB)[..., None, None] * PZ + np.sin(tB)[..., None, None] * PX)

    def kr(a, b):
        a = np.broadcast_to(a, shp + (2, 2))
        b = np.broadcast_to(b, shp + (2, 2))
        return np.einsum("...ij,...kl->...ikjl", a, b).reshape(shp + (4, 4))

    op = (
        J[0, 0] * kr(A0, B0)
        + J[0, 1] * kr(A0, B1)
        + J[1, 0] * kr(A1, B0)
        + J[1, 1] * kr(A1, B1)
        + ac[0] * kr(A0, I2)
        + ac[1] * kr(A1, I2)
        + bc[0] * kr(I2, B0)
        + bc[1] * kr(I2, B1)
    )
    return np.linalg.eigvalsh(op)[..., -1]


def bell_scale(J, ac, bc, av, bv):
    """sum of |coefficient| * |largest outcome values|: the natural scale of a Bell value."""
    alpha, beta = max(abs(av[0]), abs(av[1])), max(abs(bv[0]), abs(bv[1]))
    return float(np.abs(J).sum() * alpha * beta + np.abs(ac).sum() * alpha + np.abs(bc).sum() * beta)


def bell_m2_interval(J, ac, bc, av, bv, n_coarse=96, k_fine=None, max_cand=2500):
    """Certified interval [lo, hi] for the quantum maximum of
    sum J_xy <A_x B_y> + sum ac_x <A_x> + sum bc_y <B_y>   (two settings, outcome values av / bv).

    Jordan's lemma: the optimum is a direct sum over blocks in which each party is either deterministic
    (A_x in {av0 I, av1 I}) or a pair of rank-one projective real qubit measurements, which up to a local rotation
    is (Z, cos t Z + sin t X).  A deterministic party reduces the other party's problem to
    lambda_max(c_0 O_0 + c_1 O_1) <= |c_0| + |c_1|, which a deterministic choice attains; hence
        optimum = max(best deterministic, max_{tA, tB} f(tA, tB)),  f = lambda_max of the 4x4 Bell operator.
    If t* maximises f with top eigenvector psi, g(t) = <psi|B(t)|psi> <= f(t) is a trigonometric polynomial maximal at
    t*, so f(t) >= g(t) >= f(t*) - (cAA dA^2 + 2 cAB |dA dB| + cBB dB^2)/2 with c.. bounds on the second derivatives of g:
    the maximum over a cell-centred grid of spacing h is within (cAA + 2 cAB + cBB) h^2 / 8 of the global maximum.  Returns (lo, hi, info) or raises OracleFailure when the
    landscape is too flat for the two-level refinement.
    """
    J, ac, bc = np.asarray(J, dtype=float), np.asarray(ac, dtype=float), np.asarray(bc, dtype=float)
    av, bv = [float(t) for t in av], [float(t) for t in bv]
    cl = bell_classical(J, ac, bc, av, bv)
    sA, sB = abs(av[0] - av[1]) / 2, abs(bv[0] - bv[1]) / 2
    alpha, beta = max(abs(av[0]), abs(av[1])), max(abs(bv[0]), abs(bv[1]))
    cAA = sA * (abs(J[1, 0]) * beta + abs(J[1, 1]) * beta + abs(ac[1]))
    cBB = sB * (abs(J[0, 1]) * alpha + abs(J[1, 1]) * alpha + abs(bc[1]))
    cAB = sA * sB * abs(J[1, 1])
    # drop bound for a displacement (dA, dB):  (cAA dA^2 + 2 cAB |dA dB| + cBB dB^2) / 2,  |dA|, |dB| <= h/2
    C = (cAA + 2 * cAB + cBB) * (1 + 1e-9)
    hc = 2 * np.pi / n_coarse
    grid = (np.arange(n_coarse) + 0.5) * hc
    # a party whose second observable does not enter the expression at all: f is constant in that angle
    gA = grid if cAA + cAB > 0 else np.array([0.0])
    gB = grid if cBB + cAB > 0 else np.array([0.0])
    fc = _lam_max_grid(J, ac, bc, av, bv, gA[:, None], gB[None, :])
    L0 = float(fc.max())
    slack_c = C * hc * hc / 8
    cand = np.argwhere(fc >= L0 - slack_c - 1e-12)
    if len(cand) > max_cand:
        # flat landscape (e.g. f identically 0): one finer single-level grid, same remainder bound
        n_flat = 256
        hfl = 2 * np.pi / n_flat
        gfl = (np.arange(n_flat) + 0.5) * hfl
        gA2 = gfl if len(gA) > 1 else gA
        gB2 = gfl if len(gB) > 1 else gB
        ffl = _lam_max_grid(J, ac, bc, av, bv, gA2[:, None], gB2[None, :])
        L1 = max(L0, float(ffl.max()))
        scale = bell_scale(J, ac, bc, av, bv)
        hi_q = float(ffl.max()) + C * hfl * hfl / 8 + 1e-12 * max(1.0, scale)
        idx = np.unravel_index(int(np.argmax(ffl)), ffl.shape)
        return max(cl, L1), max(cl, hi_q), {"classical": cl, "qubit_lo": L1, "qubit_hi": hi_q, "theta": (float(gA2[idx[0]]), float(gB2[idx[1]])), "C": C, "ncand": int(len(cand)), "scale": scale}
    if k_fine is None:
        k_fine = 16 if len(cand) <= 100 else (8 if len(cand) <= 400 else 4)
    hf = hc / k_fine
    off = (np.arange(k_fine) + 0.5) * hf - hc / 2
    offA = off if len(gA) > 1 else np.array([0.0])
    offB = off if len(gB) > 1 else np.array([0.0])
    tA = gA[cand[:, 0]][:, None, None] + offA[None, :, None]
    tB = gB[cand[:, 1]][:, None, None] + offB[None, None, :]
    ff = _lam_max_grid(J, ac, bc, av, bv, tA, tB)
    L1 = max(L0, float(ff.max()))
    idx = np.unravel_index(int(np.argmax(ff)), ff.shape)
    best_t = (float(np.broadcast_to(tA, ff.shape)[idx]), float(np.broadcast_to(tB, ff.shape)[idx]))
    hi_q = float(ff.max()) + C * hf * hf / 8
    scale = bell_scale(J, ac, bc, av, bv)
    hi_q += 1e-12 * max(1.0, scale)
    return max(cl, L1), max(cl, hi_q), {"classical": cl, "qubit_lo": L1, "qubit_hi": hi_q, "theta": best_t, "C": C, "ncand": int(len(cand)), "scale": scale}


def bell_m2_search(J, ac, bc, av, bv, seed, starts=4, full=True):
    """Un-gauged search over observables in {+I, -I, cos t Z + sin t X} (four independent angles), multi-start
    Nelder-Mead with starts drawn from ``seed``: every value returned is *achieved* by a two-qubit strategy."""
    from scipy.optimize import minimize

    J, ac, bc = np.asarray(J, dtype=float), np.asarray(ac, dtype=float), np.asarray(bc, dtype=float)
    g = np.random.Generator(np.random.PCG64(int(seed)))
    m = 2
    vals = []

    def build(kinds, th):
        it = iter(th)
        Os = [I2 if k == 0 else (-I2 if k == 1 else _obs(next(it))) for k in kinds]
        As = [_valued(O, av) for O in Os[:m]]
        Bs = [_valued(O, bv) for O in Os[m:]]
        return bell_operator(J, ac, bc, As, Bs)

    best = -np.inf
    for kinds in itertools.product(range(3), repeat=2 * m):
        nfree = sum(1 for k in kinds if k == 2)
        if nfree == 0:
            best = max(best, float(np.linalg.eigvalsh(build(kinds, []))[-1]))
            continue
        if not full and nfree != 2 * m:
            continue
        n_st = starts if nfree == 2 * m else 1
        for _ in range(n_st):
            x0 = g.uniform(0, 2 * np.pi, nfree)
            r = minimize(lambda th: -np.linalg.eigvalsh(build(kinds, th))[-1], x0, method="Nelder-Mead", options={"xatol": 1e-8, "fatol": 1e-12, "maxiter": 2000})
            v = float(np.linalg.eigvalsh(build(kinds, r.x))[-1])
            if nfree == 2 * m:
                vals.append(v)
            best = max(best, v)
    return best, vals
