"""C02 — partial trace is the index contraction over the traced subsystems.

Function under test: toqito.channels.partial_trace (numeric path and the cvxpy-Variable path through
toqito.helper.expr_as_np_array / np_array_as_expr).
Oracles: numpy.einsum contraction written from the property statement (tqv.ref.partial_trace, kept subsystems in
their original order), linearity, trace preservation, closed form on product operators, composition with re-based
indices, listing-order independence, scalar / omitted argument forms against the explicit form, value of the returned
cvxpy expression against the einsum model (and against the ndarray call) for every Variable flavour.
"""

from __future__ import annotations

import numpy as np
from hypothesis import strategies as st

from tqv import gen, ref
from tqv.core import SubCheck, req

# caller-owned arrays handed to the library must come back unchanged (see tqv/purity.py)
from tqv.purity import install as _install_purity  # noqa: E402

_install_purity('toqito.channels', 'toqito.helper')

PROPERTY = "C02"
RULE = (
    "Cases are drawn by Hypothesis: number of subsystems n in 1..5, local dimensions (1 allowed) drawn against a size "
    "budget of 64 with a drawn per-factor cap in {3,4,8}, S = a non-empty prefix of a drawn permutation of the subsystems "
    "(every listing order), passed as list, bare int (|S|=1) or omitted (S=[1]); entries labelled r*N+c, small integers "
    "entry by entry or a PRNG seed, dtypes int64/float64/complex128.  The scalar-dim and omitted-dim forms are enumerated "
    "for every matrix size 2..100, every divisor d (1 and N included) and every way of writing S.  cvxpy cases draw the "
    "Variable flavour (real, complex, hermitian, symmetric), dims with budget 16, S, the sys/dim argument forms and two "
    "value seeds.  A case is non-trivial when it has >=3 subsystems with >=2 distinct dimensions, or S is unsorted with "
    "|S|>=2, or the input is a Variable; for the enumerated forms when 1 < d < N and d*d != N (scalar) or always (omitted).  "
    "distinct = distinct SHA-1 of the canonical case JSON among non-trivial cases."
)
ASSUMPTIONS = [
    "numpy.einsum / reshape (row-major) is trusted as the index model",
    "sys is 0-indexed and given as a Python int or a list of Python ints (numpy integer scalars and arrays are outside the documented forms)",
    "a one-element dim list [d] is the scalar form (it means [d, N/d]); a single subsystem is therefore only reachable as [N] == [N, 1]",
    "matrix size is at least 2; the intermediate result of a composition is only traced again when its size is at least 2",
    "integer inputs are int64 except in the sub-check narrow_int (int8 ... int32, uint8, uint16, bool), where only the values - exact integer arithmetic - are asserted, not the result dtype (numpy.sum widens narrow integers, which is not a property violation)",
    "for float/complex PRNG inputs equality is up to 1e-9*scale (summation order is free); integer, labelled and small-rational inputs are compared exactly",
    "cvxpy Variables carry a value consistent with their attribute (exactly Hermitian / symmetric); Variables without a value are not compared",
]

FLAVOURS = ("real", "complex", "hermitian", "symmetric")


# ------------------------------------------------------------------------------------------
# helpers
# ------------------------------------------------------------------------------------------
@st.composite
def _dims(draw, nmin=1, nmax=5, budget=64):
    n = draw(st.integers(nmin, nmax))
    hi = draw(st.sampled_from([3, 4, 8]))
    return draw(gen.dims(n=n, lo=1, hi=hi, budget=budget))


@st.composite
def _ordered_subset(draw, n, kmin=1, kmax=None):
    kmax = n if kmax is None else kmax
    p = list(draw(st.permutations(list(range(n)))))
    k = draw(st.integers(kmin, max(kmin, kmax)))
    return p[:k], p[k:]


def _exact(spec):
    return spec["src"] != "prng" or spec["dtype"] == "int"


def _scale(*arrs):
    return max([1.0] + [float(np.max(np.abs(a))) * max(a.shape) for a in arrs if a.size])


def _cmp(out, exp, exact, what, sig="value", scale=1.0):
    req(isinstance(out, np.ndarray), f"{what}: returned {type(out).__name__}, not an ndarray", "type")
    req(out.shape == exp.shape, f"{what}: shape {out.shape} != expected {exp.shape}", "shape")
    if exact:
        req(np.array_equal(out, exp), f"{what}: entries differ (max abs diff {np.max(np.abs(out - exp))})", sig)
    else:
        req(np.allclose(out, exp, rtol=0, atol=1e-9 * scale), f"{what}: entries differ (max abs diff {np.max(np.abs(out - exp))})", sig)


def _dtype_ok(out, dtype):
    kind = np.asarray(out).dtype.kind
    want = {"int": "iu", "float": "f", "complex": "c"}[dtype]
    req(kind in want, f"{dtype} input gave dtype {np.asarray(out).dtype}", "dtype")


def _sys_arg(S, form):
    if form == "int":
        return int(S[0])
    if form == "omitted":
        return None
    return [int(s) for s in S]


def _unsorted(S):
    return len(S) >= 2 and list(S) != sorted(S)


def _nt_dims(d, S, prefix=""):
    if len(d) >= 3 and len(set(d)) >= 2:
        return prefix + "n>=3,nonuniform" + (",unsortedS" if _unsorted(S) else "")
    if _unsorted(S):
        return prefix + "unsortedS"
    return None


# ------------------------------------------------------------------------------------------
# 1. index model (every entry, dtype, shape)
# ------------------------------------------------------------------------------------------
@st.composite
def _index_case(draw, nmax=5, budget=64, shuffle=False):
    d = draw(_dims(nmax=nmax, budget=budget))
    if shuffle:
        # the size budget makes the late factors 1; move the non-trivial factors to drawn positions (a slip that
        # needs a large subsystem *index* - e.g. one relying on set iteration order, sorted only below 8 - is
        # invisible if every factor from position 8 on has dimension 1)
        d = [d[i] for i in draw(st.permutations(list(range(len(d)))))]
    n = len(d)
    S, _ = draw(_ordered_subset(n))
    forms = ["list", "list"]
    if len(S) == 1:
        forms.append("int")
    if S == [1] and n >= 2:
        forms.append("omitted")
    N = gen.prod(d)
    return {"d": d, "S": S, "sysform": draw(st.sampled_from(forms)), "x": draw(gen.matrix_spec(N, N))}


def check_index_model(case):
    from toqito.channels import partial_trace

    d, S = case["d"], case["S"]
    x = gen.build_matrix(case["x"])
    exp = ref.partial_trace(x, S, d)
    out = partial_trace(x, _sys_arg(S, case["sysform"]), list(d))
    _cmp(out, exp, _exact(case["x"]), "partial_trace", scale=_scale(x))
    _dtype_ok(out, case["x"]["dtype"])


def nt_index(case):
    return _nt_dims(case["d"], case["S"])


# ------------------------------------------------------------------------------------------
# 1b. narrow integer and boolean dtypes: the *values* of the contraction must be exact.  The result dtype is not
# asserted (numpy.sum widens narrow integers); what is asserted is that no sum wraps around in the input's dtype -
# seeded change C02-c1 (contraction moved to an einsum that accumulates in int8 / counts booleans with a logical OR)
# was missed while every integer input was int64.
# ------------------------------------------------------------------------------------------
_NARROW = {"int8": 127, "int16": 32767, "int32": 2**31 - 1, "uint8": 255, "uint16": 65535, "bool": 1}


@st.composite
def _narrow_case(draw):
    c = draw(_index_case(nmax=4, budget=36))
    c.pop("x")
    c["dtype"] = draw(st.sampled_from(sorted(_NARROW)))
    c["seed"] = draw(gen.SEED)
    return c


def check_narrow_int(case):
    from toqito.channels import partial_trace

    d, S = case["d"], case["S"]
    N = gen.prod(d)
    g = gen.rng(case["seed"])
    top = _NARROW[case["dtype"]]
    if case["dtype"] == "bool":
        x = g.integers(0, 2, size=(N, N)).astype(bool)
    else:
        # entries in the upper third of the dtype's range: any sum of two or more of them leaves the range
        x = g.integers(top - top // 3, top + 1, size=(N, N)).astype(case["dtype"])
    exp = ref.partial_trace(x.astype(np.int64), S, d)
    out = np.asarray(partial_trace(x, _sys_arg(S, case["sysform"]), list(d)))
    req(out.shape == exp.shape, f"partial_trace of a {case['dtype']} matrix: shape {out.shape}, expected {exp.shape}", "shape")
    req(out.dtype.kind in "iub", f"partial_trace of a {case['dtype']} matrix returned dtype {out.dtype}", "dtype")
    bad = np.argwhere(out.astype(object) != exp.astype(object))
    req(
        len(bad) == 0,
        f"partial_trace(x, {S}, {d}) of a {case['dtype']} matrix: entry {tuple(bad[0]) if len(bad) else ()} is {out[tuple(bad[0])] if len(bad) else ''} "
        f"(dtype {out.dtype}) but the contraction in exact integer arithmetic gives {exp[tuple(bad[0])] if len(bad) else ''}",
        "narrow-int:value",
    )


def nt_narrow(case):
    traced = gen.prod([case["d"][i] for i in case["S"]])
    return f"{case['dtype']},traced={traced}" if traced >= 2 else None


# ------------------------------------------------------------------------------------------
# 2. linearity and trace preservation
# ------------------------------------------------------------------------------------------
_COEF = st.tuples(st.integers(-3, 3), st.integers(-3, 3))


@st.composite
def _linear_case(draw):
    d = draw(_dims())
    n = len(d)
    S, _ = draw(_ordered_subset(n))
    N = gen.prod(d)
    return {
        "d": d,
        "S": S,
        "x": draw(gen.matrix_spec(N, N, sources=("small", "prng"))),
        "y": draw(gen.matrix_spec(N, N, sources=("small", "prng"))),
        "a": list(draw(_COEF)),
        "b": list(draw(_COEF)),
    }


def check_linear_trace(case):
    from toqito.channels import partial_trace

    d, S = case["d"], [int(s) for s in case["S"]]
    x = gen.build_matrix(case["x"])
    y = gen.build_matrix(case["y"])
    a = case["a"][0] + 1j * case["a"][1] if case["a"][1] else case["a"][0]
    b = case["b"][0] + 1j * case["b"][1] if case["b"][1] else case["b"][0]
    px = partial_trace(x, list(S), list(d))
    py = partial_trace(y, list(S), list(d))
    pz = partial_trace(a * x + b * y, list(S), list(d))
    exact = _exact(case["x"]) and _exact(case["y"])
    sc = _scale(x, y) * 8
    _cmp(pz, a * px + b * py, exact, "Tr_S(aX+bY) vs a Tr_S(X) + b Tr_S(Y)", "linearity", sc)
    for m, p, nm in ((x, px, "X"), (y, py, "Y")):
        t0, t1 = np.trace(m), np.trace(p)
        ok = t0 == t1 if exact else abs(t0 - t1) <= 1e-9 * sc
        req(ok, f"trace not preserved for {nm}: Tr X = {t0}, Tr Tr_S X = {t1}", "trace")


def nt_linear(case):
    return _nt_dims(case["d"], case["S"], "lin:")


# ------------------------------------------------------------------------------------------
# 3. product operators: Tr_S(A_0 x ... x A_{n-1}) = prod_{s in S} Tr(A_s) * (x)_{kept} A_i, every position
# ------------------------------------------------------------------------------------------
@st.composite
def _product_case(draw):
    d = draw(_dims(nmin=2))
    n = len(d)
    S, _ = draw(_ordered_subset(n))
    return {"d": d, "S": S, "seeds": [draw(gen.SEED) for _ in range(n)], "kind": draw(st.sampled_from(["int", "real", "complex"]))}


def _factor(seed, k, kind):
    g = gen.rng(seed)
    if kind == "int":
        return g.integers(-4, 5, size=(k, k)).astype(np.int64)
    m = g.normal(size=(k, k))
    if kind == "complex":
        m = m + 1j * g.normal(size=(k, k))
    return m


def check_product(case):
    from toqito.channels import partial_trace

    d, kind = case["d"], case["kind"]
    n = len(d)
    fac = [_factor(s, k, kind) for s, k in zip(case["seeds"], d)]
    x = ref.kron_all(fac)
    sets = [[int(s) for s in case["S"]]] + [[k] for k in range(n)]
    for S in sets:
        coef = 1
        for s in S:
            coef = coef * np.trace(fac[s])
        kept = [fac[i] for i in range(n) if i not in S]
        exp = coef * ref.kron_all(kept)
        out = partial_trace(x, list(S), list(d))
        sc = _scale(x) * gen.prod(d[s] for s in S)
        _cmp(out, exp, kind == "int", f"Tr_{S} of a product operator (dims {d})", "product", sc)
        if len(S) == 1:
            out = partial_trace(x, int(S[0]), list(d))
            _cmp(out, exp, kind == "int", f"Tr_{S[0]} (int sys) of a product operator (dims {d})", "product", sc)


def nt_product(case):
    return _nt_dims(case["d"], case["S"], "prod:")


# ------------------------------------------------------------------------------------------
# 4. composition with re-based indices and listing-order independence
# ------------------------------------------------------------------------------------------
@st.composite
def _compose_case(draw):
    d = draw(_dims(nmin=2))
    n = len(d)
    p = list(draw(st.permutations(list(range(n)))))
    k1 = draw(st.integers(1, n - 1))
    k2 = draw(st.integers(1, n - k1))
    N = gen.prod(d)
    return {"d": d, "S": p[:k1], "T": p[k1 : k1 + k2], "x": draw(gen.matrix_spec(N, N)), "shuffle": draw(gen.SEED)}


def check_compose(case):
    from toqito.channels import partial_trace

    d = case["d"]
    n = len(d)
    S = [int(s) for s in case["S"]]
    T = [int(t) for t in case["T"]]
    x = gen.build_matrix(case["x"])
    exact = _exact(case["x"])
    sc = _scale(x) * gen.prod(d)
    union = partial_trace(x, S + T, list(d))
    exp = ref.partial_trace(x, S + T, d)
    _cmp(union, exp, exact, "Tr_{S u T}", "value", sc)
    # listing order: sorted, reversed and a drawn shuffle of the same set
    U = S + T
    orders = [sorted(U), U[::-1], [U[i] for i in gen.rng(case["shuffle"]).permutation(len(U))]]
    for o in orders:
        out = partial_trace(x, [int(s) for s in o], list(d))
        _cmp(out, union, exact, f"listing order {o} vs {U}", "listing-order", sc)
    # composition
    kept = [i for i in range(n) if i not in S]
    dk = [d[i] for i in kept]
    if gen.prod(dk) < 2:
        return
    first = partial_trace(x, S, list(d))
    Tp = [kept.index(t) for t in T]
    second = partial_trace(first, Tp, dk)
    _cmp(second, union, exact, f"Tr_{Tp}(Tr_{S} X) with dims {dk} vs Tr_{S + T} X", "composition", sc)


def nt_compose(case):
    lab = _nt_dims(case["d"], case["S"] + case["T"], "comp:")
    if lab is None and _unsorted(case["S"]):
        return "comp:unsortedS"
    return lab


# ------------------------------------------------------------------------------------------
# 5. scalar dim == [d, N/d]; omitted arguments == two equal subsystems, second traced  (enumerated)
# ------------------------------------------------------------------------------------------
_SYS_WRITINGS = [None, [0], [1], [0, 1], [1, 0], 0, 1]


def _forms_cases(tier):
    out = []
    top = 100
    for N in range(2, top + 1):
        for dv in range(1, N + 1):
            if N % dv:
                continue
            for si, _ in enumerate(_SYS_WRITINGS):
                for dt in ("int", "complex"):
                    out.append({"N": N, "d": dv, "form": "scalar", "sys": si, "dtype": dt})
        r = int(round(N**0.5))
        if r * r == N:
            for si, _ in enumerate(_SYS_WRITINGS):
                for dt in ("int", "float", "complex"):
                    out.append({"N": N, "d": r, "form": "omitted", "sys": si, "dtype": dt})
    return out


def check_forms(case):
    from toqito.channels import partial_trace

    N, dv = case["N"], case["d"]
    x = gen.build_matrix({"src": "label", "dtype": case["dtype"], "rows": N, "cols": N})
    s = _SYS_WRITINGS[case["sys"]]
    S = [1] if s is None else ([s] if isinstance(s, int) else list(s))
    exp = ref.partial_trace(x, S, [dv, N // dv])
    sarg = list(s) if isinstance(s, list) else s
    if case["form"] == "scalar":
        if s is None:
            out = partial_trace(x, dim=int(dv))
        else:
            out = partial_trace(x, sarg, int(dv))
        what = f"partial_trace(X[{N}x{N}], {s}, {dv}) vs dims [{dv}, {N // dv}]"
    else:
        out = partial_trace(x) if s is None else partial_trace(x, sarg)
        what = f"partial_trace(X[{N}x{N}], {s}) vs dims [{dv}, {dv}]"
    _cmp(out, exp, True, what, "form:" + case["form"])
    _dtype_ok(out, case["dtype"])


def nt_forms(case):
    if case["form"] == "omitted":
        return "omitted"
    N, dv = case["N"], case["d"]
    return "scalar:1<d<N,d*d!=N" if 1 < dv < N and dv * dv != N else None


# ------------------------------------------------------------------------------------------
# 6. cvxpy Variables of every flavour
# ------------------------------------------------------------------------------------------
@st.composite
def _cvx_case(draw):
    d = draw(_dims(nmin=1, nmax=4, budget=16))
    n = len(d)
    N = gen.prod(d)
    S, _ = draw(_ordered_subset(n))
    sysforms = ["list", "list"]
    if len(S) == 1:
        sysforms.append("int")
    if S == [1] and n >= 2:
        sysforms.append("omitted")
    dimforms = ["list", "list"]
    if n == 2:
        dimforms.append("scalar")
        if d[0] == d[1]:
            dimforms.append("omitted")
    return {
        "flavour": draw(st.sampled_from(FLAVOURS)),
        "d": d,
        "S": S,
        "sysform": draw(st.sampled_from(sysforms)),
        "dimform": draw(st.sampled_from(dimforms)),
        "seed": draw(gen.SEED),
        "seed2": draw(gen.SEED),
        "N": N,
    }


def var_value(seed, rows, cols, flavour):
    """A value admissible for a cvxpy Variable of the given flavour (pure function of the seed)."""
    g = gen.rng(seed)
    a = np.round(g.normal(size=(rows, cols)) * 8) / 8
    if flavour in ("complex", "hermitian"):
        a = a + 1j * np.round(g.normal(size=(rows, cols)) * 8) / 8
    if flavour == "hermitian":
        a = (a + a.conj().T) / 2
    if flavour == "symmetric":
        a = (a + a.T) / 2
    return a


def make_variable(rows, cols, flavour):
    import cvxpy

    if flavour == "real":
        return cvxpy.Variable((rows, cols))
    return cvxpy.Variable((rows, cols), **{flavour: True})


def check_expression(expr, var, exp, what):
    """expr must be an affine cvxpy expression in `var` only whose value is `exp`."""
    from cvxpy.expressions.expression import Expression

    req(isinstance(expr, Expression), f"{what}: returned {type(expr).__name__}, not a cvxpy expression", "cvx:type")
    req(tuple(expr.shape) == exp.shape, f"{what}: expression shape {tuple(expr.shape)} != {exp.shape}", "cvx:shape")
    req(bool(expr.is_affine()), f"{what}: expression is not affine", "cvx:affine")
    req(all(v.id == var.id for v in expr.variables()), f"{what}: expression depends on other variables", "cvx:affine")
    val = expr.value
    req(val is not None, f"{what}: expression has no value although the variable has one", "cvx:value")
    val = np.asarray(val)
    req(np.allclose(val, exp, rtol=0, atol=1e-9 * _scale(exp)), f"{what}: value differs (max abs diff {np.max(np.abs(val - exp))})", "cvx:value")


def check_cvxpy(case):
    from toqito.channels import partial_trace

    d, S, N, fl = case["d"], case["S"], case["N"], case["flavour"]
    X = make_variable(N, N, fl)
    v1 = var_value(case["seed"], N, N, fl)
    X.value = v1
    sarg = _sys_arg(S, case["sysform"])
    darg = {"list": list(d), "scalar": int(d[0]), "omitted": None}[case["dimform"]]
    expr = partial_trace(X, sarg, darg)
    what = f"partial_trace(Variable[{fl}], {sarg}, {darg})"
    exp1 = ref.partial_trace(v1, S, d)
    check_expression(expr, X, exp1, what)
    num = partial_trace(v1, sarg, darg)
    req(np.allclose(np.asarray(expr.value), num, rtol=0, atol=1e-9 * _scale(v1)), f"{what}: value differs from the ndarray call", "cvx:value-vs-ndarray")
    # the expression follows the variable (it is a function of X, not a snapshot)
    v2 = var_value(case["seed2"], N, N, fl)
    X.value = v2
    check_expression(expr, X, ref.partial_trace(v2, S, d), what + " after re-assigning the value")


def nt_cvx(case):
    return "variable:" + case["flavour"]


SUBCHECKS = [
    SubCheck("index_model", check_index_model, _index_case, nt_index, quick=24000, thorough=400000, fuzz=20000),
    # larger systems (up to 12 subsystems in drawn order, total dimension up to 256): the property is not bounded in size
    SubCheck("index_model_large", check_index_model, lambda: _index_case(nmax=12, budget=256, shuffle=True), nt_index, quick=1200, thorough=24000),
    SubCheck("narrow_int", check_narrow_int, _narrow_case, nt_narrow, quick=3000, thorough=50000),
    SubCheck("linear_trace", check_linear_trace, _linear_case, nt_linear, quick=7000, thorough=120000),
    SubCheck("product", check_product, _product_case, nt_product, quick=7000, thorough=120000),
    SubCheck("compose_order", check_compose, _compose_case, nt_compose, quick=7000, thorough=120000),
    SubCheck("scalar_omitted_enum", check_forms, None, nt_forms, cases=_forms_cases, exhaustive=True),
    SubCheck("cvxpy", check_cvxpy, _cvx_case, nt_cvx, quick=5000, thorough=80000),
]
