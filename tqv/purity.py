"""Caller-owned arguments must come back unchanged.

``install("toqito.state_props", ...)`` replaces every public function that a toqito sub-package exports by a wrapper
which (for the outermost call only – functions toqito calls internally are not re-checked) snapshots the array-like
arguments before the call and compares them afterwards.  A difference raises Violation(signature "args-mutated:<fn>").

Why this belongs to every property that says "for every input X, f(X) equals ...": the caller's X is the X of the
property statement; a function that returns the right number but scribbles on X makes the *next* statement about the
same X false (several independently seeded changes were of exactly this kind and were invisible to checks that pass a
fresh copy to every call).  Only numpy arrays and (nested) lists / tuples of them are tracked; everything else
(cvxpy / picos expressions, sparse matrices, scalars) is ignored.
"""

from __future__ import annotations

import functools
import importlib
import inspect
import threading

import numpy as np

from tqv.core import Violation

_state = threading.local()


def _snap(o, depth=0):
    if isinstance(o, np.ndarray):
        return ("a", o.shape, o.dtype.str, o.copy())
    if isinstance(o, (list, tuple)) and depth < 4:
        return ("l", [_snap(x, depth + 1) for x in o])
    return None


def _same(s, o):
    if s is None:
        return True
    if s[0] == "a":
        return isinstance(o, np.ndarray) and o.shape == s[1] and o.dtype.str == s[2] and np.array_equal(o, s[3], equal_nan=o.dtype.kind in "fc")
    return isinstance(o, (list, tuple)) and len(o) == len(s[1]) and all(_same(a, b) for a, b in zip(s[1], o))


def _inputs(args, kwargs):
    stack = list(args) + list(kwargs.values())
    while stack:
        o = stack.pop()
        if isinstance(o, np.ndarray):
            yield o
        elif isinstance(o, (list, tuple)):
            stack.extend(o)


def _detach(out, args, kwargs):
    """Hand the check a copy of every returned array and overwrite the library's own array with NaN (float / complex
    results that do not share memory with an argument).  A function that keeps what it returns - a cache, a module-level
    constant - and hands the same object out again then visibly returns garbage on a later call.  Two independently
    seeded changes did exactly this (lru_cache around a constructor whose result a caller then edits in place).
    Two phases (copy everything, then poison) because the members of a returned tuple may be views of one buffer."""
    inputs = list(_inputs(args, kwargs))
    originals = []

    def copy(o, depth=0):
        if isinstance(o, np.ndarray):
            if o.dtype.kind not in "fc" or not o.flags.writeable or any(np.shares_memory(o, a) for a in inputs):
                return o
            originals.append(o)
            return o.copy()
        if isinstance(o, (list, tuple)) and depth < 3 and len(o) <= 64 and all(isinstance(x, (np.ndarray, list, tuple)) for x in o):
            new = [copy(x, depth + 1) for x in o]
            return tuple(new) if isinstance(o, tuple) else new
        return o

    keep = copy(out)
    for o in originals:
        try:
            o.fill(np.nan)
        except Exception:  # noqa: BLE001
            pass
    return keep


def _agree(a, b, depth=0):
    """first and second result of the same call: None = not comparable, else True / False"""
    if isinstance(a, np.ndarray) and isinstance(b, np.ndarray):
        if a.shape != b.shape:
            return False
        if a.dtype.kind in "fc" or b.dtype.kind in "fc":
            scale = max(1.0, float(np.max(np.abs(a))) if a.size and np.all(np.isfinite(a)) else 1.0)
            return bool(np.allclose(a, b, rtol=0, atol=1e-10 * scale, equal_nan=True))
        return bool(np.array_equal(a, b))
    if isinstance(a, (bool, np.bool_)) and isinstance(b, (bool, np.bool_)):
        return bool(a) == bool(b)
    if isinstance(a, (int, float, complex, np.number)) and isinstance(b, (int, float, complex, np.number)):
        if not (np.isfinite(a) and np.isfinite(b)):
            return None
        return bool(abs(complex(a) - complex(b)) <= 1e-10 * max(1.0, abs(complex(a))))
    if isinstance(a, (list, tuple)) and isinstance(b, (list, tuple)) and depth < 3:
        if len(a) != len(b):
            return False
        rs = [_agree(x, y, depth + 1) for x, y in zip(a, b)]
        if any(r is False for r in rs):
            return False
        return True if rs and all(r is True for r in rs) else None
    return None


_LAYOUT = {"on": True, "count": 0}


def _relayout(args, kwargs):
    """About every fourth outermost call receives its 2-D array arguments in Fortran (column-major) memory order instead of
    C order: same values, same dtype, different strides.  A result may not depend on that (code that flattens with
    order="K"/"A", reinterprets buffers, or trusts .strides would)."""
    if not _LAYOUT["on"]:
        return args, kwargs
    # decided from the argument values (not from a call counter), so that a saved case replays identically
    import zlib

    key = 0
    for a in _inputs(args, kwargs):
        if a.ndim == 2 and min(a.shape) > 1:
            key = zlib.crc32(np.ascontiguousarray(a).view(np.uint8).tobytes()[:4096], key)
    if key == 0 or key % 4:
        return args, kwargs

    def conv(o, depth=0):
        if isinstance(o, np.ndarray) and o.ndim == 2 and min(o.shape) > 1 and o.flags.c_contiguous:
            return np.asfortranarray(o)
        if isinstance(o, list) and depth < 3:
            return [conv(x, depth + 1) for x in o]
        return o

    return tuple(conv(a) for a in args), {k: conv(v) for k, v in kwargs.items()}


def wrap(fn, twice=False):
    name = fn.__name__

    @functools.wraps(fn)
    def wrapper(*args, **kwargs):
        if getattr(_state, "depth", 0) > 0:
            return fn(*args, **kwargs)
        args, kwargs = _relayout(args, kwargs)
        snaps = [_snap(a) for a in args]
        ksnaps = {k: _snap(v) for k, v in kwargs.items()}
        _state.depth = 1
        try:
            out = fn(*args, **kwargs)
        finally:
            _state.depth = 0
        for i, (s, a) in enumerate(zip(snaps, args)):
            if not _same(s, a):
                raise Violation(f"{name} modified its positional argument #{i}, which belongs to the caller", "args-mutated:" + name)
        for k, s in ksnaps.items():
            if not _same(s, kwargs[k]):
                raise Violation(f"{name} modified its argument `{k}`, which belongs to the caller", "args-mutated:" + name)
        keep = _detach(out, args, kwargs)
        if twice:
            # the identical call again, after the first result has been handed over (and the library's own copy of it
            # poisoned): a deterministic function must return the same thing
            _state.depth = 1
            try:
                again = fn(*args, **kwargs)
            except Exception:  # noqa: BLE001  (the first call succeeded: a failing repeat is history dependence as well)
                _state.depth = 0
                raise Violation(f"{name}: the identical call succeeded once and raised when repeated", "history-dependent:" + name) from None
            finally:
                _state.depth = 0
            if _agree(keep, again) is False:
                raise Violation(f"{name}: two identical calls returned different results (the second one after the first result had been handed to the caller)", "history-dependent:" + name)
        return keep

    wrapper._tqv_pure = True
    return wrapper


def install(*packages, twice=False, skip_twice=()):
    """``twice=True``: additionally repeat every (outermost) call and require the same result - only for packages whose
    functions are deterministic and cheap (no unseeded randomness, no SDP); ``skip_twice`` names exceptions."""
    for pkg in packages:
        mod = importlib.import_module(pkg)
        for name, obj in list(vars(mod).items()):
            if name.startswith("_") or getattr(obj, "_tqv_pure", False):
                continue
            plain = inspect.isfunction(obj)
            decorated = callable(obj) and not inspect.isclass(obj) and hasattr(obj, "__wrapped__")  # e.g. functools.lru_cache
            if (plain or decorated) and (getattr(obj, "__module__", "") or "").startswith("toqito"):
                setattr(mod, name, wrap(obj, twice=twice and name not in skip_twice))
