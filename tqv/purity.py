"""Caller-owned arguments must come back unchanged.

``install("toqito.state_props", ...)`` replaces every public function that a toqito sub-package exports by a wrapper
which (for the outermost call only – functions toqito calls internally are not re-checked) snapshots the array-like
arguments before the call and compares them afterwards.  A difference raises Violation(signature "args-mutated:<fn>").

Why this belongs to every property that says "for every input X, f(X) equals ...": the caller's X is the X of the
property statement; a function that returns the right number but scribbles on X makes the *next* statement about the
same X false (several independently seeded changes were of exactly this kind and were invisible to checks that pass a
fresh copy to every call).  Only numpy arrays and (nested) lists / tuples of them are tracked; everything else
(cvxpy / picos expressions, sparse matrices, scalars) is ignored.
"""

from __future__ import annotations

import functools
import importlib
import inspect
import threading

import numpy as np

from tqv.core import Violation

_state = threading.local()


def _snap(o, depth=0):
    if isinstance(o, np.ndarray):
        return ("a", o.shape, o.dtype.str, o.copy())
    if isinstance(o, (list, tuple)) and depth < 4:
        return ("l", [_snap(x, depth + 1) for x in o])
    return None


def _same(s, o):
    if s is None:
        return True
    if s[0] == "a":
        return isinstance(o, np.ndarray) and o.shape == s[1] and o.dtype.str == s[2] and np.array_equal(o, s[3], equal_nan=o.dtype.kind in "fc")
    return isinstance(o, (list, tuple)) and len(o) == len(s[1]) and all(_same(a, b) for a, b in zip(s[1], o))


def wrap(fn):
    name = fn.__name__

    @functools.wraps(fn)
    def wrapper(*args, **kwargs):
        if getattr(_state, "depth", 0) > 0:
            return fn(*args, **kwargs)
        snaps = [_snap(a) for a in args]
        ksnaps = {k: _snap(v) for k, v in kwargs.items()}
        _state.depth = 1
        try:
            out = fn(*args, **kwargs)
        finally:
            _state.depth = 0
        for i, (s, a) in enumerate(zip(snaps, args)):
            if not _same(s, a):
                raise Violation(f"{name} modified its positional argument #{i}, which belongs to the caller", "args-mutated:" + name)
        for k, s in ksnaps.items():
            if not _same(s, kwargs[k]):
                raise Violation(f"{name} modified its argument `{k}`, which belongs to the caller", "args-mutated:" + name)
        return out

    wrapper._tqv_pure = True
    return wrapper


def install(*packages):
    for pkg in packages:
        mod = importlib.import_module(pkg)
        for name, obj in list(vars(mod).items()):
            if name.startswith("_") or getattr(obj, "_tqv_pure", False):
                continue
            if inspect.isfunction(obj) and (obj.__module__ or "").startswith("toqito"):
                setattr(mod, name, wrap(obj))
