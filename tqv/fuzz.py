"""Coverage-guided campaign for one sub-check:  python -m tqv.fuzz Cxx <subcheck> [--runs N] [--seed S] [--corpus DIR]

atheris (libFuzzer) mutates a byte string; Hypothesis' ``fuzz_one_input`` decodes it through the sub-check's own
strategy into a case, so the fuzzer reaches the same structured domain as the property-based search, but steered by
branch coverage of the toqito modules (instrumented at import).  The oracle is the sub-check's ``check``.
The first violation (not matching an active known finding) is written as a replay file and reported like tqv.run does.
Prints one JSON line with the statistics (cases decoded, distinct non-trivial, violations) – the thorough tier of the
branch-heavy properties calls this from tqv.run via SubCheck(fuzz=...) hooks or it can be used stand-alone.
"""

from __future__ import annotations

import json
import os
import sys

for _v in ("OMP_NUM_THREADS", "OPENBLAS_NUM_THREADS", "MKL_NUM_THREADS", "RAYON_NUM_THREADS"):
    os.environ.setdefault(_v, "1")

from tqv.core import REPO, ROOT, case_hash, normalise  # noqa: E402

DEPS = str(ROOT / ".deps")
if DEPS not in sys.path:
    sys.path.insert(0, DEPS)
if REPO not in sys.path:
    sys.path.insert(0, REPO)


def main():
    import argparse
    import time
    import warnings

    warnings.filterwarnings("ignore")
    ap = argparse.ArgumentParser()
    ap.add_argument("property")
    ap.add_argument("subcheck")
    ap.add_argument("--runs", type=int, default=20000)
    ap.add_argument("--seed", type=int, default=int(os.environ.get("VERIF_SEED", "1")))
    ap.add_argument("--max-len", type=int, default=4096)
    ap.add_argument("--out", default=None, help="write the statistics JSON here")
    ap.add_argument("--no-save", action="store_true", help="do not write replay files (the caller does)")
    args = ap.parse_args()
    try:
        import atheris
    except ImportError:
        print(json.dumps({"skipped": "atheris is not installed (run MANIFEST.setup_cmd)"}))
        return 0

    # instrument toqito (and only toqito) for coverage feedback
    with atheris.instrument_imports(include=["toqito"], enable_loader_override=False):
        import importlib

        mod = importlib.import_module(f"tqv.props.{args.property.lower()}")
        sub = {s.name: s for s in mod.SUBCHECKS}[args.subcheck]
        # force the toqito imports the check makes lazily
        import pkgutil

        import toqito

        for m in pkgutil.iter_modules(toqito.__path__):
            try:
                importlib.import_module(f"toqito.{m.name}")
            except Exception:  # noqa: BLE001
                pass

    import hypothesis
    from hypothesis import HealthCheck, given, settings

    from tqv.run import execute, load_known, replay_file, save_replay

    pid = args.property.upper()
    subs = {s.name: s for s in mod.SUBCHECKS}
    enabled = {}
    for e in load_known(pid):
        if e.get("status") == "open":
            out = replay_file(subs, ROOT / e["witness"])
            if out[0] == "violation" and out[1] == e["signature"]:
                enabled[e["signature"]] = e["id"]
    stats = {"property": pid, "subcheck": sub.name, "decoded": 0, "nontrivial": 0, "distinct_nontrivial": 0, "inconclusive": 0, "known_hits": 0, "violations": [], "samples": []}
    seen = set()
    t0 = time.time()

    @settings(deadline=None, database=None, suppress_health_check=list(HealthCheck))
    @given(sub.get_strategy())
    def test(case):
        case = normalise(case)
        stats["decoded"] += 1
        if stats["decoded"] in (1, 20, 100) or stats["decoded"] % 200 == 0:
            _dump(stats, seen, t0, args)
        lab = sub.nontrivial(case)
        if lab:
            stats["nontrivial"] += 1
            seen.add(case_hash(case)[:12])
            if len(stats["samples"]) < 2:
                stats["samples"].append({"subcheck": sub.name, "label": "fuzz:" + str(lab), "case": case})
        out = execute(sub, case)
        if out[0] == "inconclusive":
            stats["inconclusive"] += 1
        elif out[0] == "violation":
            if out[1] in enabled:
                stats["known_hits"] += 1
            elif not any(v["signature"] == out[1] for v in stats["violations"]):
                path = "" if args.no_save else save_replay(pid, sub.name, case, out[2], out[1])
                stats["violations"].append({"signature": out[1], "replay": str(path), "message": out[2][:600], "case": case})
                if not args.no_save:
                    print(f"VIOLATION property={pid} replay={path}", flush=True)
                _dump(stats, seen, t0, args)
        elif out[0] == "harness":
            raise RuntimeError(out[1])

    fuzz_one = test.hypothesis.fuzz_one_input

    def target(data):
        fuzz_one(data)

    # starting corpus: pseudo-random byte strings long enough for Hypothesis to decode complete cases (with an empty
    # corpus libFuzzer only tries tiny inputs, every one of which Hypothesis rejects as "overrun": no coverage signal)
    import random
    import tempfile

    corpus = tempfile.mkdtemp(prefix="tqv_fuzz_corpus_")
    rnd = random.Random(args.seed)
    for i in range(48):
        with open(os.path.join(corpus, f"seed{i:02d}"), "wb") as fh:
            fh.write(rnd.randbytes(rnd.choice([256, 512, 1024, 2048])))
    argv = [sys.argv[0], corpus, f"-runs={args.runs}", f"-seed={args.seed}", f"-max_len={args.max_len}", "-len_control=0", "-print_final_stats=0", "-verbosity=0"]
    atheris.Setup(argv, target)
    try:
        atheris.Fuzz()
    except SystemExit:
        pass
    finally:
        _finish(stats, seen, t0, args)
    return 0


def _dump(stats, seen, t0, args):
    """libFuzzer ends the process itself (no atexit, no finally): statistics are written to --out as the run goes"""
    import time

    stats["distinct_nontrivial"] = len(seen)
    stats["nt_hashes"] = sorted(seen)
    stats["wall_s"] = round(time.time() - t0, 1)
    if args.out:
        tmp = args.out + ".tmp"
        with open(tmp, "w") as fh:
            fh.write(json.dumps(stats))
        os.replace(tmp, args.out)


def _finish(stats, seen, t0, args):
    _dump(stats, seen, t0, args)
    print("FUZZ-STATS " + json.dumps(stats), flush=True)


if __name__ == "__main__":
    import atexit  # noqa: F401  (libFuzzer exits the process itself; statistics are printed from the finally block)

    sys.exit(main())
