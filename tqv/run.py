"""Runner:  python -m tqv.run Cxx --tier quick|thorough   |   python -m tqv.run Cxx --replay <file>

Exit codes: 0 property held on everything explored (KNOWN-FINDING lines may be printed),
            1 at least one unlisted violation (one `VIOLATION property=.. replay=..` line each),
            2 harness error (never a VIOLATION line).
"""

from __future__ import annotations

import os
import sys

# pin BLAS threads before numpy is imported anywhere: shards are processes, not threads
for _v in ("OMP_NUM_THREADS", "OPENBLAS_NUM_THREADS", "MKL_NUM_THREADS", "NUMEXPR_NUM_THREADS", "RAYON_NUM_THREADS"):
    os.environ.setdefault(_v, "1")
if __name__ == "__main__" and os.environ.get("PYTHONHASHSEED") != "0":
    os.environ["PYTHONHASHSEED"] = "0"
    os.execv(sys.executable, [sys.executable, "-m", "tqv.run"] + sys.argv[1:])

import argparse
import collections
import importlib
import json
import multiprocessing as mp
import shutil
import subprocess
import tempfile
import time
import traceback
import warnings
from pathlib import Path

from tqv.core import (
    _Timeout,
    REPO,
    ROOT,
    HarnessError,
    Inconclusive,
    SubCheck,
    Violation,
    case_hash,
    classify_exception,
    normalise,
    time_limit,
)

if REPO not in sys.path:
    sys.path.insert(0, REPO)

warnings.filterwarnings("ignore")

PROCS = int(os.environ.get("TQV_PROCS", "16"))
# TQV_OUT redirects everything a run writes (evidence, new replay files); used by tools/mutants.py only
OUT = Path(os.environ["TQV_OUT"]) if os.environ.get("TQV_OUT") else ROOT
SHRINK_BUDGET = {"quick": 45.0, "thorough": 240.0}
WALL_LIMIT = {"quick": 900.0, "thorough": 4 * 3600.0}
MAX_SAMPLES_PER_UNIT = 2


# ----------------------------------------------------------------------------------------------
# executing one case
# ----------------------------------------------------------------------------------------------
def execute(sub: SubCheck, case: dict):
    """Run one case.  Returns ('ok',) | ('inconclusive', reason) | ('violation', signature, message)
    | ('harness', text)."""
    try:
        with time_limit(sub.case_timeout):
            sub.check(case)
        return ("ok",)
    except Violation as v:
        return ("violation", v.signature, v.message)
    except Inconclusive as i:
        return ("inconclusive", i.reason)
    except HarnessError as h:
        return ("harness", str(h))
    except _Timeout:
        return ("inconclusive", "timeout")  # a repeat alarm that slipped past time_limit's own handling
    except Exception as exc:  # noqa: BLE001
        mod = type(exc).__module__ or ""
        if mod.startswith("hypothesis"):
            raise
        return classify_exception(exc)


def load_property(pid: str):
    mod = importlib.import_module(f"tqv.props.{pid.lower()}")
    subs = {s.name: s for s in mod.SUBCHECKS}
    if len(subs) != len(mod.SUBCHECKS):
        raise HarnessError("duplicate sub-check names")
    return mod, subs


# ----------------------------------------------------------------------------------------------
# known findings
# ----------------------------------------------------------------------------------------------
def load_known(pid: str):
    path = ROOT / "known_findings.json"
    if not path.exists():
        return []
    data = json.loads(path.read_text())
    return [e for e in data.get("findings", []) if e.get("property") == pid]


def replay_file(subs, path: Path):
    rec = json.loads(path.read_text())
    sub = subs.get(rec["subcheck"])
    if sub is None:
        return ("harness", f"replay file {path} names unknown sub-check {rec['subcheck']}")
    return execute(sub, rec["case"])


def save_replay(pid, subname, case, message, signature, new=True):
    h = case_hash(case)[:10]
    d = OUT / "replays" / ("_new" if new else "") / pid
    d.mkdir(parents=True, exist_ok=True)
    p = d / f"{subname}-{h}.json"
    head = ""
    try:
        head = subprocess.run(
            ["git", "-C", REPO, "rev-parse", "--short", "HEAD"], capture_output=True, text=True, timeout=10
        ).stdout.strip()
    except Exception:  # noqa: BLE001
        pass
    from tqv.core import canon

    p.write_text(
        json.dumps(
            {
                "property": pid,
                "subcheck": subname,
                "signature": signature,
                "message": message[:2000],
                "toqito_git_head": head,
                "case": json.loads(canon(case)),
            },
            indent=1,
        )
    )
    return p.relative_to(OUT) if OUT == ROOT else p


# ----------------------------------------------------------------------------------------------
# one work unit = one (sub-check, shard) in its own process
# ----------------------------------------------------------------------------------------------
def _limit_memory():
    """Address-space cap per shard (default 12 GiB, TQV_MEM_GB overrides): a code change that makes toqito allocate without
    bound then fails with MemoryError inside the call (reported like any other exception from toqito) instead of
    inviting the kernel's out-of-memory killer, which takes unrelated processes with it."""
    try:
        import resource

        lim = int(float(os.environ.get("TQV_MEM_GB", "12")) * 2**30)
        if lim > 0:
            resource.setrlimit(resource.RLIMIT_AS, (lim, lim))
    except Exception:  # noqa: BLE001
        pass


def run_unit(pid, subname, tier, seed, shard, nshards, n_cases, enabled_known, out_path):
    t0 = time.time()
    _limit_memory()
    res = {
        "sub": subname,
        "shard": shard,
        "evaluations": 0,
        "nontrivial": {},
        "nt_hashes": [],
        "inconclusive": {},
        "known_hits": {},
        "samples": [],
        "failure": None,
        "harness_error": None,
        "wall": 0.0,
    }
    try:
        _mod, subs = load_property(pid)
        sub = subs[subname]
        nt = collections.Counter()
        inc = collections.Counter()
        known = collections.Counter()
        hashes = set()
        fail_cache = {}
        state = {"t_first_fail": None, "last_fail": None, "harness": None, "first_sig": None}
        budget = SHRINK_BUDGET[tier]

        def account(case, h):
            """count one explored case (evaluations, non-trivial label, sample)"""
            try:
                label = sub.nontrivial(case)
            except Exception as e:  # noqa: BLE001
                state["harness"] = f"nontrivial() raised {e!r}"
                raise HarnessError(state["harness"])
            res["evaluations"] += 1
            if res["evaluations"] == 1 and not label:
                res["first_case"] = {"subcheck": subname, "label": None, "case": _trim(case)}
            if label:
                nt[label] += 1
                hashes.add(h[:12])
                if len(res["samples"]) < MAX_SAMPLES_PER_UNIT:
                    res["samples"].append({"subcheck": subname, "label": label, "case": _trim(case)})

        def outcome(case, h, out):
            """turn an execute() outcome into None (continue) or a failure record"""
            if out[0] == "ok":
                return None
            if out[0] == "inconclusive":
                inc[out[1]] += 1
                return None
            if out[0] == "harness":
                state["harness"] = out[1]
                raise HarnessError(out[1])
            _, sig, msg = out
            if sig in enabled_known:
                known[sig] += 1
                return None
            if state["first_sig"] is None:
                state["first_sig"] = sig
            elif sig != state["first_sig"]:
                # while shrinking, stay on the first defect found (do not slip to another one)
                return None
            rec = {"case": case, "message": msg, "signature": sig}
            fail_cache[h] = rec
            state["last_fail"] = rec
            if state["t_first_fail"] is None:
                state["t_first_fail"] = time.time()
            return rec

        def over_budget():
            return state["t_first_fail"] is not None and time.time() - state["t_first_fail"] > budget

        def one(case):
            rec = _one(case)
            if rec is not None:
                # single raise site: Hypothesis identifies a failure by exception type and origin
                raise Violation(rec["message"], rec["signature"])

        def _one(case):
            case = normalise(case)
            h = case_hash(case)
            if h in fail_cache:
                state["last_fail"] = fail_cache[h]
                return fail_cache[h]
            if over_budget():
                return None  # shrink budget exhausted: let the shrinker finish quickly
            account(case, h)
            return outcome(case, h, execute(sub, case))

        if sub.cases is not None:
            allc = sub.cases(tier)
            mine = allc[shard::nshards]
            for case in mine:
                try:
                    one(case)
                except Violation:
                    if res["failure"] is None:
                        res["failure"] = state["last_fail"]
                except HarnessError:
                    break
        elif sub.machine is not None:
            from tqv.machine import run_machine

            import hypothesis

            try:
                run_machine(sub, dict(account=account, outcome=outcome, over_budget=over_budget, fail_cache=fail_cache, state=state), seed * 1000 + shard, n_cases, tier)
            except hypothesis.errors.Flaky:
                if state["last_fail"] is None:
                    inc["hypothesis_flaky"] += 1
            if state["last_fail"] is not None:
                res["failure"] = state["last_fail"]
        else:
            import hypothesis
            from hypothesis import HealthCheck, Phase, given, settings

            strat = sub.get_strategy()

            @hypothesis.seed(seed * 1000 + shard)
            @settings(
                max_examples=n_cases,
                deadline=None,
                database=None,
                derandomize=False,
                report_multiple_bugs=False,
                phases=[Phase.generate, Phase.shrink],
                suppress_health_check=[HealthCheck.too_slow, HealthCheck.data_too_large, HealthCheck.large_base_example],
                verbosity=hypothesis.Verbosity.quiet,
            )
            @given(strat)
            def test(case):
                one(case)

            try:
                test()
            except Violation:
                res["failure"] = state["last_fail"]
            except HarnessError:
                pass
            except hypothesis.errors.Flaky:
                # a failure that did not reproduce identically inside Hypothesis (e.g. a time-out on the re-run under
                # load): the recorded failing case, if any, is reported and its replay file decides
                if state["last_fail"] is not None:
                    res["failure"] = state["last_fail"]
                else:
                    inc["hypothesis_flaky"] += 1
        if state["harness"]:
            res["harness_error"] = state["harness"]
        res["nontrivial"] = dict(nt)
        res["nt_hashes"] = sorted(hashes)
        res["inconclusive"] = dict(inc)
        res["known_hits"] = dict(known)
    except BaseException as exc:  # noqa: BLE001
        res["harness_error"] = f"{type(exc).__name__}: {exc}\n" + traceback.format_exc()[-3000:]
    res["wall"] = time.time() - t0
    from tqv.core import canon

    Path(out_path).write_text(canon(res))


def run_fuzz_unit(pid, subname, seed, runs, out_path, wall):
    """thorough tier: coverage-guided campaign (tqv.fuzz) for one sub-check, result converted to a unit record"""
    t0 = time.time()
    res = {"sub": subname, "shard": "fuzz", "evaluations": 0, "nontrivial": {}, "nt_hashes": [], "inconclusive": {}, "known_hits": {}, "samples": [], "failure": None, "harness_error": None, "wall": 0.0}
    stats_path = out_path + ".fuzzstats"
    env = dict(os.environ, PYTHONPATH=str(ROOT / ".deps") + os.pathsep + os.environ.get("PYTHONPATH", ""))
    try:
        subprocess.run([sys.executable, "-m", "tqv.fuzz", pid, subname, "--runs", str(runs), "--seed", str(seed), "--out", stats_path, "--no-save"], cwd=str(ROOT), env=env, capture_output=True, text=True, timeout=wall)
    except subprocess.TimeoutExpired:
        res["inconclusive"]["fuzz_wall_limit"] = 1
    if os.path.exists(stats_path):
        st = json.loads(Path(stats_path).read_text())
        if st.get("skipped"):
            res["inconclusive"]["fuzz_skipped_no_atheris"] = 1
        else:
            res["evaluations"] = st["decoded"]
            res["nontrivial"] = {"fuzz(coverage-guided)": st["nontrivial"]}
            res["nt_hashes"] = st.get("nt_hashes", [])
            res["inconclusive"].update({"fuzz_inconclusive": st["inconclusive"]} if st["inconclusive"] else {})
            res["known_hits"] = {"fuzz": st["known_hits"]} if st["known_hits"] else {}
            res["samples"] = [dict(s_, case=_trim(s_["case"])) for s_ in st.get("samples", [])]
            if st["violations"]:
                v = st["violations"][0]
                res["failure"] = {"case": v["case"], "message": v["message"], "signature": v["signature"]}
    else:
        res["inconclusive"]["fuzz_no_statistics"] = 1
    res["wall"] = time.time() - t0
    from tqv.core import canon

    Path(out_path).write_text(canon(res))


def _trim(case, limit=1500):
    """Keep evidence samples readable: long lists are abbreviated (the replay files keep full cases)."""
    s = json.dumps(case)
    if len(s) <= limit:
        return case

    def cut(o):
        if isinstance(o, list):
            if len(o) > 12:
                return [cut(x) for x in o[:6]] + [f"... {len(o) - 6} more"]
            return [cut(x) for x in o]
        if isinstance(o, dict):
            return {k: cut(v) for k, v in o.items()}
        return o

    return cut(case)


def _replay_tier(pid, out_path):
    """Replay the witnesses of open known findings and every committed replay file; write the outcome as JSON."""
    res = {"violations": [], "harness_errors": [], "enabled_known": {}, "known_lines": [], "replayed": 0}
    _limit_memory()
    try:
        _mod, subs = load_property(pid)
        witness_files = set()
        for e in load_known(pid):
            if e.get("status") != "open":
                continue
            wpath = ROOT / e["witness"]
            witness_files.add(wpath.resolve())
            out = replay_file(subs, wpath)
            if out[0] == "violation" and out[1] == e["signature"]:
                res["known_lines"].append(f"KNOWN-FINDING: property={pid} {e['text']}")
                res["enabled_known"][e["signature"]] = e["id"]
            elif out[0] == "violation":
                res["violations"].append((e["witness"], out[1], out[2]))
            elif out[0] == "harness":
                res["harness_errors"].append(out[1])
            # passes / inconclusive: filter stays off, nothing printed
        rdir = ROOT / "replays" / pid
        if rdir.is_dir():
            for f in sorted(rdir.glob("*.json")):
                if f.resolve() in witness_files:
                    continue
                res["replayed"] += 1
                out = replay_file(subs, f)
                if out[0] == "violation":
                    if out[1] in res["enabled_known"]:
                        continue
                    res["violations"].append((str(f.relative_to(ROOT)), out[1], out[2]))
                elif out[0] == "harness":
                    res["harness_errors"].append(f"{f}: {out[1]}")
    except BaseException as exc:  # noqa: BLE001
        res["harness_errors"].append(f"replay tier: {type(exc).__name__}: {exc}\n" + traceback.format_exc()[-2000:])
    Path(out_path).write_text(json.dumps(res))


# ----------------------------------------------------------------------------------------------
# main
# ----------------------------------------------------------------------------------------------
def main():
    ap = argparse.ArgumentParser()
    ap.add_argument("property")
    ap.add_argument("--tier", default=os.environ.get("VERIF_TIER", "quick"), choices=["quick", "thorough"])
    ap.add_argument("--replay", default=None)
    ap.add_argument("--only", default=None, help="comma-separated sub-check names (development aid)")
    ap.add_argument("--scale", type=float, default=float(os.environ.get("TQV_SCALE", "1")))
    args = ap.parse_args()
    pid = args.property.upper()
    try:
        seed = int(os.environ.get("VERIF_SEED", "1"))
    except ValueError:
        seed = 1
    t0 = time.time()
    try:
        mod, subs = load_property(pid)
    except Exception:  # noqa: BLE001
        traceback.print_exc()
        print(f"HARNESS-ERROR property={pid} cannot load property module")
        return 2

    # ---- single replay --------------------------------------------------------------------
    if args.replay:
        p = Path(args.replay)
        if not p.is_absolute() and not p.exists():
            p = ROOT / p
        out = replay_file(subs, p)
        if out[0] == "ok":
            print(f"replay {p}: property held")
            return 0
        if out[0] == "inconclusive":
            print(f"replay {p}: inconclusive ({out[1]})")
            return 0
        if out[0] == "harness":
            print(f"HARNESS-ERROR {out[1]}")
            return 2
        known = {e["signature"]: e for e in load_known(pid) if e.get("status") == "open"}
        if out[1] in known:
            print(f"KNOWN-FINDING: property={pid} {known[out[1]]['text']}")
            print(f"  signature={out[1]}\n  {out[2]}")
            return 0
        print(f"VIOLATION property={pid} replay={args.replay}")
        print(f"  signature={out[1]}\n  {out[2]}")
        return 1

    violations = []  # (replay path, signature, message)
    harness_errors = []
    # ---- replay tier (in a forked child: native thread pools started by a solver in the parent would not exist in
    #      the forked shards, which then wait on them forever) ------------------------------------------------------
    tmp0 = Path(tempfile.mkdtemp(prefix=f"tqv_{pid}_rt_"))
    ctx0 = mp.get_context("fork")
    rt_out = tmp0 / "replay_tier.json"
    pr0 = ctx0.Process(target=_replay_tier, args=(pid, str(rt_out)))
    pr0.start()
    pr0.join(WALL_LIMIT[args.tier])
    if pr0.is_alive():
        pr0.kill()
        pr0.join()
        harness_errors.append("replay tier exceeded the wall limit")
        rt = {"violations": [], "harness_errors": [], "enabled_known": {}, "known_lines": [], "replayed": 0}
    elif not rt_out.exists():
        harness_errors.append(f"replay tier died (exit {pr0.exitcode})")
        rt = {"violations": [], "harness_errors": [], "enabled_known": {}, "known_lines": [], "replayed": 0}
    else:
        rt = json.loads(rt_out.read_text())
    shutil.rmtree(tmp0, ignore_errors=True)
    for line in rt["known_lines"]:
        print(line)
    violations.extend(tuple(v) for v in rt["violations"])
    harness_errors.extend(rt["harness_errors"])
    enabled_known = rt["enabled_known"]
    replayed = rt["replayed"]

    # ---- generated search -----------------------------------------------------------------
    only = set(args.only.split(",")) if args.only else None
    units = []
    for sub in mod.SUBCHECKS:
        if only and sub.name not in only:
            continue
        if sub.cases is not None:
            ncases = len(sub.cases(args.tier))
            k = max(1, min(sub.shards, PROCS, ncases))
            for s in range(k):
                units.append((sub, s, k, 0))
        else:
            total = getattr(sub, args.tier)
            total = max(1, int(total * args.scale))
            k = max(1, min(sub.shards, PROCS, total))
            per = -(-total // k)
            for s in range(k):
                units.append((sub, s, k, per))
    fuzz_units = []
    if args.tier == "thorough":
        for sub in mod.SUBCHECKS:
            if sub.fuzz and (not only or sub.name in only):
                fuzz_units.append(sub)
    tmp = Path(tempfile.mkdtemp(prefix=f"tqv_{pid}_"))
    ctx = mp.get_context("fork")
    pending = list(enumerate(units))
    # longest first
    pending.sort(key=lambda iu: -(iu[1][3] * (1 + 50 * bool(iu[1][0].case_timeout))))
    pending = [(10_000 + j, (sub, "fuzz", 1, int(sub.fuzz * args.scale) or 1)) for j, sub in enumerate(fuzz_units)] + pending
    running = {}
    results = []
    killed = []
    try:
        while pending or running:
            while pending and len(running) < PROCS:
                i, (sub, s, k, per) = pending.pop(0)
                outp = tmp / f"u{i}.json"
                limit = sub.wall_limit or WALL_LIMIT[args.tier]
                if s == "fuzz":
                    pr = ctx.Process(target=run_fuzz_unit, args=(pid, sub.name, seed, per, str(outp), limit - 30))
                else:
                    pr = ctx.Process(
                        target=run_unit,
                        args=(pid, sub.name, args.tier, seed, s, k, per, enabled_known, str(outp)),
                    )
                pr.start()
                running[i] = (pr, outp, time.time(), limit, sub.name, s)
            time.sleep(0.05)
            for i in list(running):
                pr, outp, ts, limit, sname, s = running[i]
                if not pr.is_alive():
                    pr.join()
                    if outp.exists():
                        results.append(json.loads(outp.read_text()))
                    elif pr.exitcode is not None and pr.exitcode < 0:
                        # killed by a signal (out-of-memory killer, native crash inside a solver): no verdict for its cases
                        killed.append(f"{sname}#{s}(signal {-pr.exitcode})")
                    else:
                        harness_errors.append(f"shard {sname}#{s} died without result (exit {pr.exitcode})")
                    del running[i]
                elif time.time() - ts > limit:
                    pr.kill()
                    pr.join()
                    killed.append(f"{sname}#{s}")
                    del running[i]
    finally:
        for pr, *_ in running.values():
            pr.kill()
        shutil.rmtree(tmp, ignore_errors=True)

    # ---- aggregate ------------------------------------------------------------------------
    per_sub = {}
    all_hashes = set()
    samples = []
    total_eval = 0
    known_total = collections.Counter()
    seen_sigs = set()
    for r in results:
        ps = per_sub.setdefault(
            r["sub"],
            {"evaluations": 0, "nontrivial_by_label": {}, "inconclusive_by_reason": {}, "known_finding_hits": {}, "distinct_nontrivial": 0},
        )
        ps["evaluations"] += r["evaluations"]
        total_eval += r["evaluations"]
        for kk, v in r["nontrivial"].items():
            ps["nontrivial_by_label"][kk] = ps["nontrivial_by_label"].get(kk, 0) + v
        for kk, v in r["inconclusive"].items():
            ps["inconclusive_by_reason"][kk] = ps["inconclusive_by_reason"].get(kk, 0) + v
        for kk, v in r["known_hits"].items():
            ps["known_finding_hits"][kk] = ps["known_finding_hits"].get(kk, 0) + v
            known_total[kk] += v
        hs = {r["sub"] + ":" + h for h in r["nt_hashes"]}
        ps.setdefault("_h", set()).update(hs)
        all_hashes |= hs
        if r["samples"] and sum(1 for s_ in samples if s_["subcheck"] == r["sub"]) < 1:
            samples.append(r["samples"][0])
        if r["harness_error"]:
            harness_errors.append(f"{r['sub']}#{r['shard']}: {r['harness_error']}")
        if r["failure"]:
            f = r["failure"]
            key = (r["sub"], f["signature"])
            if key in seen_sigs:
                continue
            seen_sigs.add(key)
            path = save_replay(pid, r["sub"], f["case"], f["message"], f["signature"])
            violations.append((str(path), f["signature"], f["message"]))
    for ps in per_sub.values():
        ps["distinct_nontrivial"] = len(ps.pop("_h", ()))
    if killed:
        for kname in killed:
            ps = per_sub.setdefault(kname.split("#")[0], {"evaluations": 0, "nontrivial_by_label": {}, "inconclusive_by_reason": {}, "known_finding_hits": {}, "distinct_nontrivial": 0})
            why = "shard_killed_by_signal" if "(signal" in kname else "shard_killed_at_wall_limit"
            ps["inconclusive_by_reason"][why] = ps["inconclusive_by_reason"].get(why, 0) + 1
    if len(samples) < 3:
        for r in results:
            for s_ in r["samples"]:
                if s_ not in samples and len(samples) < 6:
                    samples.append(s_)
    if not samples:
        samples = [r["first_case"] for r in results if r.get("first_case")][:3]

    wall = time.time() - t0
    evidence = {
        "property_id": pid,
        "tier": args.tier,
        "seed": seed,
        "level": "exploration",
        "coverage": {
            "evaluations": total_eval,
            "distinct_nontrivial": len(all_hashes),
            "rule": mod.RULE,
            "samples": samples,
            "exhaustive": bool(getattr(mod, "EXHAUSTIVE", False)),
            "replay_tier_files": replayed,
            "per_subcheck": per_sub,
            "known_finding_hits": dict(known_total),
            "known_findings_active": sorted(enabled_known.values()),
            "shards_killed": killed,
        },
        "assumptions": list(getattr(mod, "ASSUMPTIONS", [])),
        "wall_s": round(wall, 2),
        "violations": len(violations),
    }
    if harness_errors:
        for h in harness_errors[:5]:
            print("HARNESS-ERROR", h)
        if not violations:
            print(f"property={pid} harness error: no verdict")
            return 2
        # violations found by other shards stand on their own (each has a replay file that decides); they are reported
        print(f"property={pid} harness error in {len(harness_errors)} shard(s): their cases have no verdict")
    evidence_ok = True
    try:
        import jsonschema

        schema = json.loads(Path("/root/.vp/EVIDENCE.schema.json").read_text()) if Path("/root/.vp/EVIDENCE.schema.json").exists() else json.loads((ROOT / "tqv" / "EVIDENCE.schema.json").read_text())
        jsonschema.validate(evidence, schema)
    except ImportError:
        pass
    except Exception as e:  # noqa: BLE001
        evidence_ok = False
        print("HARNESS-ERROR evidence does not validate:", str(e)[:500])
        if not violations:
            return 2
    (OUT / "evidence").mkdir(parents=True, exist_ok=True)
    (OUT / "evidence" / f"{pid}.json").write_text(json.dumps(evidence, indent=1, sort_keys=True))
    ninc = sum(sum(ps["inconclusive_by_reason"].values()) for ps in per_sub.values())
    print(
        f"property={pid} tier={args.tier} seed={seed} evaluations={total_eval} distinct_nontrivial={len(all_hashes)} "
        f"inconclusive={ninc} known_hits={sum(known_total.values())} replayed={replayed} wall={wall:.1f}s"
    )
    for name, ps in per_sub.items():
        print(f"  {name}: eval={ps['evaluations']} nt={ps['distinct_nontrivial']} inc={ps['inconclusive_by_reason']} known={ps['known_finding_hits']}")
    if violations:
        for path, sig, msg in violations:
            print(f"VIOLATION property={pid} replay={path}")
            print(f"  signature={sig}\n  {msg[:600]}")
        return 1
    return 0


if __name__ == "__main__":
    sys.exit(main())
