"""Hypothesis stateful (rule-based) machines for the history-quantified properties (C07, C19).

A sub-check declares ``machine=HistorySpec(...)`` and ``check=spec.replay``:

* ``init``   – strategy for the JSON config of one history (e.g. the game, the generator under test);
* ``ops``    – ``{op_name: strategy of a JSON args dict}``; every op becomes a ``@rule``;
* ``model``  – class with ``__init__(self, cfg)``, ``apply(self, op, args)`` (performs the operation on the real
  object *and* on the reference model; raises Violation / Inconclusive), ``invariant(self)`` (runs after every step)
  and optionally ``teardown(self)``.

The machine executes each step live.  The history ``{"init": cfg, "steps": [[op, args], ...]}`` is the *case*: it is
what is hashed, counted, shrunk (Hypothesis shrinks the whole rule sequence as one value), stored in the replay file
and re-executed by ``spec.replay(case)`` without Hypothesis.
"""

from __future__ import annotations

import copy
from dataclasses import dataclass
from typing import Any

from tqv.core import Inconclusive, Violation, _Timeout, case_hash, classify_exception, normalise, time_limit


@dataclass
class HistorySpec:
    init: Any
    ops: dict
    model: Any
    max_steps: int = 8
    step_timeout: float = 0.0

    def replay(self, case):
        m = self.model(case["init"])
        try:
            m.invariant()
            for op, args in case["steps"]:
                with time_limit(self.step_timeout):
                    m.apply(op, args)
                m.invariant()
        finally:
            if hasattr(m, "teardown"):
                m.teardown()


def _guard(fn, timeout):
    """run fn() -> execute()-style outcome tuple"""
    try:
        with time_limit(timeout):
            fn()
        return ("ok",)
    except Violation as v:
        return ("violation", v.signature, v.message)
    except Inconclusive as i:
        return ("inconclusive", i.reason)
    except _Timeout:
        return ("inconclusive", "timeout")
    except Exception as exc:  # noqa: BLE001
        if (type(exc).__module__ or "").startswith("hypothesis"):
            raise
        return classify_exception(exc)


def run_machine(sub, hooks, seed, n_cases, tier):
    import hypothesis
    from hypothesis import HealthCheck, Phase, settings
    from hypothesis.stateful import RuleBasedStateMachine, initialize, invariant, rule, run_state_machine_as_test

    spec: HistorySpec = sub.machine
    state = hooks["state"]

    class M(RuleBasedStateMachine):
        def __init__(self):
            super().__init__()
            self.hist = None
            self.model = None
            self.dead = False  # an inconclusive step ends the comparison for this history
            self.failed = False

        def _run(self, fn):
            if self.dead or self.failed:
                return
            case = normalise(self.hist)
            h = case_hash(case)
            rec = hooks["fail_cache"].get(h)
            if rec is None:
                if hooks["over_budget"]():
                    return
                out = _guard(fn, spec.step_timeout)
                if out[0] == "inconclusive":
                    self.dead = True
                rec = hooks["outcome"](case, h, out)
            else:
                state["last_fail"] = rec
            if rec is not None:
                self.failed = True
                raise Violation(rec["message"], rec["signature"])

        @initialize(cfg=spec.init)
        def start(self, cfg):
            self.hist = {"init": cfg, "steps": []}

            def mk():
                self.model = spec.model(normalise(cfg))
                self.model.invariant()

            self._run(mk)

        def teardown(self):
            if self.hist is not None and not self.failed and not hooks["over_budget"]():
                case = normalise(self.hist)
                hooks["account"](case, case_hash(case))
            if self.model is not None and hasattr(self.model, "teardown"):
                self.model.teardown()

    def make_rule(name, strat):
        @rule(args=strat)
        def r(self, args):
            if self.model is None or self.dead or self.failed:
                return
            self.hist["steps"].append([name, args])
            a = normalise(args)

            def go():
                self.model.apply(name, a)
                self.model.invariant()

            self._run(go)

        r.__name__ = f"op_{name}"
        return r

    for name, strat in spec.ops.items():
        setattr(M, f"op_{name}", make_rule(name, strat))

    st = settings(
        max_examples=n_cases,
        stateful_step_count=spec.max_steps,
        deadline=None,
        database=None,
        derandomize=False,
        report_multiple_bugs=False,
        phases=[Phase.generate, Phase.shrink],
        suppress_health_check=list(HealthCheck),
        verbosity=hypothesis.Verbosity.quiet,
    )
    try:
        run_state_machine_as_test(hypothesis.seed(seed)(M), settings=st)
    except Violation:
        pass
