"""Shared Hypothesis strategies and the deterministic builders that turn a drawn *spec* into numpy objects.

All randomness is a Hypothesis draw.  Bulk numeric content comes from a drawn 63-bit seed expanded with
numpy's PCG64 (a pure function of the draw, stored in the case, so replay is exact); small matrices may
also be drawn entry by entry so that the shrinker can produce readable counter-examples.
"""

from __future__ import annotations

import numpy as np
from hypothesis import strategies as st

SEED = st.integers(0, 2**63 - 1)


def rng(seed: int) -> np.random.Generator:
    return np.random.Generator(np.random.PCG64(int(seed)))


# ---------------------------------------------------------------------------------------------
# dimension vectors (drawn against a running size budget, never filtered)
# ---------------------------------------------------------------------------------------------
@st.composite
def dims(draw, n=None, lo=1, hi=4, budget=64, min_total=2, nmin=1, nmax=5):
    if n is None:
        n = draw(st.integers(nmin, nmax))
    out, prod = [], 1
    for i in range(n):
        remaining_min = lo ** (n - i - 1)
        top = max(lo, min(hi, budget // (prod * remaining_min)))
        d = draw(st.integers(lo, top))
        out.append(d)
        prod *= d
    if prod < min_total:
        # construction, not rejection: raise one entry to reach the minimum total
        i = draw(st.integers(0, n - 1))
        out[i] = max(out[i], min_total)
    return out


def prod(xs):
    p = 1
    for x in xs:
        p *= int(x)
    return p


# ---------------------------------------------------------------------------------------------
# matrix specs
# ---------------------------------------------------------------------------------------------
@st.composite
def matrix_spec(draw, rows, cols, sources=("label", "small", "prng"), dtypes=("int", "float", "complex")):
    """A JSON spec of a rows x cols matrix; build with :func:`build_matrix`."""
    srcs = [s for s in sources if not (s == "small" and rows * cols > 144)]
    src = draw(st.sampled_from(srcs))
    dtype = draw(st.sampled_from(list(dtypes)))
    spec = {"src": src, "dtype": dtype, "rows": rows, "cols": cols}
    if src == "small":
        n = rows * cols
        spec["re"] = draw(st.lists(st.integers(-3, 3), min_size=n, max_size=n))
        if dtype == "complex":
            spec["im"] = draw(st.lists(st.integers(-3, 3), min_size=n, max_size=n))
    elif src == "prng":
        spec["seed"] = draw(SEED)
    return spec


def build_matrix(spec) -> np.ndarray:
    r, c = spec["rows"], spec["cols"]
    dt = spec["dtype"]
    if spec["src"] == "label":
        m = np.arange(r * c, dtype=np.int64).reshape(r, c)
        if dt == "float":
            m = m.astype(np.float64)
        elif dt == "complex":
            m = m.astype(np.complex128) + 1j * (m[::-1, ::-1] % 7)
        return m
    if spec["src"] == "small":
        m = np.array(spec["re"], dtype=np.int64).reshape(r, c)
        if dt == "float":
            m = m.astype(np.float64) / 2
        elif dt == "complex":
            m = m.astype(np.complex128) + 1j * np.array(spec["im"], dtype=np.int64).reshape(r, c)
        return m
    g = rng(spec["seed"])
    if dt == "int":
        return g.integers(-9, 10, size=(r, c)).astype(np.int64)
    if dt == "float":
        return g.normal(size=(r, c))
    return g.normal(size=(r, c)) + 1j * g.normal(size=(r, c))


def rand_matrix(seed, r, c, cplx=True):
    g = rng(seed)
    m = g.normal(size=(r, c))
    if cplx:
        m = m + 1j * g.normal(size=(r, c))
    return m


def rand_unitary(seed, d, real=False):
    """Haar-ish unitary from QR with the sign fix (a pure function of ``seed``)."""
    g = rng(seed)
    a = g.normal(size=(d, d))
    if not real:
        a = a + 1j * g.normal(size=(d, d))
    q, r = np.linalg.qr(a)
    ph = np.diag(r).copy()
    ph[np.abs(ph) < 1e-300] = 1
    ph = ph / np.abs(ph)
    return q * ph


def rand_isometry(seed, rows, cols, real=False):
    """rows x cols matrix with orthonormal columns (rows >= cols)."""
    assert rows >= cols
    return rand_unitary(seed, rows, real)[:, :cols]


def rand_density(seed, d, rank=None, real=False):
    g = rng(seed)
    rank = d if rank is None else rank
    a = g.normal(size=(d, rank))
    if not real:
        a = a + 1j * g.normal(size=(d, rank))
    rho = a @ a.conj().T
    rho = (rho + rho.conj().T) / 2
    return rho / np.trace(rho).real


def rand_ket(seed, d, real=False):
    g = rng(seed)
    v = g.normal(size=d)
    if not real:
        v = v + 1j * g.normal(size=d)
    return v / np.linalg.norm(v)


def rand_probs(seed, n, floor=0.02):
    g = rng(seed)
    p = g.dirichlet(np.ones(n)) * (1 - n * floor) + floor
    return p / p.sum()


def exact_probs(counts):
    """Probabilities k_i / 2^m from integer counts summing to a power of two: exact in floating point."""
    tot = sum(counts)
    return [c / tot for c in counts]


@st.composite
def dyadic_probs(draw, n, m=6, allow_zero=True):
    """Integer counts summing to 2^m (stars and bars by cuts) -> exactly normalised probabilities."""
    tot = 2**m
    lo = 0 if allow_zero else 1
    if n == 1:
        return [tot]
    cuts = sorted(draw(st.lists(st.integers(0, tot - lo * n), min_size=n - 1, max_size=n - 1)))
    parts = [cuts[0]] + [cuts[i] - cuts[i - 1] for i in range(1, n - 1)] + [tot - lo * n - cuts[-1]]
    return [p + lo for p in parts]


def cplx_list(m):
    """numpy array -> nested list with complex numbers as [re, im] (JSON-friendly)."""
    m = np.asarray(m)
    if np.iscomplexobj(m):
        return np.stack([m.real, m.imag], axis=-1).tolist()
    return m.tolist()


def from_cplx_list(lst, cplx):
    a = np.array(lst)
    if cplx:
        return a[..., 0] + 1j * a[..., 1]
    return a
