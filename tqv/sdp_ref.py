"""Harness-side semidefinite programs (cvxpy + CLARABEL) with *certificates verified in numpy*.

Nothing here trusts a solver's reported optimum: a primal solution is projected to exact feasibility and
re-evaluated (an achieved value), a dual solution is shifted to exact feasibility (a proven bound).
"""

from __future__ import annotations

import numpy as np

from tqv.core import Inconclusive
from tqv.ref import lam_max, lam_min, psd_sqrt


def _herm(m):
    m = np.asarray(m, dtype=complex)
    return (m + m.conj().T) / 2


def _psd_part(m):
    w, v = np.linalg.eigh(_herm(m))
    return (v * np.clip(w, 0, None)) @ v.conj().T


def project_povm(ms):
    """Make a list of nearly-PSD operators summing to nearly I an exact POVM: M_i <- S^{-1/2} M_i^+ S^{-1/2}."""
    ms = [_psd_part(m) for m in ms]
    s = sum(ms)
    w, v = np.linalg.eigh(_herm(s))
    if w[0] < 1e-9:
        # S singular: add the missing part to the first element
        ms[0] = ms[0] + (v[:, w < 1e-9] @ v[:, w < 1e-9].conj().T)
        s = sum(ms)
        w, v = np.linalg.eigh(_herm(s))
    isq = (v / np.sqrt(w)) @ v.conj().T
    return [_herm(isq @ m @ isq) for m in ms]


def cvx_pt(x, dims, sysn):
    """Partial transpose of a bipartite cvxpy expression (block form; independent of toqito)."""
    import cvxpy

    da, db = int(dims[0]), int(dims[1])

    def blk(i, j):
        return x[i * db : (i + 1) * db, j * db : (j + 1) * db]

    if sysn == 1:
        return cvxpy.bmat([[blk(i, j).T for j in range(da)] for i in range(da)])
    return cvxpy.bmat([[blk(j, i) for j in range(da)] for i in range(da)])


def _solve(problem):
    import cvxpy

    try:
        problem.solve(solver=cvxpy.CLARABEL, max_threads=1)  # single thread: forked shards must not wait on a thread pool they did not inherit
    except Exception:  # noqa: BLE001
        try:
            problem.solve(solver=cvxpy.SCS, eps=1e-9, max_iters=20000)
        except Exception as e:  # noqa: BLE001
            raise Inconclusive("oracle_solver_failed") from e
    if problem.status not in ("optimal", "optimal_inaccurate"):
        raise Inconclusive(f"oracle_status_{problem.status}")


def weighted_povm_interval(ops, maximize=True, ppt=None):
    """Certified interval [lb, ub] for  opt_{POVM M} sum_i Tr(A_i M_i)  with A_i = ``ops[i]`` Hermitian.

    maximize=True: discrimination (A_i = p_i rho_i);  maximize=False: exclusion.
    ``ppt`` = (dims, sys) additionally requires every M_i to have positive partial transpose on subsystem ``sys``.
    Returns (lb, ub, povm) where ``povm`` is exactly feasible and attains the inner bound.
    """
    import cvxpy

    from tqv.ref import partial_transpose as pt

    n = len(ops)
    d = ops[0].shape[0]
    ops = [_herm(a) for a in ops]
    ms = [cvxpy.Variable((d, d), hermitian=True) for _ in range(n)]
    cons = [m >> 0 for m in ms] + [sum(ms) == np.eye(d)]
    if ppt is not None:
        dims, sysn = ppt
        cons += [cvx_pt(m, dims, sysn) >> 0 for m in ms]
    obj = sum(cvxpy.real(cvxpy.trace(a @ m)) for a, m in zip(ops, ms))
    prob = cvxpy.Problem(cvxpy.Maximize(obj) if maximize else cvxpy.Minimize(obj), cons)
    _solve(prob)
    povm = project_povm([m.value for m in ms])
    if ppt is not None:
        # mix with the (PPT) trivial measurement I/n until every element is PPT
        dims, sysn = ppt
        worst = min(lam_min(pt(m, [sysn], dims)) for m in povm)
        if worst < 0:
            t = min(1.0, -worst / (1.0 / n - worst) + 1e-12)
            povm = [(1 - t) * m + t * np.eye(d) / n for m in povm]
    inner = float(sum(np.real(np.trace(a @ m)) for a, m in zip(ops, povm)))
    # dual bound
    if ppt is None:
        y = cvxpy.Variable((d, d), hermitian=True)
        if maximize:
            dprob = cvxpy.Problem(cvxpy.Minimize(cvxpy.real(cvxpy.trace(y))), [y >> a for a in ops])
        else:
            dprob = cvxpy.Problem(cvxpy.Maximize(cvxpy.real(cvxpy.trace(y))), [y << a for a in ops])
        _solve(dprob)
        yv = _herm(y.value)
        if maximize:
            shift = max(0.0, max(lam_max(a - yv) for a in ops))
            outer = float(np.real(np.trace(yv + shift * np.eye(d))))
        else:
            shift = max(0.0, max(lam_max(yv - a) for a in ops))
            outer = float(np.real(np.trace(yv - shift * np.eye(d))))
    else:
        dims, sysn = ppt
        y = cvxpy.Variable((d, d), hermitian=True)
        qs = [cvxpy.Variable((d, d), hermitian=True) for _ in range(n)]
        cons = [q >> 0 for q in qs] + [y - a >> cvx_pt(q, dims, sysn) for a, q in zip(ops, qs)]
        dprob = cvxpy.Problem(cvxpy.Minimize(cvxpy.real(cvxpy.trace(y))), cons)
        _solve(dprob)
        yv = _herm(y.value)
        qv = [_psd_part(q.value) for q in qs]
        # Y' = Y + s I with s making  Y' - A_i - PT(Q_i) >= 0 for all i  (PT computed by the reference model)
        shift = max(0.0, max(-lam_min(yv - a - pt(q, [sysn], dims)) for a, q in zip(ops, qv)))
        outer = float(np.real(np.trace(yv + shift * np.eye(d))))
    if maximize:
        return inner, outer, povm
    return outer, inner, povm


def discrimination_interval(rhos, probs, ppt=None):
    lb, ub, povm = weighted_povm_interval([p * r for p, r in zip(probs, rhos)], True, ppt)
    return lb, ub, povm


def exclusion_interval(rhos, probs):
    lb, ub, povm = weighted_povm_interval([p * r for p, r in zip(probs, rhos)], False)
    return lb, ub, povm


def pgm(rhos, probs):
    """Pretty good measurement (reference): M_i = S^{-1/2} p_i rho_i S^{-1/2} on the support of S."""
    s = sum(p * r for p, r in zip(probs, rhos))
    w, v = np.linalg.eigh(_herm(s))
    keep = w > 1e-12
    isq = (v[:, keep] / np.sqrt(w[keep])) @ v[:, keep].conj().T
    return [isq @ (p * r) @ isq for p, r in zip(probs, rhos)]
