"""self-test of the machine adapter (not a property)"""
from hypothesis import strategies as st
from tqv.core import SubCheck, Violation
from tqv.machine import HistorySpec
PROPERTY="C99"; RULE="selftest"; ASSUMPTIONS=[]
class Model:
    def __init__(self,cfg): self.n=cfg["start"]; self.m=cfg["start"]
    def apply(self,op,args):
        if op=="inc": self.n+=args["k"]; self.m+=args["k"] if self.m<7 else 0
        else: self.n=self.m=0
    def invariant(self):
        if self.n!=self.m: raise Violation(f"{self.n}!={self.m}","mismatch")
spec=HistorySpec(init=st.fixed_dictionaries({"start":st.integers(0,3)}), ops={"inc":st.fixed_dictionaries({"k":st.integers(1,3)}),"reset":st.just({})}, model=Model, max_steps=10)
SUBCHECKS=[SubCheck("m", spec.replay, machine=spec, nontrivial=lambda c: "long" if len(c["steps"])>=3 else None, quick=200, thorough=200, shards=2)]
