"""Reference models written from the property statements (plain numpy, row-major, no toqito calls)."""

from __future__ import annotations

import itertools

import numpy as np


def prod(xs):
    p = 1
    for x in xs:
        p *= int(x)
    return p


def kron_all(mats):
    out = np.array([[1]])
    for m in mats:
        out = np.kron(out, m)
    return out


# ------------------------------------------------------------------ C01
def permute(x, perm, dr, dc=None, row_only=False):
    """Tensor-factor relabelling: output factor i is input factor perm[i].

    ``x`` 2-D of shape (prod dr, prod dc).  For vectors use :func:`permute_vec`.
    """
    perm = [int(p) for p in perm]
    dr = [int(d) for d in dr]
    dc = dr if dc is None else [int(d) for d in dc]
    n = len(dr)
    t = np.asarray(x).reshape(dr + dc)
    if row_only:
        axes = perm + [n + i for i in range(n)]
        return t.transpose(axes).reshape(prod(dr), prod(dc))
    axes = perm + [n + i for i in perm]
    return t.transpose(axes).reshape(prod(dr), prod(dc))


def permute_vec(v, perm, d):
    perm = [int(p) for p in perm]
    d = [int(k) for k in d]
    return np.asarray(v).reshape(d).transpose(perm).reshape(-1)


def inverse_perm(perm):
    inv = [0] * len(perm)
    for i, p in enumerate(perm):
        inv[int(p)] = i
    return inv


def perm_operator(d, perm):
    """The operator P with P (v_0 x ... x v_{n-1}) = v_{p[0]} x ... x v_{p[n-1]}."""
    n = prod(d)
    return permute(np.eye(n, dtype=np.int64), perm, d, d, row_only=True)


# ------------------------------------------------------------------ C02
def partial_trace(x, sys, d):
    d = [int(k) for k in d]
    n = len(d)
    sys = sorted(set(int(s) for s in sys))
    keep = [i for i in range(n) if i not in sys]
    t = np.asarray(x).reshape(d + d)
    letters = "abcdefghijklmnopqrstuvwxyzABCDEFGHIJKLMNOPQRSTUVWXYZ"
    row = list(letters[:n])
    col = list(letters[n : 2 * n])
    for s in sys:
        col[s] = row[s]
    out = [row[i] for i in keep] + [col[i] for i in keep]
    expr = "".join(row) + "".join(col) + "->" + "".join(out)
    r = np.einsum(expr, t)
    k = prod(d[i] for i in keep)
    return r.reshape(k, k)


# ------------------------------------------------------------------ C03
def partial_transpose(x, sys, dr, dc=None):
    dr = [int(k) for k in dr]
    dc = dr if dc is None else [int(k) for k in dc]
    n = len(dr)
    t = np.asarray(x).reshape(dr + dc)
    axes = list(range(2 * n))
    for s in set(int(s) for s in sys):
        axes[s], axes[n + s] = axes[n + s], axes[s]
    t = t.transpose(axes)
    rows = prod(t.shape[:n])
    cols = prod(t.shape[n:])
    return t.reshape(rows, cols)


def realignment(x, dr, dc):
    """R[(i,j),(k,l)] = X[(i,k),(j,l)] with X on rows (i,k), cols (j,l); sends A(x)B to vec_r(A) vec_r(B)^T."""
    a, b = int(dr[0]), int(dr[1])
    c, d = int(dc[0]), int(dc[1])
    t = np.asarray(x).reshape(a, b, c, d)  # row (i,k) col (j,l):  i<a, k<b, j<c, l<d
    return t.transpose(0, 2, 1, 3).reshape(a * c, b * d)


# ------------------------------------------------------------------ channels (C04-C06)
def apply_pairs(pairs, x):
    """Phi(X) = sum_i A_i X B_i^dagger."""
    return sum(a @ x @ b.conj().T for a, b in pairs)


def choi_of_pairs(pairs, d_in_r, d_in_c=None):
    """J = sum_ij E_ij (x) Phi(E_ij)  (input system first)."""
    d_in_c = d_in_r if d_in_c is None else d_in_c
    a0, b0 = pairs[0]
    ro, co = a0.shape[0], b0.shape[0]
    j = np.zeros((d_in_r * ro, d_in_c * co), dtype=complex)
    for i in range(d_in_r):
        for k in range(d_in_c):
            e = np.zeros((d_in_r, d_in_c))
            e[i, k] = 1
            j[i * ro : (i + 1) * ro, k * co : (k + 1) * co] = apply_pairs(pairs, e)
    return j


def apply_choi(j, x, d_in, d_out):
    """Phi(X)[a,b] = sum_{ik} X[i,k] J[(i,a),(k,b)]."""
    t = np.asarray(j).reshape(d_in, d_out, d_in, d_out)
    return np.einsum("ik,iakb->ab", x, t)


def vec_r(x):
    return np.asarray(x).reshape(-1)


# ------------------------------------------------------------------ misc linear algebra
def psd_sqrt(m):
    w, v = np.linalg.eigh((m + m.conj().T) / 2)
    w = np.clip(w, 0, None)
    return (v * np.sqrt(w)) @ v.conj().T


def fidelity(rho, sigma):
    """F = || sqrt(rho) sqrt(sigma) ||_1."""
    s = psd_sqrt(rho) @ psd_sqrt(sigma)
    return float(np.sum(np.linalg.svd(s, compute_uv=False)))


def trace_norm(m):
    return float(np.sum(np.linalg.svd(m, compute_uv=False)))


def lam_min(m):
    return float(np.linalg.eigvalsh((m + m.conj().T) / 2)[0])


def lam_max(m):
    return float(np.linalg.eigvalsh((m + m.conj().T) / 2)[-1])


def is_psd(m, tol=1e-8):
    return np.allclose(m, m.conj().T, atol=tol) and lam_min(m) >= -tol


def all_functions(n_out, n_in):
    return itertools.product(range(n_out), repeat=n_in)
