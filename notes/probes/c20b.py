import numpy as np, time, warnings, cvxpy
warnings.filterwarnings('ignore')
from toqito.channel_metrics import channel_fidelity
from toqito.channel_ops import kraus_to_choi
from toqito.channels import partial_trace
from toqito.rand import random_unitary
def hull_dist(ev):
    ang=np.sort(np.angle(ev)); gaps=np.diff(np.concatenate([ang,[ang[0]+2*np.pi]])); g=gaps.max()
    return 0.0 if g<=np.pi else np.cos((2*np.pi-g)/2)
def ref_cf(J1,J2,d):
    lam=cvxpy.Variable(); Q=cvxpy.Variable((d*d,d*d),complex=True)
    T=partial_trace(Q,[1],[d,d]); H=(T+T.H)/2
    cons=[cvxpy.bmat([[J1,Q.H],[Q,J2]])>>0, H - lam*np.eye(d) >> 0]
    p=cvxpy.Problem(cvxpy.Maximize(lam),cons); p.solve(solver='CLARABEL'); return p.value
rng=np.random.default_rng(0)
for t in range(4):
    d=2
    U=random_unitary(d,seed=int(rng.integers(1e6)));V=random_unitary(d,seed=int(rng.integers(1e6)))
    J1=kraus_to_choi([U]);J2=kraus_to_choi([V])
    print('unitary: toqito',round(float(channel_fidelity(J1,J2,1e-5)),5),'ref PSD-order',round(float(ref_cf(J1,J2,d)),5),'delta',round(hull_dist(np.linalg.eigvals(U.conj().T@V)),5))
