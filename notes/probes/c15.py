import numpy as np, warnings, time, collections
warnings.filterwarnings('ignore')
from toqito.state_props import is_separable, is_ppt, is_npt, has_symmetric_extension, in_separable_ball
rng=np.random.default_rng(7)
def rv(d,cp=True):
    v=rng.normal(size=d)+(1j*rng.normal(size=d) if cp else 0); return v/np.linalg.norm(v)
def sepstate(d1,d2,n,cp=True):
    p=rng.dirichlet(np.ones(n)); rho=0
    for i in range(n):
        a=rv(d1,cp);b=rv(d2,cp); v=np.kron(a,b); rho=rho+p[i]*np.outer(v,v.conj())
    return rho
cnt=collections.Counter()
for (d1,d2) in ((2,2),(2,3),(3,2),(2,4),(4,2),(3,3),(3,4),(4,4)):
    for n in (1,2,3,5,9,20):
        for rep in range(3):
            rho=sepstate(d1,d2,n,cp=bool(rep%2))
            t0=time.time()
            try: r=is_separable(rho,[d1,d2])
            except Exception as e: r=type(e).__name__+':'+str(e)[:50]
            cnt[((d1,d2),str(r))]+=1
            dt=time.time()-t0
            if dt>3: print('slow',d1,d2,n,dt)
for k,v in sorted(cnt.items(),key=str): print(k,v)
