import ast, sys
for path in sys.argv[1:]:
    src = open(path).read()
    tree = ast.parse(src)
    lines = src.splitlines()
    kill = set()
    for node in ast.walk(tree):
        if isinstance(node, (ast.FunctionDef, ast.ClassDef, ast.Module, ast.AsyncFunctionDef)):
            b = node.body
            if b and isinstance(b[0], ast.Expr) and isinstance(b[0].value, ast.Constant) and isinstance(b[0].value.value, str):
                d = b[0]
                # keep first line and :param/:raises lines
                txt = lines[d.lineno-1:d.end_lineno]
                for i in range(d.lineno+1, d.end_lineno+1):
                    l = lines[i-1].strip()
                    if not (l.startswith(':param') or l.startswith(':raises') or l.startswith(':return')):
                        kill.add(i)
    print('#'*10, path)
    for i,l in enumerate(lines,1):
        if i not in kill:
            print(f"{i:4d} {l}")
