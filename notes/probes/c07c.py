import numpy as np, itertools, time, warnings
warnings.filterwarnings('ignore')
from scipy.optimize import linprog
from toqito.nonlocal_games.nonlocal_game import NonlocalGame
rng=np.random.default_rng(2)
def ns_lp(prob,pred):
    A,B,X,Y=pred.shape
    idx=lambda a,b,x,y: ((a*B+b)*X+x)*Y+y
    n=A*B*X*Y
    c=np.zeros(n)
    for a,b,x,y in itertools.product(range(A),range(B),range(X),range(Y)): c[idx(a,b,x,y)]=-prob[x,y]*pred[a,b,x,y]
    Aeq=[];beq=[]
    for x,y in itertools.product(range(X),range(Y)):
        r=np.zeros(n)
        for a,b in itertools.product(range(A),range(B)): r[idx(a,b,x,y)]=1
        Aeq.append(r);beq.append(1)
    # Alice marginal independent of y
    for a,x in itertools.product(range(A),range(X)):
        for y in range(1,Y):
            r=np.zeros(n)
            for b in range(B): r[idx(a,b,x,y)]+=1; r[idx(a,b,x,0)]-=1
            Aeq.append(r);beq.append(0)
    for b,y in itertools.product(range(B),range(Y)):
        for x in range(1,X):
            r=np.zeros(n)
            for a in range(A): r[idx(a,b,x,y)]+=1; r[idx(a,b,0,y)]-=1
            Aeq.append(r);beq.append(0)
    res=linprog(c,A_eq=np.array(Aeq),b_eq=np.array(beq),bounds=(0,1),method='highs')
    return -res.fun
def chsh_like(X,Y,rng):
    f=rng.integers(0,2,size=(X,Y)); prob=np.ones((X,Y))/(X*Y)
    pred=np.zeros((2,2,X,Y))
    for a,b,x,y in itertools.product(range(2),range(2),range(X),range(Y)): pred[a,b,x,y]=float((a^b)==f[x,y])
    return prob,pred
def relabel_pad(prob,pred,rng,padA,padB):
    A,B,X,Y=pred.shape
    new=np.zeros((A+padA,B+padB,X,Y))
    for x in range(X):
        pa=rng.permutation(A+padA)
        for y in range(Y):
            pb=np.random.default_rng(1000+y).permutation(B+padB)
            for a in range(A):
                for b in range(B): new[pa[a],pb[b],x,y]=pred[a,b,x,y]
    return prob,new
maxdiff=0
for t in range(10):
    X,Y=int(rng.integers(2,4)),int(rng.integers(2,4))
    prob,pred=chsh_like(X,Y,rng)
    g0=NonlocalGame(prob,pred)
    p2,pr2=relabel_pad(prob,pred,rng,int(rng.integers(0,2)),int(rng.integers(0,2)))
    g=NonlocalGame(p2,pr2)
    t0=time.time()
    vals=dict(cl0=g0.classical_value(),cl=g.classical_value(),npa0=g0.commuting_measurement_value_upper_bound(1),npa=g.commuting_measurement_value_upper_bound(1),ns_t=g.nonsignaling_value(),ns_lp=ns_lp(p2,pr2),ns_lp0=ns_lp(prob,pred),qlb=g.quantum_value_lower_bound(dim=2,iters=2))
    print(pr2.shape,{k:round(float(v),5) for k,v in vals.items()},round(time.time()-t0,1))
