import numpy as np, warnings, signal, collections
warnings.filterwarnings('ignore')
from toqito.state_opt import ppt_distinguishability, symmetric_extension_hierarchy, state_distinguishability
from toqito.states import bell
class TO(Exception): pass
def h(s,f): raise TO()
signal.signal(signal.SIGALRM,h)
rng=np.random.default_rng(12)
def unit(n): return np.linalg.qr(rng.normal(size=(n,n))+1j*rng.normal(size=(n,n)))[0]
def rdm(d,r,cp):
    G=rng.normal(size=(d,r))+(1j*rng.normal(size=(d,r)) if cp else 0); R=G@G.conj().T; return R/np.trace(R).real
cnt=collections.Counter()
for t in range(24):
    dims=[2,2] if t%3 else [2,3]; d=dims[0]*dims[1]; k=int(rng.integers(2,5)); cp=bool(t%2)
    sts=[rdm(d,int(rng.integers(1,d+1)),cp) for _ in range(k)]; p=list(rng.dirichlet(np.ones(k)*2))
    vals={}
    for name,fn in (('P0',lambda: ppt_distinguishability(sts,[0],dims,p,primal_dual='primal')),('D0',lambda: ppt_distinguishability(sts,[0],dims,p,primal_dual='dual')),('D1',lambda: ppt_distinguishability(sts,[1],dims,p,primal_dual='dual')),('glob',lambda: state_distinguishability(sts,p))):
        signal.alarm(20)
        try: v,M=fn(); vals[name]=v; 
        except TO: cnt[name,'timeout']+=1; continue
        except Exception as e: cnt[name,type(e).__name__]+=1; continue
        finally: signal.alarm(0)
        if name in('P0','D0'):
            Ms=[np.array(m.value if hasattr(m,'value') else m,dtype=complex) for m in M]
            att=sum(p[i]*np.trace(sts[i]@Ms[i]).real for i in range(k)); attT=sum(p[i]*np.trace(sts[i]@Ms[i].T).real for i in range(k))
            cnt[name,'attain' if abs(att-v)<1e-5 else ('attainT' if abs(attT-v)<1e-5 else 'noattain'),cp]+=1
    # local unitary invariance
    U=np.kron(unit(dims[0]),unit(dims[1])); 
    try:
        signal.alarm(20); v2=ppt_distinguishability([U@s@U.conj().T for s in sts],[0],dims,p)[0]; signal.alarm(0)
        cnt['LUinv',abs(v2-vals.get('D0',np.nan))<1e-5]+=1
    except Exception as e: cnt['LU',type(e).__name__]+=1
    finally: signal.alarm(0)
    # product measurement lower bound: computational basis measurement grouped arbitrarily
    if 'D0' in vals:
        labels=rng.integers(0,k,size=d); 
        prodval=sum(p[i]*sum(sts[i][j,j].real for j in range(d) if labels[j]==i) for i in range(k))
        cnt['prod<=ppt',prodval<=vals['D0']+1e-6]+=1
        cnt['ppt<=glob',vals['D0']<=vals.get('glob',9)+1e-6]+=1
        if 'D1' in vals: cnt['party',abs(vals['D0']-vals['D1'])<1e-5]+=1
        if 'P0' in vals: cnt['P=D',abs(vals['D0']-vals['P0'])<1e-5]+=1
for k,v in sorted(cnt.items(),key=str): print(k,v)
bs=[bell(i) for i in range(4)]
print('bell ppt',ppt_distinguishability(bs,[0],[2,2],[.25]*4)[0]); 
kets=[b.copy() for b in bs]; ids=[id(x) for x in kets]; shapes=[x.shape for x in kets]
print('symext',symmetric_extension_hierarchy(kets,[.25]*4,1), [x.shape for x in kets], [id(x) for x in kets]==ids)
