import numpy as np, warnings
warnings.filterwarnings('ignore')
from toqito.rand import *
from toqito.measurements import pretty_good_measurement, pretty_bad_measurement
from toqito.measurement_props import is_povm
from toqito.measurement_ops import measure
from toqito.state_opt import state_distinguishability
gens={'unitary':lambda s: random_unitary(3,seed=s),'dm':lambda s: random_density_matrix(3,False,2,seed=s),'dm_bures':lambda s: random_density_matrix(3,True,None,'bures',seed=s),
 'psd':lambda s: random_psd_operator(3,seed=s),'sv':lambda s: random_state_vector([2,2],False,1,seed=s),'povm':lambda s: random_povm(2,2,3,seed=s),'onb':lambda s: np.array(random_orthonormal_basis(3,seed=s)),
 'gin':lambda s: random_ginibre(2,3,seed=s),'states':lambda s: np.array(random_states(3,2,seed=s)),'circ':lambda s: random_circulant_gram_matrix(4,seed=s)}
for name,g in gens.items():
    a=g(7); np.random.seed(3); np.random.rand(5); st=np.random.get_state()[1].copy(); _=random_unitary(2); b=g(7); st2=np.random.get_state()[1]
    c=g(8)
    print(name, np.array_equal(a,b), not np.array_equal(a,c), np.array_equal(st,st2))
P=random_povm(3,2,4,seed=1); print('povm',all(is_povm([P[:,:,x,a] for a in range(4)]) for x in range(2)))
# PGM
rng=np.random.default_rng(0)
for t in range(5):
    d=3;k=4
    sts=[random_density_matrix(d,seed=int(rng.integers(1e6))) for _ in range(k)]; p=list(rng.dirichlet(np.ones(k)))
    pg=pretty_good_measurement(sts,p); pb=pretty_bad_measurement(sts,p)
    ppgm=sum(p[i]*np.trace(sts[i]@pg[i]).real for i in range(k)); popt=state_distinguishability(sts,p)[0]
    print(is_povm(pg),is_povm(pb), round(popt**2,4)<=round(ppgm,4)<=round(popt,4), round(ppgm,4),round(popt,4))
rho=random_density_matrix(3,seed=2); K=[random_unitary(3,seed=i)[:, :]*np.sqrt(1/3) for i in range(3)]
out=measure(rho,K,state_update=True); print(round(sum(o[0] for o in out),10), [np.isclose(np.trace(o[1]),1) for o in out])
