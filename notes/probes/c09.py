import numpy as np, itertools, time, warnings
warnings.filterwarnings('ignore')
from toqito.nonlocal_games.extended_nonlocal_game import ExtendedNonlocalGame
rng=np.random.default_rng(1)
def rpsd(d,cplx):
    G=rng.normal(size=(d,d))+(1j*rng.normal(size=(d,d)) if cplx else 0)
    P=G@G.conj().T; return P/np.linalg.eigvalsh(P)[-1]*rng.random()
def brute(prob,pred):
    d,_,A,B,X,Y=pred.shape; best=-1
    for f in itertools.product(range(A),repeat=X):
        for g in itertools.product(range(B),repeat=Y):
            M=sum(prob[x,y]*pred[:,:,f[x],g[y],x,y] for x in range(X) for y in range(Y))
            best=max(best,np.linalg.eigvalsh(M)[-1])
    return best
for t in range(8):
    d=int(rng.integers(1,4)); A,B,X,Y=[int(v) for v in rng.integers(2,4,size=4)]
    if t<4: B=A
    cp=bool(t%2)
    prob=rng.random((X,Y)); prob/=prob.sum()
    pred=np.zeros((d,d,A,B,X,Y),dtype=complex if cp else float)
    for a,b,x,y in itertools.product(range(A),range(B),range(X),range(Y)): pred[:,:,a,b,x,y]=rpsd(d,cp)
    g=ExtendedNonlocalGame(prob,pred)
    res={}
    for name,fn in (('brute',lambda: brute(prob,pred)),('unent',g.unentangled_value),('qlb',lambda: g.quantum_value_lower_bound(iters=1)),('npa1',lambda: g.commuting_measurement_value_upper_bound(1)),('ns',g.nonsignaling_value)):
        t0=time.time()
        try: v=round(float(fn()),5)
        except Exception as e: v=type(e).__name__+':'+str(e)[:50]
        res[name]=(v,round(time.time()-t0,2))
    print((d,A,B,X,Y),cp,res)
