import numpy as np
from toqito.channel_ops import apply_channel, kraus_to_choi, dual_channel, complementary_channel
rng=np.random.default_rng(3)
def cplx(*s): return rng.normal(size=s)+1j*rng.normal(size=s)
hs=lambda A,B: np.trace(A.conj().T@B)
for t in range(300):
    din,dout,r,din2,dout2=[int(x) for x in rng.integers(1,5,size=5)]
    cp=bool(rng.integers(2))
    As=[cplx(dout,din) for _ in range(r)]
    if cp: Bs=As; din2,dout2=din,dout
    else: Bs=[cplx(dout2,din2) for _ in range(r)]
    if din*din2<2 or dout*dout2<2 or min(din,din2,dout,dout2)<1: continue
    X=cplx(din,din2); Y=cplx(dout,dout2)
    f=As if cp else [[a,b] for a,b in zip(As,Bs)]
    J=kraus_to_choi(f)
    for name,rep,kw in (('kraus',f,{}),('choi',J,{'dims':[[din,dout],[din2,dout2]]})):
        try:
            if min(J.shape)==1 and name=='choi': continue
            D=dual_channel(rep,**kw)
            lhs=hs(Y,apply_channel(X,rep)); rhs=hs(apply_channel(Y,D),X)
            if not np.isclose(lhs,rhs): print('BADDUAL',name,cp,din,dout,din2,dout2)
        except Exception as e: print('EXC',name,cp,din,dout,din2,dout2,repr(e))
# complementary
from scipy.stats import unitary_group
for t in range(100):
    d=int(rng.integers(1,5)); r=int(rng.integers(1,5))
    G=cplx(d*r,d); Q,_=np.linalg.qr(G)  # isometry d*r x d
    Ks=[Q[i*d:(i+1)*d,:] for i in range(r)]
    try:
        C=complementary_channel(Ks)
    except Exception as e: print('EXCC',d,r,repr(e)); continue
    rho=cplx(d,d)
    out=apply_channel(rho,C)
    exp=np.array([[np.trace(Ks[i]@rho@Ks[j].conj().T) for j in range(r)] for i in range(r)])
    if out.shape!=exp.shape or not np.allclose(out,exp): print('BADCOMP',d,r,out.shape,exp.shape)
print('done')
