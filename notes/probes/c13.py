import numpy as np, warnings
warnings.filterwarnings('ignore')
from toqito.state_metrics import *
import scipy.linalg as sl
rng=np.random.default_rng(5)
def rdm(d,r,cp=True):
    G=rng.normal(size=(d,r))+(1j*rng.normal(size=(d,r)) if cp else 0); R=G@G.conj().T; return R/np.trace(R).real
def F(r,s):
    w=np.linalg.eigvalsh
    sr=sl.sqrtm(r); return np.sum(np.sqrt(np.clip(np.linalg.eigvalsh((sr@s@sr+ (sr@s@sr).conj().T)/2),0,None)))
for t in range(6):
    d=int(rng.integers(2,5)); r=rdm(d,int(rng.integers(1,d+1))); s=rdm(d,int(rng.integers(1,d+1)))
    D=r-s; ev=np.linalg.eigvalsh(D)
    print(d,'TD',round(trace_distance(r,s),6),round(np.abs(ev).sum()/2,6),'HS',round(hilbert_schmidt(r,s),6),round((ev**2).sum(),6),round(max(abs(ev))**2,6),'HH',round(helstrom_holevo(r,s),6),round(.5+.25*np.abs(ev).sum(),6),'F',round(fidelity(r,s),6),round(F(r,s),6),'sub',round(sub_fidelity(r,s),6),'mats',round(matsumoto_fidelity(r,s),6))
p=rdm(3,1); print('same pure',fidelity(p,p),sub_fidelity(p,p),trace_distance(p,p),bures_distance(p,p),bures_angle(p,p))
p=rdm(3,1,False); print('same pure real',fidelity(p,p),sub_fidelity(p,p),matsumoto_fidelity(rdm(3,3),rdm(3,3)))
m=rdm(3,3); print('same mixed',fidelity(m,m),sub_fidelity(m,m),matsumoto_fidelity(m,m))
