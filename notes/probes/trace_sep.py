import sys, numpy as np, warnings, linecache, collections
warnings.filterwarnings('ignore')
from toqito.state_props import is_separable
mod=sys.modules['toqito.state_props.is_separable']
fn=mod.is_separable.__code__
last={}
def tracer(frame, event, arg):
    if frame.f_code is fn:
        def local(frame,event,arg):
            if event=='return': last['line']=frame.f_lineno; last['val']=arg
            if event=='exception': last['exc']=(frame.f_lineno,arg[0].__name__)
            return local
        return local
    return None
rng=np.random.default_rng(7)
def rv(d,cp=True):
    v=rng.normal(size=d)+(1j*rng.normal(size=d) if cp else 0); return v/np.linalg.norm(v)
def sepstate(d1,d2,n,cp=True):
    p=rng.dirichlet(np.ones(n)); rho=0
    for i in range(n):
        v=np.kron(rv(d1,cp),rv(d2,cp)); rho=rho+p[i]*np.outer(v,v.conj())
    return rho
cnt=collections.Counter()
src=open(mod.__file__).read().splitlines()
for (d1,d2) in ((3,3),(2,4),(3,4),(4,4)):
    for n in (1,2,3,5,20):
        rho=sepstate(d1,d2,n)
        last.clear(); sys.settrace(tracer)
        try: r=is_separable(rho,[d1,d2])
        except Exception as e: r='EXC '+type(e).__name__
        sys.settrace(None)
        ln=last.get('line'); 
        cnt[((d1,d2),str(r),ln,src[ln-1].strip()[:70] if ln else None)]+=1
for k,v in sorted(cnt.items(),key=str): print(k,v)
