import numpy as np, itertools, warnings, time
warnings.filterwarnings('ignore')
from toqito.nonlocal_games.extended_nonlocal_game import ExtendedNonlocalGame
from toqito.states import basis
rng=np.random.default_rng(3)
def bb84():
    e0,e1=basis(2,0),basis(2,1); ep=(e0+e1)/np.sqrt(2); em=(e0-e1)/np.sqrt(2)
    pred=np.zeros((2,2,2,2,2,2)); 
    pred[:,:,0,0,0,0]=e0@e0.T; pred[:,:,1,1,0,0]=e1@e1.T; pred[:,:,0,0,1,1]=ep@ep.T; pred[:,:,1,1,1,1]=em@em.T
    prob=np.array([[.5,0],[0,.5]]); return prob,pred
def transform(prob,pred,rng,padA=0,padB=0):
    r,_,A,B,X,Y=pred.shape
    U=np.linalg.qr(rng.normal(size=(r,r))+1j*rng.normal(size=(r,r)))[0]
    new=np.zeros((r,r,A+padA,B+padB,X,Y),dtype=complex)
    pas=[rng.permutation(A+padA) for _ in range(X)]; pbs=[rng.permutation(B+padB) for _ in range(Y)]
    for x,y,a,b in itertools.product(range(X),range(Y),range(A),range(B)):
        new[:,:,pas[x][a],pbs[y][b],x,y]=U@pred[:,:,a,b,x,y]@U.conj().T
    qx=rng.permutation(X); qy=rng.permutation(Y)
    new=new[:,:,:,:,qx,:][:,:,:,:,:,qy]; prob2=prob[qx,:][:,qy]
    return prob2,new
prob,pred=bb84()
for t in range(4):
    p2,pr2=transform(prob,pred,rng,padA=t%2,padB=(t//2)%2)
    g=ExtendedNonlocalGame(p2,pr2)
    t0=time.time()
    vals=dict(unent=g.unentangled_value(),npa=g.commuting_measurement_value_upper_bound(1),ns=g.nonsignaling_value())
    try: vals['qlb']=g.quantum_value_lower_bound(iters=1)
    except Exception as e: vals['qlb']=np.nan
    print(pr2.shape[2:],{k:round(float(v),5) for k,v in vals.items()},'expected',round(np.cos(np.pi/8)**2,5),round(time.time()-t0,1))
