import numpy as np, itertools, math
from toqito.perms import *
for d in (2,3):
    for p in (2,3,4):
        if d**p>256: continue
        A=antisymmetric_projection(d,p); S=symmetric_projection(d,p)
        evA=np.round(np.linalg.eigvalsh((A+A.T)/2),6); evS=np.round(np.linalg.eigvalsh(S),6)
        print(d,p,'anti eig set',sorted(set(evA)),'rank',np.linalg.matrix_rank(A),math.comb(d,p),'idemp',np.allclose(A@A,A),'| sym rank',np.linalg.matrix_rank(S),math.comb(d+p-1,p),np.allclose(S@S,S), 'orth',np.allclose(A@S,0))
        Ap=antisymmetric_projection(d,p,True); Sp=symmetric_projection(d,p,True)
        print('   partial shapes',np.shape(Ap),np.shape(Sp))
print(perm_sign([1,2,3]),perm_sign([2,1,3]),perm_sign([0,1,2]),perm_sign([1,0,2]))
print(list(unique_perms([1,1,2])), len(list(unique_perms([1,2,2,3,3,3]))), math.factorial(6)//(2*6))
for n in (2,4,6,8): 
    m=perfect_matchings(n); print(n,np.shape(m))
