import numpy as np, itertools
from toqito.nonlocal_games.nonlocal_game import NonlocalGame
rng=np.random.default_rng(0)
def brute(prob,pred):
    A,B,X,Y=pred.shape
    best=-1
    for f in itertools.product(range(A),repeat=X):
        for g in itertools.product(range(B),repeat=Y):
            v=sum(prob[x,y]*pred[f[x],g[y],x,y] for x in range(X) for y in range(Y))
            best=max(best,v)
    return best
bad=0
for t in range(300):
    A,B,X,Y=[int(v) for v in rng.integers(1,4,size=4)]
    prob=rng.random((X,Y)); prob/=prob.sum()
    pred=(rng.random((A,B,X,Y))<0.5).astype(float) if rng.integers(2) else rng.random((A,B,X,Y))
    g=NonlocalGame(prob,pred)
    p0=pred.copy()
    cv=g.classical_value(); bv=brute(prob,pred)
    if not np.array_equal(p0,g.pred_mat): print('MUTATED')
    if abs(cv-bv)>1e-9:
        bad+=1
        if bad<10: print('BAD',(A,B,X,Y),cv,bv)
print('bad',bad)
