import numpy as np, itertools, time, warnings
warnings.filterwarnings('ignore')
from toqito.nonlocal_games.nonlocal_game import NonlocalGame
rng=np.random.default_rng(1)
def brute(prob,pred):
    A,B,X,Y=pred.shape
    best=-1
    for f in itertools.product(range(A),repeat=X):
        for g in itertools.product(range(B),repeat=Y):
            v=sum(prob[x,y]*pred[f[x],g[y],x,y] for x in range(X) for y in range(Y))
            best=max(best,v)
    return best
for t in range(8):
    A,B,X,Y=[int(v) for v in rng.integers(2,4,size=4)]
    prob=rng.random((X,Y)); prob/=prob.sum()
    pred=(rng.random((A,B,X,Y))<0.5).astype(float) if rng.integers(2) else rng.random((A,B,X,Y))
    g=NonlocalGame(prob,pred)
    res={}
    for name,fn in (('cl',lambda: brute(prob,pred)),('qlb',lambda: g.quantum_value_lower_bound(dim=2,iters=2)),('npa1',lambda: g.commuting_measurement_value_upper_bound(1)),('npa1ab',lambda: g.commuting_measurement_value_upper_bound('1+ab')),('npa2',lambda: g.commuting_measurement_value_upper_bound(2)),('ns',lambda: g.nonsignaling_value())):
        t0=time.time()
        try: v=fn()
        except Exception as e: v=repr(e)[:60]
        res[name]=(v,round(time.time()-t0,2))
    print((A,B,X,Y),res)
