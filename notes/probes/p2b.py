import numpy as np, warnings, collections, signal, time, faulthandler, sys
warnings.filterwarnings('ignore')
from toqito.state_opt import state_distinguishability, state_exclusion
class TO(Exception): pass
def h(s,f): raise TO()
signal.signal(signal.SIGALRM,h)
rng=np.random.default_rng(21)
def rdm(d,r,cp):
    G=rng.normal(size=(d,r))+(1j*rng.normal(size=(d,r)) if cp else 0); R=G@G.conj().T; return R/np.trace(R).real
def tonp(m):
    v=m.value if hasattr(m,'value') else m
    return np.array(v,dtype=complex)
cnt=collections.Counter(); worst=collections.defaultdict(float)
for t in range(60):
    d=int(rng.integers(2,5)); k=int(rng.integers(2,5)); cp=bool(t%2)
    ranks=[int(rng.integers(1,d+1)) for _ in range(k)]
    sts=[rdm(d,r,cp) for r in ranks]; p=rng.dirichlet(np.ones(k)*2)
    for fn,name in ((state_distinguishability,'dist'),(state_exclusion,'excl')):
        for pd in ('primal','dual'):
            if name=='excl' and pd=='primal' and cp: continue
            signal.alarm(10); t0=time.time()
            try: v,M=fn(sts,list(p),primal_dual=pd)
            except TO: cnt[name,pd,'TIMEOUT']+=1; print('TIMEOUT',name,pd,d,k,cp,ranks); continue
            except Exception as e: cnt[name,pd,'solverfail']+=1; continue
            finally: signal.alarm(0)
            Ms=[tonp(m) for m in M]
            S=sum(Ms); 
            errsum=np.abs(S-np.eye(d)).max(); mineig=min(np.linalg.eigvalsh((m+m.conj().T)/2)[0] for m in Ms)
            att=sum(p[i]*np.trace(sts[i]@Ms[i]).real for i in range(k))
            worst[name,pd,'sum']=max(worst[name,pd,'sum'],errsum); worst[name,pd,'mineig']=min(worst[name,pd,'mineig'],mineig); worst[name,pd,'attain']=max(worst[name,pd,'attain'],abs(att-v))
            cnt[name,pd,'ok']+=1
print(dict(cnt)); 
for k,v in sorted(worst.items()): print(k,v)
