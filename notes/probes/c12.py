import numpy as np, time, warnings
warnings.filterwarnings('ignore')
from toqito.state_opt import ppt_distinguishability, symmetric_extension_hierarchy, state_distinguishability
rng=np.random.default_rng(5)
def rv(d,cp):
    v=rng.normal(size=(d,1))+(1j*rng.normal(size=(d,1)) if cp else 0); return v/np.linalg.norm(v)
for t in range(8):
    cp=t%2==1; dims=[2,2] if t<5 else [2,3]; d=dims[0]*dims[1]; k=int(rng.integers(2,5))
    vs=[rv(d,cp) for _ in range(k)]; p=list(rng.dirichlet(np.ones(k)*3))
    out={}
    for name,fn in (('glob',lambda: state_distinguishability(vs,p)[0]),
        ('pptP0',lambda: ppt_distinguishability(vs,[0],dims,p,primal_dual='primal')[0]),
        ('pptD0',lambda: ppt_distinguishability(vs,[0],dims,p,primal_dual='dual')[0]),
        ('pptD1',lambda: ppt_distinguishability(vs,[1],dims,p,primal_dual='dual')[0]),
        ('sym1',lambda: symmetric_extension_hierarchy([v.copy() for v in vs],p,1,dims[0])),
        ('sym2',lambda: symmetric_extension_hierarchy([v.copy() for v in vs],p,2,dims[0]))):
        t0=time.time()
        try: out[name]=(round(float(fn()),5),round(time.time()-t0,2))
        except Exception as e: out[name]=type(e).__name__+str(e)[:40]
    print(dims,k,cp,out)
