import numpy as np, time, warnings
warnings.filterwarnings('ignore')
from toqito.nonlocal_games.quantum_hedging import QuantumHedging
from toqito.state_opt import optimal_clone
rng=np.random.default_rng(1)
for t in range(8):
    n=1 if t<6 else 2
    cp=t%2==1
    d=4**n
    G=rng.normal(size=(d,2))+(1j*rng.normal(size=(d,2)) if cp else 0)
    Q=G@G.conj().T; Q/=np.linalg.eigvalsh(Q)[-1]
    h=QuantumHedging(Q,n)
    t0=time.time()
    r=[h.max_prob_outcome_a_primal(),h.max_prob_outcome_a_dual(),h.min_prob_outcome_a_primal(),h.min_prob_outcome_a_dual()]
    print(n,cp,[round(float(x),5) for x in r],round(time.time()-t0,2))
# clone
for t in range(6):
    cp=t%2==1; n=1 if t<4 else 2
    k=int(rng.integers(2,5))
    sts=[]
    for _ in range(k):
        v=rng.normal(size=(2,1))+(1j*rng.normal(size=(2,1)) if cp else 0); sts.append(v/np.linalg.norm(v))
    p=rng.dirichlet(np.ones(k))
    t0=time.time()
    try:
        a=optimal_clone(sts,list(p),n,False); b=optimal_clone(sts,list(p),n,True)
        print('clone',n,cp,k,round(float(a),5),round(float(b),5),round(time.time()-t0,2))
    except Exception as e: print('clone EXC',n,cp,repr(e)[:100])
