import numpy as np, itertools, functools
from toqito.channels import partial_trace, partial_transpose, realignment
import cvxpy
rng=np.random.default_rng(1)
def ref_ptrace(X,S,dim):
    n=len(dim); T=X.reshape(list(dim)+list(dim))
    keep=[i for i in range(n) if i not in S]
    # einsum
    letters='abcdefghijkl'; L2='mnopqrstuvwx'
    row=[letters[i] for i in range(n)]; col=[L2[i] if i not in S else letters[i] for i in range(n)]
    out=''.join(row[i] for i in keep)+''.join(col[i] for i in keep)
    R=np.einsum(''.join(row)+''.join(col)+'->'+out,T)
    k=int(np.prod([dim[i] for i in keep])) if keep else 1
    return R.reshape(k,k)
cnt=0
for t in range(500):
    n=rng.integers(1,5); dim=[int(x) for x in rng.integers(1,4,size=n)]
    N=int(np.prod(dim))
    if N<2: continue
    X=rng.normal(size=(N,N))+1j*rng.normal(size=(N,N))
    k=rng.integers(1,n+1); S=[int(s) for s in rng.permutation(n)[:k]]
    try:
        out=partial_trace(X,S,dim)
    except Exception as e:
        print('EXC',dim,S,repr(e)); continue
    exp=ref_ptrace(X,S,dim)
    cnt+=1
    if out.shape!=exp.shape or not np.allclose(out,exp): print('BAD',dim,S,out.shape,exp.shape)
    if len(S)==1:
        try:
            o2=partial_trace(X,S[0],dim)
            if not np.allclose(o2,exp): print('BADINT',dim,S)
        except Exception as e: print('EXCINT',dim,S,repr(e))
print(cnt)
# integer dtype
X=np.arange(36).reshape(6,6); print(partial_trace(X,[0],[2,3]).dtype, np.array_equal(partial_trace(X,[0],[2,3]),ref_ptrace(X,[0],[2,3])))
# scalar dim
X=rng.normal(size=(6,6)); print(np.allclose(partial_trace(X,[1],2),ref_ptrace(X,[1],[2,3])), np.allclose(partial_trace(X,0,3),ref_ptrace(X,[0],[3,2])))
X=rng.normal(size=(9,9)); print(np.allclose(partial_trace(X),ref_ptrace(X,[1],[3,3])))
# cvxpy
X=rng.normal(size=(12,12))
V=cvxpy.Variable((12,12)); V.value=X
e=partial_trace(V,[2,0],[2,3,2]); print(type(e),e.shape,np.allclose(e.value,ref_ptrace(X,[0,2],[2,3,2])))
V=cvxpy.Variable((4,4),complex=True); X=rng.normal(size=(4,4))+1j*rng.normal(size=(4,4)); V.value=X
e=partial_trace(V,[0],[2,2]); print(np.allclose(e.value,ref_ptrace(X,[0],[2,2])))
V=cvxpy.Variable((4,4),hermitian=True); H=X+X.conj().T; V.value=H
e=partial_trace(V); print(np.allclose(e.value,ref_ptrace(H,[1],[2,2])))
