import numpy as np, itertools, time, warnings
warnings.filterwarnings('ignore')
from toqito.state_opt import bell_inequality_max
from scipy.optimize import minimize
rng=np.random.default_rng(1)
Z=np.diag([1.,-1]);Xp=np.array([[0,1.],[1,0]]);I2=np.eye(2)
def obs(t):  # ±1 observable
    return np.cos(t)*Z+np.sin(t)*Xp
def qmax(J,ac,bc,av,bv,m):
    # observable O with outcomes av[0],av[1]: A = av0*P0+av1*P1, P0=(I+O)/2
    def opsA(O,val): return val[0]*(I2+O)/2+val[1]*(I2-O)/2
    best=-1e9
    # deterministic choices: O=+I or -I ; or angle
    def bellop(As,Bs):
        B=np.zeros((4,4))
        for x in range(m):
            B+=ac[x]*np.kron(As[x],I2)
            for y in range(m): B+=J[x,y]*np.kron(As[x],Bs[y])
        for y in range(m): B+=bc[y]*np.kron(I2,Bs[y])
        return B
    for kinds in itertools.product(range(3),repeat=2*m):
        nfree=sum(1 for k in kinds if k==2)
        def build(th):
            it=iter(th); Os=[]
            for k in kinds:
                Os.append(I2 if k==0 else (-I2 if k==1 else obs(next(it))))
            As=[opsA(O,av) for O in Os[:m]]; Bs=[opsA(O,bv) for O in Os[m:]]
            return bellop(As,Bs)
        if nfree==0:
            best=max(best,np.linalg.eigvalsh(build([]))[-1]); continue
        for s in range(6):
            r=minimize(lambda th:-np.linalg.eigvalsh(build(th))[-1],rng.uniform(0,2*np.pi,nfree),method='Nelder-Mead',options={'xatol':1e-9,'fatol':1e-12,'maxiter':4000})
            best=max(best,-r.fun)
    return best
for t in range(12):
    m=2
    J=rng.integers(-2,3,size=(m,m)).astype(float) if t%2 else rng.normal(size=(m,m))
    marg=t%3!=0
    ac=rng.normal(size=m)*marg; bc=rng.normal(size=m)*marg
    av=np.array([1.,-1]) if t%4<2 else np.array([0.,1]); bv=av
    t0=time.time(); v=bell_inequality_max(J,ac,bc,av,bv); dt=time.time()-t0
    q=qmax(J,ac,bc,av,bv,m)
    print(m,marg,av,round(v,5),round(q,5),round(v-q,6),round(dt,2))
