import numpy as np, warnings
warnings.filterwarnings('ignore')
from toqito.state_opt import state_distinguishability, state_exclusion
rng=np.random.default_rng(5)
def rdm(d,r,cp):
    G=rng.normal(size=(d,r))+(1j*rng.normal(size=(d,r)) if cp else 0); R=G@G.conj().T; return R/np.trace(R).real
for t in range(8):
    d=3;k=3;cp=bool(t%2)
    sts=[rdm(d,d,cp) for _ in range(k)]; p=rng.dirichlet(np.ones(k)*2)
    for fn in (state_distinguishability,state_exclusion):
        v,M=fn(sts,list(p),primal_dual='dual')
        Ms=[np.array(m,dtype=complex) for m in M]
        att=sum(p[i]*np.trace(sts[i]@Ms[i]).real for i in range(k))
        attT=sum(p[i]*np.trace(sts[i]@Ms[i].T).real for i in range(k))
        print(fn.__name__,cp,round(v,6),round(att,6),round(attT,6), np.allclose(sum(Ms),np.eye(d),atol=1e-6), 'herm',np.allclose(Ms[0],Ms[0].conj().T,atol=1e-7), Ms[0].shape)
