import numpy as np, warnings
warnings.filterwarnings('ignore')
from toqito.state_props import *
from toqito.state_ops import schmidt_decomposition
rng=np.random.default_rng(5)
def rv(d): 
    v=rng.normal(size=d)+1j*rng.normal(size=d); return v/np.linalg.norm(v)
def state(d1,d2,r):
    # schmidt rank r
    U=np.linalg.qr(rng.normal(size=(d1,d1))+1j*rng.normal(size=(d1,d1)))[0]; V=np.linalg.qr(rng.normal(size=(d2,d2))+1j*rng.normal(size=(d2,d2)))[0]
    s=rng.random(r)+0.1; s/=np.linalg.norm(s)
    return sum(s[i]*np.kron(U[:,i],V[:,i]) for i in range(r)), np.sort(s)[::-1]
for (d1,d2) in ((2,2),(2,3),(3,2),(3,4),(4,2)):
    for r in range(1,min(d1,d2)+1):
        v,s=state(d1,d2,r); vc=v.reshape(-1,1); rho=np.outer(v,v.conj())
        res={}
        def tr(name,fn):
            try: res[name]=fn()
            except Exception as e: res[name]=type(e).__name__+':'+str(e)[:40]
        tr('sr_vec',lambda: schmidt_rank(vc,[d1,d2])); tr('sr_1d',lambda: schmidt_rank(v,[d1,d2]))
        tr('neg',lambda: round(float(negativity(rho,[d1,d2])),6)); tr('neg_v',lambda: round(float(negativity(vc,[d1,d2])),6))
        tr('lneg',lambda: round(float(log_negativity(rho,[d1,d2])),6))
        tr('eof',lambda: round(float(entanglement_of_formation(rho,[d1,d2])),6)); tr('eof_v',lambda: round(float(entanglement_of_formation(vc,[d1,d2])),6))
        tr('skv',lambda: [round(float(sk_vector_norm(vc,k,[d1,d2])),5) for k in range(1,min(d1,d2)+1)])
        def sd():
            sv,a,b=schmidt_decomposition(vc,[d1,d2]); rec=sum(sv[i,0]*np.kron(a[:,i],b[:,i]) for i in range(len(sv)))
            return (np.round(sv.ravel(),5).tolist(), bool(np.allclose(rec,v)), a.shape,b.shape)
        tr('sd',sd)
        tr('isprod',lambda: is_product(vc,[d1,d2])[0]); tr('isprod_rho',lambda: is_product(rho,[d1,d2])[0])
        exp=dict(neg=round(((s.sum())**2-1)/2,6),lneg=round(np.log2(s.sum()**2),6),eof=round(float(-(s**2*np.log2(s**2)).sum()),6),sk=[round(float(np.sqrt((s[:k]**2).sum())),5) for k in range(1,min(d1,d2)+1)])
        print((d1,d2,r),res,'EXP',exp)
