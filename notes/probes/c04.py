import numpy as np
from toqito.channel_ops import apply_channel, kraus_to_choi, choi_to_kraus, partial_channel, natural_representation, dual_channel, complementary_channel
rng=np.random.default_rng(2)
def cplx(*s): return rng.normal(size=s)+1j*rng.normal(size=s)
def ref_apply(X,As,Bs): return sum(A@X@B.conj().T for A,B in zip(As,Bs))
def ref_choi(As,Bs,din_r,din_c):
    # sum_ij E_ij (x) Phi(E_ij); E_ij is din_r x din_c
    out=0
    for i in range(din_r):
        for j in range(din_c):
            E=np.zeros((din_r,din_c));E[i,j]=1
            out=out+np.kron(E,ref_apply(E,As,Bs))
    return out
bad=0
for t in range(300):
    din,dout,r=[int(x) for x in rng.integers(1,5,size=3)]
    cp=bool(rng.integers(2))
    As=[cplx(dout,din) for _ in range(r)]
    if cp: Bs=As; din2,dout2=din,dout
    else:
        din2,dout2=[int(x) for x in rng.integers(1,5,size=2)]
        Bs=[cplx(dout2,din2) for _ in range(r)]
    X=cplx(din,din2)
    exp=ref_apply(X,As,Bs)
    forms={}
    if cp:
        forms['flat']=As; forms['nested']=[[a] for a in As]
        if r>2: forms['row']=[As]
    else:
        forms['pairs']=[[a,b] for a,b in zip(As,Bs)]
    J=ref_choi(As,Bs,din,din2)
    for name,f in forms.items():
        try:
            o=apply_channel(X,f)
            if not np.allclose(o,exp): print('BADAPPLY',name,din,dout,r,din2,dout2)
            Jt=kraus_to_choi(f)
            if Jt.shape!=J.shape or not np.allclose(Jt,J): print('BADCHOI',name,din,dout,r,din2,dout2,Jt.shape,J.shape)
        except Exception as e: print('EXC',name,din,dout,r,din2,dout2,repr(e))
    try:
        o=apply_channel(X,J)
        if not np.allclose(o,exp): print('BADAPPLYCHOI',cp,din,dout,r,din2,dout2)
    except Exception as e: print('EXCCHOI',cp,din,dout,r,din2,dout2,repr(e))
    try:
        K=choi_to_kraus(J,dim=[[din,dout],[din2,dout2]])
        o=apply_channel(X,K)
        if not np.allclose(o,exp,atol=1e-6): print('BADC2K',cp,din,dout,r,din2,dout2, np.abs(o-exp).max())
    except Exception as e: print('EXCC2K',cp,din,dout,r,din2,dout2,repr(e))
print('done')
