import numpy as np, warnings, collections
warnings.filterwarnings('ignore')
from toqito.state_opt import state_distinguishability, state_exclusion
rng=np.random.default_rng(21)
def rdm(d,r,cp):
    G=rng.normal(size=(d,r))+(1j*rng.normal(size=(d,r)) if cp else 0); R=G@G.conj().T; return R/np.trace(R).real
def tonp(m):
    v=m.value if hasattr(m,'value') else m
    return np.array(v,dtype=complex)
cnt=collections.Counter(); worst=collections.defaultdict(float)
for t in range(60):
    d=int(rng.integers(2,5)); k=int(rng.integers(2,5)); cp=bool(t%2)
    sts=[rdm(d,int(rng.integers(1,d+1)),cp) for _ in range(k)]; p=rng.dirichlet(np.ones(k)*2)
    for fn,name in ((state_distinguishability,'dist'),(state_exclusion,'excl')):
        for pd in ('primal','dual'):
            if name=='excl' and pd=='primal' and cp: continue
            try: v,M=fn(sts,list(p),primal_dual=pd)
            except Exception as e: cnt[name,pd,'solverfail']+=1; continue
            Ms=[tonp(m) for m in M]
            S=sum(Ms); 
            errsum=np.abs(S-np.eye(d)).max(); mineig=min(np.linalg.eigvalsh((m+m.conj().T)/2)[0] for m in Ms)
            att=sum(p[i]*np.trace(sts[i]@Ms[i]).real for i in range(k))
            worst[name,pd,'sum']=max(worst[name,pd,'sum'],errsum); worst[name,pd,'mineig']=min(worst[name,pd,'mineig'],mineig); worst[name,pd,'attain']=max(worst[name,pd,'attain'],abs(att-v))
            cnt[name,pd,'ok']+=1
print(dict(cnt)); 
for k,v in sorted(worst.items()): print(k,v)
